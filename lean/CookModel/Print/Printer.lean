import CookModel.Syntax.Parser
/-
  C01: abstract recipe pieces and their token-level printer.

  The printer emits token lists (`List Tok`); the characters of a spelling are the concatenated
  token texts (`render`, Lemmas/LexLaws.lean) and `C01_lex_render` reads a well-spelled list back
  token for token.  Positions are not the printer's business: a spelling fixes kinds and texts
  only (`Spells ts spec`), the positions of `ts` are whatever tiling the lexer gives (`Chain`).

  Blank material the syntax allows between pieces is an explicit argument (`…Pad` structures of
  token lists, each list made of whitespace tokens and block comments, `padOK`).  Text leaves
  (text values, units, names, aliases, notes) are given as their own token lists (`leafOK`):
  visible tokens ("atoms") and single ASCII spaces, never two spaces in a row, an atom at both
  ends; the intended string of a leaf is its rendering `leafText`.

  No Mathlib, no proofs here: the laws are in Lemmas/Roundtrip*.lean and Props/C01.lean.
-/
namespace Cook

/-- kind and text of a token: what a spelling determines -/
def Tok.kt (t : Tok) : TK × List Char := (t.kind, t.text)

/-- `ts` has the kinds and texts of `spec`, token for token (positions free) -/
def Spells (ts spec : List Tok) : Prop := ts.map Tok.kt = spec.map Tok.kt

instance (ts spec : List Tok) : Decidable (Spells ts spec) := by unfold Spells; infer_instance

/-- a token of the printer (the position is assigned by the tiling, not by the printer) -/
def tk (k : TK) (s : List Char) : Tok := ⟨k, s, 0⟩

/-! ### blank padding -/

/-- a token the printer may put where the syntax allows blank material inside a component: a
    whitespace token (all of whose characters `str::trim` removes) or a block comment.  Line
    comments are excluded: a newline would have to follow, and a newline is not blank. -/
def padTok (cs : CharSpec) (t : Tok) : Bool :=
  (t.kind == .ws && t.text.all cs.uws) || t.kind == .blockComment

def padOK (cs : CharSpec) (l : List Tok) : Bool := l.all (padTok cs)

/-! ### text leaves -/

/-- kinds whose text is shown unchanged by `BlockParser::text` and that are not blank -/
def plainKind (k : TK) : Bool :=
  !(k == .ws || k == .newline || k == .lineComment || k == .blockComment || k == .escaped)

/-- a visible token of a leaf: allowed kind, non-empty, no character that `trim` removes, no ASCII space -/
def isAtomTok (cs : CharSpec) (allowed : TK → Bool) (t : Tok) : Bool :=
  allowed t.kind && plainKind t.kind && !t.text.isEmpty && t.text.all (fun c => !cs.uws c && c != ' ')

/-- the single ASCII space between two words of a leaf -/
def isSpTok (t : Tok) : Bool := t.kind == .ws && t.text == [' ']

def noAdjSp : List Tok → Bool
  | t :: u :: rest => !(t.kind == .ws && u.kind == .ws) && noAdjSp (u :: rest)
  | _ => true

/-- a text leaf: atoms and single spaces, no two spaces in a row, an atom at both ends -/
def leafOK (cs : CharSpec) (allowed : TK → Bool) (l : List Tok) : Bool :=
  l.all (fun t => isAtomTok cs allowed t || isSpTok t) && noAdjSp l &&
  l.head?.any (isAtomTok cs allowed) && l.getLast?.any (isAtomTok cs allowed)

/-- the string a leaf stands for -/
def leafText (l : List Tok) : List Char := l.flatMap (·.text)

/-! ### numbers and values -/

/-- a number as written: digit strings -/
inductive ANum where
  /-- `12` -/
  | int (ds : List Char)
  /-- `12.05` -/
  | dec (i f : List Char)
  /-- `.5` -/
  | dec0 (f : List Char)
  /-- `1/2` -/
  | frac (n d : List Char)
  /-- `1 1/2` -/
  | mixed (w n d : List Char)
deriving Repr, DecidableEq

/-- blank material inside a number: after the whole part of a mixed number, before and after `/` -/
structure NPad where
  w : List Tok := []
  a : List Tok := []
  b : List Tok := []

def NPad.ok (cs : CharSpec) (p : NPad) : Bool := padOK cs p.w && padOK cs p.a && padOK cs p.b

/-- a digit run after the dot is a `ZeroInt` token iff it has a leading 0 and more digits -/
def fracKind (f : List Char) : TK := if f.head? == some '0' && f.length > 1 then .zeroInt else .int

def spellNum : ANum → NPad → List Tok
  | .int ds, _ => [tk .int ds]
  | .dec i f, _ => [tk .int i, tk .dot ['.'], tk (fracKind f) f]
  | .dec0 f, _ => [tk .dot ['.'], tk (fracKind f) f]
  | .frac n d, p => [tk .int n] ++ p.a ++ [tk .slash ['/']] ++ p.b ++ [tk .int d]
  | .mixed w n d, p => [tk .int w] ++ p.w ++ [tk .int n] ++ p.a ++ [tk .slash ['/']] ++ p.b ++ [tk .int d]

/-- the number a spelling stands for (`Arith.ofDecimal m e` is the decimal `m / 10^e`) -/
def ANum.denote {α : Type} [Arith α] : ANum → Number α
  | .int ds => .regular (Arith.ofDecimal (digitsToNat ds) 0)
  | .dec i f => .regular (Arith.ofDecimal (digitsToNat (i ++ f)) f.length)
  | .dec0 f => .regular (Arith.ofDecimal (digitsToNat f) f.length)
  | .frac n d => .fraction 0 (digitsToNat n) (digitsToNat d) (Arith.ofNat 0)
  | .mixed w n d => .fraction (digitsToNat w) (digitsToNat n) (digitsToNat d) (Arith.ofNat 0)

/-- what the value parser needs of a number: the parts of a fraction fit `u32`, the denominator
    is not 0 -/
def ANum.ok : ANum → Bool
  | .frac n d => digitsToNat n ≤ u32Max && digitsToNat d ≤ u32Max && digitsToNat d != 0
  | .mixed w n d =>
    digitsToNat w ≤ u32Max && digitsToNat n ≤ u32Max && digitsToNat d ≤ u32Max && digitsToNat d != 0
  | _ => true

/-- an integer literal as the lexer reads it: digits, no leading zero unless it is `0` -/
def intLit (ds : List Char) : Bool :=
  match ds with
  | [] => false
  | c :: r => isAsciiDigit c && r.all isAsciiDigit && (c != '0' || r.isEmpty)

def digitsLit (ds : List Char) : Bool := !ds.isEmpty && ds.all isAsciiDigit

/-- what the lexer needs of a number's digit strings -/
def ANum.lexOK : ANum → Bool
  | .int ds => intLit ds
  | .dec i f => intLit i && digitsLit f
  | .dec0 f => digitsLit f
  | .frac n d => intLit n && intLit d
  | .mixed w n d => intLit w && intLit n && intLit d

/-- kinds allowed for the atoms of a text value -/
def valKind (k : TK) : Bool :=
  k == .word || k == .int || k == .zeroInt || k == .punct || k == .colon || k == .question ||
  k == .plus || k == .star || k == .and || k == .or || k == .openParen || k == .closeParen

inductive AVal where
  | num (n : ANum)
  /-- `lo-hi` (RANGE_VALUES) -/
  | range (lo hi : ANum)
  /-- a text value: its leaf tokens -/
  | text (l : List Tok)

/-- blank material of a value: at both ends, inside the numbers, around the `-` of a range -/
structure VPad where
  pre : List Tok := []
  post : List Tok := []
  lo : NPad := {}
  hi : NPad := {}
  m1 : List Tok := []
  m2 : List Tok := []

def VPad.ok (cs : CharSpec) (p : VPad) : Bool :=
  padOK cs p.pre && padOK cs p.post && p.lo.ok cs && p.hi.ok cs && padOK cs p.m1 && padOK cs p.m2

/-- the value without the padding at its ends -/
def spellCore : AVal → VPad → List Tok
  | .num n, p => spellNum n p.lo
  | .range lo hi, p => spellNum lo p.lo ++ p.m1 ++ [tk .minus ['-']] ++ p.m2 ++ spellNum hi p.hi
  | .text l, _ => l

def spellVal (v : AVal) (p : VPad) : List Tok := p.pre ++ spellCore v p ++ p.post

def AVal.denote {α : Type} [Arith α] : AVal → Value α
  | .num n => .number n.denote
  | .range lo hi => .range lo.denote hi.denote
  | .text l => .text (leafText l)

/-- a text value is not number-like: not a single integer token -/
def notSingleInt (l : List Tok) : Bool :=
  match l with
  | [a] => a.kind != .int
  | _ => true

def AVal.ok (cs : CharSpec) : AVal → Bool
  | .num n => n.ok
  | .range lo hi => lo.ok && hi.ok
  | .text l => leafOK cs valKind l && notSingleInt l

def AVal.isText : AVal → Bool
  | .text _ => true
  | _ => false

def AVal.isRange : AVal → Bool
  | .range _ _ => true
  | _ => false

/-! ### quantities -/

/-- kinds allowed for the atoms of a unit (everything visible that cannot end the braces) -/
def unitKind (k : TK) : Bool :=
  valKind k || k == .dot || k == .slash || k == .minus || k == .eq || k == .percent

structure AQty where
  lock : Bool := false
  val : AVal
  /-- the unit's leaf tokens -/
  unit : Option (List Tok) := none

/-- blank material of a quantity: before `=`, the value's, after `%`, at the end -/
structure QPad where
  l0 : List Tok := []
  v : VPad := {}
  u0 : List Tok := []
  u1 : List Tok := []

def QPad.ok (cs : CharSpec) (p : QPad) : Bool := padOK cs p.l0 && p.v.ok cs && padOK cs p.u0 && padOK cs p.u1

def spellUnit (u : Option (List Tok)) (p : QPad) : List Tok :=
  match u with
  | some u => [tk .percent ['%']] ++ p.u0 ++ u ++ p.u1
  | none => []

def spellLock (lock : Bool) (p : QPad) : List Tok := if lock then p.l0 ++ [tk .eq ['=']] else []

/-- `= value % unit` between the braces -/
def spellQty (q : AQty) (p : QPad) : List Tok :=
  spellLock q.lock p ++ spellVal q.val p.v ++ spellUnit q.unit p

def AQty.ok (cs : CharSpec) (q : AQty) : Bool :=
  q.val.ok cs && (match q.unit with | some u => leafOK cs unitKind u | none => true)

/-- ADVANCED_UNITS reads `1 kg` and `2 heaped` (no `%`) as number + unit.  The regular reading is
    the documented one when a `%` is written, when the value is a number without unit, or when a
    text value starts with a word. -/
def AQty.advSafe (q : AQty) : Bool :=
  q.unit.isSome || (match q.val with
    | .text l => l.head?.any (fun t => t.kind == .word)
    | _ => true)

/-! ### components -/

/-- kinds allowed for the atoms of a name or alias: visible tokens that do not end the name
    (`{`, the markers `@ # ~`) and no braces/parentheses.  Modifier characters and `|` are
    allowed here and restricted by `AComp.wf` according to the extensions. -/
def nameKind (k : TK) : Bool :=
  k == .word || k == .int || k == .zeroInt || k == .punct || k == .dot || k == .colon || k == .star ||
  k == .slash || k == .percent || k == .eq || k == .question || k == .plus || k == .minus || k == .and || k == .or

/-- kinds allowed for the atoms of a note: everything visible but parentheses -/
def noteKind (k : TK) : Bool :=
  nameKind k || k == .openBrace || k == .closeBrace || k == .at || k == .hash || k == .tilde

/-- the modifier characters `@ & ? + -` -/
def modKind (k : TK) : Bool := k == .at || k == .and || k == .question || k == .plus || k == .minus

def modChar (k : TK) : List Char :=
  if k == .at then ['@'] else if k == .and then ['&'] else if k == .question then ['?']
  else if k == .plus then ['+'] else ['-']

/-- the flag set written by a list of modifier characters -/
def modsOf (mods : List TK) : Modifiers :=
  mods.foldl (fun m k => m.insert ((modifierFlag k).getD 0)) Modifiers.empty

/-- an ingredient / cookware item written with braces -/
structure AComp where
  /-- modifier characters in written order -/
  mods : List TK := []
  /-- the name's leaf tokens -/
  name : List Tok
  alias : Option (List Tok) := none
  qty : Option AQty := none
  note : Option (List Tok) := none

/-- blank material of a component: after the name, after `|`, after the alias, the quantity's,
    inside empty braces -/
structure CPad where
  n1 : List Tok := []
  a0 : List Tok := []
  a1 : List Tok := []
  q : QPad := {}
  e : List Tok := []

def CPad.ok (cs : CharSpec) (p : CPad) : Bool :=
  padOK cs p.n1 && padOK cs p.a0 && padOK cs p.a1 && p.q.ok cs && padOK cs p.e

def spellMods (mods : List TK) : List Tok := mods.map (fun k => tk k (modChar k))

def spellAlias (a : Option (List Tok)) (p : CPad) : List Tok :=
  match a with
  | some a => [tk .or ['|']] ++ p.a0 ++ a ++ p.a1
  | none => []

def spellBraces (q : Option AQty) (p : CPad) : List Tok :=
  [tk .openBrace ['{']] ++ (match q with | some q => spellQty q p.q | none => p.e) ++ [tk .closeBrace ['}']]

def spellNote (n : Option (List Tok)) : List Tok :=
  match n with
  | some n => [tk .openParen ['(']] ++ n ++ [tk .closeParen [')']]
  | none => []

/-- `marker mods name [| alias] { quantity } [(note)]` -/
def spellComp (marker : Tok) (c : AComp) (p : CPad) : List Tok :=
  [marker] ++ spellMods c.mods ++ (c.name ++ p.n1 ++ spellAlias c.alias p) ++ spellBraces c.qty p ++ spellNote c.note

def spellIngredient (c : AComp) (p : CPad) : List Tok := spellComp (tk .at ['@']) c p
def spellCookware (c : AComp) (p : CPad) : List Tok := spellComp (tk .hash ['#']) c p

def Ext.modifiers (e : Ext) : Bool := e.has Gen.EXT_COMPONENT_MODIFIERS
def Ext.alias (e : Ext) : Bool := e.has Gen.EXT_COMPONENT_ALIAS

/-- the side conditions of the component round trip (decidable; each clause has a
    counter-example in Props/C01.lean):
    * the name (alias, note) is a leaf of the allowed kinds: no `{`, no marker, no parentheses
      (a note: no parentheses);
    * modifiers are modifier characters, each at most once, and only written when the extension
      is on (otherwise they would be part of the name);
    * with MODIFIERS the name does not start with a modifier character (it would be read as one);
    * with ALIAS the name and the alias contain no `|`; an alias is only written with ALIAS;
    * the quantity is well formed, a range only with RANGE_VALUES, and with ADVANCED_UNITS it
      is `advSafe`. -/
def AComp.wf (cs : CharSpec) (e : Ext) (c : AComp) : Bool :=
  leafOK cs nameKind c.name &&
  c.mods.all modKind && decide c.mods.Nodup && (c.mods.isEmpty || e.modifiers) &&
  (!e.modifiers || c.name.head?.all (fun t => !modKind t.kind)) &&
  (!e.alias || c.name.all (fun t => t.kind != .or)) &&
  (match c.alias with
    | some a => e.alias && leafOK cs nameKind a && a.all (fun t => t.kind != .or)
    | none => true) &&
  (match c.note with
    | some n => leafOK cs noteKind n
    | none => true) &&
  (match c.qty with
    | some q => q.ok cs && (!q.val.isRange || e.has Gen.EXT_RANGE_VALUES) &&
        (!e.has Gen.EXT_ADVANCED_UNITS || q.advSafe)
    | none => true)

/-- cookware: additionally no unit (a unit is an error) and no `@` modifier (an error) -/
def AComp.wfCookware (cs : CharSpec) (e : Ext) (c : AComp) : Bool :=
  c.wf cs e && !c.mods.contains .at &&
  (match c.qty with
    | some q => q.unit.isNone
    | none => true)

/-- what may follow a component: without a note, not a `(` (it would open one) -/
def restOK (c : AComp) (rest : List Tok) : Bool :=
  c.note.isSome || rest.head?.all (fun t => t.kind != .openParen)

end Cook
