import CookModel.Print.Printer
/-
  C01: more spellings of the token-level printer — timers, single-word components (no braces),
  intermediate references, and the single-line blocks (section, `>>` metadata).
  Same conventions as Print/Printer.lean: a spelling fixes kinds and texts, positions are free
  (`Spells`), blank material is an explicit argument (`padOK`), text leaves are `leafOK`.
  No proofs here: the laws are in Lemmas/Roundtrip*.lean and Props/C01.lean.
-/
namespace Cook

/-! ### timers -/

/-- a timer `~name{quantity%unit}`: the name is optional (`~{10%min}`), so is the quantity
    (`~rest{}`) -/
structure ATimer where
  /-- the name's leaf tokens -/
  name : Option (List Tok) := none
  qty : Option AQty := none

def spellOptLeaf (n : Option (List Tok)) : List Tok :=
  match n with
  | some n => n
  | none => []

/-- `~ name blanks { quantity }` (the blanks `p.n1`, the quantity's padding `p.q`, the blanks in
    empty braces `p.e`; the other fields of `CPad` are not used) -/
def spellTimer (c : ATimer) (p : CPad) : List Tok :=
  [tk .tilde ['~']] ++ (spellOptLeaf c.name ++ p.n1) ++ spellBraces c.qty p

/-- the side conditions of the timer round trip (decidable; counter-examples in Props/C01.lean):
    * the name is a leaf of the name kinds; with MODIFIERS it does not start with a modifier
      character (modifiers are an error on a timer), with ALIAS it has no `|` (an error);
    * a quantity has a unit (a timer without unit is an error); a range only with RANGE_VALUES;
    * without quantity the timer has a name, and TIMER_REQUIRES_TIME is off. -/
def ATimer.wf (cs : CharSpec) (e : Ext) (c : ATimer) : Bool :=
  (match c.name with
    | some n => leafOK cs nameKind n && (!e.modifiers || n.head?.all (fun t => !modKind t.kind)) &&
        (!e.alias || n.all (fun t => t.kind != .or))
    | none => true) &&
  (match c.qty with
    | some q => q.ok cs && q.unit.isSome && (!q.val.isRange || e.has Gen.EXT_RANGE_VALUES)
    | none => c.name.isSome && !e.has Gen.EXT_TIMER_REQUIRES_TIME)

/-- what may follow a timer: not a `(` (a `( … )` there is reported as a misplaced note) -/
def noParenNext (rest : List Tok) : Bool := rest.head?.all (fun t => t.kind != .openParen)

/-! ### single-word components -/

/-- kinds of the tokens of a single-word name: `salt`, `1st`, `00` -/
def wordKind (k : TK) : Bool := k == .word || k == .int || k == .zeroInt

/-- `marker mods word [(note)]`: the name `c.name` is a run of word / integer tokens without any
    blank; no alias, no quantity -/
def spellShort (marker : Tok) (c : AComp) : List Tok :=
  [marker] ++ spellMods c.mods ++ c.name ++ spellNote c.note

def spellShortIngredient (c : AComp) : List Tok := spellShort (tk .at ['@']) c
def spellShortCookware (c : AComp) : List Tok := spellShort (tk .hash ['#']) c

/-- side conditions of the single-word form: those of the component layer, the name is made of
    word / integer tokens only, there is no alias and no quantity -/
def AComp.wfShort (cs : CharSpec) (e : Ext) (c : AComp) : Bool :=
  c.wf cs e && c.name.all (fun t => wordKind t.kind) && c.alias.isNone && c.qty.isNone

def AComp.wfShortCookware (cs : CharSpec) (e : Ext) (c : AComp) : Bool :=
  c.wfShort cs e && !c.mods.contains .at

/-- the first `{` or marker of a token list is not a `{`.  The component parser first looks
    for the braces form `name {…}` with a name running up to the next `{` — across blanks, words
    and line ends, up to the next marker; so the single-word form is only read when no `{`
    comes before the next marker in what follows (`@salt and {x}` is the ingredient `salt and`). -/
def noBraceFirst (l : List Tok) : Bool :=
  match l.find? (fun t => t.kind == .openBrace || isMarker t.kind) with
  | some t => t.kind != .openBrace
  | none => true

/-- what may follow a single-word component: no `{` before the next marker (also inside the
    note); without a note, neither `(` nor a further word / integer token (it would be part of
    the name) -/
def shortRestOK (c : AComp) (rest : List Tok) : Bool :=
  noBraceFirst (spellNote c.note ++ rest) &&
  (c.note.isSome || rest.head?.all (fun t => t.kind != .openParen && !wordKind t.kind))

/-! ### intermediate references (`@&(~1)name{}`, INTERMEDIATE_PREPARATIONS) -/

/-- the four documented forms: `(n)` step number, `(~n)` n steps back, `(=n)` section number,
    `(=~n)` n sections back; `digits` is the integer literal -/
structure AInter where
  relative : Bool := false
  isSection : Bool := false
  digits : List Char

/-- blank material inside the parentheses: before each piece and at the end -/
structure IPad where
  b0 : List Tok := []
  b1 : List Tok := []
  b2 : List Tok := []
  b3 : List Tok := []

def IPad.ok (cs : CharSpec) (p : IPad) : Bool := padOK cs p.b0 && padOK cs p.b1 && padOK cs p.b2 && padOK cs p.b3

/-- `( [=] [~] n )` -/
def spellInter (i : AInter) (p : IPad) : List Tok :=
  [tk .openParen ['(']] ++ p.b0 ++ (if i.isSection then [tk .eq ['=']] ++ p.b1 else []) ++
    (if i.relative then [tk .tilde ['~']] ++ p.b2 else []) ++ [tk .int i.digits] ++ p.b3 ++ [tk .closeParen [')']]

def AInter.denote (i : AInter) : InterData := ⟨i.relative, i.isSection, digitsToNat i.digits⟩

/-- the number fits `i16` -/
def AInter.ok (i : AInter) : Bool := digitsToNat i.digits ≤ 32767

/-- `@ pre & ( ref ) post name … { … } (note)`: an ingredient whose `&` modifier carries an
    intermediate reference; `pre` / `post` are the modifier characters written before the `&`
    and after the `)`; `c.mods` is not used (must be empty) -/
def spellIngredientI (pre post : List TK) (i : AInter) (ip : IPad) (c : AComp) (p : CPad) : List Tok :=
  [tk .at ['@']] ++ (spellMods pre ++ [tk .and ['&']] ++ spellInter i ip ++ spellMods post) ++
    ((c.name ++ p.n1 ++ spellAlias c.alias p) ++ spellBraces c.qty p ++ spellNote c.note)

/-- side conditions: MODIFIERS and INTERMEDIATE_PREPARATIONS are on; the modifier characters
    `pre & post` are distinct modifier characters; the number fits `i16`; the rest as `AComp.wf` -/
def wfInter (cs : CharSpec) (e : Ext) (pre post : List TK) (i : AInter) (c : AComp) : Bool :=
  c.wf cs e && c.mods.isEmpty && e.modifiers && e.has Gen.EXT_INTERMEDIATE_PREPARATIONS &&
  (pre ++ .and :: post).all modKind && decide (pre ++ .and :: post).Nodup && i.ok

/-! ### single-line blocks -/

/-- kinds allowed in a section name: everything visible but `=` -/
def sectionKind (k : TK) : Bool :=
  nameKind k && k != .eq || k == .openBrace || k == .closeBrace || k == .openParen || k == .closeParen ||
  k == .at || k == .hash || k == .tilde || k == .metaStart || k == .textStep

/-- `=…= blanks name blanks [=…= blanks]`: `n0 + 1` leading `=` and `n1` trailing ones (the
    blanks `c` are written only after trailing `=`) -/
structure SPad where
  n0 : Nat := 1
  n1 : Nat := 0
  a : List Tok := []
  b : List Tok := []
  c : List Tok := []

def SPad.ok (cs : CharSpec) (p : SPad) : Bool := padOK cs p.a && padOK cs p.b && padOK cs p.c

def spellSection (name : Option (List Tok)) (p : SPad) : List Tok :=
  List.replicate (p.n0 + 1) (tk .eq ['=']) ++ (p.a ++ spellOptLeaf name ++ p.b) ++
    (if p.n1 = 0 then [] else List.replicate p.n1 (tk .eq ['=']) ++ p.c)

/-- kinds allowed in a metadata key: everything visible but `:` -/
def keyKind (k : TK) : Bool :=
  (nameKind k && k != .colon) || k == .openBrace || k == .closeBrace || k == .openParen || k == .closeParen ||
  k == .at || k == .hash || k == .tilde || k == .metaStart || k == .textStep

/-- kinds allowed in a metadata value: everything visible -/
def metaValKind (k : TK) : Bool := keyKind k || k == .colon

/-- blank material of a metadata line: after `>>`, before `:`, after `:`, at the end -/
structure MPad where
  a : List Tok := []
  b : List Tok := []
  c : List Tok := []
  d : List Tok := []

def MPad.ok (cs : CharSpec) (p : MPad) : Bool := padOK cs p.a && padOK cs p.b && padOK cs p.c && padOK cs p.d

/-- `>> key : value` -/
def spellMeta (key value : List Tok) (p : MPad) : List Tok :=
  [tk .metaStart ['>', '>']] ++ p.a ++ key ++ p.b ++ [tk .colon [':']] ++ p.c ++ value ++ p.d

end Cook
