import CookModel.Num.Number
import CookModel.Gen.Consts
/-
  Model of the fraction machinery of src/quantity.rs:
  `FractionLookupTable::{new, lookup}` and `Number::new_approx`.
-/
namespace Cook
open Arith

structure FracEntry where
  key : Int
  num : Nat
  den : Nat
deriving Repr, DecidableEq

/-- `if let Err(pos) = table.binary_search_by_key(..) { table.insert(pos, ..) }`
    on a table sorted by key with distinct keys. -/
def tableInsert (e : FracEntry) : List FracEntry → List FracEntry
  | [] => [e]
  | x :: xs =>
    if e.key < x.key then e :: x :: xs
    else if e.key = x.key then x :: xs
    else x :: tableInsert e xs

def fixedKey {α} [Arith α] (val : α) : Int :=
  Arith.toI16 (val * (Arith.const Gen.FIX_RATIO : α))

/-- `for &den in DENOMS { for num in 1..den { .. } }` -/
def mkTable (α) [Arith α] (denoms : List Nat) : List FracEntry :=
  denoms.foldl (fun t den =>
    (List.range' 1 (den - 1)).foldl (fun t num =>
      tableInsert ⟨fixedKey ((Arith.ofNat num : α) / Arith.ofNat den), num, den⟩ t) t) []

def pickNeighbour (fixed : Int) (maxDen : Nat) (lo hi : List FracEntry) : Option FracEntry :=
  let high := hi.find? (fun e => e.den ≤ maxDen)
  let low := lo.reverse.find? (fun e => e.den ≤ maxDen)
  match low, high with
  | none, some f => some f
  | some f, none => some f
  | some a, some b =>
    let aErr := (a.key - fixed).natAbs
    let bErr := (b.key - fixed).natAbs
    if aErr < bErr ∨ (aErr = bErr ∧ a.den ≤ b.den) then some a else some b
  | none, none => none

/-- `FractionLookupTable::lookup` given the fixed-point key. -/
def lookupKey (t : List FracEntry) (fixed : Int) (maxDen : Nat) : Option FracEntry :=
  let lo := t.takeWhile (fun e => e.key < fixed)
  let hi := t.dropWhile (fun e => e.key < fixed)
  match hi with
  | e :: _ => if e.key = fixed ∧ e.den ≤ maxDen then some e else pickNeighbour fixed maxDen lo hi
  | [] => pickNeighbour fixed maxDen lo hi

def lookup {α} [Arith α] (t : List FracEntry) (val : α) (maxDen : Nat) : Option FracEntry :=
  lookupKey t (fixedKey val) maxDen

/-- The documented precondition (`assert!`s at the top of `new_approx`). -/
def newApproxPre {α} [Arith α] (acc : α) (maxDen : Nat) : Bool :=
  Arith.le (Arith.ofNat 0) acc && Arith.le acc (Arith.ofNat 1) && decide (maxDen ≤ 64)

/-- `Number::new_approx(value, accuracy, max_den, max_whole)`; `acc` is `accuracy as f64`. -/
def newApprox {α} [Arith α] (t : List FracEntry) (value acc : α) (maxDen maxWhole : Nat) :
    Option (Number α) :=
  if Arith.le value (Arith.ofNat 0) || !Arith.isFinite value then none else
  let maxErr := acc * value
  let whole := Arith.toU32 (Arith.trunc value)
  let decimal := Arith.fract value
  if decide (whole > maxWhole) || decide (whole = u32Max) then none else
  if Arith.lt decimal (Arith.const Gen.APPROX_EPS) then some (.regular value) else
  let rounded := Arith.toU32 (Arith.round value)
  let roundErr := value - Arith.round value
  if Arith.lt (Arith.abs roundErr) maxErr && decide (rounded > 0) && decide (rounded ≤ maxWhole) then
    some (.fraction rounded 0 1 roundErr)
  else
  match lookup t decimal maxDen with
  | none => none
  | some e =>
    let approxValue := (Arith.ofNat whole : α) + (Arith.ofNat e.num : α) / Arith.ofNat e.den
    let err := value - approxValue
    if Arith.lt maxErr (Arith.abs err) then none
    else some (.fraction whole e.num e.den err)

/-- Structural well-formedness of a lookup table. -/
def entryOK (denoms : List Nat) (e : FracEntry) : Bool :=
  decide (0 < e.num) && decide (e.num < e.den) && denoms.contains e.den

def tableOK (denoms : List Nat) (t : List FracEntry) : Bool :=
  t.all (entryOK denoms)

def keysSorted : List FracEntry → Bool
  | a :: b :: rest => decide (a.key < b.key) && keysSorted (b :: rest)
  | _ => true

/-- The table the theorems are instantiated with: built with exact arithmetic. -/
def ratTable : List FracEntry := mkTable Rat Gen.DENOMS
/-- The table the driver uses: built with f64 arithmetic, as the code does. -/
def floatTable : List FracEntry := mkTable Float Gen.DENOMS

def FracEntry.render (e : FracEntry) : String := s!"{e.key}:{e.num}/{e.den}"

end Cook
