import CookModel.Num.Scale
import CookModel.Side.Serde
/-
  `Recipe<D, V>` WITH its metadata map and its `data` field, through scaling and conversion
  (src/scale.rs `ScalableRecipe::{scale, scale_to_servings, default_scale, servings, set_servings}`,
  src/convert/mod.rs `ScaledRecipe::convert`).

  `Recipe` of Analysis/Model.lean has neither the metadata map nor `data`; `Serde.FullRecipe` is the
  wrapper that carries both (`metadata : List (Str × Json)`, an opaque JSON-representable mapping, and
  `data : Servings` before / `Scaled α` after scaling).  The functions below are the methods of the Rust
  code on that wrapper: they say what happens to `metadata` and `data`, the five component tables are
  handled by `recipeScale` / `recipeDefaultScale` / `recipeConvert`.

  Tied to the code by the driver operation `scm` (Driver/ScaleM.lean): the JSON image of the result,
  metadata and scaling data included, is compared with `serde_json::to_string` of the real result.
-/
namespace Cook
open Arith

variable {α : Type} [Arith α]

/-- the outcome as stored in `ScaledData` (the payload of `Error` is always `TextValueError`: the only
    `Err` of `linear_scale`) -/
def ScaleOutcome.toSerde : Cook.ScaleOutcome → Serde.ScaleOutcome
  | .scaled => .scaled
  | .fixed => .fixed
  | .noQuantity => .noQuantity
  | .error => .error .textValue

/-- `Scaled::Scaled(data)` -/
def ScaledData.toScaled (d : ScaledData α) : Serde.Scaled α :=
  .scaled d.factor (d.ingredients.map ScaleOutcome.toSerde) (d.cookware.map ScaleOutcome.toSerde)
    (d.timers.map ScaleOutcome.toSerde)

/-- `ScalableRecipe::scale` (scale.rs:111-157): `metadata: self.metadata`, `data: Scaled::Scaled(data)` -/
def scaleM (c : Converter α) (r : Serde.FullRecipe α (ScalableValue α) Serde.Servings) (factor : α) :
    Serde.FullRecipe α (Value α) (Serde.Scaled α) :=
  { metadata := r.metadata,
    recipe := (recipeScale c r.recipe factor).1,
    data := (recipeScale c r.recipe factor).2.toScaled }

/-- `ScalableRecipe::scale_to_servings` (scale.rs:160-168): the base is read from `self.data`
    (`Servings`), never from the metadata map -/
def scaleToServingsM (c : Converter α) (r : Serde.FullRecipe α (ScalableValue α) Serde.Servings) (target : Nat) :
    Serde.FullRecipe α (Value α) (Serde.Scaled α) :=
  scaleM c r ((Arith.ofNat target : α) / Arith.ofNat (servingsBase r.data))

/-- `ScalableRecipe::default_scale` (scale.rs:173-195): `metadata: self.metadata`,
    `data: Scaled::DefaultScaling` -/
def defaultScaleM (r : Serde.FullRecipe α (ScalableValue α) Serde.Servings) : Serde.FullRecipe α (Value α) (Serde.Scaled α) :=
  { metadata := r.metadata, recipe := recipeDefaultScale r.recipe, data := .defaultScaling }

/-- `ScalableRecipe::servings` -/
def servingsM (r : Serde.FullRecipe α (ScalableValue α) Serde.Servings) : Option (List Nat) := r.data

/-- `ScalableRecipe::set_servings`: `self.data = Servings(Some(servings))`, nothing else -/
def setServingsM (r : Serde.FullRecipe α (ScalableValue α) Serde.Servings) (servings : List Nat) :
    Serde.FullRecipe α (ScalableValue α) Serde.Servings :=
  { r with data := some servings }

/-- `ScaledRecipe::convert` (convert/mod.rs:422): works on `&mut self`, touches neither `metadata` nor
    `data` -/
def convertM (c : Converter α) (to : System) (r : Serde.FullRecipe α (Value α) (Serde.Scaled α)) :
    Serde.FullRecipe α (Value α) (Serde.Scaled α) × List ConvErr :=
  ({ r with recipe := (recipeConvert c to r.recipe).1 }, (recipeConvert c to r.recipe).2)

end Cook
