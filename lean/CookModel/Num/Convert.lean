import CookModel.Num.Units
import CookModel.Gen.Units
import CookModel.Gen.Consts
import CookModel.Analysis.Model
/-
  Model of src/convert/mod.rs (conversion, best unit, quantity conversion, fitting, fractions,
  recipe-wide conversion) and of `BestConversions::new` (src/convert/builder.rs:248-280).

  Written once over `[Arith α]`: theorems at `α := Rat`, the driver at `α := Float`.

  Panic sites of the code that are values here:
    * `assert_eq!(from.physical_quantity, to.physical_quantity)` of the free `convert_f64`
      → `convertF64Free … = none` → `ConvErr.panic .mixedAssert`
    * `Unit::symbol`'s `expect` → `ConvErr.panic .noSymbol`
    * `units.next().unwrap()` of `BestConversions::new` → `mkBest … = none`
  Preconditions stated as the executable predicate `Converter.wf` instead (the driver refuses to
  run an op when it is false; `C09_bundled_wf` decides it for the generated converter):
    * the two `assert!`s at the top of `Number::new_approx` (accuracy ∈ [0,1], max_den ≤ 64) for
      every fractions configuration of the converter (`FractionsConfigHelper::define` clamps).
-/
namespace Cook
open Arith

variable {α : Type} [Arith α]

inductive PanicSite where
  | mixedAssert
  | noSymbol
deriving Repr, DecidableEq, Inhabited

/-- `ConvertError` (+ the panics) -/
inductive ConvErr where
  | noUnit
  | textValue (t : Str)
  | mixedQuantities (fromQ toQ : PhysQ)
  | bestUnitNotFound (pq : PhysQ) (system : Option System)
  | unknownUnit (key : Str)
  | panic (site : PanicSite)
deriving Repr, DecidableEq, Inhabited

/-! ### units, amounts, the affine conversion -/

/-- the amount of `v unit` in the base unit of its physical quantity -/
def amount (v : α) (u : Unit α) : α := (v + u.difference) * u.ratio

/-- body of the free function `convert_f64` after the assertion -/
def convertF64Raw (v : α) (frm to : Unit α) : α :=
  ((v + frm.difference) * frm.ratio) / to.ratio - to.difference

/-- the free function `convert_f64` (mod.rs:720): `none` = the `assert_eq!` fails -/
def convertF64Free (v : α) (frm to : Unit α) : Option α :=
  if frm.pq = to.pq then some (convertF64Raw v frm to) else none

/-- `Converter::convert_f64` (mod.rs:698): identity when both are the same unit object -/
def convertF64 (v : α) (frm to : Unit α) : Option α :=
  if frm.id = to.id then some v else convertF64Free v frm to

/-! ### building the best lists (`BestConversions::new`) -/

/-- insertion step of the stable sort by `ratio`
    (`sort_by(|a, b| a.ratio.partial_cmp(&b.ratio).unwrap_or(Less))`) -/
def insertByRatio (u : Unit α) : List (Unit α) → List (Unit α)
  | [] => [u]
  | x :: xs => if Arith.lt u.ratio x.ratio then u :: x :: xs else x :: insertByRatio u xs

def sortByRatio (us : List (Unit α)) : List (Unit α) :=
  us.foldl (fun acc u => insertByRatio u acc) []

/-- thresholds of the non-base units: `convert_f64(1.0, unit, base)` (the free function) -/
def mkThresholds (base : Unit α) : List (Unit α) → Option (List (α × Unit α))
  | [] => some []
  | u :: rest =>
    match convertF64Free (Arith.ofNat 1) u base with
    | none => none
    | some th =>
      match mkThresholds base rest with
      | none => none
      | some r => some ((th, u) :: r)

/-- `BestConversions::new` after the names are resolved; `none` = it panics -/
def mkBest (us : List (Unit α)) : Option (BestConversions α) :=
  match sortByRatio us with
  | [] => none
  | base :: rest =>
    match mkThresholds base rest with
    | none => none
    | some r => some ⟨(Arith.ofNat 1, base) :: r⟩

def mkBestStore : BestSpec α → Option (BestStore α)
  | .unified us =>
    match mkBest us with
    | none => none
    | some b => some (.unified b)
  | .bySystem m i =>
    match mkBest m with
    | none => none
    | some bm =>
      match mkBest i with
      | none => none
      | some bi => some (.bySystem bm bi)

def emptyBest : BestStore α := .unified ⟨[]⟩

/-- the `enum_map!` of `finish` over the five quantities -/
def mkBestMap (spec : PhysQ → BestSpec α) : Option (PhysQ → BestStore α) :=
  match mkBestStore (spec .volume), mkBestStore (spec .mass), mkBestStore (spec .length),
        mkBestStore (spec .temperature), mkBestStore (spec .time) with
  | some v, some m, some l, some te, some ti =>
    some (fun q => match q with
      | .volume => v | .mass => m | .length => l | .temperature => te | .time => ti)
  | _, _, _, _, _ => none

/-- instantiate a generated description at `α` and build the converter -/
def Converter.ofDesc (d : ConverterDesc Const) (table : List FracEntry) : Option (Converter α) :=
  match mkBestMap (fun q => (d.best q).map (Arith.const : Const → α)) with
  | none => none
  | some best =>
    some { allUnits := d.allUnits.map (Unit.map Arith.const), best := best,
           fractions := d.fractions.map Arith.const, defaultSystem := d.defaultSystem,
           fracTable := table }

/-- `Converter::empty()` -/
def Converter.empty (table : List FracEntry) : Converter α :=
  { allUnits := [], best := fun _ => emptyBest,
    fractions := { all := none, metric := none, imperial := none, quantity := [], unit := [] },
    defaultSystem := .metric, fracTable := table }

/-- `Converter::bundled()` at `α` (the generated description is checked to build:
    `C09_bundled_builds`) -/
def Converter.bundled (α : Type) [Arith α] : Converter α :=
  match Converter.ofDesc Gen.bundledDesc (mkTable α Gen.DENOMS) with
  | some c => c
  | none => Converter.empty (mkTable α Gen.DENOMS)

/-! ### lookups -/

/-- `Converter::find_unit` / `UnitIndex::get_unit_id`: keys are unique in a built converter -/
def Converter.findUnit (c : Converter α) (key : Str) : Option (Unit α) :=
  c.allUnits.find? (fun u => u.allKeys.contains key)

def defaultCfg : FracCfg α := Gen.defaultCfg.map Arith.const

def systemCfg (f : Fractions α) : Option System → Option (FracCfg α)
  | some .metric => f.metric
  | some .imperial => f.imperial
  | none => none

/-- `Fractions::config` (mod.rs:206) -/
def Fractions.config (f : Fractions α) (system : Option System) (q : PhysQ) (unitId : Nat) :
    FracCfg α :=
  match f.unit.lookup unitId with
  | some c => c
  | none =>
    match f.quantity.lookup q with
    | some c => c
    | none =>
      match systemCfg f system with
      | some c => c
      | none =>
        match f.all with
        | some c => c
        | none => defaultCfg

/-- `Converter::fractions_config` -/
def Converter.fractionsConfig (c : Converter α) (u : Unit α) : FracCfg α :=
  c.fractions.config u.system u.pq u.id

/-- `Number::new_approx(val, cfg.accuracy, cfg.max_denominator, cfg.max_whole)` -/
def Converter.approx (c : Converter α) (v : α) (cfg : FracCfg α) : Option (Number α) :=
  newApprox c.fracTable v cfg.accuracy cfg.maxDen cfg.maxWhole

/-! ### `Converter::convert` -/

inductive ConvertValue (α : Type) where
  | number (n : α)
  | range (s e : α)
deriving Repr, Inhabited, DecidableEq

inductive ConvertUnit (α : Type) where
  | unit (u : Unit α)
  | key (k : Str)

inductive ConvertTo (α : Type) where
  | sameSystem
  | best (system : System)
  | unit (u : ConvertUnit α)

/-- `TryFrom<&Value> for ConvertValue` -/
def ConvertValue.ofValue : Value α → Except ConvErr (ConvertValue α)
  | .number n => .ok (.number n.value)
  | .range s e => .ok (.range s.value e.value)
  | .text t => .error (.textValue t)

/-- `From<ConvertValue> for Value` -/
def ConvertValue.toValue : ConvertValue α → Value α
  | .number n => .number (.regular n)
  | .range s e => .range (.regular s) (.regular e)

/-- `BestConversions::best_unit` (mod.rs:361) -/
def BestConversions.bestUnit (bc : BestConversions α) (value : ConvertValue α) (unit : Unit α) :
    Except ConvErr (Option (Unit α)) :=
  let v : α := match value with
    | .number n => Arith.abs n
    | .range s _ => Arith.abs s
  match bc.entries.head? with
  | none => .ok none
  | some base =>
    match convertF64 v unit base.2 with
    | none => .error (.panic .mixedAssert)
    | some norm =>
      match bc.entries.reverse.find? (fun e => Arith.ge norm (e.1 - Arith.const Gen.BEST_EPS)) with
      | some e => .ok (some e.2)
      | none => .ok (some base.2)

/-- `Converter::convert_value` -/
def convertValue (value : ConvertValue α) (frm to : Unit α) : Except ConvErr (ConvertValue α) :=
  match value with
  | .number n =>
    match convertF64 n frm to with
    | none => .error (.panic .mixedAssert)
    | some r => .ok (.number r)
  | .range s e =>
    match convertF64 s frm to with
    | none => .error (.panic .mixedAssert)
    | some s' =>
      match convertF64 e frm to with
      | none => .error (.panic .mixedAssert)
      | some e' => .ok (.range s' e')

/-- `Converter::convert_to_unit`: the same-quantity guard -/
def convertToUnit (value : ConvertValue α) (unit target : Unit α) :
    Except ConvErr (ConvertValue α) :=
  if unit.pq ≠ target.pq then .error (.mixedQuantities unit.pq target.pq)
  else convertValue value unit target

/-- `Converter::convert_to_best` -/
def Converter.convertToBest (c : Converter α) (value : ConvertValue α) (unit : Unit α)
    (system : System) : Except ConvErr (ConvertValue α × Unit α) :=
  match ((c.best unit.pq).conversions system).bestUnit value unit with
  | .error e => .error e
  | .ok none => .error (.bestUnitNotFound unit.pq unit.system)
  | .ok (some best) =>
    match convertValue value unit best with
    | .error e => .error e
    | .ok v => .ok (v, best)

/-- `Converter::get_unit` -/
def Converter.getUnit (c : Converter α) : ConvertUnit α → Except ConvErr (Unit α)
  | .unit u => .ok u
  | .key k =>
    match c.findUnit k with
    | some u => .ok u
    | none => .error (.unknownUnit k)

/-- `Converter::convert` (mod.rs:631) -/
def Converter.convert (c : Converter α) (value : ConvertValue α) (unit : ConvertUnit α)
    (to : ConvertTo α) : Except ConvErr (ConvertValue α × Unit α) :=
  match c.getUnit unit with
  | .error e => .error e
  | .ok u =>
    match to with
    | .unit target =>
      match c.getUnit target with
      | .error e => .error e
      | .ok t =>
        match convertToUnit value u t with
        | .error e => .error e
        | .ok v => .ok (v, t)
    | .best system => c.convertToBest value u system
    | .sameSystem => c.convertToBest value u (u.system.getD c.defaultSystem)

/-! ### quantities: `try_fraction`, `fit_fraction`, `convert`, `fit` -/

abbrev SQuantity (α : Type) := Quantity (Value α)

/-- `Quantity::unit_info` -/
def unitInfo (c : Converter α) (q : SQuantity α) : Option (Unit α) :=
  match q.unit with
  | none => none
  | some u => c.findUnit u

/-- `Number::try_approx` -/
def tryApprox (c : Converter α) (n : Number α) (cfg : FracCfg α) : Number α × Bool :=
  match c.approx n.value cfg with
  | some f => (f, true)
  | none => (n, false)

/-- `ScaledQuantity::try_fraction` (mod.rs:607) -/
def tryFraction (c : Converter α) (q : SQuantity α) : SQuantity α × Bool :=
  match unitInfo c q with
  | none => (q, false)
  | some u =>
    if !(c.fractionsConfig u).enabled then (q, false) else
    match q.value with
    | .number n =>
      (⟨.number (tryApprox c n (c.fractionsConfig u)).1, q.unit⟩, (tryApprox c n (c.fractionsConfig u)).2)
    | .range s e =>
      if (tryApprox c s (c.fractionsConfig u)).2 then
        (⟨.range (tryApprox c s (c.fractionsConfig u)).1 e, q.unit⟩, true)
      else
        (⟨.range s (tryApprox c e (c.fractionsConfig u)).1, q.unit⟩, (tryApprox c e (c.fractionsConfig u)).2)
    | .text _ => (q, false)

/-- Rust `f64::partial_cmp` -/
def cmpA (a b : α) : Option Ordering :=
  if Arith.lt a b then some .lt
  else if Arith.eq a b then some .eq
  else if Arith.lt b a then some .gt
  else none

structure FracKey (α : Type) where
  den : Nat
  whole : α
  err : α

/-- the `key` closure of `fit_fraction` -/
def fracKey : Number α → FracKey α
  | .fraction w _ d e => ⟨d, Arith.ofNat w, Arith.abs e⟩
  | .regular v => ⟨1, v, Arith.ofNat 0⟩

/-- lexicographic `partial_cmp` of the key tuples, `.unwrap_or(Less)` -/
def cmpKey (a b : FracKey α) : Ordering :=
  if a.den < b.den then .lt
  else if b.den < a.den then .gt
  else
    match cmpA a.whole b.whole with
    | some .eq => (cmpA a.err b.err).getD .lt
    | some o => o
    | none => .lt

/-- one step of `Iterator::min_by` (`core::cmp::min_by`: the new element wins only if it is
    strictly less than the kept one) -/
def minStep (x y : Number α × Unit α) : Number α × Unit α :=
  if cmpKey (fracKey y.1) (fracKey x.1) = .lt then y else x

def minByKey : List (Number α × Unit α) → Option (Number α × Unit α)
  | [] => none
  | x :: xs => some (xs.foldl minStep x)

/-- the `filter_map` of `fit_fraction` over a best list (all elements are evaluated) -/
def fracCandidates (c : Converter α) (value : α) (unit : Unit α) :
    List (α × Unit α) → Except ConvErr (List (Number α × Unit α))
  | [] => .ok []
  | e :: rest =>
    if !(c.fractionsConfig e.2).enabled then fracCandidates c value unit rest else
    match convertF64 value unit e.2 with
    | none => .error (.panic .mixedAssert)
    | some nv =>
      match c.approx nv (c.fractionsConfig e.2) with
      | none => fracCandidates c value unit rest
      | some n =>
        match fracCandidates c value unit rest with
        | .error err => .error err
        | .ok r => .ok ((n, e.2) :: r)

/-- the second half of `fit_fraction`: the value(s) in the selected unit -/
def fitFractionApply (c : Converter α) (q : SQuantity α) (unit : Unit α)
    (sel : Number α × Unit α) : SQuantity α × Except ConvErr Bool :=
  match sel.2.symbol? with
  | none => (q, .error (.panic .noSymbol))
  | some sym =>
    match q.value with
    | .number _ => (⟨.number sel.1, some sym⟩, .ok true)
    | .range _ e =>
      match convertF64 e.value unit sel.2 with
      | none => (q, .error (.panic .mixedAssert))
      | some e' =>
        (⟨.range sel.1 ((c.approx e' (c.fractionsConfig sel.2)).getD (.regular e')), some sym⟩, .ok true)
    | .text t => (q, .error (.textValue t))   -- `unreachable!()`: excluded by the caller's first match

/-- `fit_fraction` once the value to fit (`value`: the number, or the start of the range) is known:
    candidates, `min_by`, apply -/
def fitFractionWith (c : Converter α) (q : SQuantity α) (unit : Unit α) (system : System) (v : α) :
    SQuantity α × Except ConvErr Bool :=
  match fracCandidates c v unit ((c.best unit.pq).conversions system).entries with
  | .error e => (q, .error e)
  | .ok cands =>
    match minByKey cands with
    | none => (q, .ok false)
    | some sel => fitFractionApply c q unit sel

/-- `ScaledQuantity::fit_fraction` (mod.rs:531): the mutated quantity and the result -/
def fitFraction (c : Converter α) (q : SQuantity α) (unit : Unit α) (target : Option System) :
    SQuantity α × Except ConvErr Bool :=
  match target with
  | none => ((tryFraction c q).1, .ok (tryFraction c q).2)
  | some system =>
    match q.value with
    | .text t => (q, .error (.textValue t))
    | .number n => fitFractionWith c q unit system n.value
    | .range s _ => fitFractionWith c q unit system s.value

def dropBool : SQuantity α × Except ConvErr Bool → SQuantity α × Except ConvErr _root_.Unit
  | (q, .ok _) => (q, .ok ())
  | (q, .error e) => (q, .error e)

/-- `ScaledQuantity::convert_impl` (mod.rs:465), in the code's statement order: the value of
    `*self` afterwards and the result -/
def convertImpl (c : Converter α) (q : SQuantity α) (to : ConvertTo α) :
    SQuantity α × Except ConvErr _root_.Unit :=
  match q.unit with
  | none => (q, .error .noUnit)
  | some utext =>
    match c.findUnit utext with
    | none => (q, .error (.unknownUnit utext))
    | some u =>
      match ConvertValue.ofValue q.value with
      | .error e => (q, .error e)
      | .ok value =>
        match c.convert value (.unit u) to with
        | .error e => (q, .error e)
        | .ok r =>
          match r.2.symbol? with
          | none => (q, .error (.panic .noSymbol))
          | some sym =>
            match to with
            | .unit _ => ((tryFraction c ⟨r.1.toValue, some sym⟩).1, .ok ())
            | .best system => dropBool (fitFraction c ⟨r.1.toValue, some sym⟩ r.2 (some system))
            | .sameSystem => dropBool (fitFraction c ⟨r.1.toValue, some sym⟩ r.2 u.system)

/-- `ScaledQuantity::fit` (mod.rs:505) -/
def fit (c : Converter α) (q : SQuantity α) : SQuantity α × Except ConvErr _root_.Unit :=
  match unitInfo c q with
  | none => (q, .ok ())
  | some u =>
    if (c.fractionsConfig u).enabled then
      match (fitFraction c q u u.system).2 with
      | .error e => ((fitFraction c q u u.system).1, .error e)
      | .ok true => ((fitFraction c q u u.system).1, .ok ())
      | .ok false => convertImpl c (fitFraction c q u u.system).1 .sameSystem
    else convertImpl c q .sameSystem

/-! ### `ScaledRecipe::convert` -/

/-- the closure `conv`: convert one quantity, push the error if any -/
def convStep (c : Converter α) (to : System) (q : SQuantity α) : SQuantity α × List ConvErr :=
  match (convertImpl c q (.best to)).2 with
  | .ok _ => ((convertImpl c q (.best to)).1, [])
  | .error e => ((convertImpl c q (.best to)).1, [e])

def convOpt (c : Converter α) (to : System) : Option (SQuantity α) → Option (SQuantity α) × List ConvErr
  | none => (none, [])
  | some q => (some (convStep c to q).1, (convStep c to q).2)

def convIngredient (c : Converter α) (to : System) (i : Ingredient (Value α)) :
    Ingredient (Value α) × List ConvErr :=
  ({ i with quantity := (convOpt c to i.quantity).1 }, (convOpt c to i.quantity).2)

def convTimer (c : Converter α) (to : System) (t : Timer (Value α)) :
    Timer (Value α) × List ConvErr :=
  ({ t with quantity := (convOpt c to t.quantity).1 }, (convOpt c to t.quantity).2)

/-- `ScaledRecipe::convert` (mod.rs:422): ingredients, then timers, then inline quantities;
    cookware is not touched -/
def recipeConvert (c : Converter α) (to : System) (r : ScaledRecipe α) :
    ScaledRecipe α × List ConvErr :=
  let ing := r.ingredients.map (convIngredient c to)
  let tim := r.timers.map (convTimer c to)
  let inl := r.inlineQuantities.map (convStep c to)
  ({ r with ingredients := ing.map (·.1), timers := tim.map (·.1), inlineQuantities := inl.map (·.1) },
   (ing.map (·.2)).flatten ++ (tim.map (·.2)).flatten ++ (inl.map (·.2)).flatten)

/-! ### well-formedness of a converter (data-structure invariants of the builder) -/

def cfgPre (cfg : FracCfg α) : Bool := newApproxPre cfg.accuracy cfg.maxDen

def BestConversions.unitsOf (bc : BestConversions α) : List (Unit α) := bc.entries.map (·.2)

def BestStore.lists : BestStore α → List (BestConversions α)
  | .unified u => [u]
  | .bySystem m i => [m, i]

/-- every unit of every best list of quantity `q` has quantity `q` and a symbol -/
def bestListsOK (c : Converter α) : Bool :=
  PhysQ.all.all (fun q => (c.best q).lists.all (fun bc =>
    bc.unitsOf.all (fun u => decide (u.pq = q) && u.symbol?.isSome)))

def Fractions.cfgs (f : Fractions α) : List (FracCfg α) :=
  f.all.toList ++ f.metric.toList ++ f.imperial.toList ++ f.quantity.map (·.2) ++ f.unit.map (·.2)

def Converter.wf (c : Converter α) : Bool :=
  bestListsOK c
  && c.allUnits.all (fun u => u.symbol?.isSome)
  && (defaultCfg (α := α) :: c.fractions.cfgs).all cfgPre

end Cook
