import CookModel.Num.Group
import CookModel.Side.Aisle
/-
  Model of
    src/model.rs            `Ingredient::{display_name, all_quantities, group_quantities}`,
                            `Cookware::{all_amounts, group_amounts}`
    src/parser/model.rs     `Modifiers::should_be_listed`
    src/ingredient_list.rs  `ScaledRecipe::{group_ingredients, group_cookware}`,
                            `IngredientList::{add_recipe, add_ingredient, categorize}`
  AS REPAIRED by fixes/0001-fix-categorize-… (`categorize` merges into an existing common-name entry with
  `GroupedQuantity::absorb` instead of overwriting it; DESIGN.md §8 item 8).  The code before the
  repair is `categorizeOrig` below, kept for the machine-checked witness of the defect.

  Panic sites that are values here: `all_ingredients[i]` / `all_cookware[i]` (index out of range)
  and the `expect` of `GroupedValue::add` → `none`.

  `BTreeMap<String, _>` is an association list kept sorted by key (`String`'s `Ord` = code point
  order); lookups go by key equality, so the conservation theorems do not depend on sortedness,
  only the iteration order of `categorize` (and the canonical replies of the driver) does.
  Scaling outcomes (`GroupedIngredient::outcome`) are only logged by `add_recipe`; not modelled.
-/
namespace Cook
open Arith

variable {α : Type} [Arith α]

/-! ### `should_be_listed`, `display_name` -/

/-- `!self.intersects(Modifiers::HIDDEN | Modifiers::REF)` -/
def Modifiers.shouldBeListed (m : Modifiers) : Bool :=
  (m.bits &&& (Modifiers.HIDDEN ||| Modifiers.REF)) == 0

/-- `Path::file_name` (Unix): the last component that is not empty and not `.`, unless it is `..` -/
def pathFileName (p : Str) : Option Str :=
  match ((Aisle.pieces '/' p).reverse.filter (fun s => !(s.isEmpty || s == ['.']))).head? with
  | none => none
  | some s => if s = ['.', '.'] then none else some s

/-- `rsplit_file_at_dot` + `before.or(after)`: the name up to its last `.`; a name without `.` or
    with nothing before its last `.` is its own stem -/
def stemOfName (f : Str) : Str :=
  let afterRev := f.reverse.takeWhile (· ≠ '.')
  if afterRev.length = f.length then f
  else
    let before := (f.reverse.drop (afterRev.length + 1)).reverse
    if before.isEmpty then f else before

/-- `Path::new(name).file_stem()` -/
def pathFileStem (p : Str) : Option Str := (pathFileName p).map stemOfName

/-- `Ingredient::display_name` -/
def Ingredient.displayName {V : Type} (i : Ingredient V) : Str :=
  let name := if i.modifiers.contains Modifiers.RECIPE then (pathFileStem i.name).getD i.name else i.name
  i.alias.getD name

def IngredientRelation.isDefinition (r : IngredientRelation) : Bool := !r.relation.isReference

/-! ### one ingredient with its references -/

/-- the `Option<&Quantity>`s that `all_quantities` chains, `none` = `all_ingredients[i]` panics -/
def refQuantities (all : List (Ingredient (Value α))) : List Nat → Option (List (Option (SQuantity α)))
  | [] => some []
  | j :: rest =>
    match all[j]? with
    | none => none
    | some i =>
      match refQuantities all rest with
      | none => none
      | some qs => some (i.quantity :: qs)

/-- `Ingredient::all_quantities`, collected -/
def allQuantities (all : List (Ingredient (Value α))) (i : Ingredient (Value α)) :
    Option (List (SQuantity α)) :=
  match refQuantities all i.relation.relation.referencedFrom with
  | none => none
  | some qs => some ((i.quantity :: qs).filterMap id)

/-- `Ingredient::group_quantities`: add all, then `let _ = grouped.fit(converter)` -/
def groupQuantities (c : Converter α) (all : List (Ingredient (Value α))) (i : Ingredient (Value α)) :
    Option (GroupedQuantity α) :=
  match allQuantities all i with
  | none => none
  | some qs => some ((GroupedQuantity.addAll c GroupedQuantity.empty qs).fit c).1

/-- `GroupedIngredient` without the scaling outcome -/
structure GroupedIngredient (α : Type) where
  index : Nat
  ingredient : Ingredient (Value α)
  quantity : GroupedQuantity α

def groupFrom (c : Converter α) (all : List (Ingredient (Value α))) :
    Nat → List (Ingredient (Value α)) → Option (List (GroupedIngredient α))
  | _, [] => some []
  | idx, i :: rest =>
    if !i.relation.isDefinition then groupFrom c all (idx + 1) rest
    else
      match groupQuantities c all i with
      | none => none
      | some g =>
        match groupFrom c all (idx + 1) rest with
        | none => none
        | some l => some (⟨idx, i, g⟩ :: l)

/-- `ScaledRecipe::group_ingredients`: the definitions, in recipe order -/
def groupIngredients (c : Converter α) (r : ScaledRecipe α) : Option (List (GroupedIngredient α)) :=
  groupFrom c r.ingredients 0 r.ingredients

/-! ### cookware -/

def refAmounts (all : List (Cookware (Value α))) : List Nat → Option (List (Option (Value α)))
  | [] => some []
  | j :: rest =>
    match all[j]? with
    | none => none
    | some i =>
      match refAmounts all rest with
      | none => none
      | some qs => some (i.quantity :: qs)

/-- `Cookware::all_amounts`, collected -/
def allAmounts (all : List (Cookware (Value α))) (i : Cookware (Value α)) : Option (List (Value α)) :=
  match refAmounts all i.relation.referencedFrom with
  | none => none
  | some qs => some ((i.quantity :: qs).filterMap id)

/-- `Cookware::group_amounts` -/
def groupAmounts (all : List (Cookware (Value α))) (i : Cookware (Value α)) : Option (List (Value α)) :=
  match allAmounts all i with
  | none => none
  | some vs => groupedValueAddAll [] vs

/-! ### `BTreeMap<String, _>` -/

/-- `Ord for str`: lexicographic on the bytes = on the code points -/
def strCmp : Str → Str → Ordering
  | [], [] => .eq
  | [], _ :: _ => .lt
  | _ :: _, [] => .gt
  | a :: as, b :: bs =>
    if a.toNat < b.toNat then .lt else if b.toNat < a.toNat then .gt else strCmp as bs

abbrev BMap (β : Type) := List (Str × β)

namespace BMap
variable {β : Type}

def get? (m : BMap β) (k : Str) : Option β :=
  match m with
  | [] => none
  | e :: rest => if e.1 = k then some e.2 else get? rest k

/-- overwrite the value of the entry that `get?` finds -/
def replace (k : Str) (v : β) : BMap β → BMap β
  | [] => []
  | e :: rest => if e.1 = k then (e.1, v) :: rest else e :: replace k v rest

/-- put a new key at its place -/
def insertSorted (k : Str) (v : β) : BMap β → BMap β
  | [] => [(k, v)]
  | e :: rest =>
    match strCmp k e.1 with
    | .gt => e :: insertSorted k v rest
    | _ => (k, v) :: e :: rest

/-- the entry of `k` becomes `f (its old value, if any)`: covers `insert`, `entry().or_default()`
    followed by a mutation, and the `Entry::{Vacant,Occupied}` match of the repaired `categorize` -/
def upsert (k : Str) (f : Option β → β) (m : BMap β) : BMap β :=
  match m.get? k with
  | some old => replace k (f (some old)) m
  | none => insertSorted k (f none) m

end BMap

/-! ### `IngredientList` -/

abbrev IngredientList (α : Type) := BMap (GroupedQuantity α)

/-- `self.0.entry(name).or_default().merge(quantity, converter)` -/
def addIngredient (ord : MapOrder α) (c : Converter α) (list : IngredientList α) (name : Str)
    (quantity : GroupedQuantity α) : IngredientList α :=
  BMap.upsert name (fun old => GroupedQuantity.merge ord c (old.getD GroupedQuantity.empty) quantity) list

/-- one iteration of the loop of `add_recipe` -/
def addEntry (ord : MapOrder α) (c : Converter α) (list : IngredientList α) (e : GroupedIngredient α) :
    IngredientList α :=
  if !e.ingredient.modifiers.shouldBeListed then list
  else addIngredient ord c list e.ingredient.displayName e.quantity

/-- `IngredientList::add_recipe`; `none` = `group_ingredients` panics on an index -/
def addRecipe (ord : MapOrder α) (c : Converter α) (list : IngredientList α) (r : ScaledRecipe α) :
    Option (IngredientList α) :=
  match groupIngredients c r with
  | none => none
  | some entries => some (entries.foldl (addEntry ord c) list)

/-- a sequence of `add_recipe` calls -/
def addRecipes (ord : MapOrder α) (c : Converter α) (list : IngredientList α) :
    List (ScaledRecipe α) → Option (IngredientList α)
  | [] => some list
  | r :: rest =>
    match addRecipe ord c list r with
    | none => none
    | some l => addRecipes ord c l rest

/-! ### `categorize` -/

structure Categorized (α : Type) where
  categories : BMap (IngredientList α)
  other : IngredientList α

/-- the `match category.0.entry(common_name)` of the repaired code -/
def intoCommon (ord : MapOrder α) (quantity : GroupedQuantity α) :
    Option (GroupedQuantity α) → GroupedQuantity α
  | none => quantity
  | some g => g.absorb ord quantity

/-- one iteration of the loop of `categorize` -/
def categorizeStep (ord : MapOrder α) (aisle : Aisle.Conf) (acc : Categorized α)
    (e : Str × GroupedQuantity α) : Categorized α :=
  match Aisle.lookup aisle e.1 with
  | some info =>
    { acc with categories := (BMap.upsert info.category
        (fun cat => BMap.upsert info.common (intoCommon ord e.2) (cat.getD [])) acc.categories) }
  | none => { acc with other := BMap.upsert e.1 (fun _ => e.2) acc.other }

/-- `IngredientList::categorize` (as repaired) -/
def categorize (ord : MapOrder α) (aisle : Aisle.Conf) (list : IngredientList α) : Categorized α :=
  list.foldl (categorizeStep ord aisle) ⟨[], []⟩

/-- the loop body before the repair: `.insert(info.common_name.to_string(), quantity)` -/
def categorizeStepOrig (aisle : Aisle.Conf) (acc : Categorized α)
    (e : Str × GroupedQuantity α) : Categorized α :=
  match Aisle.lookup aisle e.1 with
  | some info =>
    { acc with categories := (BMap.upsert info.category
        (fun cat => BMap.upsert info.common (fun _ => e.2) (cat.getD [])) acc.categories) }
  | none => { acc with other := BMap.upsert e.1 (fun _ => e.2) acc.other }

def categorizeOrig (aisle : Aisle.Conf) (list : IngredientList α) : Categorized α :=
  list.foldl (categorizeStepOrig aisle) ⟨[], []⟩

end Cook
