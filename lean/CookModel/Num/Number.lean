import CookModel.Basic.Arith
import CookModel.Basic.Proto
/-
  Model of `cooklang::quantity::{Number, Value}` (src/quantity.rs).
-/
namespace Cook
open Arith

inductive Number (α : Type) where
  | regular (v : α)
  | fraction (whole num den : Nat) (err : α)
deriving Repr, Inhabited, DecidableEq

/-- `Number::value`: `whole as f64 + err + num as f64 / den as f64` (this order). -/
def Number.value {α} [Arith α] : Number α → α
  | .regular v => v
  | .fraction w n d e => (Arith.ofNat w + e) + (Arith.ofNat n : α) / Arith.ofNat d

inductive Value (α : Type) where
  | number (n : Number α)
  | range (s e : Number α)
  | text (t : List Char)
deriving Repr, Inhabited, DecidableEq

def Value.isText {α} : Value α → Bool
  | .text _ => true
  | _ => false

/-- How `Display for Number` spells a fraction (without the alternate error suffix). -/
inductive FracForm where
  | zero
  | frac (n d : Nat)
  | whole (w : Nat)
  | mixed (w n d : Nat)
deriving Repr, DecidableEq

/-- The `match (whole, num, den)` of `Display for Number`, after the `value() == 0` test. -/
def fracForm (valueIsZero : Bool) (w n d : Nat) : FracForm :=
  if valueIsZero then .zero
  else if w = 0 ∧ n = 0 then .zero
  else if w = 0 then .frac n d
  else if n = 0 then .whole w
  else .mixed w n d

def FracForm.render : FracForm → String
  | .zero => "0"
  | .frac n d => s!"{n}/{d}"
  | .whole w => s!"{w}"
  | .mixed w n d => s!"{w} {n}/{d}"

/-- What a reader understands by the printed form. -/
def FracForm.denote : FracForm → Rat
  | .zero => 0
  | .frac n d => (n : Rat) / d
  | .whole w => w
  | .mixed w n d => (w : Rat) + (n : Rat) / d

def Number.render {α} [Arith α] : Number α → String
  | .regular v => s!"R {Arith.render v}"
  | .fraction w n d e => s!"F {w} {n} {d} {Arith.render e}"

def Value.render {α} [Arith α] : Value α → String
  | .number n => s!"(num {n.render})"
  | .range s e => s!"(range {s.render} {e.render})"
  | .text t => s!"(text {Proto.renderText t})"

end Cook
