import CookModel.Num.IngList
import CookModel.Gen.DisplayConsts
/-
  Model of the user-facing printing code:
    src/quantity.rs   `round_float`, `impl Display for Number` (plain `{}` and alternate `{:#}`),
                      `impl Display for Value`, `for ScalableValue`, `for Quantity<V>`,
                      `display_comma_separated`, `impl Display for GroupedQuantity / GroupedValue`
    src/model.rs      `Cookware::display_name` (`Ingredient::display_name` is in Num/IngList.lean)
  and of what the code relies on from std: `impl Display for f64` (`{}` and `{:+}`), which prints the
  SHORTEST decimal numeral that reads back as the same f64 (closest to the exact value among the
  shortest; never exponent notation; `NaN`, `inf`, `-0`).

  Written once over `[Arith α] [FloatText α]`; `FloatText` is the one extra operation the printing
  code needs from the number type (the text `Display for f64` gives):
    * `Float`: an exact shortest-round-trip printer over natural-number arithmetic (`f64Text`),
      compared with Rust's `format!("{}")` / `format!("{:+}")` by the correspondence run;
    * `Rat`  : the exact decimal expansion when it terminates (`ratText`) — every number the printing
      code hands to `Display for f64` has been through `round_float`, i.e. is `k/1000`.

  Only the flags `{}` and `{:#}` are modelled (no width / precision / fill).  There is no panic site
  in this code: no slicing, no indexing, no `unwrap`/`expect`; `write!` errors are passed on with `?`.
  What is a *behaviour* and easy to miss:
    * `Value::Range` and `ScalableValue::Linear` print through `write!(f, "{..}")`, i.e. with a fresh
      default format spec: the alternate flag is DROPPED there (a range never shows error suffixes);
      `Value::Number`, `ScalableValue::Fixed` and `Quantity` call `.fmt(f)` and keep the flag;
    * the early `return write!(f, "{}", 0.0)` of a fraction whose value is zero skips the suffix.
-/
namespace Cook
open Arith

/-! ### decimal numerals -/

/-- sign prefix of `Display for f64`: `-` for a set sign bit, `+` for the others under `{:+}` -/
def signText (neg plus : Bool) : List Char :=
  if neg then ['-'] else if plus then ['+'] else []

/-- `r` as exactly `j` decimal digits (leading zeros), for `r < 10^j` -/
def padDigits (j r : Nat) : List Char :=
  List.replicate (j - (Nat.toDigits 10 r).length) '0' ++ Nat.toDigits 10 r

/-- the numeral of `c / 10^j`: integer part and, when `j > 0`, a point and exactly `j` digits -/
def fixedText (c j : Nat) : List Char :=
  if j = 0 then Nat.toDigits 10 c
  else Nat.toDigits 10 (c / 10 ^ j) ++ '.' :: padDigits j (c % 10 ^ j)

/-- drop trailing zeros of the fraction digits: `c / 10^j` with `j` minimal -/
def stripZeros (c : Nat) : Nat → Nat × Nat
  | 0 => (c, 0)
  | j + 1 => if c % 10 = 0 then stripZeros (c / 10) j else (c, j + 1)

/-- the numeral of `c · 10^(-s)` as `Display for f64` lays digits out: no exponent, no trailing
    zeros after the point, no point without digits after it -/
def decimalText (c : Nat) (s : Int) : List Char :=
  if s ≤ 0 then Nat.toDigits 10 (c * 10 ^ (-s).toNat)
  else fixedText (stripZeros c s.toNat).1 (stripZeros c s.toNat).2

/-! ### `Display for f64`, shortest round-trip digits (flt2dec `format_shortest`) -/

/-- number of decimal digits (1 for 0) -/
def decLen (n : Nat) : Nat := (Nat.toDigits 10 n).length

/-- `num/den ≥ 10^q` -/
def geP10 (num den : Nat) (q : Int) : Bool :=
  if q ≥ 0 then decide (num ≥ den * 10 ^ q.toNat) else decide (num * 10 ^ (-q).toNat ≥ den)

/-- the `k` with `10^(k-1) ≤ num/den < 10^k` (`num, den > 0`) -/
def decExponent (num den : Nat) : Int :=
  let est : Int := (decLen num : Int) - (decLen den : Int)
  if geP10 num den est then est + 1 else est

/-- f64 bits of the decimal `c · 10^(-s)` read as `str::parse::<f64>` reads it -/
def bitsOfDecimal (c : Nat) (s : Int) : UInt64 :=
  if s ≥ 0 then decToF64Bits c s.toNat else ratToF64Bits (c * 10 ^ (-s).toNat) 1

/-- `num/den · 10^s` as a fraction of naturals -/
def scaledNum (num : Nat) (s : Int) : Nat := if s ≥ 0 then num * 10 ^ s.toNat else num
def scaledDen (den : Nat) (s : Int) : Nat := if s ≥ 0 then den else den * 10 ^ (-s).toNat

/-- Digit generation of `format_shortest`: with `n` digits (position `s = n - k` after the point)
    the truncated candidate `lo` and its successor `lo + 1`; stop at the first `n` at which one of
    them reads back as the same f64 (`down` / `up`); both: the closer one, the upper one on a tie.
    `mb` = bits of the magnitude; result `(c, s)` stands for `c · 10^(-s)`.  17 digits always
    suffice; when the fuel is out the truncated candidate is returned. -/
def shortestFrom (mb : UInt64) (num den : Nat) (k : Int) : Nat → Nat → Nat × Int
  | 0, n => (scaledNum num ((n : Int) - k) / scaledDen den ((n : Int) - k), (n : Int) - k)
  | fuel + 1, n =>
    let s : Int := (n : Int) - k
    let lo := scaledNum num s / scaledDen den s
    let rem := scaledNum num s % scaledDen den s
    let down := bitsOfDecimal lo s == mb
    let up := bitsOfDecimal (lo + 1) s == mb
    if up && (!down || decide (2 * rem ≥ scaledDen den s)) then (lo + 1, s)
    else if down then (lo, s)
    else shortestFrom mb num den k fuel (n + 1)

/-- shortest digits of the positive finite f64 with magnitude bits `mb` and exact value `num/den` -/
def shortestDigits (mb : UInt64) (num den : Nat) : Nat × Int :=
  shortestFrom mb num den (decExponent num den) 17 1

/-- `format!("{}", x)` (`plus = false`) / `format!("{:+}", x)` (`plus = true`) of an f64 -/
def f64Text (plus : Bool) (x : Float) : List Char :=
  let b : Nat := x.toBits.toNat
  let neg := decide (b / 2 ^ 63 = 1)
  let ex : Nat := (b / 2 ^ 52) % 2048
  let fr : Nat := b % 2 ^ 52
  if ex = 2047 then (if fr = 0 then signText neg plus ++ ['i', 'n', 'f'] else ['N', 'a', 'N'])
  else if ex = 0 ∧ fr = 0 then signText neg plus ++ ['0']
  else
    let m : Nat := if ex = 0 then fr else 2 ^ 52 + fr
    let e : Int := if ex = 0 then -1074 else (ex : Int) - 1075
    let num : Nat := if e ≥ 0 then m * 2 ^ e.toNat else m
    let den : Nat := if e ≥ 0 then 1 else 2 ^ (-e).toNat
    let r := shortestDigits (UInt64.ofNat (b % 2 ^ 63)) num den
    signText neg plus ++ decimalText r.1 r.2

/-! ### exact rationals -/

/-- the least `j ≤ den` with `den ∣ 10^j`: the number of decimals of a terminating expansion -/
def ratDecimalPlaces (den : Nat) : Option Nat :=
  (List.range (den + 1)).find? (fun j => 10 ^ j % den == 0)

/-- The decimal numeral of a rational whose expansion terminates.  (A rational with a
    non-terminating expansion has no `Display for f64` text at all; it is written `?num/den` so that
    the function is total — nothing the printing code prints is of this kind, see `roundFloat`.) -/
def ratText (plus : Bool) (x : Rat) : List Char :=
  match ratDecimalPlaces x.den with
  | some j => signText (decide (x < 0)) plus ++ fixedText (x.num.natAbs * 10 ^ j / x.den) j
  | none => '?' :: (ratRender x).toList

/-- what the printing code needs from the number type beyond `Arith`: `Display for f64` -/
class FloatText (α : Type) where
  /-- `format!("{}", x)` (`false`) / `format!("{:+}", x)` (`true`) -/
  text : Bool → α → List Char

instance : FloatText Float := ⟨f64Text⟩
instance : FloatText Rat := ⟨ratText⟩

/-! ### the printing code -/

variable {α : Type} [Arith α] [FloatText α]

/-- `round_float`: `(n * 1000.0).round() / 1000.0` -/
def roundFloat (n : α) : α :=
  Arith.round (n * Arith.const Gen.ROUND_MUL) / Arith.const Gen.ROUND_DIV

/-- the alternate-form suffix ` (+0.003)`: `write!(f, " ({:+})", round_float(err))` under
    `f.alternate() && err.abs() > 0.001` -/
def errSuffix (alt : Bool) (err : α) : List Char :=
  if alt && Arith.lt (Arith.const Gen.ALT_ERR_MIN) (Arith.abs err) then
    [' ', '('] ++ FloatText.text true (roundFloat err) ++ [')']
  else []

/-- `impl Display for Number`; `alt` = the `#` flag -/
def Number.display (alt : Bool) : Number α → List Char
  | .regular v => FloatText.text false (roundFloat v)
  | .fraction w n d e =>
    if Arith.eq (Number.value (.fraction w n d e)) (Arith.ofNat 0) then
      FloatText.text false (Arith.ofNat 0 : α)
    else (fracForm false w n d).render.toList ++ errSuffix alt e

/-- `impl Display for Value`: a number is printed with the caller's formatter (`n.fmt(f)`), the ends
    of a range with a fresh one (`write!(f, "{start}-{end}")`: never alternate), a text as it is -/
def Value.display (alt : Bool) : Value α → List Char
  | .number n => n.display alt
  | .range s e => s.display false ++ '-' :: e.display false
  | .text t => t

/-- `impl Display for ScalableValue`: `Fixed(v) => v.fmt(f)`, `Linear(v) => write!(f, "{v}")` -/
def ScalableValue.display (alt : Bool) : ScalableValue α → List Char
  | .fixed v => v.display alt
  | .linear v => v.display false

/-- the unit part of `impl Display for Quantity<V>` -/
def unitSuffix : Option Str → List Char
  | some u => ' ' :: u
  | none => []

/-- `impl Display for Quantity<Value>` (`ScaledQuantity`) -/
def SQuantity.display (alt : Bool) (q : SQuantity α) : List Char :=
  q.value.display alt ++ unitSuffix q.unit

/-- `impl Display for Quantity<ScalableValue>` (`ScalableQuantity`) -/
def Quantity.displayScalable (alt : Bool) (q : Quantity (ScalableValue α)) : List Char :=
  q.value.display alt ++ unitSuffix q.unit

/-- `display_comma_separated` over the already printed items (`write!(f, "{first}")`,
    `write!(f, ", {q}")`: the items are printed without the alternate flag) -/
def commaSeparated : List (List Char) → List Char
  | [] => []
  | [x] => x
  | x :: y :: rest => x ++ ',' :: ' ' :: commaSeparated (y :: rest)

/-- `impl Display for GroupedQuantity`: `iter()` order (`ord` = the hash map's order) -/
def GroupedQuantity.display (ord : MapOrder α) (g : GroupedQuantity α) : List Char :=
  commaSeparated ((g.iter ord).map (SQuantity.display false))

/-- `impl Display for GroupedValue` -/
def groupedValueDisplay (g : List (Value α)) : List Char :=
  commaSeparated (g.map (Value.display false))

/-- `Cookware::display_name`: `self.alias.as_ref().unwrap_or(&self.name)` -/
def Cookware.displayName {V : Type} (c : Cookware V) : Str := c.alias.getD c.name

end Cook
