import CookModel.Num.Convert
/-
  Model of the grouping code of src/quantity.rs:
    `Value::try_add`, `Quantity::compatible_unit`, `ScaledQuantity::try_add`,
    `GroupedQuantity::{empty, add, merge, fit, iter, absorb}`, `GroupedValue::{add, merge}`.

  `absorb` is the converter-free merge added by the repair of DESIGN.md §8 item 8
  (fixes/0001-fix-categorize-…: `IngredientList::categorize` overwrote an entry when two listed names share an
  aisle common name).

  Representation:
    * `known : EnumMap<PhysicalQuantity, Option<_>>` is a function `PhysQ → Option _`;
    * `unknown : HashMap<String, _>` is an association list (lookup / replace / insert only);
      where the code ITERATES the map (`iter`, hence `merge`; `absorb`) the iteration order is the
      explicit parameter `ord : MapOrder` and the theorems hold for every order that is a
      permutation of the entries;
    * `other : Vec<_>`, pushes append.
  Written once over `[Arith α]`; statement order of the code.
-/
namespace Cook
open Arith

variable {α : Type} [Arith α]

/-! ### `Value::try_add`, `compatible_unit`, `ScaledQuantity::try_add` -/

/-- `impl TryAdd for Value`: the sum is always `Number::Regular` of the `value()`s; the error
    carries the text operand (`TextValueError`) -/
def Value.tryAdd : Value α → Value α → Except (Value α) (Value α)
  | .number a, .number b => .ok (.number (.regular (a.value + b.value)))
  | .number n, .range s e => .ok (.range (.regular (s.value + n.value)) (.regular (e.value + n.value)))
  | .range s e, .number n => .ok (.range (.regular (s.value + n.value)) (.regular (e.value + n.value)))
  | .range s1 e1, .range s2 e2 =>
    .ok (.range (.regular (s1.value + s2.value)) (.regular (e1.value + e2.value)))
  | .text t, _ => .error (.text t)
  | .number _, .text t => .error (.text t)
  | .range _ _, .text t => .error (.text t)

/-- `IncompatibleUnits` -/
inductive UnitIncompat where
  | missingUnit (found : Str) (lhs : Bool)
  | differentPhysicalQuantities (a b : PhysQ)
  | unknownDifferentUnits (a b : Str)
deriving Repr, DecidableEq, Inhabited

/-- `Quantity::compatible_unit`: the unit to convert the right operand to, if any -/
def qCompatibleUnit (c : Converter α) (l r : SQuantity α) : Except UnitIncompat (Option (Unit α)) :=
  match l.unit, r.unit with
  | none, none => .ok none
  | none, some u => .error (.missingUnit u false)
  | some u, none => .error (.missingUnit u true)
  | some a, some b =>
    match c.findUnit a, c.findUnit b with
    | some ua, some ub =>
      if ua.pq ≠ ub.pq then .error (.differentPhysicalQuantities ua.pq ub.pq) else .ok (some ua)
    | _, _ => if a ≠ b then .error (.unknownDifferentUnits a b) else .ok none

/-- `QuantityAddError` -/
inductive AddErr (α : Type) where
  | incompatible (e : UnitIncompat)
  | textValue (v : Value α)
  | convert (e : ConvErr)

/-- step 2 of `try_add`: `rhs.convert(&to, converter)?` when there is a common unit -/
def convertRhs (c : Converter α) (r : SQuantity α) : Option (Unit α) →
    SQuantity α × Except ConvErr _root_.Unit
  | some to => convertImpl c r (.unit (.unit to))
  | none => (r, .ok ())

/-- `ScaledQuantity::try_add` -/
def qTryAdd (c : Converter α) (l r : SQuantity α) : Except (AddErr α) (SQuantity α) :=
  match qCompatibleUnit c l r with
  | .error e => .error (.incompatible e)
  | .ok convertTo =>
    match (convertRhs c r convertTo).2 with
    | .error e => .error (.convert e)
    | .ok _ =>
      match l.value.tryAdd (convertRhs c r convertTo).1.value with
      | .error t => .error (.textValue t)
      | .ok v => .ok ⟨v, l.unit⟩

/-! ### `GroupedQuantity` -/

structure GroupedQuantity (α : Type) where
  known : PhysQ → Option (SQuantity α)
  unknown : List (Str × SQuantity α)
  noUnit : Option (SQuantity α)
  other : List (SQuantity α)

/-- an iteration order of the `unknown` hash map -/
abbrev MapOrder (α : Type) := List (Str × SQuantity α) → List (Str × SQuantity α)

/-- what a hash map's iteration is allowed to be: some permutation of its entries -/
def MapOrder.IsPerm (ord : MapOrder α) : Prop := ∀ l, (ord l).Perm l

namespace GroupedQuantity

def empty : GroupedQuantity α := ⟨fun _ => none, [], none, []⟩

/-- `self.known[pq] = Some(q)` / `*stored = q` for a known slot -/
def setKnown (g : GroupedQuantity α) (pq : PhysQ) (q : SQuantity α) : GroupedQuantity α :=
  { g with known := fun p => if p = pq then some q else g.known p }

/-- `*stored = q` through `unknown.get_mut(key)`: the entry that `lookup` finds is overwritten -/
def replaceUnknown : List (Str × SQuantity α) → Str → SQuantity α → List (Str × SQuantity α)
  | [], _, _ => []
  | e :: rest, key, q => if key == e.1 then (e.1, q) :: rest else e :: replaceUnknown rest key q

def pushOther (g : GroupedQuantity α) (q : SQuantity α) : GroupedQuantity α :=
  { g with other := g.other ++ [q] }

/-- the macro `add!`: the new stored value, or `none` when `try_add` fails (the quantity is then
    pushed to `other`) -/
def addTo (c : Converter α) (stored q : SQuantity α) : Option (SQuantity α) :=
  match qTryAdd c stored q with
  | .ok n => some n
  | .error _ => none

/-- `GroupedQuantity::add` (quantity.rs:439) -/
def add (c : Converter α) (g : GroupedQuantity α) (q : SQuantity α) : GroupedQuantity α :=
  if q.value.isText then g.pushOther q else
  match q.unit with
  | none =>
    match g.noUnit with
    | some stored =>
      match addTo c stored q with
      | some n => { g with noUnit := some n }
      | none => g.pushOther q
    | none => { g with noUnit := some q }
  | some unitText =>
    match c.findUnit unitText with
    | some unit =>
      match g.known unit.pq with
      | some stored =>
        match addTo c stored q with
        | some n => g.setKnown unit.pq n
        | none => g.pushOther q
      | none => g.setKnown unit.pq q
    | none =>
      match g.unknown.lookup unitText with
      | some stored =>
        match addTo c stored q with
        | some n => { g with unknown := replaceUnknown g.unknown unitText n }
        | none => g.pushOther q
      | none => { g with unknown := g.unknown ++ [(unitText, q)] }

def addAll (c : Converter α) (g : GroupedQuantity α) (qs : List (SQuantity α)) : GroupedQuantity α :=
  qs.foldl (add c) g

/-- the `Some` entries of `known` in `EnumMap` (declaration) order -/
def knownList (g : GroupedQuantity α) : List (SQuantity α) := PhysQ.all.filterMap g.known

/-- `GroupedQuantity::iter`: known (enum order), unknown (hash order), other, no-unit -/
def iter (ord : MapOrder α) (g : GroupedQuantity α) : List (SQuantity α) :=
  g.knownList ++ (ord g.unknown).map (·.2) ++ g.other ++ g.noUnit.toList

/-- `GroupedQuantity::merge` -/
def merge (ord : MapOrder α) (c : Converter α) (g other : GroupedQuantity α) : GroupedQuantity α :=
  addAll c g (other.iter ord)

/-- the loop of `GroupedQuantity::fit` over the known slots; `q.fit(converter)?` leaves on the
    first error (the slot holds whatever `fit` left in it) -/
def fitKnown (c : Converter α) (g : GroupedQuantity α) : List PhysQ →
    GroupedQuantity α × Except ConvErr _root_.Unit
  | [] => (g, .ok ())
  | pq :: rest =>
    match g.known pq with
    | none => fitKnown c g rest
    | some q =>
      match (Cook.fit c q).2 with
      | .ok _ => fitKnown c (g.setKnown pq (Cook.fit c q).1) rest
      | .error e => (g.setKnown pq (Cook.fit c q).1, .error e)

/-- `GroupedQuantity::fit` -/
def fit (c : Converter α) (g : GroupedQuantity α) : GroupedQuantity α × Except ConvErr _root_.Unit :=
  fitKnown c g PhysQ.all

/-- the local `fn join` of `absorb`: the stored total after adding `q`, or `none` = `q` goes to
    `other` -/
def joinTo (stored q : SQuantity α) : Option (SQuantity α) :=
  if stored.unit = q.unit then
    match stored.value.tryAdd q.value with
    | .ok v => some ⟨v, stored.unit⟩
    | .error _ => none
  else none

/-- first loop of `absorb`: `for (pq, q) in other.known` -/
def absorbKnown (g : GroupedQuantity α) (known : PhysQ → Option (SQuantity α)) :
    List PhysQ → GroupedQuantity α
  | [] => g
  | pq :: rest =>
    match known pq with
    | none => absorbKnown g known rest
    | some q =>
      match g.known pq with
      | some stored =>
        match joinTo stored q with
        | some n => absorbKnown (g.setKnown pq n) known rest
        | none => absorbKnown (g.pushOther q) known rest
      | none => absorbKnown (g.setKnown pq q) known rest

/-- second loop of `absorb`: `for (unit, q) in other.unknown` (already in iteration order) -/
def absorbUnknown (g : GroupedQuantity α) : List (Str × SQuantity α) → GroupedQuantity α
  | [] => g
  | e :: rest =>
    match g.unknown.lookup e.1 with
    | some stored =>
      match joinTo stored e.2 with
      | some n => absorbUnknown { g with unknown := replaceUnknown g.unknown e.1 n } rest
      | none => absorbUnknown (g.pushOther e.2) rest
    | none => absorbUnknown { g with unknown := g.unknown ++ [e] } rest

def absorbNoUnit (g : GroupedQuantity α) : Option (SQuantity α) → GroupedQuantity α
  | none => g
  | some q =>
    match g.noUnit with
    | some stored =>
      match joinTo stored q with
      | some n => { g with noUnit := some n }
      | none => g.pushOther q
    | none => { g with noUnit := some q }

/-- `GroupedQuantity::absorb` (the repair): merge without a converter -/
def absorb (ord : MapOrder α) (g other : GroupedQuantity α) : GroupedQuantity α :=
  let g1 := absorbKnown g other.known PhysQ.all
  let g2 := absorbUnknown g1 (ord other.unknown)
  let g3 := absorbNoUnit g2 other.noUnit
  { g3 with other := g3.other ++ other.other }

end GroupedQuantity

/-! ### `GroupedValue` (cookware amounts) -/

/-- `GroupedValue::add`; `none` = the `expect("non text to non text value add error")` fires -/
def groupedValueAdd (g : List (Value α)) (v : Value α) : Option (List (Value α)) :=
  match g with
  | [] => some [v]
  | first :: rest =>
    if v.isText then some (g ++ [v])
    else if first.isText then some (v :: g)
    else
      match first.tryAdd v with
      | .ok s => some (s :: rest)
      | .error _ => none

def groupedValueAddAll (g : List (Value α)) : List (Value α) → Option (List (Value α))
  | [] => some g
  | v :: vs =>
    match groupedValueAdd g v with
    | none => none
    | some g' => groupedValueAddAll g' vs

/-- `GroupedValue::merge` -/
def groupedValueMerge (g other : List (Value α)) : Option (List (Value α)) := groupedValueAddAll g other

end Cook
