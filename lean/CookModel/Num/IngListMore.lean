import CookModel.Num.IngList
import CookModel.Num.Scale
/-
  Further pieces of src/ingredient_list.rs (second audit of C10):
  * `IngredientList::from_recipe` — the one-recipe constructor (`new()` followed by `add_recipe`);
  * the closure of `ScaledRecipe::group_ingredients` that folds the scaling outcomes of a definition and of its
    references into `GroupedIngredient::outcome`.
  Tied to the code by the driver operations `gr fromrecipe` and `gr outcome` (Driver/GroupMore.lean).
-/
namespace Cook
open Arith

variable {α : Type} [Arith α]

/-- `IngredientList::from_recipe` (ingredient_list.rs:147): `let mut list = Self::new(); list.add_recipe(recipe,
    converter); list`; `none` = `group_ingredients` panics on an index -/
def fromRecipe (ord : MapOrder α) (c : Converter α) (r : ScaledRecipe α) : Option (IngredientList α) :=
  addRecipe ord c [] r

/-- the loop `for index in once(index).chain(referenced_from)` over `data.ingredients[index]`:
    an `Error` is returned at once, a `Fixed` replaces what is held, anything else is skipped;
    `none` = the index is out of the outcome vector (panic) -/
def foldOutcomeLoop (outs : List ScaleOutcome) (held : ScaleOutcome) : List Nat → Option ScaleOutcome
  | [] => some held
  | j :: rest =>
    match outs[j]? with
    | none => none
    | some .error => some .error
    | some .fixed => foldOutcomeLoop outs .fixed rest
    | some _ => foldOutcomeLoop outs held rest

/-- `GroupedIngredient::outcome` of a scaled recipe (ingredient_list.rs:84-99): starts from the definition's own
    outcome, then folds the definition's and its references' outcomes -/
def foldOutcome (outs : List ScaleOutcome) (index : Nat) (refs : List Nat) : Option ScaleOutcome :=
  match outs[index]? with
  | none => none
  | some own => foldOutcomeLoop outs own (index :: refs)

end Cook
