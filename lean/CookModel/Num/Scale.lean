import CookModel.Num.Convert
/-
  Model of src/scale.rs (scaling of a parsed recipe) and of the decision which values are
  `Linear` (src/analysis/event_consumer.rs:1031-1059).

  Written over `[Arith α]`: theorems at `α := Rat` (Props/C08.lean), the driver at `α := Float`.
  Unit fitting after scaling is `fit` of Num/Convert.lean (property C09).
-/
namespace Cook
open Arith

variable {α : Type} [Arith α]

/-- `ScaleOutcome` (the error payload is not modelled: it is skipped by serde as well) -/
inductive ScaleOutcome where
  | scaled | fixed | noQuantity | error
deriving Repr, DecidableEq, Inhabited

/-- `RecipeParser::value` (event_consumer.rs:1031): `Linear` iff ingredient, not text, no `=` lock -/
def mkScalable (isIngredient hasLock : Bool) (v : Value α) : ScalableValue α :=
  if isIngredient && !v.isText && !hasLock then .linear v else .fixed v

/-- `linear_scale` (scale.rs:226); `none` = `TextValueError` -/
def linearScale (v : Value α) (factor : α) : Option (Value α) :=
  match v with
  | .number n => some (.number (.regular (n.value * factor)))
  | .range s e => some (.range (.regular (s.value * factor)) (.regular (e.value * factor)))
  | .text _ => none

/-- `Scale for ScalableValue` (scale.rs:205) -/
def ScalableValue.scale (sv : ScalableValue α) (factor : α) : Value α × ScaleOutcome :=
  match sv with
  | .fixed v => (v, .fixed)
  | .linear v =>
    match linearScale v factor with
    | some v' => (v', .scaled)
    | none => (v, .error)

/-- `Scale::default_scale for ScalableValue` -/
def ScalableValue.defaultScale : ScalableValue α → Value α
  | .fixed v => v
  | .linear v => v

/-- `Scale for ScalableQuantity` -/
def scaleQuantity (q : Quantity (ScalableValue α)) (factor : α) : SQuantity α × ScaleOutcome :=
  (⟨(q.value.scale factor).1, q.unit⟩, (q.value.scale factor).2)

def defaultScaleQuantity (q : Quantity (ScalableValue α)) : SQuantity α :=
  ⟨q.value.defaultScale, q.unit⟩

/-- `self.quantity.map(|q| q.scale(target)).unzip()` + `outcome.unwrap_or(NoQuantity)` -/
def scaleOptQuantity (q : Option (Quantity (ScalableValue α))) (factor : α) :
    Option (SQuantity α) × ScaleOutcome :=
  match q with
  | none => (none, .noQuantity)
  | some q => (some (scaleQuantity q factor).1, (scaleQuantity q factor).2)

/-- `if let Some(q) = &mut i.quantity { let _ = q.fit(converter); }` -/
def fitOpt (c : Converter α) : Option (SQuantity α) → Option (SQuantity α)
  | none => none
  | some q => some (fit c q).1

/-- `Scale for Ingredient` followed by the fitting closure of `ScalableRecipe::scale` -/
def scaleIngredient (c : Converter α) (factor : α) (i : Ingredient (ScalableValue α)) :
    Ingredient (Value α) × ScaleOutcome :=
  ({ name := i.name, alias := i.alias,
     quantity := fitOpt c (scaleOptQuantity i.quantity factor).1,
     note := i.note, reference := i.reference, relation := i.relation, modifiers := i.modifiers },
   (scaleOptQuantity i.quantity factor).2)

/-- `Scale for Cookware`: the quantity is a bare value, never fitted -/
def scaleCookware (factor : α) (k : Cookware (ScalableValue α)) : Cookware (Value α) × ScaleOutcome :=
  match k.quantity with
  | none =>
    ({ name := k.name, alias := k.alias, quantity := none, note := k.note, relation := k.relation,
       modifiers := k.modifiers }, .noQuantity)
  | some v =>
    ({ name := k.name, alias := k.alias, quantity := some (v.scale factor).1, note := k.note,
       relation := k.relation, modifiers := k.modifiers }, (v.scale factor).2)

/-- `Scale for Timer` followed by the fitting closure -/
def scaleTimer (c : Converter α) (factor : α) (t : Timer (ScalableValue α)) :
    Timer (Value α) × ScaleOutcome :=
  ({ name := t.name, quantity := fitOpt c (scaleOptQuantity t.quantity factor).1 },
   (scaleOptQuantity t.quantity factor).2)

/-- `ScaledData` -/
structure ScaledData (α : Type) where
  factor : α
  ingredients : List ScaleOutcome
  cookware : List ScaleOutcome
  timers : List ScaleOutcome

/-- `ScalableRecipe::scale` (scale.rs:111) -/
def recipeScale (c : Converter α) (r : ScalableRecipe α) (factor : α) : ScaledRecipe α × ScaledData α :=
  ({ sections := r.sections,
     ingredients := (r.ingredients.map (scaleIngredient c factor)).map (·.1),
     cookware := (r.cookware.map (scaleCookware factor)).map (·.1),
     timers := (r.timers.map (scaleTimer c factor)).map (·.1),
     inlineQuantities := r.inlineQuantities },
   { factor := factor,
     ingredients := (r.ingredients.map (scaleIngredient c factor)).map (·.2),
     cookware := (r.cookware.map (scaleCookware factor)).map (·.2),
     timers := (r.timers.map (scaleTimer c factor)).map (·.2) })

/-- the base of `scale_to_servings`: the first declared servings value, else 1 -/
def servingsBase : Option (List Nat) → Nat
  | some (s :: _) => s
  | _ => 1

/-- `ScalableRecipe::scale_to_servings` (scale.rs:160): `target as f64 / base as f64` -/
def recipeScaleToServings (c : Converter α) (r : ScalableRecipe α) (servings : Option (List Nat))
    (target : Nat) : ScaledRecipe α × ScaledData α :=
  recipeScale c r ((Arith.ofNat target : α) / Arith.ofNat (servingsBase servings))

/-- `ScalableRecipe::default_scale` (scale.rs:173) -/
def recipeDefaultScale (r : ScalableRecipe α) : ScaledRecipe α :=
  { sections := r.sections,
    ingredients := r.ingredients.map (fun i =>
      { name := i.name, alias := i.alias, quantity := i.quantity.map defaultScaleQuantity,
        note := i.note, reference := i.reference, relation := i.relation, modifiers := i.modifiers }),
    cookware := r.cookware.map (fun k =>
      { name := k.name, alias := k.alias, quantity := k.quantity.map ScalableValue.defaultScale,
        note := k.note, relation := k.relation, modifiers := k.modifiers }),
    timers := r.timers.map (fun t => { name := t.name, quantity := t.quantity.map defaultScaleQuantity }),
    inlineQuantities := r.inlineQuantities }

def ScaleOutcome.name : ScaleOutcome → String
  | .scaled => "scaled" | .fixed => "fixed" | .noQuantity => "noQuantity" | .error => "error"

end Cook
