import CookModel.Basic.Arith
import CookModel.Num.Fraction
/-
  Data types of the unit converter (src/convert/mod.rs): `PhysicalQuantity`, `System`, `Unit`,
  `FractionsConfig`, `Fractions`, `BestConversions(Store)`, `Converter`.

  The number type `ν` is a parameter: the generated table (Gen/Units.lean) is a converter
  description over `Const` (exact rational + f64 bit pattern of every literal of units.toml),
  the model runs over `α` with `[Arith α]`.

  Representation choices (all are data-structure invariants of `ConverterBuilder`, property C16):
  * `all_units[id]` references are resolved: best lists and the key index hold the `Unit`
    record itself, which carries its `id` (= index in `all_units`).  `std::ptr::eq(from, to)`
    of `Converter::convert_f64` is equality of ids.
  * `Fractions::unit` is keyed by unit id, as in the code; `fractions_config(unit)` looks the
    id up through `unit.symbol()` in the code, which is the unit's own id in a built converter.
-/
namespace Cook

abbrev UStr := List Char

inductive PhysQ where
  | volume | mass | length | temperature | time
deriving Repr, DecidableEq, Inhabited

inductive System where
  | metric | imperial
deriving Repr, DecidableEq, Inhabited

structure Unit (ν : Type) where
  id : Nat
  names : List UStr
  symbols : List UStr
  aliases : List UStr
  ratio : ν
  difference : ν
  pq : PhysQ
  system : Option System
deriving Repr, Inhabited, DecidableEq

/-- `Unit::all_keys`: names, then symbols, then aliases -/
def Unit.allKeys {ν} (u : Unit ν) : List UStr := u.names ++ u.symbols ++ u.aliases

/-- `Unit::symbol`: first symbol, or first name, or first alias; the code `expect`s one of them
    (a built converter has no key-less unit: `ConverterBuilderError::EmptyUnit`). -/
def Unit.symbol? {ν} (u : Unit ν) : Option UStr :=
  match u.symbols.head? with
  | some s => some s
  | none =>
    match u.names.head? with
    | some s => some s
    | none => u.aliases.head?

structure FracCfg (ν : Type) where
  enabled : Bool
  /-- `accuracy as f64` (the field is an `f32`) -/
  accuracy : ν
  maxDen : Nat
  maxWhole : Nat
deriving Repr, Inhabited

structure Fractions (ν : Type) where
  all : Option (FracCfg ν)
  metric : Option (FracCfg ν)
  imperial : Option (FracCfg ν)
  quantity : List (PhysQ × FracCfg ν)
  unit : List (Nat × FracCfg ν)
deriving Repr, Inhabited

/-- `BestConversions(Vec<(f64, usize)>)`, unit ids resolved -/
structure BestConversions (ν : Type) where
  entries : List (ν × Unit ν)
deriving Repr, Inhabited

inductive BestStore (ν : Type) where
  | unified (u : BestConversions ν)
  | bySystem (metric imperial : BestConversions ν)
deriving Repr, Inhabited

/-- `BestConversionsStore::conversions` -/
def BestStore.conversions {ν} (s : BestStore ν) (system : System) : BestConversions ν :=
  match s with
  | .unified u => u
  | .bySystem m i =>
    match system with
    | .metric => m
    | .imperial => i

structure Converter (ν : Type) where
  allUnits : List (Unit ν)
  best : PhysQ → BestStore ν
  fractions : Fractions ν
  defaultSystem : System
  /-- `static TABLE` of src/quantity.rs -/
  fracTable : List FracEntry

/-- The best lists as written in a units file, names resolved to units, before sorting. -/
inductive BestSpec (ν : Type) where
  | unified (u : List (Unit ν))
  | bySystem (metric imperial : List (Unit ν))
deriving Repr, Inhabited

/-- What the translator produces from units.toml. -/
structure ConverterDesc (ν : Type) where
  allUnits : List (Unit ν)
  best : PhysQ → BestSpec ν
  fractions : Fractions ν
  defaultSystem : System

def Unit.map {ν μ} (f : ν → μ) (u : Unit ν) : Unit μ :=
  { id := u.id, names := u.names, symbols := u.symbols, aliases := u.aliases,
    ratio := f u.ratio, difference := f u.difference, pq := u.pq, system := u.system }

def FracCfg.map {ν μ} (f : ν → μ) (c : FracCfg ν) : FracCfg μ :=
  { enabled := c.enabled, accuracy := f c.accuracy, maxDen := c.maxDen, maxWhole := c.maxWhole }

def Fractions.map {ν μ} (f : ν → μ) (c : Fractions ν) : Fractions μ :=
  { all := c.all.map (FracCfg.map f), metric := c.metric.map (FracCfg.map f),
    imperial := c.imperial.map (FracCfg.map f),
    quantity := c.quantity.map (fun p => (p.1, p.2.map f)),
    unit := c.unit.map (fun p => (p.1, p.2.map f)) }

def BestSpec.map {ν μ} (f : ν → μ) : BestSpec ν → BestSpec μ
  | .unified u => .unified (u.map (Unit.map f))
  | .bySystem m i => .bySystem (m.map (Unit.map f)) (i.map (Unit.map f))

def PhysQ.name : PhysQ → String
  | .volume => "volume" | .mass => "mass" | .length => "length"
  | .temperature => "temperature" | .time => "time"

def System.name : System → String
  | .metric => "metric" | .imperial => "imperial"

def PhysQ.all : List PhysQ := [.volume, .mass, .length, .temperature, .time]

end Cook
