def hello := "world"
