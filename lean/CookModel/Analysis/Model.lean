import CookModel.Num.Number
import CookModel.Gen.Consts
/-
  Model of the recipe data types of src/model.rs, src/quantity.rs (Quantity, ScalableValue),
  src/parser/model.rs (Modifiers).  Text is `List Char`.
  `V` is the value type: `ScalableValue α` for a parsed recipe, `Value α` after scaling.
-/
namespace Cook

abbrev Str := List Char

inductive ScalableValue (α : Type) where
  | fixed (v : Value α)
  | linear (v : Value α)
deriving Repr, Inhabited, DecidableEq

def ScalableValue.val {α} : ScalableValue α → Value α
  | .fixed v => v
  | .linear v => v

structure Quantity (V : Type) where
  value : V
  unit : Option Str
deriving Repr, Inhabited, DecidableEq

/-- `Modifiers` bitflags of src/parser/model.rs: RECIPE=1, REF=2, HIDDEN=4, OPT=8, NEW=16 -/
structure Modifiers where
  bits : Nat
deriving Repr, Inhabited, DecidableEq

namespace Modifiers
def RECIPE : Nat := Cook.Gen.MOD_RECIPE
def REF : Nat := Cook.Gen.MOD_REF
def HIDDEN : Nat := Cook.Gen.MOD_HIDDEN
def OPT : Nat := Cook.Gen.MOD_OPT
def NEW : Nat := Cook.Gen.MOD_NEW
def empty : Modifiers := ⟨0⟩
def contains (m : Modifiers) (flag : Nat) : Bool := (m.bits &&& flag) == flag
def insert (m : Modifiers) (flag : Nat) : Modifiers := ⟨m.bits ||| flag⟩
def union (a b : Modifiers) : Modifiers := ⟨a.bits ||| b.bits⟩
def inter (a b : Modifiers) : Modifiers := ⟨a.bits &&& b.bits⟩
end Modifiers

inductive Item where
  | text (value : Str)
  | ingredient (index : Nat)
  | cookware (index : Nat)
  | timer (index : Nat)
  | inlineQuantity (index : Nat)
deriving Repr, Inhabited, DecidableEq

structure Step where
  items : List Item
  number : Nat
deriving Repr, Inhabited, DecidableEq

inductive Content where
  | step (s : Step)
  | text (t : Str)
deriving Repr, Inhabited, DecidableEq

structure Section where
  name : Option Str
  content : List Content
deriving Repr, Inhabited, DecidableEq

inductive ComponentRelation where
  | definition (referencedFrom : List Nat) (definedInStep : Bool)
  | reference (referencesTo : Nat)
deriving Repr, Inhabited, DecidableEq

inductive RefTarget where
  | ingredient | step | section
deriving Repr, Inhabited, DecidableEq

structure IngredientRelation where
  relation : ComponentRelation
  referenceTarget : Option RefTarget
deriving Repr, Inhabited, DecidableEq

structure RecipeReference where
  name : Str
  components : List Str
deriving Repr, Inhabited, DecidableEq

structure Ingredient (V : Type) where
  name : Str
  alias : Option Str
  quantity : Option (Quantity V)
  note : Option Str
  reference : Option RecipeReference
  relation : IngredientRelation
  modifiers : Modifiers
deriving Repr, Inhabited, DecidableEq

structure Cookware (V : Type) where
  name : Str
  alias : Option Str
  quantity : Option V
  note : Option Str
  relation : ComponentRelation
  modifiers : Modifiers
deriving Repr, Inhabited, DecidableEq

structure Timer (V : Type) where
  name : Option Str
  quantity : Option (Quantity V)
deriving Repr, Inhabited, DecidableEq

/-- `Recipe<D, V>` without the metadata map and the scaling data `D` (modelled where needed). -/
structure Recipe (α : Type) (V : Type) where
  sections : List Section
  ingredients : List (Ingredient V)
  cookware : List (Cookware V)
  timers : List (Timer V)
  inlineQuantities : List (Quantity (Value α))
deriving Repr, Inhabited

abbrev ScalableRecipe (α : Type) := Recipe α (ScalableValue α)
abbrev ScaledRecipe (α : Type) := Recipe α (Value α)

def ComponentRelation.referencedFrom : ComponentRelation → List Nat
  | .definition rf _ => rf
  | .reference _ => []

def ComponentRelation.referencesTo : ComponentRelation → Option Nat
  | .definition _ _ => none
  | .reference t => some t

def ComponentRelation.isReference : ComponentRelation → Bool
  | .reference _ => true
  | _ => false

end Cook
