import CookModel.Syntax.Blocks
/-
  Model of the analysis pass, `RecipeCollector` (src/analysis/event_consumer.rs): the fold over
  parser events that builds the recipe tables, resolves references and intermediate references,
  handles modes and `>>` metadata, and collects diagnostics.

  External parts are parameters (`Env`): the converter's key lookup, the verdict of
  `check_std_entry` on a `>>` value, case folding (`unicase`).  YAML front matter content is not
  interpreted by the model (serde_yaml is external); the fold records that front matter was seen.
-/
namespace Cook

/-- standard metadata keys (`StdKey::from_str`) -/
inductive StdKey where
  | title | description | tags | author | source | course | time | prepTime | cookTime
  | servings | difficulty | cuisine | diet | images | locale
deriving Repr, DecidableEq, Inhabited

def StdKey.ofStr (s : String) : Option StdKey :=
  match s with
  | "title" => some .title
  | "description" | "introduction" => some .description
  | "tags" | "tag" => some .tags
  | "author" => some .author
  | "source" => some .source
  | "servings" | "serves" | "yield" => some .servings
  | "course" | "category" => some .course
  | "locale" => some .locale
  | "time" | "duration" | "time required" => some .time
  | "prep time" | "prep_time" => some .prepTime
  | "cook time" | "cook_time" => some .cookTime
  | "difficulty" => some .difficulty
  | "cuisine" => some .cuisine
  | "diet" => some .diet
  | "image" | "images" | "picture" | "pictures" => some .images
  | _ => none

/-- verdict of `check_std_entry` on a string value -/
inductive StdVerdict where
  | ok
  | servings (s : List Nat)
  | rejected
deriving Repr, DecidableEq, Inhabited

structure Env where
  cs : CharSpec
  ext : Ext
  /-- `Converter::find_unit(key)`: the physical quantity id of the unit, if known -/
  findUnit : Str → Option Nat
  /-- `check_std_entry(key, Value::String(value), converter)` -/
  stdCheck : StdKey → Str → StdVerdict
  /-- `unicase` folding of one character -/
  fold : Char → List Char
  /-- physical quantity id of time -/
  timeQ : Nat

inductive DefineMode | all | components | steps | text deriving Repr, DecidableEq, Inhabited
inductive DuplicateMode | new | reference deriving Repr, DecidableEq, Inhabited

inductive BlockBuf where
  | step (items : List Item)
  | text (t : Str)
deriving Repr, Inhabited

structure Col (α : Type) where
  sections : List Section := []
  cur : Section := ⟨none, []⟩
  ingredients : Array (Ingredient (ScalableValue α)) := #[]
  cookware : Array (Cookware (ScalableValue α)) := #[]
  timers : Array (Timer (ScalableValue α)) := #[]
  inlineQ : Array (Quantity (Value α)) := #[]
  locIngr : Array (Loc (PIngredient α)) := #[]
  locCw : Array (Loc (PCookware α)) := #[]
  /-- `content.metadata.map` for `>>` entries (insertion-ordered map, insert replaces in place) -/
  metaMap : List (Str × Str) := []
  /-- whether a front matter event was processed (its YAML content is external) -/
  frontMatter : Option Text := none
  /-- `locations.metadata`: std key ↦ (key span start, value span end) -/
  metaLocs : List (StdKey × Span) := []
  servings : Option (List Nat) := none
  defineMode : DefineMode := .all
  duplicateMode : DuplicateMode := .new
  oldStyle : Bool := true
  oldStyleUsed : List Span := []
  diags : Array Diag := #[]
  stepCounter : Nat := 1
  block : Option BlockBuf := none
  panic : Option String := none

abbrev A (α : Type) := StateM (Col α)

variable {α : Type} [Arith α]

def apanic (site : String) : A α Unit :=
  modify fun s => if s.panic.isNone then { s with panic := some site } else s

def aerr (kind : String) (labels : List Span) : A α Unit :=
  modify fun s => { s with diags := s.diags.push ⟨.error, .analysis, kind, labels⟩ }
def awarn (kind : String) (labels : List Span) : A α Unit :=
  modify fun s => { s with diags := s.diags.push ⟨.warning, .analysis, kind, labels⟩ }

def Section.isEmpty (s : Section) : Bool := s.name.isNone && s.content.isEmpty

def Content.isStep : Content → Bool
  | .step _ => true
  | .text _ => false

/-- insertion-ordered map insert -/
def metaInsert (m : List (Str × Str)) (k v : Str) : List (Str × Str) :=
  if m.any (fun p => p.1 == k) then m.map (fun p => if p.1 == k then (k, v) else p) else m ++ [(k, v)]

def foldStr (env : Env) (s : Str) : Str := s.flatMap env.fold
def nameEq (env : Env) (a b : Str) : Bool := foldStr env a == foldStr env b

/-! ### values and quantities -/

def valueOf (env : Env) (v : PQValue α) (isIngredient : Bool) : A α (ScalableValue α) := do
  let hasLock := v.lock.isSome
  let isText := v.value.val.isText
  if isIngredient && !isText && !hasLock then return .linear v.value.val
  if hasLock then
    -- after the repair: the warning is for locks that have no effect (non-ingredient or text value)
    if !isIngredient || isText then awarn "unnecessary-scaling-lock" [v.value.span]
  let _ := env
  return .fixed v.value.val

def quantityOf (env : Env) (q : Loc (PQuantity α)) (isIngredient : Bool) : A α (Quantity (ScalableValue α)) := do
  let v ← valueOf env q.val.value isIngredient
  return ⟨v, q.val.unit.map (fun t => t.trimmed env.cs)⟩

/-- `compatible_unit`: `none` = compatible; otherwise which error -/
inductive Incompat | missingUnitLhs | missingUnitRhs | differentQ | unknownDiffer
deriving Repr, DecidableEq

def compatibleUnit (env : Env) (a b : Option Str) : Option Incompat :=
  match a, b with
  | none, none => none
  | none, some _ => some .missingUnitRhs     -- `lhs: false`
  | some _, none => some .missingUnitLhs     -- `lhs: true`
  | some x, some y =>
    match env.findUnit x, env.findUnit y with
    | some qa, some qb => if qa ≠ qb then some .differentQ else none
    | _, _ => if x ≠ y then some .unknownDiffer else none

/-! ### references -/

/-- `parse_reference`: names that look like relative paths -/
def splitOnChar (c : Char) : Str → List Str
  | [] => [[]]
  | x :: xs =>
    match splitOnChar c xs with
    | [] => [[x]]     -- unreachable
    | p :: ps => if x = c then [] :: p :: ps else (x :: p) :: ps

def startsWith (s p : Str) : Bool := p.isPrefixOf s

def parseReference (name : Str) : Option RecipeReference :=
  if startsWith name "./".toList || startsWith name "../".toList ||
     startsWith name ".\\".toList || startsWith name "..\\".toList then
    let path := name.map (fun c => if c = '\\' then '/' else c)
    let comps := (splitOnChar '/' path).drop 1
    some ⟨comps.getLast?.getD [], comps.dropLast⟩
  else none

structure RefOutcome where
  refTo : Nat
  implicit : Bool

/-- `rposition` over the non-REF components with the same name -/
def sameNameIdx (env : Env) (existing : List (Str × Modifiers)) (name : Str) : Option Nat :=
  let idxs := (List.range existing.length).filter (fun i =>
    match existing[i]? with
    | some (n, m) => !m.contains Modifiers.REF && nameEq env name n
    | none => false)
  idxs.getLast?

/-- the generic `resolve_reference`; `names`/`mods` describe the existing components of the kind -/
def resolveReference (env : Env) (container : String) (inherit : Nat)
    (existing : List (Str × Modifiers)) (name : Str) (mods : Modifiers)
    (location modLoc : Span) : A α (Modifiers × Option RefOutcome) := do
  let s ← get
  let sameName : Option Nat := sameNameIdx env existing name
  let _ := container
  if mods.contains Modifiers.NEW && mods.contains Modifiers.REF then
    aerr "ref-conflicting-modifiers" [modLoc]
    return (mods, none)
  if mods.contains Modifiers.NEW then
    if s.defineMode != .steps then
      if s.duplicateMode == .reference && sameName.isNone then awarn "redundant-new" [modLoc]
      else if s.duplicateMode == .new then awarn "redundant-new" [modLoc]
    return (mods, none)
  if (s.duplicateMode == .reference || s.defineMode == .steps) && mods.contains Modifiers.REF then
    awarn "redundant-ref" [modLoc]
  let treatAsRef := mods.contains Modifiers.REF || s.defineMode == .steps ||
    (s.duplicateMode == .reference && sameName.isSome)
  if !treatAsRef then return (mods, none)
  let implicit := !mods.contains Modifiers.REF
  match sameName with
  | some refTo =>
    let refMods := ((existing[refTo]?).map (·.2)).getD Modifiers.empty
    let inherited : Modifiers := ⟨refMods.bits &&& inherit⟩
    -- conflict = new & !inherited & !REF
    let conflictBits := (List.range 16).foldl (fun acc i =>
      let b := 1 <<< i
      if (mods.bits &&& b) != 0 && (inherited.bits &&& b) == 0 && b != Modifiers.REF then acc ||| b else acc) 0
    let mods' : Modifiers := ⟨mods.bits ||| inherited.bits ||| Modifiers.REF⟩
    if conflictBits != 0 then aerr "ref-conflicting-modifiers" [modLoc]
    return (mods', some ⟨refTo, implicit⟩)
  | none =>
    aerr "reference-not-found" [location]
    return (mods, none)

def stepIndices (content : List Content) : List Nat :=
  (List.range content.length).filter (fun i => ((content[i]?).map Content.isStep).getD false)

/-- `resolve_intermediate_ref`, the pure part: the target, or the kind of the error -/
def interRefTarget (content : List Content) (nSections : Nat) (d : InterData) : Except String IngredientRelation :=
  let val := d.val.toNat
  if val == 0 then .error (if d.relative then "inter-ref-self" else "inter-ref-zero") else
  match d.isSection, d.relative with
  | false, false =>
    match (stepIndices content)[val - 1]? with
    | some i => .ok ⟨.reference i, some .step⟩
    | none => .error "inter-ref-bounds"
  | false, true =>
    match (stepIndices content).reverse[val - 1]? with
    | some i => .ok ⟨.reference i, some .step⟩
    | none => .error "inter-ref-bounds"
  | true, false =>
    if val - 1 ≥ nSections then .error "inter-ref-bounds" else .ok ⟨.reference (val - 1), some .section⟩
  | true, true =>
    if val > nSections then .error "inter-ref-bounds" else .ok ⟨.reference (nSections - val), some .section⟩

def resolveInterRef (d : Loc InterData) : A α (Option IngredientRelation) := do
  let s ← get
  if d.val.val < 0 then apanic "resolve_intermediate_ref: negative value"
  match interRefTarget s.cur.content s.sections.length d.val with
  | .ok rel => return some rel
  | .error kind => aerr kind [d.span]; return none

def optQuantityOf (env : Env) (q : Option (Loc (PQuantity α))) (isIngredient : Bool) :
    A α (Option (Quantity (ScalableValue α))) :=
  match q with
  | some q => do let r ← quantityOf env q isIngredient; pure (some r)
  | none => pure none

def optValueOf (env : Env) (q : Option (Loc (PQValue α))) : A α (Option (ScalableValue α)) :=
  match q with
  | some q => do let r ← valueOf env q.val false; pure (some r)
  | none => pure none

/-- label of `note_reference_error` (after the repair): the note span widened over adjacent parentheses -/
def byteAt (input : Str) (pos : Nat) : Option Char :=
  -- the character that starts at byte `pos`, if `pos` is a boundary
  let rec go (s : Str) (off : Nat) : Option Char :=
    match s with
    | [] => none
    | c :: t => if off = pos then some c else if off > pos then none else go t (off + c.utf8Size)
  go input 0

def noteRefSpan (input : Str) (span : Span) : Span :=
  let start := if span.start > 0 && byteAt input (span.start - 1) == some '(' then span.start - 1 else span.start
  let stop := if byteAt input span.stop == some ')' then span.stop + 1 else span.stop
  ⟨start, stop⟩

def noteReferenceError (input : Str) (noteSpan defSpan : Span) (defNote : Option Span) : A α Unit :=
  match defNote with
  | some sp => aerr "note-in-reference" [noteRefSpan input noteSpan, sp]
  | none => aerr "note-in-reference" [noteRefSpan input noteSpan, Span.pos defSpan.stop]

/-- the `intermediate_data` branch of `ingredient`: checks + `resolve_intermediate_ref` -/
def ingrInterChecks (i : PIngredient α) (igr : Ingredient (ScalableValue α)) : A α Unit := do
  if !igr.modifiers.contains Modifiers.REF then apanic "intermediate data without REF"
  let invalid := Modifiers.RECIPE ||| Modifiers.HIDDEN ||| Modifiers.NEW
  if (igr.modifiers.bits &&& invalid) != 0 then aerr "inter-ref-conflicting-modifiers" [i.modifiers.span]

def ingrInter (i : PIngredient α) (igr : Ingredient (ScalableValue α)) (d : Loc InterData) :
    A α (Ingredient (ScalableValue α)) := do
  ingrInterChecks i igr
  match ← resolveInterRef d with
  | some rel => return { igr with relation := rel }
  | none => return igr

/-- ADVANCED_UNITS: unit compatibility of the new reference with the definition and its other references
    (diagnostics only) -/
def ingrUnitChecks (env : Env) (i : PIngredient α) (newQ : Quantity (ScalableValue α)) (idxs : List Nat) : A α Unit := do
  let s ← get
  for idx in idxs do
    match s.ingredients[idx]?, s.locIngr[idx]? with
    | some other, some otherLoc =>
      match other.quantity with
      | some q =>
        match compatibleUnit env q.unit newQ.unit with
        | some _ =>
          let oldQ := otherLoc.val.quantity
          let oldSpan := match oldQ with
            | some oq => (oq.val.unit.map (·.span)).getD oq.span
            | none => ⟨0, 0⟩
          if oldQ.isNone then apanic "locations quantity unwrap"
          let newSpan := match i.quantity with
            | some nq => (nq.val.unit.map (·.span)).getD nq.span
            | none => ⟨0, 0⟩
          awarn "incompatible-units" [newSpan, oldSpan]
        | none => pure ()
      | none => pure ()
    | _, _ => apanic "referenced_from index out of range"

/-- the checks of a resolved regular ingredient reference against its definition (diagnostics only) -/
def ingrRefChecks (env : Env) (input : Str) (li : Loc (PIngredient α)) (igr : Ingredient (ScalableValue α))
    (refTo : Nat) (defn : Ingredient (ScalableValue α)) (defLoc : Loc (PIngredient α)) : A α Unit := do
  let i := li.val
  if !(!defn.relation.relation.isReference) then apanic "definition is a reference"
  if env.ext.has Gen.EXT_ADVANCED_UNITS then
    match igr.quantity with
    | some newQ => ingrUnitChecks env i newQ (refTo :: defn.relation.relation.referencedFrom)
    | none => pure ()
  match i.note with
  | some n => noteReferenceError input n.span defLoc.span (defLoc.val.note.map (·.span))
  | none => pure ()
  let definedInStep := match defn.relation.relation with
    | .definition _ b => b
    | .reference _ => true
  if defn.quantity.isSome && igr.quantity.isSome && !definedInStep then
    aerr "conflicting-ref-quantity" [(i.quantity.map (·.span)).getD ⟨0, 0⟩, defLoc.span]
  match igr.quantity, defn.quantity with
  | some rq, some dq =>
    let refText := rq.value.val.isText
    let defText := dq.value.val.isText
    if refText != defText then
      let rl := (i.quantity.map (·.span)).getD ⟨0, 0⟩
      let dl := (defLoc.val.quantity.map (·.span)).getD ⟨0, 0⟩
      if defLoc.val.quantity.isNone then apanic "definition location quantity unwrap"
      if refText then awarn "text-value-in-ref" [rl, dl] else awarn "text-value-in-ref" [dl, rl]
  | _, _ => pure ()

/-- `set_referenced_from` on the ingredient table: the definition at `refTo` lists `newIndex` back -/
def ingrSetReferencedFrom (refTo newIndex : Nat) (defn : Ingredient (ScalableValue α)) : A α Unit :=
  match defn.relation.relation with
  | .definition rf b =>
    modify fun s => { s with ingredients :=
      s.ingredients.setIfInBounds refTo { defn with relation := ⟨.definition (rf ++ [newIndex]) b, defn.relation.referenceTarget⟩ } }
  | .reference _ => apanic "Reference to reference"

/-- the regular branch of `ingredient`: `resolve_reference`, the checks, the back-link -/
def ingrRegular (env : Env) (input : Str) (li : Loc (PIngredient α)) (igr0 : Ingredient (ScalableValue α)) :
    A α (Ingredient (ScalableValue α)) := do
  let i := li.val
  let s ← get
  let existing := s.ingredients.toList.map (fun x => (x.name, x.modifiers))
  let r ← resolveReference env "ingredient"
    (Modifiers.HIDDEN ||| Modifiers.OPT ||| Modifiers.RECIPE) existing igr0.name igr0.modifiers li.span i.modifiers.span
  match r.2 with
  | none => return { igr0 with modifiers := r.1 }
  | some o =>
    let igr : Ingredient (ScalableValue α) :=
      { igr0 with modifiers := r.1, relation := ⟨.reference o.refTo, some .ingredient⟩ }
    let s ← get
    match s.ingredients[o.refTo]?, s.locIngr[o.refTo]? with
    | some defn, some defLoc =>
      ingrRefChecks env input li igr o.refTo defn defLoc
      ingrSetReferencedFrom o.refTo s.ingredients.size defn
    | _, _ => apanic "reference target out of range"
    return igr

/-- resolve the (intermediate or regular) reference of the new ingredient and push it -/
def ingrBuild (env : Env) (input : Str) (li : Loc (PIngredient α)) (igr0 : Ingredient (ScalableValue α)) : A α Nat := do
  let igr ← (match li.val.inter with
    | some d => ingrInter li.val igr0 d
    | none => ingrRegular env input li igr0)
  modify fun s => { s with locIngr := s.locIngr.push li, ingredients := s.ingredients.push igr }
  return (← get).ingredients.size - 1

def ingredientA (env : Env) (input : Str) (li : Loc (PIngredient α)) : A α Nat := do
  let i := li.val
  let name0 := i.name.trimmed env.cs
  let reference := parseReference name0
  let name := match reference with
    | some r => r.name
    | none => name0
  let quantity ← optQuantityOf env i.quantity true
  let s0 ← get
  let igr0 : Ingredient (ScalableValue α) :=
    ⟨name, i.alias.map (·.trimmed env.cs), quantity, i.note.map (·.trimmed env.cs), reference,
     ⟨.definition [] (s0.defineMode != .components), none⟩, i.modifiers.val⟩
  ingrBuild env input li igr0

/-- the checks of a resolved cookware reference against its definition (diagnostics only) -/
def cwRefChecks (input : Str) (lc : Loc (PCookware α)) (cw : Cookware (ScalableValue α))
    (defn : Cookware (ScalableValue α)) (defLoc : Loc (PCookware α)) : A α Unit := do
  let c := lc.val
  if defn.relation.isReference then apanic "definition is a reference"
  match c.note with
  | some n => noteReferenceError input n.span defLoc.span (defLoc.val.note.map (·.span))
  | none => pure ()
  let definedInStep := match defn.relation with
    | .definition _ b => b
    | .reference _ => true
  if defn.quantity.isSome && cw.quantity.isSome && !definedInStep then
    aerr "conflicting-ref-quantity" [(c.quantity.map (·.span)).getD ⟨0, 0⟩, defLoc.span]
  match cw.quantity, defn.quantity with
  | some rq, some dq =>
    let refText := rq.val.isText
    let defText := dq.val.isText
    if refText != defText then
      let rl := (c.quantity.map (·.span)).getD ⟨0, 0⟩
      let dl := (defLoc.val.quantity.map (·.span)).getD ⟨0, 0⟩
      if defLoc.val.quantity.isNone then apanic "definition location quantity unwrap"
      if refText then awarn "text-value-in-ref" [rl, dl] else awarn "text-value-in-ref" [dl, rl]
  | _, _ => pure ()

/-- `set_referenced_from` on the cookware table -/
def cwSetReferencedFrom (refTo newIndex : Nat) (defn : Cookware (ScalableValue α)) : A α Unit :=
  match defn.relation with
  | .definition rf b =>
    modify fun s => { s with cookware := s.cookware.setIfInBounds refTo { defn with relation := .definition (rf ++ [newIndex]) b } }
  | .reference _ => apanic "Reference to reference"

/-- `resolve_reference` + checks + back-link for a cookware item -/
def cwResolve (env : Env) (input : Str) (lc : Loc (PCookware α)) (cw0 : Cookware (ScalableValue α)) :
    A α (Cookware (ScalableValue α)) := do
  let c := lc.val
  let s0 ← get
  let existing := s0.cookware.toList.map (fun x => (x.name, x.modifiers))
  let r ← resolveReference env "cookware item" (Modifiers.HIDDEN ||| Modifiers.OPT)
    existing cw0.name cw0.modifiers lc.span c.modifiers.span
  match r.2 with
  | none => return { cw0 with modifiers := r.1 }
  | some o =>
    let cw : Cookware (ScalableValue α) := { cw0 with modifiers := r.1, relation := .reference o.refTo }
    let s ← get
    match s.cookware[o.refTo]?, s.locCw[o.refTo]? with
    | some defn, some defLoc =>
      cwRefChecks input lc cw defn defLoc
      cwSetReferencedFrom o.refTo s.cookware.size defn
    | _, _ => apanic "reference target out of range"
    return cw

/-- resolve the reference of the new cookware item and push it -/
def cwBuild (env : Env) (input : Str) (lc : Loc (PCookware α)) (cw0 : Cookware (ScalableValue α)) : A α Nat := do
  let cw ← cwResolve env input lc cw0
  modify fun s => { s with locCw := s.locCw.push lc, cookware := s.cookware.push cw }
  return (← get).cookware.size - 1

def cookwareA (env : Env) (input : Str) (lc : Loc (PCookware α)) : A α Nat := do
  let c := lc.val
  let quantity ← optValueOf env c.quantity
  let s0 ← get
  let cw0 : Cookware (ScalableValue α) :=
    ⟨c.name.trimmed env.cs, c.alias.map (·.trimmed env.cs), quantity, c.note.map (·.trimmed env.cs),
     .definition [] (s0.defineMode != .components), c.modifiers.val⟩
  cwBuild env input lc cw0

/-- the quantity of a timer with its ADVANCED_UNITS checks -/
def timerQuantityChecks (env : Env) (q : Loc (PQuantity α)) (r : Quantity (ScalableValue α)) : A α Unit := do
  if env.ext.has Gen.EXT_ADVANCED_UNITS then
    if r.value.val.isText then aerr "timer-value-text" [q.val.value.value.span]
    match r.unit with
    | some u =>
      let uspan := (q.val.unit.map (·.span)).getD ⟨0, 0⟩
      match env.findUnit u with
      | some pq => if pq ≠ env.timeQ then aerr "timer-unit-not-time" [uspan]
      | none => aerr "timer-unit-unknown" [uspan]
    | none => pure ()

def timerQuantity (env : Env) (tq : Option (Loc (PQuantity α))) : A α (Option (Quantity (ScalableValue α))) :=
  match tq with
  | some q => do
    let r ← quantityOf env q false
    timerQuantityChecks env q r
    pure (some r)
  | none => pure none

def timerA (env : Env) (lt : Loc (PTimer α)) : A α Nat := do
  let t := lt.val
  let quantity ← timerQuantity env t.quantity
  modify fun s => { s with timers := s.timers.push ⟨t.name.map (·.trimmed env.cs), quantity⟩ }
  return (← get).timers.size - 1

/-! ### inline quantities -/

def isAsciiDigitC (c : Char) : Bool := '0' ≤ c && c ≤ '9'

/-- `str::parse::<f64>` of a string made of digits, `.` (and nothing else after trimming): our reader
    only needs the forms `find_inline_quantity` can produce (`digits`, `digits.digits`, `.digits`, `digits.`) -/
def parseSimpleFloat (s : Str) : Option α :=
  let ip := s.takeWhile isAsciiDigitC
  let rest := s.dropWhile isAsciiDigitC
  match rest with
  | [] => if ip.isEmpty then none else some (Arith.ofDecimal (digitsToNat ip) 0)
  | '.' :: fp =>
    if fp.all isAsciiDigitC && !(ip.isEmpty && fp.isEmpty) then
      some (Arith.ofDecimal (digitsToNat (ip ++ fp)) fp.length)
    else none
  | _ => none

structure InlineHit (α : Type) where
  before : Str
  q : Quantity (Value α)
  after : Str

/-- `find_inline_quantity` on a char list (positions are char-list suffixes instead of byte indices);
    `prefixRev` is the text before the current position, reversed. -/
def findInlineQuantity (env : Env) : (fuel : Nat) → (prefixRev : Str) → (rest : Str) → Option (InlineHit α)
  | 0, _, _ => none
  | fuel + 1, pre, rest =>
    -- advance to the next ASCII digit
    let skipped := rest.takeWhile (fun c => !isAsciiDigitC c)
    let r := rest.dropWhile (fun c => !isAsciiDigitC c)
    match r with
    | [] => none
    | _ :: _ =>
      let pre := skipped.reverse ++ pre
      let neg := pre.head? == some '-'
      let before := (if neg then pre.drop 1 else pre).reverse
      -- eat_word: up to the next Unicode whitespace (non-empty because `r` starts with a digit)
      let w1 := r.takeWhile (fun c => !env.cs.uws c)
      let r1 := r.dropWhile (fun c => !env.cs.uws c)
      let firstNonDigit := w1.findIdx? (fun c => !isAsciiDigitC c && c != '.' && !env.cs.uws c)
      let cont : Option (Str × Str × Str) :=
        match firstNonDigit with
        | some mid => some (w1.take mid, w1.drop mid, r1)
        | none =>
          -- eat_whitespace (may find nothing: then `i` is unchanged), then the next word
          let r2 := if r1.any (fun c => !env.cs.uws c) then r1.dropWhile env.cs.uws else r1
          let w2 := r2.takeWhile (fun c => !env.cs.uws c)
          let r3 := r2.dropWhile (fun c => !env.cs.uws c)
          -- eat_word returns None when nothing is left at all
          if r2.isEmpty then none else some (w1, w2, r3)
      match cont with
      | none => none
      | some (number, unit, after) =>
        let number := trim env.cs.uws number
        let unit := trim env.cs.uws unit
        let consumed := r.take (r.length - after.length)
        match parseSimpleFloat (α := α) number, env.findUnit unit with
        | some n, some _ =>
          let n := if neg then Arith.neg n else n
          some ⟨before, ⟨.number (.regular n), some unit⟩, after⟩
        | _, _ => findInlineQuantity env fuel (consumed.reverse ++ pre) after

/-! ### step / text items -/

/-- splitting a step text at the inline quantities (INLINE_QUANTITIES) -/
def inlineLoop (env : Env) (fuel : Nat) (hay : Str) (items : List Item) (iq : Array (Quantity (Value α))) :
    List Item × Array (Quantity (Value α)) :=
  match fuel with
  | 0 => (items, iq)
  | fuel + 1 =>
    match findInlineQuantity (α := α) env (hay.length + 1) [] hay with
    | some hit =>
      let items := if hit.before.isEmpty then items else items ++ [.text hit.before]
      let items := items ++ [.inlineQuantity iq.size]
      inlineLoop env fuel hit.after items (iq.push hit.q)
    | none => (if hay.isEmpty then items else items ++ [.text hay], iq)

/-- text inside a step block -/
def inStepTextStep (env : Env) (t : Text) (items : List Item) : A α Unit := do
  let s ← get
  let txt := t.text
  if s.defineMode == .components then
    if txt.any env.cs.alnum then awarn "text-in-components-mode" [t.span]
  else if env.ext.has Gen.EXT_INLINE_QUANTITIES then
    let r := inlineLoop env (txt.length + 1) txt items s.inlineQ
    modify fun s => { s with block := some (BlockBuf.step r.1), inlineQ := r.2 }
  else
    modify fun s => { s with block := some (BlockBuf.step (items ++ [Item.text txt])) }

def inStepText (env : Env) (t : Text) : A α Unit := do
  let s ← get
  match s.block with
  | some (.step items) => inStepTextStep env t items
  | some (.text buf) => modify fun s => { s with block := some (BlockBuf.text (buf ++ t.text)) }
  | none => apanic "Content outside block"

def sliceBytes (input : Str) (a b : Nat) : Option Str :=
  let rec go (s : Str) (off : Nat) (acc : Str) (started : Bool) : Option Str :=
    if off = b && (started || a = b) then some acc.reverse else
    match s with
    | [] => none
    | c :: t =>
      if off = a ∨ started then
        if off > b then none else go t (off + c.utf8Size) (c :: acc) true
      else if off > a then none
      else go t (off + c.utf8Size) acc false
  if a > b then none else go input 0 [] false

def pushItem (it : Item) : A α Unit := do
  let s ← get
  match s.block with
  | some (.step items) => set { s with block := some (.step (items ++ [it])) }
  | _ => apanic "pushItem outside step"

/-- a component inside a step block -/
def inStepComponent (env : Env) (input : Str) (ev : Ev α) : A α Unit :=
  match ev with
  | .ingredient i => do let idx ← ingredientA env input i; pushItem (.ingredient idx)
  | .cookware c => do let idx ← cookwareA env input c; pushItem (.cookware idx)
  | .timer t => do let idx ← timerA env t; pushItem (.timer idx)
  | _ => apanic "Unexpected event in step"

/-- a component inside a text block (define mode text): its source text is appended -/
def inTextComponent (input : Str) (ev : Ev α) (buf : Str) : A α Unit := do
  let s ← get
  if s.defineMode != .text then apanic "Non text event in text block outside define mode text"
  let (c, span) : String × Span := match ev with
    | .ingredient i => ("ingredient", i.span)
    | .cookware c => ("cookware", c.span)
    | .timer t => ("timer", t.span)
    | _ => ("?", ⟨0, 0⟩)
  awarn s!"component-in-text-mode:{c}" [span]
  match sliceBytes input span.start span.stop with
  | some sl => modify fun s => { s with block := some (.text (buf ++ sl)) }
  | none => apanic "text mode: slice not on a char boundary"

def inBlockComponent (env : Env) (input : Str) (ev : Ev α) : A α Unit := do
  let s ← get
  match s.block with
  | some (.step _) => inStepComponent env input ev
  | some (.text buf) => inTextComponent input ev buf
  | none => apanic "Content outside block"

/-! ### `>>` metadata -/

def stdKeyIsTime (k : StdKey) : Bool := k == .time || k == .prepTime || k == .cookTime

def insertionSort (l : List Span) : List Span :=
  l.foldl (fun acc x =>
    let lt (a b : Span) : Bool := a.start < b.start || (a.start == b.start && a.stop < b.stop)
    (acc.takeWhile (fun y => !lt x y)) ++ [x] ++ (acc.dropWhile (fun y => !lt x y))) []

def timeOverrideCheck (new : StdKey) : A α Unit := do
  let s ← get
  let locs (keys : List StdKey) : List Span :=
    insertionSort (keys.filterMap (fun k => (s.metaLocs.find? (fun p => p.1 == k)).map (·.2)))
  let overrides := (locs [new])[0]?
  if overrides.isNone then apanic "time_override_check: index 0"
  let overridenKeys : List StdKey := if new == .time then [.prepTime, .cookTime] else [.time]
  let overriden := locs overridenKeys
  modify fun s => { s with metaLocs := s.metaLocs.filter (fun p => !overridenKeys.contains p.1) }
  if overriden.isEmpty then return
  awarn "time-overridden" (overriden ++ [overrides.getD ⟨0, 0⟩])

def metadataA (env : Env) (key value : Text) : A α Unit := do
  let keyT := key.trimmed env.cs
  let valueT := value.outerTrimmed env.cs
  let s ← get
  if env.ext.has Gen.EXT_MODES && keyT.head? == some '[' && keyT.getLast? == some ']' && keyT.length ≥ 2 then
    let configKey := String.ofList ((keyT.drop 1).dropLast)
    let v := String.ofList valueT
    if configKey == "define" || configKey == "mode" then
      if v == "all" || v == "default" then modify fun s => { s with defineMode := .all }
      else if v == "components" || v == "ingredients" then modify fun s => { s with defineMode := .components }
      else if v == "steps" then modify fun s => { s with defineMode := .steps }
      else if v == "text" then modify fun s => { s with defineMode := .text }
      else aerr "config-invalid-value" [value.span, key.span]
    else if configKey == "duplicate" then
      if v == "new" || v == "default" then modify fun s => { s with duplicateMode := .new }
      else if v == "reference" || v == "ref" then modify fun s => { s with duplicateMode := .reference }
      else aerr "config-invalid-value" [value.span, key.span]
    else
      awarn "config-unknown-key" [key.span]
      if s.oldStyle then modify fun s => { s with metaMap := metaInsert s.metaMap keyT valueT }
    return
  if env.ext.has Gen.EXT_MODES && keyT.head? == some '[' && keyT.getLast? == some ']' then
    -- the one-character key "[" … cannot happen: a single char cannot be both '[' and ']'
    apanic "config key slice"
  modify fun s => { s with oldStyleUsed := s.oldStyleUsed ++ [⟨key.span.start, value.span.stop⟩],
                           metaMap := metaInsert s.metaMap keyT valueT }
  match StdKey.ofStr (String.ofList keyT) with
  | none => pure ()
  | some sk =>
    match env.stdCheck sk valueT with
    | .rejected =>
      awarn "std-unsupported-value" [value.span, key.span]
      return
    | .servings sv => modify fun s => { s with servings := some sv }
    | .ok => pure ()
    modify fun s => { s with metaLocs :=
      (s.metaLocs.filter (fun p => p.1 != sk)) ++ [(sk, ⟨key.span.start, value.span.stop⟩)] }
    if stdKeyIsTime sk then timeOverrideCheck sk

/-! ### the event fold -/

structure AnalysisResult (α : Type) where
  /-- `None` when a parse-stage error was seen -/
  output : Option (Col α)
  diags : Array Diag
  panic : Option String

/-- the content of the block that ends (with the assertions of the `End` event) -/
def endBlockContent (kind : BlockKind) : A α (Option Content) := do
  let s ← get
  match s.block with
  | some (.step items) => do
    if kind != .step then apanic "End: assert_eq!(kind, Step)"
    pure (some (Content.step ⟨items, s.stepCounter⟩))
  | some (.text t) => do
    if !(kind == .text || s.defineMode == .text) then apanic "End: text block kind assertion"
    pure (some (Content.text t))
  | none => do apanic "End event without Start"; pure none

/-- after the repair: empty content (a text block without text, a step without items) is not pushed -/
def Content.isEmptyContent : Content → Bool
  | .text t => t.isEmpty
  | .step st => st.items.isEmpty

def pushContent (c : Content) : A α Unit := do
  let s ← get
  if (s.defineMode != .components || !c.isStep) && !c.isEmptyContent then
    modify fun s => { s with
      stepCounter := if c.isStep then s.stepCounter + 1 else s.stepCounter,
      cur := { s.cur with content := s.cur.content ++ [c] } }

def endBlock (kind : BlockKind) : A α Unit := do
  let newContent ← endBlockContent kind
  match newContent with
  | some c => pushContent c
  | none => pure ()
  modify fun s => { s with block := none }

def processEvent (env : Env) (input : Str) (ev : Ev α) : A α Unit := do
  match ev with
  | .frontMatter t => modify fun s => { s with oldStyle := false, frontMatter := some t }
  | .metadata k v => metadataA env k v
  | .section name =>
    modify fun s =>
      let secs := if !s.cur.isEmpty then s.sections ++ [s.cur] else s.sections
      { s with stepCounter := 1, sections := secs, cur := ⟨name.map (·.trimmed env.cs), []⟩ }
  | .start kind =>
    modify fun s =>
      let buf := if s.defineMode == .text then BlockBuf.text [] else
        match kind with
        | .step => BlockBuf.step []
        | .text => BlockBuf.text []
      { s with block := some buf }
  | .stop kind => endBlock kind
  | .text t => inStepText env t
  | .ingredient _ | .cookware _ | .timer _ => inBlockComponent env input ev
  | .error _ => pure ()     -- handled by the driver loop below
  | .warning d => modify fun s => { s with diags := s.diags.push d }

def isDiagEv : Ev α → Option Diag
  | .error d => some d
  | .warning d => some d
  | _ => none

/-- `RecipeCollector::parse_events` -/
def parseEventsLoop (env : Env) (input : Str) : List (Ev α) → Col α → AnalysisResult α
  | [], s =>
    let s := if !s.cur.isEmpty then { s with sections := s.sections ++ [s.cur], cur := ⟨none, []⟩ } else s
    let s := if !s.oldStyleUsed.isEmpty then
      { s with diags := s.diags.push ⟨.warning, .analysis, "meta-deprecated", s.oldStyleUsed⟩ } else s
    ⟨some s, s.diags, s.panic⟩
  | .error d :: rest, s =>
    let ds := (s.diags.push d) ++ (rest.filterMap isDiagEv).toArray
    ⟨none, ds.filter (fun x => x.stage == .parse), s.panic⟩
  | ev :: rest, s => parseEventsLoop env input rest ((processEvent env input ev s).2)

def parseEvents (env : Env) (input : Str) (evs : List (Ev α)) : AnalysisResult α :=
  parseEventsLoop env input evs {}

/-- `CooklangParser::parse`: `PullParser` + `parse_events`; a panic anywhere is reported -/
def parseRecipe (env : Env) (input : Str) : AnalysisResult α :=
  let pe := pullEvents (α := α) env.cs env.ext input
  let r := parseEvents env input pe.1.toList
  { r with panic := match pe.2 with
                    | some p => some p
                    | none => r.panic }

/-- `CooklangParser::parse_metadata` -/
def parseMetadata (env : Env) (input : Str) : AnalysisResult α :=
  let pe := pullMetaEvents (α := α) env.cs env.ext input
  let r := parseEvents env input pe.1.toList
  { r with panic := match pe.2 with
                    | some p => some p
                    | none => r.panic }

end Cook
