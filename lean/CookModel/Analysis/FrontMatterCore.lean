import CookModel.Syntax.Parser
import CookModel.Side.StdMeta
/-
  Model of the front-matter branch of the analysis pass
  (`RecipeCollector::process_frontmatter`, src/analysis/event_consumer.rs:233-336, and
  `yaml_find_key_position`, :1499-1520).

  `serde_yaml::from_str::<Mapping>` stays external: its result on the YAML slice (the decoded mapping
  in mapping order, values in the `SM.Y` encoding of the C13 model, or the error with its byte index)
  is the parameter `Env.decode`.  The user callback `ParseOptions::metadata_validator` is the parameter
  `Env.validator` (a `FnMut`: its verdict may depend on the call number and on the entry).  Everything
  the code itself does is modelled: the entry loop (validator diagnostic, `include`, `run_std_checks`,
  `check_std_entry` = the C13 model `SM.checkStdEntry`, the servings side effect), the removal of the
  excluded keys, the "Time overriden" warning with its three labels, the label positions
  (`yaml_find_key_position` over `List Char` with byte offsets) and the order of the diagnostics.

  The event fold of `Analysis/Collector.lean` records the front-matter event (`Col.frontMatter`) and is
  otherwise unchanged; `fullResult` applies `processFrontmatter` to the recorded slice and puts its
  effects where the code puts them.  The front-matter event is the FIRST event of both parsers
  (`PullParser::new` / `into_meta_iter`, proved: `C14_front_matter_split_same`), so at the moment the
  code runs `process_frontmatter` the report is empty, the map is empty and no servings are stored:
  the front-matter diagnostics therefore precede every other analysis diagnostic, the decoded mapping
  replaces an empty map, and (`>>` lines being steps once front matter is present,
  `C14_front_matter_full_metadata`) nothing is inserted afterwards.
-/
namespace Cook
namespace FM
open SM (Y)

/-- `serde_yaml::from_str::<serde_yaml::Mapping>(slice)`: the mapping (entries in mapping order) or
    the error with `err.location().map(|l| l.index())` -/
inductive Decoded where
  | ok (m : List (Y × Y))
  | err (loc : Option Nat)

/-- `CheckResult` of a user callback, without the hint texts -/
inductive CheckRes where
  | ok | warning | error
deriving DecidableEq, Repr, Inhabited

/-- what one call of the `metadata_validator` leaves behind: its result and the `CheckOptions` -/
structure Verdict where
  res : CheckRes := .ok
  incl : Bool := true
  runStd : Bool := true
deriving DecidableEq, Repr, Inhabited

/-- the external parts of `process_frontmatter` -/
structure Env (α : Type) where
  /-- the YAML decoder, on the text of the slice -/
  decode : Str → Decoded
  /-- `parse_options.metadata_validator`: `none` = no validator; otherwise the verdict of the
      `n`-th call (0-based) on `(key, value)` -/
  validator : Option (Nat → Y → Y → Verdict)
  /-- the converter, as `check_std_entry` sees it -/
  conv : SM.Conv α
  /-- `char::is_alphabetic` (used by `is_url`) -/
  alpha : Char → Bool

/-! ### `yaml_find_key_position` -/

def isColon (c : Char) : Bool := c = ':'
def isNL (c : Char) : Bool := c = '\n'

/-- the body of the loop for one line: `Some(start)` when the text before the first `:` of the
    line (after `trim_start`), from its first non-ASCII-blank character and with ASCII blanks
    trimmed at the end, equals `key`; `start` is the byte index of that first character in the
    TRIMMED line (the code adds it to the offset of the untrimmed line) -/
def keyLine (key line : Str) : Option Nat :=
  match SM.splitOnce isColon (SM.trimStartBy SM.isWs line) with
  | none => none
  | some r =>
    if (r.1.dropWhile SM.isAsciiWs).isEmpty then none
    else if SM.trimAsciiEnd (r.1.dropWhile SM.isAsciiWs) = key then
      some (utf8Len (r.1.takeWhile SM.isAsciiWs))
    else none

/-- the `for line in text.split_inclusive('\n')` loop; `off` is `offset` at the start of the line -/
def findKeyLoop (key : Str) : List Str → Nat → Option Nat
  | [], _ => none
  | line :: rest, off =>
    match keyLine key line with
    | some start => some (off + start)
    | none => findKeyLoop key rest (off + utf8Len line)

/-- `yaml_find_key_position(text, key)` -/
def yamlFindKeyPosition (text key : Str) : Option Nat :=
  findKeyLoop key (SM.splitIncl isNL text) 0

/-! ### the entry loop -/

/-- the label `Span::pos(yaml_text.span().start() + pos)` of a diagnostic about the entry `key`
    (no label for a non-string key or when the key is not found in the text) -/
def keyLabels (yamlStart : Nat) (text : Str) (key : Y) : List Span :=
  match SM.asStr key with
  | some ks =>
    match yamlFindKeyPosition text ks with
    | some pos => [Span.pos (yamlStart + pos)]
    | none => []
  | none => []

/-- the state of the loop: diagnostics pushed so far, the entries that stay in the mapping (the code
    collects the excluded keys and `shift_remove`s them afterwards; keys of a mapping are unique, so
    that is the list of the other entries in their order), the servings stored, the number of
    validator calls made -/
structure Acc where
  diags : List Diag := []
  kept : List (Y × Y) := []
  servings : Option (List Nat) := none
  calls : Nat := 0

/-- `res.into_source_diag(|| "Invalid metadata entry")` with the key label -/
def validatorDiag (v : Verdict) (labels : List Span) : List Diag :=
  match v.res with
  | .ok => []
  | .warning => [⟨.warning, .analysis, "metadata-validator", labels⟩]
  | .error => [⟨.error, .analysis, "metadata-validator", labels⟩]

section
variable {α : Type} [Arith α]

/-- the std-key part of the loop body: `check_std_entry` when the key is the name of a standard key -/
def stdEntry (fe : Env α) (yamlStart : Nat) (text : Str) (acc : Acc) (key value : Y) : Acc :=
  match (SM.asStr key).bind SM.StdKey.fromStr with
  | none => acc
  | some sk =>
    match SM.checkStdEntry fe.conv fe.alpha sk value with
    | some (some sv) => { acc with servings := some sv }
    | some none => acc
    | none => { acc with diags := acc.diags ++
        [⟨.warning, .analysis, "std-unsupported-value", keyLabels yamlStart text key⟩] }

/-- one iteration of `for (key, value) in yaml_map.iter()` -/
def entry (fe : Env α) (yamlStart : Nat) (text : Str) (acc : Acc) (kv : Y × Y) : Acc :=
  match fe.validator with
  | none => stdEntry fe yamlStart text { acc with kept := acc.kept ++ [kv] } kv.1 kv.2
  | some f =>
    let v := f acc.calls kv.1 kv.2
    let acc1 : Acc := { acc with calls := acc.calls + 1,
                                  diags := acc.diags ++ validatorDiag v (keyLabels yamlStart text kv.1) }
    if !v.incl then acc1
    else if !v.runStd then { acc1 with kept := acc1.kept ++ [kv] }
    else stdEntry fe yamlStart text { acc1 with kept := acc1.kept ++ [kv] } kv.1 kv.2

end

/-! ### "Time overriden" -/

/-- `yaml_map.contains_key(key.as_ref())` on the mapping after the removals -/
def hasKey (kept : List (Y × Y)) (k : SM.StdKey) : Bool := (SM.mapGet k.canon kept).isSome

/-- the closure `loc`: the position of the key line when the key is in the mapping -/
def timeLoc (text : Str) (kept : List (Y × Y)) (k : SM.StdKey) : Option Nat :=
  if hasKey kept k then yamlFindKeyPosition text k.canon else none

def posLabel (yamlStart : Nat) : Option Nat → List Span
  | some p => [Span.pos (yamlStart + p)]
  | none => []

/-- the warning pushed after the loop: labels `prep time`, `cook time` (overridden), `time` -/
def timeWarn (yamlStart : Nat) (text : Str) (kept : List (Y × Y)) : List Diag :=
  if hasKey kept .time then
    if (timeLoc text kept .prepTime).isSome || (timeLoc text kept .cookTime).isSome then
      [⟨.warning, .analysis, "time-overridden-fm",
        posLabel yamlStart (timeLoc text kept .prepTime) ++
        posLabel yamlStart (timeLoc text kept .cookTime) ++
        posLabel yamlStart (yamlFindKeyPosition text (SM.StdKey.canon .time))⟩]
    else []
  else []

/-! ### `process_frontmatter` -/

/-- the effects of `process_frontmatter` on the collector -/
structure Outcome where
  /-- `some m`: `self.content.metadata.map = m`; `none`: YAML error, the map is left as it is -/
  map : Option (List (Y × Y))
  /-- `some l`: `self.content.data = Servings(Some(l))` (the last standard servings entry) -/
  servings : Option (List Nat)
  /-- the diagnostics pushed, in order -/
  diags : List Diag

section
variable {α : Type} [Arith α]

/-- the loop over the decoded mapping -/
def entries (fe : Env α) (yamlStart : Nat) (text : Str) (m : List (Y × Y)) : Acc :=
  m.foldl (entry fe yamlStart text) {}

/-- `process_frontmatter(yaml_text)` -/
def processFrontmatter (fe : Env α) (yaml : Text) : Outcome :=
  match fe.decode yaml.text with
  | .err loc =>
    ⟨none, none, [⟨.error, .analysis, "yaml-error", posLabel yaml.span.start loc⟩]⟩
  | .ok m =>
    ⟨some (entries fe yaml.span.start yaml.text m).kept,
     (entries fe yaml.span.start yaml.text m).servings,
     (entries fe yaml.span.start yaml.text m).diags ++
       timeWarn yaml.span.start yaml.text (entries fe yaml.span.start yaml.text m).kept⟩

end

end FM
end Cook
