import CookModel.Analysis.Collector
import CookModel.Analysis.FrontMatterCore
/-
  The front-matter branch of the analysis inside the whole result of `parse` / `parse_metadata`
  (the model of `process_frontmatter` itself is Analysis/FrontMatterCore.lean, which does not depend
  on the collector): see the header of that file.
-/
namespace Cook
namespace FM
open SM (Y)

section
variable {α : Type} [Arith α]

/-! ### the whole result, front matter interpreted -/

/-- the outcome of `process_frontmatter` for the front-matter event the fold recorded -/
def outcomeOf (fe : Env α) (r : AnalysisResult α) : Option Outcome :=
  match r.output with
  | some s => s.frontMatter.map (processFrontmatter fe)
  | none => none

/-- the report: the front-matter diagnostics are pushed while the first event is processed, the
    others after it.  (Without output — a parse-stage error — only parse-stage diagnostics survive
    and those of the front matter are analysis-stage: the report is the one of the fold.) -/
def fullDiags (fe : Env α) (r : AnalysisResult α) : Array Diag :=
  match outcomeOf fe r with
  | some o => o.diags.toArray ++ r.diags
  | none => r.diags

/-- a `>>` entry as the mapping stores it: two YAML strings -/
def strEntry (p : Str × Str) : Y × Y := (.str p.1, .str p.2)

/-- `content.metadata.map` of the output -/
def fullMetadata (fe : Env α) (s : Col α) : List (Y × Y) :=
  match s.frontMatter.map (processFrontmatter fe) with
  | some o =>
    match o.map with
    | some m => m
    | none => s.metaMap.map strEntry
  | none => s.metaMap.map strEntry

/-- `content.data` of the output: the servings stored for scaling (a later `>>` entry would
    overwrite those of the front matter; with front matter there is none) -/
def fullServings (fe : Env α) (s : Col α) : Option (List Nat) :=
  match s.servings with
  | some l => some l
  | none => (s.frontMatter.map (processFrontmatter fe)).bind (·.servings)

end

/-! ### the `>>` path: `Env.stdCheck` instantiated with the C13 model -/

/-- the standard keys of the collector and of the C13 model are the same enumeration -/
def toSMKey : Cook.StdKey → SM.StdKey
  | .title => .title | .description => .description | .tags => .tags | .author => .author
  | .source => .source | .course => .course | .time => .time | .prepTime => .prepTime
  | .cookTime => .cookTime | .servings => .servings | .difficulty => .difficulty
  | .cuisine => .cuisine | .diet => .diet | .images => .images | .locale => .locale

/-- `check_std_entry(key, Value::String(value), converter)` as the collector's `Env.stdCheck` wants it -/
def stdCheckOfSM {α : Type} [Arith α] (c : SM.Conv α) (alpha : Char → Bool) (k : Cook.StdKey) (v : Str) :
    StdVerdict :=
  match SM.checkStdEntry c alpha (toSMKey k) (.str v) with
  | none => .rejected
  | some none => .ok
  | some (some l) => .servings l

end FM
end Cook
