import CookModel.Analysis.RefCheck
import CookModel.Analysis.MetaValidator
/-
  `RecipeCollector::parse_events` under `ParseOptions` with BOTH callbacks installed
  (`recipe_ref_check` and `metadata_validator`), src/analysis/event_consumer.rs.

  The two options are independent `Option`s of `ParseOptions`; each is looked at in ONE arm of the event loop only:
    * `Event::Metadata`  → `RecipeCollector::metadata`, which consults `parse_options.metadata_validator`
      (Analysis/MetaValidator.lean: `MV.metadataV`, the call counter of the `FnMut`);
    * `Event::Ingredient` inside a step → `RecipeCollector::ingredient`, which consults
      `parse_options.recipe_ref_check` as its last action (Analysis/RefCheck.lean: `RC.afterIngredient`).
  Every other arm is the one of `parseEventsLoop`.  `loopRV` is that loop with each of the two arms dispatching on its
  own option, built from the existing pieces; nothing of `RC` / `MV` / the collector is changed.  The validator's call
  counter is threaded as in `MV.loopV` (a reference check does not call the validator and vice versa).

  With front matter the validator is called by `process_frontmatter` (Analysis/FrontMatter.lean, `FM.fullDiags` etc.),
  as for `MV.parseRecipeV`; the reference check is not affected by front matter.

  Tied to the code by the driver operation `recipe_rv` (Driver/RefCheckValidator.lean) and `both_case` in
  harness/src/props/c18.rs (mode (g): the whole result of `parse_with_options` with the fixed pair of callbacks of that
  mode, documents with and without front matter).
-/
namespace Cook
namespace RV
open SM (Y)
variable {α : Type} [Arith α]

/-- the `Metadata` arm: `metadata()` with the validator of the options (if any); `n` = validator calls so far -/
def metaArm (env : Env) (input : Str) (val : Option (Nat → Y → Y → FM.Verdict)) (n : Nat) (k v : Text) (s : Col α) : Col α :=
  match val with
  | none => (processEvent env input (.metadata k v) s).2
  | some f => (MV.metadataV env (f n (MV.callArgs env k v).1 (MV.callArgs env k v).2) k v s).2

/-- the number of validator calls after the `Metadata` arm (a `[config]` entry makes none) -/
def metaCount (env : Env) (val : Option (Nat → Y → Y → FM.Verdict)) (n : Nat) (k : Text) : Nat :=
  match val with
  | none => n
  | some _ => if MV.isCfg env k then n else n + 1

/-- the `Ingredient` arm: `processEvent`, then the diagnostic of the reference check of the options (if any) -/
def igrArm (env : Env) (input : Str) (chk : Option (Str → FM.CheckRes)) (li : Loc (PIngredient α)) (s : Col α) : Col α :=
  match chk with
  | none => (processEvent env input (.ingredient li) s).2
  | some c => RC.afterIngredient c li s (processEvent env input (.ingredient li) s).2

/-- `RecipeCollector::parse_events` under `ParseOptions { recipe_ref_check: chk, metadata_validator: val }` -/
def loopRV (env : Env) (input : Str) (chk : Option (Str → FM.CheckRes)) (val : Option (Nat → Y → Y → FM.Verdict)) :
    List (Ev α) → Nat → Col α → AnalysisResult α
  | [], _, s => parseEventsLoop env input [] s
  | .error d :: rest, _, s => parseEventsLoop env input (.error d :: rest) s
  | .metadata k v :: rest, n, s => loopRV env input chk val rest (metaCount env val n k) (metaArm env input val n k v s)
  | .ingredient li :: rest, n, s => loopRV env input chk val rest n (igrArm env input chk li s)
  | ev :: rest, n, s => loopRV env input chk val rest n (processEvent env input ev s).2

/-- `parse_events` with both options -/
def parseEventsRV (env : Env) (input : Str) (chk : Option (Str → FM.CheckRes)) (val : Option (Nat → Y → Y → FM.Verdict))
    (evs : List (Ev α)) : AnalysisResult α :=
  loopRV env input chk val evs 0 {}

/-- `CooklangParser::parse_with_options` (both options) -/
def parseRecipeRV (env : Env) (chk : Option (Str → FM.CheckRes)) (val : Option (Nat → Y → Y → FM.Verdict))
    (input : Str) : AnalysisResult α :=
  let pe := pullEvents (α := α) env.cs env.ext input
  let r := parseEventsRV env input chk val pe.1.toList
  { r with panic := match pe.2 with
                    | some p => some p
                    | none => r.panic }

end RV
end Cook
