import CookModel.Analysis.Collector
import CookModel.Analysis.FrontMatterCore
/-
  `ParseOptions::recipe_ref_check` (src/analysis/event_consumer.rs, end of `RecipeCollector::ingredient`):

      if new_igr.modifiers.contains(RECIPE) && !new_igr.modifiers.contains(REF) {
          if let Some(checker) = self.parse_options.recipe_ref_check.as_mut() {
              let res = checker(&new_igr.name);
              if let Some(mut diag) = res.into_source_diag(|| format!("Referenced recipe not found: {}", new_igr.name)) {
                  diag.add_label(label!(location));          // the span of the whole ingredient component
                  self.ctx.push(diag);
              }
          }
      }
      self.locations.ingredients.push(located_ingredient);
      self.content.ingredients.push(new_igr);

  The check is the LAST thing `ingredient()` does before it stores the ingredient, and `in_step` pushes nothing after
  the call, so its diagnostic is the last one the `Ingredient` event causes.  `ingredient()` runs only for an
  ingredient inside a step block (`in_text` ignores the component); it stores exactly one ingredient.  The model keeps
  `processEvent` as it is and adds the diagnostic after it (`afterIngredient`), reading name and modifiers from the
  ingredient just stored — the values the code checks (`resolve_reference` has already run).

  The callback is a parameter: its verdict on the name (`FM.CheckRes`, the `CheckResult` without hint texts).  A
  callback whose answers depend on how often it was called is outside the model.

  Tied to the code by the driver operation `recipe_rc` (Driver/RefCheck.lean) and `ref_check_case` in
  harness/src/props/c04.rs (whole report of `parse_with_options` with a `recipe_ref_check`, three callbacks).
-/
namespace Cook
namespace RC
variable {α : Type} [Arith α]

/-- the diagnostic of the check for the ingredient `ig` whose component is at `loc` -/
def refDiag (chk : Str → FM.CheckRes) (loc : Span) (ig : Ingredient (ScalableValue α)) : Option Diag :=
  if ig.modifiers.contains Modifiers.RECIPE && !ig.modifiers.contains Modifiers.REF then
    match chk ig.name with
    | .ok => none
    | .warning => some ⟨.warning, .analysis, "recipe-not-found", [loc]⟩
    | .error => some ⟨.error, .analysis, "recipe-not-found", [loc]⟩
  else none

/-- the collector after the `Ingredient` event `li`: `s` before, `s'` after `processEvent`; if the event stored an
    ingredient, the diagnostic of the check (if any) is pushed -/
def afterIngredient (chk : Str → FM.CheckRes) (li : Loc (PIngredient α)) (s s' : Col α) : Col α :=
  if s'.ingredients.size = s.ingredients.size + 1 then
    match s'.ingredients.back? with
    | some ig =>
      match refDiag chk li.span ig with
      | some d => { s' with diags := s'.diags.push d }
      | none => s'
    | none => s'
  else s'

/-- `RecipeCollector::parse_events` with a `recipe_ref_check`; only the `Ingredient` arm differs from `parseEventsLoop` -/
def loopR (env : Env) (input : Str) (chk : Str → FM.CheckRes) : List (Ev α) → Col α → AnalysisResult α
  | [], s => parseEventsLoop env input [] s
  | .error d :: rest, s => parseEventsLoop env input (.error d :: rest) s
  | .ingredient li :: rest, s =>
    loopR env input chk rest (afterIngredient chk li s (processEvent env input (.ingredient li) s).2)
  | ev :: rest, s => loopR env input chk rest (processEvent env input ev s).2

/-- `parse_events` under `ParseOptions { recipe_ref_check, .. }` -/
def parseEventsR (env : Env) (input : Str) (chk : Option (Str → FM.CheckRes)) (evs : List (Ev α)) : AnalysisResult α :=
  match chk with
  | none => parseEvents env input evs
  | some f => loopR env input f evs {}

/-- `CooklangParser::parse_with_options` (the `recipe_ref_check` option) -/
def parseRecipeR (env : Env) (chk : Option (Str → FM.CheckRes)) (input : Str) : AnalysisResult α :=
  let pe := pullEvents (α := α) env.cs env.ext input
  let r := parseEventsR env input chk pe.1.toList
  { r with panic := match pe.2 with
                    | some p => some p
                    | none => r.panic }

end RC
end Cook
