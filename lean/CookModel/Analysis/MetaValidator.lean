import CookModel.Analysis.FrontMatter
/-
  `ParseOptions::metadata_validator` on the `>>` path (`RecipeCollector::metadata`,
  src/analysis/event_consumer.rs:338-451, the part :397-417).

  For an entry that is not a `[config]` entry the code
    * records the old-style span (:391),
    * calls the validator on `(Value::String(key_t), Value::String(value_t))` (:400); a `Warning` /
      `Error` verdict becomes the diagnostic "Invalid metadata entry" labelled with the key span and the
      value span, in that order (:401-405);
    * `!action.include` → return: nothing inserted, no std check (:406-408);
    * inserts the entry (:412);
    * `!action.run_std_checks` → return (:415-417);
    * otherwise goes on as without a validator (`StdKey::from_str`, `check_std_entry`, …).
  A `[config]` entry under MODES returns before the validator is consulted (:388): no call is made.

  `Analysis/Collector.lean` is unchanged (`metadataA` is the default-options code and a dozen lemma
  files are about it).  `metadataV` is the arm with the verdict of the call as data, as in the
  front-matter loop (`FM.Verdict`); the validator is a `FnMut`, so its verdict may depend on the call
  number: the fold `loopV` threads the number of calls made so far.  With front matter the validator is
  called by `process_frontmatter` only (no `>>` line is an entry then: `C14_front_matter_only_config_entries`),
  without front matter by this arm only; so counting from 0 here is exact for every event stream the
  parsers produce.

  Tied to the code by the operations `recipe_fm` / `metaonly_fm` (Driver/FrontMatter.lean), which run
  `parseRecipeV` / `parseMetadataV` with the recorded verdicts, for documents with and without front
  matter (harness/src/fm.rs).
-/
namespace Cook
namespace MV
open SM (Y)

variable {α : Type} [Arith α]

/-- the test that sends an entry to the `[config]` branch (`Extensions::MODES` and a key `[…]`): such
    an entry never reaches the validator -/
def isCfg (env : Env) (key : Text) : Bool :=
  env.ext.has Gen.EXT_MODES && (key.trimmed env.cs).head? == some '[' && (key.trimmed env.cs).getLast? == some ']'

/-- the rest of `metadata` after the insertion (:418-450): `StdKey::from_str`, `check_std_entry`, the
    servings side effect, the warning, the location, the time-override check -/
def stdTail (env : Env) (key value : Text) : A α Unit := do
  match StdKey.ofStr (String.ofList (key.trimmed env.cs)) with
  | none => pure ()
  | some sk =>
    match env.stdCheck sk (value.outerTrimmed env.cs) with
    | .rejected => awarn "std-unsupported-value" [value.span, key.span]
    | .servings sv =>
      modify fun s => { s with servings := some sv }
      modify fun s => { s with metaLocs :=
        (s.metaLocs.filter (fun p => p.1 != sk)) ++ [(sk, ⟨key.span.start, value.span.stop⟩)] }
      if stdKeyIsTime sk then timeOverrideCheck sk
    | .ok =>
      modify fun s => { s with metaLocs :=
        (s.metaLocs.filter (fun p => p.1 != sk)) ++ [(sk, ⟨key.span.start, value.span.stop⟩)] }
      if stdKeyIsTime sk then timeOverrideCheck sk

/-- `res.into_source_diag(|| "Invalid metadata entry")` with `add_label(key.span())`,
    `add_label(value.span())` -/
def validatorDiags (v : FM.Verdict) (key value : Text) : List Diag :=
  FM.validatorDiag v [key.span, value.span]

/-- the old-style span is recorded and the validator's diagnostic pushed (:391-405) -/
def noteCall (v : FM.Verdict) (key value : Text) (s : Col α) : Col α :=
  { s with oldStyleUsed := s.oldStyleUsed ++ [⟨key.span.start, value.span.stop⟩],
           diags := s.diags ++ (validatorDiags v key value).toArray }

/-- `self.content.metadata.map.insert(yaml_key, yaml_value)` (:412) -/
def insertEntry (env : Env) (key value : Text) (s : Col α) : Col α :=
  { s with metaMap := metaInsert s.metaMap (key.trimmed env.cs) (value.outerTrimmed env.cs) }

/-- `RecipeCollector::metadata(key, value)` when a validator is installed and its call on this entry
    (if one is made) leaves the verdict `v` -/
def metadataV (env : Env) (v : FM.Verdict) (key value : Text) : A α Unit :=
  if isCfg env key then metadataA env key value
  else do
    modify (noteCall v key value)
    if !v.incl then return
    modify (insertEntry env key value)
    if !v.runStd then return
    stdTail env key value

/-- the arguments the validator is called with: two `Value::String`s -/
def callArgs (env : Env) (key value : Text) : Y × Y :=
  (.str (key.trimmed env.cs), .str (value.outerTrimmed env.cs))

/-- `RecipeCollector::parse_events` with a validator `f` (verdict of the `n`-th call, 0-based, on
    `(key, value)`); `n` = calls made so far.  Only the `Metadata` arm differs from `parseEventsLoop`. -/
def loopV (env : Env) (input : Str) (f : Nat → Y → Y → FM.Verdict) : List (Ev α) → Nat → Col α → AnalysisResult α
  | [], _, s => parseEventsLoop env input [] s
  | .error d :: rest, _, s => parseEventsLoop env input (.error d :: rest) s
  | .metadata k v :: rest, n, s =>
    loopV env input f rest (if isCfg env k then n else n + 1)
      ((metadataV env (f n (callArgs env k v).1 (callArgs env k v).2) k v s).2)
  | ev :: rest, n, s => loopV env input f rest n ((processEvent env input ev s).2)

/-- `parse_events` under `ParseOptions { metadata_validator, .. }` -/
def parseEventsV (env : Env) (input : Str) (val : Option (Nat → Y → Y → FM.Verdict)) (evs : List (Ev α)) :
    AnalysisResult α :=
  match val with
  | none => parseEvents env input evs
  | some f => loopV env input f evs 0 {}

/-- `CooklangParser::parse_with_options` (the `metadata_validator` option) -/
def parseRecipeV (env : Env) (val : Option (Nat → Y → Y → FM.Verdict)) (input : Str) : AnalysisResult α :=
  let pe := pullEvents (α := α) env.cs env.ext input
  let r := parseEventsV env input val pe.1.toList
  { r with panic := match pe.2 with
                    | some p => some p
                    | none => r.panic }

/-- `CooklangParser::parse_metadata_with_options` -/
def parseMetadataV (env : Env) (val : Option (Nat → Y → Y → FM.Verdict)) (input : Str) : AnalysisResult α :=
  let pe := pullMetaEvents (α := α) env.cs env.ext input
  let r := parseEventsV env input val pe.1.toList
  { r with panic := match pe.2 with
                    | some p => some p
                    | none => r.panic }

end MV
end Cook
