import CookModel.Basic.Proto
import CookModel.Syntax.CharTable
import CookModel.Driver.Render
import CookModel.Analysis.Collector
namespace Cook.Driver
open Cook Proto

def renderTok (t : Tok) : String := s!"{t.kind.name}:{t.start}:{t.stop}"

/-- the environment of a real parser: extensions, empty (0) or bundled (1) converter -/
def realEnv (ext conv : Nat) : Env where
  cs := realCharSpec
  ext := ⟨ext⟩
  findUnit := if conv == 0 then fun _ => none else bundledFindUnit
  stdCheck := fun _ _ => .ok      -- until the std-metadata model is plugged in (its effects are filtered from the reply)
  fold := realFold
  timeQ := 4

def handleSyntax : List String → Option String
  | ["tokens", off, txt] => do
    let off ← parseNat? off
    let s ← parseText? txt
    return " ".intercalate ((lexFrom realCharSpec off s).map renderTok)
  | ["tokens_fm", txt] => do
    let s ← parseText? txt
    let toks := match parseFrontmatter realCharSpec s with
      | some fm => lexFrom realCharSpec fm.cookOffset fm.cookText
      | none => lex realCharSpec s
    return if toks.isEmpty then "<none>" else " ".intercalate (toks.map renderTok)
  | ["events", ext, txt] => do
    let ext ← parseNat? ext
    let s ← parseText? txt
    return rEvents (pullEvents (α := Float) realCharSpec ⟨ext⟩ s)
  | ["metaevents", ext, txt] => do
    let ext ← parseNat? ext
    let s ← parseText? txt
    return rEvents (pullMetaEvents (α := Float) realCharSpec ⟨ext⟩ s)
  | ["recipe", ext, conv, txt] => do
    let ext ← parseNat? ext
    let conv ← parseNat? conv
    let s ← parseText? txt
    let r := parseRecipe (α := Float) (realEnv ext conv) s
    let hasFm := (r.output.map (fun c => c.frontMatter.isSome)).getD (parseFrontmatter realCharSpec s).isSome
    return rAnalysis r hasFm
  | ["metaonly", ext, conv, txt] => do
    let ext ← parseNat? ext
    let conv ← parseNat? conv
    let s ← parseText? txt
    let r := parseMetadata (α := Float) (realEnv ext conv) s
    let hasFm := (parseFrontmatter realCharSpec s).isSome
    return match r.panic with
      | some p => s!"PANIC {p}"
      | none => match r.output with
        | none => "NOOUT"
        | some c => if hasFm then "OUT fm" else "OUT meta=[" ++ " ".intercalate (c.metaMap.map (fun p => rStr p.1 ++ "=" ++ rStr p.2)) ++ "]"
  | ["classbits", cp] => do
    let cp ← parseNat? cp
    return toString (classBits (Char.ofNat cp))
  | _ => none

end Cook.Driver
