import CookModel.Basic.Proto
import CookModel.Syntax.CharTable
namespace Cook.Driver
open Cook Proto

def renderTok (t : Tok) : String := s!"{t.kind.name}:{t.start}:{t.stop}"

def handleSyntax : List String → Option String
  | ["tokens", off, txt] => do
    let off ← parseNat? off
    let s ← parseText? txt
    return " ".intercalate ((lexFrom realCharSpec off s).map renderTok)
  | ["classbits", cp] => do
    let cp ← parseNat? cp
    return toString (classBits (Char.ofNat cp))
  | _ => none

end Cook.Driver
