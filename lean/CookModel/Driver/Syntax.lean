import CookModel.Basic.Proto
import CookModel.Syntax.CharTable
import CookModel.Driver.Render
import CookModel.Analysis.Collector
import CookModel.Side.StdMeta
import CookModel.Analysis.FrontMatter
import CookModel.Num.Convert
namespace Cook.Driver
open Cook Proto

def renderTok (t : Tok) : String := s!"{t.kind.name}:{t.start}:{t.stop}"

/-- the converter as `check_std_entry` sees it (time units, ratios, the name index) -/
def smConv (c : Converter Float) : SM.Conv Float :=
  ⟨c.allUnits.map (fun u => ⟨u.pq == .time, u.ratio, u.difference⟩),
   fun k => c.allUnits.findIdx? (fun u => u.allKeys.contains k)⟩

def toSMKey : Cook.StdKey → SM.StdKey
  | .title => .title | .description => .description | .tags => .tags | .author => .author
  | .source => .source | .course => .course | .time => .time | .prepTime => .prepTime
  | .cookTime => .cookTime | .servings => .servings | .difficulty => .difficulty
  | .cuisine => .cuisine | .diet => .diet | .images => .images | .locale => .locale

def uniAlpha (c : Char) : Bool := classBits c &&& 32 != 0

def bundledSM : SM.Conv Float := smConv (Converter.bundled Float)
def emptySM : SM.Conv Float := smConv (Converter.empty (mkTable Float Gen.DENOMS))

/-- the environment of a real parser: extensions, empty (0) or bundled (1) converter -/
def realEnv (ext conv : Nat) : Env where
  cs := realCharSpec
  ext := ⟨ext⟩
  findUnit := if conv == 0 then fun _ => none else bundledFindUnit
  -- `check_std_entry` on a `>>` value: the C13 model (`FM.stdCheckOfSM`, Analysis/FrontMatter.lean)
  stdCheck := FM.stdCheckOfSM (if conv == 0 then emptySM else bundledSM) uniAlpha
  fold := realFold
  timeQ := 4

def handleSyntax : List String → Option String
  | ["tokens", off, txt] => do
    let off ← parseNat? off
    let s ← parseText? txt
    return " ".intercalate ((lexFrom realCharSpec off s).map renderTok)
  | ["tokens_fm", txt] => do
    let s ← parseText? txt
    let toks := match parseFrontmatter realCharSpec s with
      | some fm => lexFrom realCharSpec fm.cookOffset fm.cookText
      | none => lex realCharSpec s
    return if toks.isEmpty then "<none>" else " ".intercalate (toks.map renderTok)
  | ["events", ext, txt] => do
    let ext ← parseNat? ext
    let s ← parseText? txt
    return rEvents (pullEvents (α := Float) realCharSpec ⟨ext⟩ s)
  | ["metaevents", ext, txt] => do
    let ext ← parseNat? ext
    let s ← parseText? txt
    return rEvents (pullMetaEvents (α := Float) realCharSpec ⟨ext⟩ s)
  | ["recipe", ext, conv, txt] => do
    let ext ← parseNat? ext
    let conv ← parseNat? conv
    let s ← parseText? txt
    let r := parseRecipe (α := Float) (realEnv ext conv) s
    let hasFm := (r.output.map (fun c => c.frontMatter.isSome)).getD (parseFrontmatter realCharSpec s).isSome
    return rAnalysis r hasFm
  | ["metaonly", ext, conv, txt] => do
    let ext ← parseNat? ext
    let conv ← parseNat? conv
    let s ← parseText? txt
    let r := parseMetadata (α := Float) (realEnv ext conv) s
    let hasFm := (parseFrontmatter realCharSpec s).isSome
    return match r.panic with
      | some p => s!"PANIC {p}"
      | none => match r.output with
        | none => "NOOUT"
        | some c => if hasFm then "OUT fm" else "OUT meta=[" ++ " ".intercalate (c.metaMap.map (fun p => rStr p.1 ++ "=" ++ rStr p.2)) ++ "]"
  | ["classbits", cp] => do
    let cp ← parseNat? cp
    return toString (classBits (Char.ofNat cp))
  | _ => none

end Cook.Driver
