import CookModel.Basic.Proto
import CookModel.Syntax.CharTable
import CookModel.Driver.Render
namespace Cook.Driver
open Cook Proto

def renderTok (t : Tok) : String := s!"{t.kind.name}:{t.start}:{t.stop}"

def handleSyntax : List String → Option String
  | ["tokens", off, txt] => do
    let off ← parseNat? off
    let s ← parseText? txt
    return " ".intercalate ((lexFrom realCharSpec off s).map renderTok)
  | ["events", ext, txt] => do
    let ext ← parseNat? ext
    let s ← parseText? txt
    return rEvents (pullEvents (α := Float) realCharSpec ⟨ext⟩ s)
  | ["metaevents", ext, txt] => do
    let ext ← parseNat? ext
    let s ← parseText? txt
    return rEvents (pullMetaEvents (α := Float) realCharSpec ⟨ext⟩ s)
  | ["classbits", cp] => do
    let cp ← parseNat? cp
    return toString (classBits (Char.ofNat cp))
  | _ => none

end Cook.Driver
