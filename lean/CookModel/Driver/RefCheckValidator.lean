import CookModel.Driver.Syntax
import CookModel.Driver.FrontMatter
import CookModel.Analysis.RefCheckValidator
/-
  Line-protocol handler for `ParseOptions` with BOTH callbacks (Analysis/RefCheckValidator.lean).

    recipe_rv <ext> <conv> <fm> <text>     `CooklangParser::parse_with_options` with the pair of callbacks of mode (g)
                                           of harness/src/props/c18.rs (`image_opts`):
        recipe_ref_check     Error if the name contains `a` or `e`, else Warning
        metadata_validator   Warning if the key is a string starting with `z`, else Ok (include, run_std_checks untouched)

    <conv>  0 = empty converter, 1 = bundled converter
    <fm>    as for `recipe_fm`: `M{…}` the decoded mapping, `E~` / `E<byte index>` a YAML error, `-` no front matter
  Reply: the one of `recipe_fm` (recipe, metadata mapping, servings, every diagnostic with labels in report order).
-/
namespace Cook.Driver
open Cook Cook.SM Proto

def rvChecker (name : Str) : FM.CheckRes :=
  if name.contains 'a' || name.contains 'e' then .error else .warning

def rvValidator : Nat → Y → Y → FM.Verdict := fun _ k _ =>
  match k with
  | .str s => if s.head? == some 'z' then ⟨.warning, true, true⟩ else {}
  | _ => {}

def handleRefCheckValidator : List String → Option String
  | ["recipe_rv", ext, conv, fm, txt] => do
    let ext ← parseNat? ext
    let conv ← parseNat? conv
    let d ← parseDecoded fm
    let s ← parseText? txt
    if decodedHuge d then return "huge-exponent"
    return rAnalysisFm (fmEnv conv d (some rvValidator))
      (RV.parseRecipeRV (α := Float) (realEnv ext conv) (some rvChecker) (some rvValidator) s)
  | _ => none

end Cook.Driver
