import CookModel.Basic.Sexp
import CookModel.Analysis.Model
/-
  Decoders: S-expression → recipe data model (Analysis/Model.lean) at `α := Float`.

  RECIPE  := ( recipe ( SEC* ) ( ING* ) ( CW* ) ( TM* ) ( QTY* ) )
  SEC     := ( sec OPTTEXT ( CONTENT* ) )            OPTTEXT := none | ( some TEXT )
  CONTENT := ( step N ( ITEM* ) ) | ( text TEXT )
  ITEM    := ( t TEXT ) | ( i N ) | ( c N ) | ( m N ) | ( q N )
  ING     := ( ing TEXT OPTTEXT OPT<QTY> OPTTEXT OPT<REF> IREL N )
  QTY     := ( qty V OPTTEXT )
  VALUE   := ( num NUMBER ) | ( range NUMBER NUMBER ) | ( text TEXT )
  SVALUE  := ( fixed VALUE ) | ( linear VALUE )
  NUMBER  := ( R BITS ) | ( F N N N BITS )
  REF     := ( ref TEXT ( TEXT* ) )
  IREL    := ( irel REL TARGET )     TARGET := none | ingredient | step | section
  REL     := ( def ( N* ) BOOL ) | ( refto N )
  CW      := ( cw TEXT OPTTEXT OPT<V> OPTTEXT REL N )
  TM      := ( tm OPTTEXT OPT<QTY> )
-/
namespace Cook.Driver.RecipeSexp
open Cook Sexp

def decNumber : Sexp → Option (Number Float)
  | .list [.atom "R", b] => (bits? b).map .regular
  | .list [.atom "F", w, n, d, e] => do
    return .fraction (← nat? w) (← nat? n) (← nat? d) (← bits? e)
  | _ => none

def decValue : Sexp → Option (Value Float)
  | .list [.atom "num", n] => (decNumber n).map .number
  | .list [.atom "range", s, e] => do return .range (← decNumber s) (← decNumber e)
  | .list [.atom "text", t] => (text? t).map .text
  | _ => none

def decScalable : Sexp → Option (ScalableValue Float)
  | .list [.atom "fixed", v] => (decValue v).map .fixed
  | .list [.atom "linear", v] => (decValue v).map .linear
  | _ => none

def decQuantity {V} (dv : Sexp → Option V) : Sexp → Option (Quantity V)
  | .list [.atom "qty", v, u] => do return ⟨← dv v, ← opt? text? u⟩
  | _ => none

def decItem : Sexp → Option Item
  | .list [.atom "t", t] => (text? t).map .text
  | .list [.atom "i", n] => (nat? n).map .ingredient
  | .list [.atom "c", n] => (nat? n).map .cookware
  | .list [.atom "m", n] => (nat? n).map .timer
  | .list [.atom "q", n] => (nat? n).map .inlineQuantity
  | _ => none

def decContent : Sexp → Option Content
  | .list [.atom "step", n, items] => do return .step ⟨← listOf? decItem items, ← nat? n⟩
  | .list [.atom "text", t] => (text? t).map .text
  | _ => none

def decSection : Sexp → Option Section
  | .list [.atom "sec", name, content] => do return ⟨← opt? text? name, ← listOf? decContent content⟩
  | _ => none

def decRelation : Sexp → Option ComponentRelation
  | .list [.atom "def", rf, b] => do return .definition (← listOf? nat? rf) (← bool? b)
  | .list [.atom "refto", n] => (nat? n).map .reference
  | _ => none

def decTarget : Sexp → Option (Option RefTarget)
  | .atom "none" => some none
  | .atom "ingredient" => some (some .ingredient)
  | .atom "step" => some (some .step)
  | .atom "section" => some (some .section)
  | _ => none

def decIngRelation : Sexp → Option IngredientRelation
  | .list [.atom "irel", r, t] => do return ⟨← decRelation r, ← decTarget t⟩
  | _ => none

def decReference : Sexp → Option RecipeReference
  | .list [.atom "ref", n, cs] => do return ⟨← text? n, ← listOf? text? cs⟩
  | _ => none

def decIngredient {V} (dv : Sexp → Option V) : Sexp → Option (Ingredient V)
  | .list [.atom "ing", name, al, q, note, rf, rel, m] => do
    return ⟨← text? name, ← opt? text? al, ← opt? (decQuantity dv) q, ← opt? text? note,
            ← opt? decReference rf, ← decIngRelation rel, ⟨← nat? m⟩⟩
  | _ => none

def decCookware {V} (dv : Sexp → Option V) : Sexp → Option (Cookware V)
  | .list [.atom "cw", name, al, q, note, rel, m] => do
    return ⟨← text? name, ← opt? text? al, ← opt? dv q, ← opt? text? note, ← decRelation rel, ⟨← nat? m⟩⟩
  | _ => none

def decTimer {V} (dv : Sexp → Option V) : Sexp → Option (Timer V)
  | .list [.atom "tm", name, q] => do return ⟨← opt? text? name, ← opt? (decQuantity dv) q⟩
  | _ => none

def decRecipe {V} (dv : Sexp → Option V) : Sexp → Option (Recipe Float V)
  | .list [.atom "recipe", secs, ings, cw, tm, iq] => do
    return { sections := ← listOf? decSection secs, ingredients := ← listOf? (decIngredient dv) ings,
             cookware := ← listOf? (decCookware dv) cw, timers := ← listOf? (decTimer dv) tm,
             inlineQuantities := ← listOf? (decQuantity decValue) iq }
  | _ => none

def decScaledRecipe : Sexp → Option (ScaledRecipe Float) := decRecipe decValue
def decScalableRecipe : Sexp → Option (ScalableRecipe Float) := decRecipe decScalable

end Cook.Driver.RecipeSexp
