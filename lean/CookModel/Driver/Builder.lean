import CookModel.Basic.Proto
import CookModel.Side.Builder
/-
  C16 driver: `build (F1 F2 …)` → canonical dump of the converter or the build error;
  `build_shipped` → the same for the generated units.toml value; `blank <text>` → `key.trim().is_empty()`.

  Wire format of a units file (S-expression, `_` = None, texts as code point lists, f64 as bit patterns):
    F     = (DS SI FR EX (G…))
    DS    = _ | metric | imperial
    SI    = _ | (PFX PFX PREC)          PFX = _ | (TL TL TL TL TL TL)      TL = (text…)
    FR    = _ | (W W W ((quantity W1)…) ((text W1)…))
    W     = _ | W1                      W1  = (t 0|1) | (c EN ACC MD MW)
    EX    = _ | (PREC ((text (R D N S A))…))     R,D = _ | bits    N,S,A = _ | TL
    G     = (quantity BEST UNITS)
    BEST  = _ | (u TL) | (s TL TL)
    UNITS = _ | (u (UE…)) | (s (UE…) (UE…) (UE…))
    UE    = (TL TL TL ratio difference 0|1)
-/
namespace Cook.Driver
open Cook Cook.Bld Proto

inductive Sx
  | atom (s : String)
  | list (l : List Sx)

inductive Tok | lp | rp | at (s : String)

def tokenize (s : String) : List Tok :=
  let flush (cur : List Char) (acc : List Tok) : List Tok :=
    if cur.isEmpty then acc else Tok.at (String.ofList cur.reverse) :: acc
  let r := s.toList.foldl (fun (st : List Char × List Tok) ch =>
    if ch = '(' then ([], Tok.lp :: flush st.1 st.2)
    else if ch = ')' then ([], Tok.rp :: flush st.1 st.2)
    else if ch = ' ' then ([], flush st.1 st.2)
    else (ch :: st.1, st.2)) ([], [])
  (flush r.1 r.2).reverse

mutual
partial def parseSx : List Tok → Option (Sx × List Tok)
  | Tok.at s :: rest => some (.atom s, rest)
  | Tok.lp :: rest => (parseList rest []).map (fun r => (.list r.1, r.2))
  | _ => none
partial def parseList : List Tok → List Sx → Option (List Sx × List Tok)
  | Tok.rp :: rest, acc => some (acc.reverse, rest)
  | toks, acc => match parseSx toks with
    | some (x, rest) => parseList rest (x :: acc)
    | none => none
end

def dText : Sx → Option Key
  | .atom s => parseText? s
  | _ => none

def dTexts : Sx → Option (List Key)
  | .list l => l.mapM dText
  | _ => none

def dOpt {β : Type} (f : Sx → Option β) : Sx → Option (Option β)
  | .atom "_" => some none
  | x => (f x).map some

def dBits : Sx → Option Float
  | .atom s => parseBits? s
  | _ => none

def dNat : Sx → Option Nat
  | .atom s => s.toNat?
  | _ => none

def dBool : Sx → Option Bool
  | .atom "0" => some false
  | .atom "1" => some true
  | _ => none

def dSys : Sx → Option Sys
  | .atom "metric" => some .metric
  | .atom "imperial" => some .imperial
  | _ => none

def dPrec : Sx → Option Prec
  | .atom "before" => some .before
  | .atom "after" => some .after
  | .atom "override" => some .override
  | _ => none

def dPQ : Sx → Option PQ
  | .atom "volume" => some .volume
  | .atom "mass" => some .mass
  | .atom "length" => some .length
  | .atom "temperature" => some .temperature
  | .atom "time" => some .time
  | _ => none

def dPfx : Sx → Option (SIPrefix → List Key)
  | .list [a, b, c, d, e, f] => do
    let a ← dTexts a; let b ← dTexts b; let c ← dTexts c; let d ← dTexts d; let e ← dTexts e; let f ← dTexts f
    some (fun p => match p with | .kilo => a | .hecto => b | .deca => c | .deci => d | .centi => e | .milli => f)
  | _ => none

def dSI : Sx → Option SIConf
  | .list [p, s, pr] => do
    let p ← dOpt dPfx p; let s ← dOpt dPfx s; let pr ← dPrec pr
    some { prefixes := p, symbolPrefixes := s, precedence := pr }
  | _ => none

def dW : Sx → Option (FracW Float)
  | .list [.atom "t", b] => (dBool b).map .toggle
  | .list [.atom "c", en, acc, md, mw] => do
    let en ← dOpt dBool en; let acc ← dOpt dBits acc; let md ← dOpt dNat md; let mw ← dOpt dNat mw
    some (.custom { enabled := en, accuracy := acc, maxDen := md, maxWhole := mw })
  | _ => none

def dPair {β γ : Type} (f : Sx → Option β) (g : Sx → Option γ) : Sx → Option (β × γ)
  | .list [a, b] => do let a ← f a; let b ← g b; some (a, b)
  | _ => none

def dList {β : Type} (f : Sx → Option β) : Sx → Option (List β)
  | .list l => l.mapM f
  | _ => none

def dFR : Sx → Option (FractionsDecl Float)
  | .list [a, m, i, q, u] => do
    let a ← dOpt dW a; let m ← dOpt dW m; let i ← dOpt dW i
    let q ← dList (dPair dPQ dW) q; let u ← dList (dPair dText dW) u
    some { all := a, metric := m, imperial := i, quantity := q, unit := u }
  | _ => none

def dEE : Sx → Option (ExtendEntry Float)
  | .list [r, d, n, s, a] => do
    let r ← dOpt dBits r; let d ← dOpt dBits d; let n ← dOpt dTexts n; let s ← dOpt dTexts s; let a ← dOpt dTexts a
    some { ratio := r, difference := d, names := n, symbols := s, aliases := a }
  | _ => none

def dEX : Sx → Option (Extend Float)
  | .list [pr, us] => do
    let pr ← dPrec pr; let us ← dList (dPair dText dEE) us
    some { precedence := pr, units := us }
  | _ => none

def dUE : Sx → Option (UnitEntry Float)
  | .list [n, s, a, r, d, e] => do
    let n ← dTexts n; let s ← dTexts s; let a ← dTexts a; let r ← dBits r; let d ← dBits d; let e ← dBool e
    some { names := n, symbols := s, aliases := a, ratio := r, difference := d, expandSi := e }
  | _ => none

def dBest : Sx → Option BestDecl
  | .list [.atom "u", l] => (dTexts l).map .unified
  | .list [.atom "s", m, i] => do let m ← dTexts m; let i ← dTexts i; some (.bySystem m i)
  | _ => none

def dUnits : Sx → Option (UnitsDecl Float)
  | .list [.atom "u", l] => (dList dUE l).map .unified
  | .list [.atom "s", m, i, u] => do
    let m ← dList dUE m; let i ← dList dUE i; let u ← dList dUE u; some (.bySystem m i u)
  | _ => none

def dGroup : Sx → Option (QuantityGroup Float)
  | .list [q, b, u] => do
    let q ← dPQ q; let b ← dOpt dBest b; let u ← dOpt dUnits u
    some { quantity := q, best := b, units := u }
  | _ => none

def dFile : Sx → Option (UnitsFile Float)
  | .list [ds, si, fr, ex, qs] => do
    let ds ← dOpt dSys ds; let si ← dOpt dSI si; let fr ← dOpt dFR fr; let ex ← dOpt dEX ex; let qs ← dList dGroup qs
    some { defaultSystem := ds, si := si, fractions := fr, extend := ex, quantity := qs }
  | _ => none

/-! rendering -/

def rF (x : Float) : String := if x == x then toString x.toBits else "nan"

def rTexts (l : List Key) : String := if l.isEmpty then "~" else "+".intercalate (l.map renderText)

def rPQ : PQ → String
  | .volume => "volume" | .mass => "mass" | .length => "length" | .temperature => "temperature" | .time => "time"

def rSys : Sys → String
  | .metric => "metric" | .imperial => "imperial"

def rOptSys : Option Sys → String
  | none => "_" | some s => rSys s

def rUnit (u : Bld.Unit Float) : String :=
  "|".intercalate [rTexts u.names, rTexts u.symbols, rTexts u.aliases, rF u.ratio, rF u.difference, rPQ u.quantity, rOptSys u.system]

def lexLe : List Nat → List Nat → Bool
  | [], _ => true
  | _ :: _, [] => false
  | a :: as, b :: bs => if a < b then true else if b < a then false else lexLe as bs

def rIndex (idx : Index) : String :=
  let l := (idx.map (fun e => (e.1.map Char.toNat, e))).mergeSort (fun a b => lexLe a.1 b.1)
  ";".intercalate (l.map (fun e => s!"{renderText e.2.1}>{e.2.2}"))

def rNats (l : List Nat) : String := if l.isEmpty then "~" else ",".intercalate (l.map toString)

def rConv (l : List (Float × Nat)) : String :=
  if l.isEmpty then "~" else ",".intercalate (l.map (fun e => s!"{rF e.1}@{e.2}"))

def rStore : BestStore Float → String
  | .unified l => s!"U:{rConv l}"
  | .bySystem m i => s!"S:{rConv m}/{rConv i}"

def rCfg : Option (FracCfg Float) → String
  | none => "_"
  | some c => s!"{if c.enabled then 1 else 0}.{rF c.accuracy}.{c.maxDen}.{c.maxWhole}"

def rFractions (f : Fractions Float) : String :=
  let us := f.unit.mergeSort (fun a b => a.1 ≤ b.1)
  "|".intercalate [rCfg f.all, rCfg f.metric, rCfg f.imperial,
    ",".intercalate (PQ.all.map (fun q => rCfg (f.quantity q))),
    (if us.isEmpty then "~" else ",".intercalate (us.map (fun e => s!"{e.1}={rCfg (some e.2)}")))]

def rErr : Err → String
  | .duplicateUnit k => s!"err duplicateUnit {renderText k}"
  | .duplicateExtendUnit k => s!"err duplicateExtendUnit {renderText k}"
  | .invalidExtendExpanded k => s!"err invalidExtendExpanded {renderText k}"
  | .unknownUnit k => s!"err unknownUnit {renderText k}"
  | .emptyUnit => "err emptyUnit"
  | .emptyUnitKey => "err emptyUnitKey"
  | .emptyBest q ng => s!"err emptyBest {rPQ q} {if ng then "none-given" else "empty-list"}"
  | .emptySIPrefixes => "err emptySIPrefixes"
  | .bestUnitQuantity k q uq => s!"err bestUnitQuantity {renderText k} {rPQ q} {rPQ uq}"
  | .panic site => s!"panic {site}"

/-- `skip`: letters of the parts (`I` index, `Q` quantity index, `B` best lists, `F` fraction tables) the harness could not
    read from the real converter (they are private; it reads them through the `Debug` rendering, whose shape may change
    with the private representation): those parts are printed as `?` on both sides -/
def rConverterSkip (skip : String) (c : Converter Float) : String :=
  let part (l : Char) (v : String) : String := if skip.toList.contains l then "?" else v
  " ".intercalate ["ok",
    "U=" ++ ";".intercalate (c.units.map rUnit),
    "I=" ++ part 'I' (rIndex c.index),
    "Q=" ++ part 'Q' (";".intercalate (PQ.all.map (fun q => rNats (c.quantityIndex q)))),
    "B=" ++ part 'B' (";".intercalate (c.best.map (fun e => rStore e.2))),
    "F=" ++ part 'F' (rFractions c.fractions),
    "D=" ++ rSys c.defaultSystem]

def rConverter (c : Converter Float) : String := rConverterSkip "" c

def rResultSkip (skip : String) : Except Err (Converter Float) → String
  | .ok c => rConverterSkip skip c
  | .error e => rErr e

def rResult : Except Err (Converter Float) → String := rResultSkip ""

def handleBuilder : List String → Option String
  | "build" :: rest =>
    match parseSx (tokenize (" ".intercalate rest)) with
    | some (.list fs, []) =>
      match fs.mapM dFile with
      | some files => some (rResult (build files))
      | none => some "bad-file"
    | _ => some "bad-sexp"
  | "build_skip" :: skip :: rest =>
    match parseSx (tokenize (" ".intercalate rest)) with
    | some (.list fs, []) =>
      match fs.mapM dFile with
      | some files => some (rResultSkip skip (build files))
      | none => some "bad-file"
    | _ => some "bad-sexp"
  | ["build_shipped"] => some (rResult (bundled (α := Float)))
  | ["build_shipped_exact_ok"] =>
    some (match bundled (α := Rat) with | .ok c => s!"ok {c.units.length}" | .error e => rErr e)
  | ["blank", t] => (parseText? t).map (fun k => if isBlankKey k then "1" else "0")
  | _ => none

end Cook.Driver
