import CookModel.Basic.Proto
import CookModel.Num.Convert
import CookModel.Gen.UnitsAlt
import CookModel.Gen.UnitsLay
/-
  Line protocol of the conversion model (Float instance).

  value spec   : `n<bits>` | `r<bits>_<bits>`                         (ConvertValue)
  number spec  : `R<bits>` | `F<whole>/<num>/<den>/<bits>`
  quantity spec: `<val>@<unit>` with val = `N<number>` | `G<number>;<number>` | `T<text>`,
                 unit = `none` | `u<text>`;  an absent quantity is `none`
  target spec  : `u<text>` | `smetric` | `simperial` | `same`
  converter    : `b` (bundled, generated from units.toml) | `a` (the alternative test file)
                 | `l` (units.toml + the stacked fraction-settings layer corpus/C12/frac_layer.toml)
-/
namespace Cook.Driver
open Cook Proto

def bundledF : Converter Float := Converter.bundled Float

/-- the converter of corpus/C09/alt_units.toml (built by the harness with `ConverterBuilder`) -/
def altF : Converter Float :=
  match Converter.ofDesc GenAlt.bundledDesc (mkTable Float Gen.DENOMS) with
  | some c => c
  | none => Converter.empty (mkTable Float Gen.DENOMS)

/-- the bundled units with corpus/C12/frac_layer.toml stacked on top (built by the harness with two `with_units_file` calls) -/
def layF : Converter Float :=
  match Converter.ofDesc GenLay.bundledDesc (mkTable Float Gen.DENOMS) with
  | some c => c
  | none => Converter.empty (mkTable Float Gen.DENOMS)

def parseSystem? : String → Option System
  | "metric" => some .metric
  | "imperial" => some .imperial
  | _ => none

def parsePQ? : String → Option PhysQ
  | "volume" => some .volume | "mass" => some .mass | "length" => some .length
  | "temperature" => some .temperature | "time" => some .time
  | _ => none

def parseCV? (s : String) : Option (ConvertValue Float) :=
  if s.startsWith "n" then (parseBits? (s.drop 1).toString).map .number
  else if s.startsWith "r" then
    match (s.drop 1).toString.splitOn "_" with
    | [a, b] => do let a ← parseBits? a; let b ← parseBits? b; some (.range a b)
    | _ => none
  else none

def parseNumber? (s : String) : Option (Number Float) :=
  if s.startsWith "R" then (parseBits? (s.drop 1).toString).map .regular
  else if s.startsWith "F" then
    match (s.drop 1).toString.splitOn "/" with
    | [w, n, d, e] => do
      let w ← parseNat? w; let n ← parseNat? n; let d ← parseNat? d; let e ← parseBits? e
      some (.fraction w n d e)
    | _ => none
  else none

def parseVal? (s : String) : Option (Value Float) :=
  if s.startsWith "N" then (parseNumber? (s.drop 1).toString).map .number
  else if s.startsWith "G" then
    match (s.drop 1).toString.splitOn ";" with
    | [a, b] => do let a ← parseNumber? a; let b ← parseNumber? b; some (.range a b)
    | _ => none
  else if s.startsWith "T" then (parseText? (s.drop 1).toString).map .text
  else none

def parseUnitOpt? (s : String) : Option (Option Str) :=
  if s = "none" then some none
  else if s.startsWith "u" then (parseText? (s.drop 1).toString).map some
  else none

def parseQuantity? (s : String) : Option (SQuantity Float) :=
  match s.splitOn "@" with
  | [v, u] => do let v ← parseVal? v; let u ← parseUnitOpt? u; some ⟨v, u⟩
  | _ => none

def parseOptQuantity? (s : String) : Option (Option (SQuantity Float)) :=
  if s = "none" then some none else (parseQuantity? s).map some

def parseTarget? (s : String) : Option (ConvertTo Float) :=
  if s = "same" then some .sameSystem
  else if s.startsWith "s" then (parseSystem? (s.drop 1).toString).map .best
  else if s.startsWith "u" then (parseText? (s.drop 1).toString).map (fun k => .unit (.key k))
  else none

def renderOptSystem : Option System → String
  | none => "-"
  | some s => s.name

def renderErr : ConvErr → String
  | .noUnit => "NoUnit"
  | .textValue t => s!"TextValue {renderText t}"
  | .mixedQuantities a b => s!"Mixed {a.name} {b.name}"
  | .bestUnitNotFound q s => s!"BestUnitNotFound {q.name} {renderOptSystem s}"
  | .unknownUnit k => s!"UnknownUnit {renderText k}"
  | .panic .mixedAssert => "PANIC mixed-assert"
  | .panic .noSymbol => "PANIC no-symbol"

def renderCV : ConvertValue Float → String
  | .number n => s!"n{Arith.render n}"
  | .range s e => s!"r{Arith.render s}_{Arith.render e}"

def renderSym (u : Unit Float) : String :=
  match u.symbol? with
  | some s => renderText s
  | none => "?"

def renderQuantity (q : SQuantity Float) : String :=
  let u := match q.unit with
    | none => "none"
    | some u => "u" ++ renderText u
  s!"{q.value.render} {u}"

def renderOptQuantity : Option (SQuantity Float) → String
  | none => "none"
  | some q => renderQuantity q

def renderUnitRes : Except ConvErr _root_.Unit → String
  | .ok _ => "ok"
  | .error e => "err " ++ renderErr e

def renderUnitRow (u : Unit Float) : String :=
  let l (xs : List UStr) := "|".intercalate (xs.map renderText)
  s!"{u.id};{l u.names};{l u.symbols};{l u.aliases};{Arith.render u.ratio};{Arith.render u.difference};{u.pq.name};{renderOptSystem u.system}"

def renderCfg (c : FracCfg Float) : String :=
  s!"{c.enabled}/{Arith.render c.accuracy}/{c.maxDen}/{c.maxWhole}"

def dummyIngredient (q : Option (SQuantity Float)) : Ingredient (Value Float) :=
  { name := [], alias := none, quantity := q, note := none, reference := none,
    relation := ⟨.definition [] true, none⟩, modifiers := .empty }

def takeOptQuantities (n : Nat) (toks : List String) : Option (List (Option (SQuantity Float)) × List String) :=
  if toks.length < n then none else
  ((toks.take n).mapM parseOptQuantity?).map (fun qs => (qs, toks.drop n))

def handleConvertWith (c : Converter Float) : List String → Option String
  | ["units"] => some (" ".intercalate (c.allUnits.map renderUnitRow))
  | ["wf"] => some (toString c.wf)
  | ["best", q, s] => do
    let q ← parsePQ? q; let s ← parseSystem? s
    some (" ".intercalate (((c.best q).conversions s).entries.map (fun e => renderSym e.2)))
  | ["thresholds", q, s] => do
    let q ← parsePQ? q; let s ← parseSystem? s
    some (" ".intercalate (((c.best q).conversions s).entries.map (fun e => Arith.render e.1)))
  | ["find", k] => do
    let k ← parseText? k
    some (match c.findUnit k with
      | none => "none"
      | some u => toString u.id)
  | ["cfg", k] => do
    let k ← parseText? k
    some (match c.findUnit k with
      | none => "none"
      | some u => renderCfg (c.fractionsConfig u))
  | ["conv", v, frm, to] => do
    let v ← parseCV? v; let frm ← parseText? frm; let to ← parseTarget? to
    some (match c.convert v (.key frm) to with
      | .ok r => s!"ok {renderCV r.1} {renderSym r.2}"
      | .error e => "err " ++ renderErr e)
  | ["qconvert", q, to] => do
    let q ← parseQuantity? q; let to ← parseTarget? to
    let r := convertImpl c q to
    some s!"{renderUnitRes r.2} | {renderQuantity r.1}"
  | ["qfit", q] => do
    let q ← parseQuantity? q
    let r := fit c q
    some s!"{renderUnitRes r.2} | {renderQuantity r.1}"
  | ["qtryfrac", q] => do
    let q ← parseQuantity? q
    let r := tryFraction c q
    some s!"{r.2} | {renderQuantity r.1}"
  | "recipe" :: sys :: ni :: nt :: nq :: rest => do
    let sys ← parseSystem? sys; let ni ← parseNat? ni; let nt ← parseNat? nt; let nq ← parseNat? nq
    let (ings, rest) ← takeOptQuantities ni rest
    let (tims, rest) ← takeOptQuantities nt rest
    if rest.length ≠ nq then none else
    let inl ← rest.mapM parseQuantity?
    let r : ScaledRecipe Float :=
      { sections := [], ingredients := ings.map dummyIngredient, cookware := [],
        timers := tims.map (fun q => { name := none, quantity := q }), inlineQuantities := inl }
    let out := recipeConvert c sys r
    let qs := out.1.ingredients.map (fun i => renderOptQuantity i.quantity)
      ++ out.1.timers.map (fun t => renderOptQuantity t.quantity)
      ++ out.1.inlineQuantities.map renderQuantity
    some (" ; ".intercalate qs ++ " # " ++ " ; ".intercalate (out.2.map renderErr))
  | _ => none

def handleConvert : List String → Option String
  | "cv" :: "b" :: rest => if bundledF.wf then handleConvertWith bundledF rest else some "pre-violated"
  | "cv" :: "a" :: rest => if altF.wf then handleConvertWith altF rest else some "pre-violated"
  | "cv" :: "l" :: rest => if layF.wf then handleConvertWith layF rest else some "pre-violated"
  | _ => none

end Cook.Driver
