import CookModel.Driver.Scale
import CookModel.Driver.Serde
import CookModel.Num.ScaleM
/-
  Line-protocol handler for scaling / conversion of a recipe WITH its metadata map and `data` field
  (Num/ScaleM.lean; property C08, frame clause "… and metadata physically unchanged", servings base).

  scm <b|a> scale BITS FULL                 → canonical JSON of `scale(f)`
  scm <b|a> servings N FULL                 → … of `scale_to_servings(n)`
  scm <b|a> setservings N ( S* ) FULL       → … of `set_servings(S); scale_to_servings(n)`
  scm <b|a> default FULL                    → … of `default_scale()`
  scm <b|a> convert SYS BITS FULL           → … of `scale(f)` followed by `convert(SYS)`
  scm <b|a> dconvert SYS FULL               → … of `default_scale()` followed by `convert(SYS)`

  FULL := ( full META DATA RECIPE ) as in Driver/Serde.lean (scalable recipe, DATA = servings);
  `b` / `a` select the bundled / the alternative converter (Driver/Convert.lean).
  The reply is the JSON text of the whole resulting `ScaledRecipe` in the canonical spelling of
  Driver/Serde.lean: metadata, sections, components, inline quantities and the scaling data.
-/
namespace Cook.Driver
open Cook Sexp Serde Proto SerdeH

def decFullScalable : Sexp → Option (FullRecipe Float (ScalableValue Float) Servings)
  | .list [.atom "full", m, d, r] => do
    return { metadata := ← decMeta m, recipe := ← RecipeSexp.decScalableRecipe r, data := ← opt? (listOf? nat?) d }
  | _ => none

def renderFullScaled (r : FullRecipe Float (Value Float) (Scaled Float)) : String :=
  rJson (encScaledRecipe bitsCodec r)

def handleScaleMWith (c : Converter Float) : List String → Option String
  | "scale" :: f :: rest => do
    let f ← parseBits? f
    let [full] ← parseAll rest | none
    return renderFullScaled (scaleM c (← decFullScalable full) f)
  | "servings" :: n :: rest => do
    let n ← parseNat? n
    let [full] ← parseAll rest | none
    return renderFullScaled (scaleToServingsM c (← decFullScalable full) n)
  | "setservings" :: n :: rest => do
    let n ← parseNat? n
    let [s, full] ← parseAll rest | none
    return renderFullScaled (scaleToServingsM c (setServingsM (← decFullScalable full) (← listOf? nat? s)) n)
  | "default" :: rest => do
    let [full] ← parseAll rest | none
    return renderFullScaled (defaultScaleM (← decFullScalable full))
  | "convert" :: sys :: f :: rest => do
    let sys ← parseSystem? sys; let f ← parseBits? f
    let [full] ← parseAll rest | none
    return renderFullScaled (convertM c sys (scaleM c (← decFullScalable full) f)).1
  | "dconvert" :: sys :: rest => do
    let sys ← parseSystem? sys
    let [full] ← parseAll rest | none
    return renderFullScaled (convertM c sys (defaultScaleM (← decFullScalable full))).1
  | _ => none

def handleScaleM : List String → Option String
  | "scm" :: "b" :: rest => if bundledF.wf then handleScaleMWith bundledF rest else some "pre-violated"
  | "scm" :: "a" :: rest => if altF.wf then handleScaleMWith altF rest else some "pre-violated"
  | _ => none

end Cook.Driver
