import CookModel.Analysis.Collector
/- Canonical rendering of parser events for the line protocol (mirrored by harness/src/render.rs). -/
namespace Cook.Driver
open Cook

variable {α : Type} [Arith α]

def rSpan (s : Span) : String := s!"{s.start}..{s.stop}"
def rCps (cs : List Char) : String := ".".intercalate (cs.map (fun c => toString c.toNat))
def rOpt {β} (f : β → String) : Option β → String
  | none => "-"
  | some x => f x
def rFrag (f : Frag) : String := (if f.soft then "s" else "t") ++ toString f.offset ++ ":" ++ rCps f.text
def rText (t : Text) : String := "T[" ++ ";".intercalate (t.frags.map rFrag) ++ "]@" ++ rSpan t.span
def rNumber : Number α → String
  | .regular v => s!"R {Arith.render v}"
  | .fraction w n d e => s!"F {w} {n} {d} {Arith.render e}"
def rValue : Value α → String
  | .number n => s!"N({rNumber n})"
  | .range s e => s!"RNG({rNumber s},{rNumber e})"
  | .text t => s!"TXT({rCps t})"
def rQValue (q : PQValue α) : String := s!"QV({rValue q.value.val}@{rSpan q.value.span},lock={rOpt rSpan q.lock})"
def rQuantity (q : Loc (PQuantity α)) : String :=
  s!"Q({rQValue q.val.value},unit={rOpt rText q.val.unit})@{rSpan q.span}"
def rInter (d : Loc InterData) : String :=
  s!"I({if d.val.relative then 1 else 0} {if d.val.isSection then 1 else 0} {d.val.val})@{rSpan d.span}"
def rMods (m : Loc Modifiers) : String := s!"{m.val.bits}@{rSpan m.span}"
def rDiag (d : Diag) : String := s!"({d.kind};{",".intercalate (d.labels.map rSpan)})"

def rEv : Ev α → String
  | .frontMatter t => s!"FM {rText t}"
  | .metadata k v => s!"MD {rText k} {rText v}"
  | .section n => s!"SEC {rOpt rText n}"
  | .start .step => "START step" | .start .text => "START text"
  | .stop .step => "END step" | .stop .text => "END text"
  | .text t => s!"TXT {rText t}"
  | .ingredient i =>
    "ING@" ++ rSpan i.span ++ "{m=" ++ rMods i.val.modifiers ++ ",i=" ++ rOpt rInter i.val.inter ++
    ",n=" ++ rText i.val.name ++ ",a=" ++ rOpt rText i.val.alias ++ ",q=" ++ rOpt rQuantity i.val.quantity ++
    ",note=" ++ rOpt rText i.val.note ++ "}"
  | .cookware c =>
    "CW@" ++ rSpan c.span ++ "{m=" ++ rMods c.val.modifiers ++ ",n=" ++ rText c.val.name ++
    ",a=" ++ rOpt rText c.val.alias ++ ",q=" ++ rOpt (fun q => rQValue q.val ++ "@" ++ rSpan q.span) c.val.quantity ++
    ",note=" ++ rOpt rText c.val.note ++ "}"
  | .timer t =>
    "TM@" ++ rSpan t.span ++ "{n=" ++ rOpt rText t.val.name ++ ",q=" ++ rOpt rQuantity t.val.quantity ++ "}"
  | .error d => "ERR" ++ rDiag d
  | .warning d => "WARN" ++ rDiag d

def rEvents (r : Array (Ev α) × Option String) : String :=
  match r.2 with
  | some site => s!"PANIC {site}"
  | none => if r.1.isEmpty then "<none>" else " | ".intercalate (r.1.toList.map rEv)

end Cook.Driver

namespace Cook.Driver
open Cook
variable {α : Type} [Arith α]

def rStr (s : Str) : String := if s.isEmpty then "''" else rCps s
def rSValue : ScalableValue α → String
  | .fixed v => s!"fixed:{rValue v}"
  | .linear v => s!"linear:{rValue v}"
def rSQuantity (q : Quantity (ScalableValue α)) : String := s!"{rSValue q.value}%{rOpt rStr q.unit}"
def rItem : Item → String
  | .text v => s!"t:{rStr v}"
  | .ingredient i => s!"i:{i}"
  | .cookware i => s!"c:{i}"
  | .timer i => s!"m:{i}"
  | .inlineQuantity i => s!"q:{i}"
def rContent : Content → String
  | .step s => s!"STEP({s.number};{",".intercalate (s.items.map rItem)})"
  | .text t => s!"TEXT({rStr t})"
def rSection (s : Section) : String := s!"SECT({rOpt rStr s.name};{",".intercalate (s.content.map rContent)})"
def rRelation : ComponentRelation → String
  | .definition rf b => s!"def[{",".intercalate (rf.map toString)}]{if b then "+" else "-"}"
  | .reference t => s!"ref{t}"
def rTarget : Option RefTarget → String
  | none => "-" | some .ingredient => "ingredient" | some .step => "step" | some .section => "section"
def rIngredient (i : Ingredient (ScalableValue α)) : String :=
  s!"I({rStr i.name};{rOpt rStr i.alias};{rOpt rSQuantity i.quantity};{rOpt rStr i.note};" ++
  s!"{rOpt (fun r : RecipeReference => rStr r.name ++ "/" ++ "/".intercalate (r.components.map rStr)) i.reference};" ++
  s!"{rRelation i.relation.relation}>{rTarget i.relation.referenceTarget};{i.modifiers.bits})"
def rCookware (c : Cookware (ScalableValue α)) : String :=
  s!"C({rStr c.name};{rOpt rStr c.alias};{rOpt rSValue c.quantity};{rOpt rStr c.note};{rRelation c.relation};{c.modifiers.bits})"
def rTimer (t : Timer (ScalableValue α)) : String := s!"M({rOpt rStr t.name};{rOpt rSQuantity t.quantity})"
def rInline (q : Quantity (Value α)) : String := s!"IQ({rValue q.value}%{rOpt rStr q.unit})"
def rSev : Sev → String | .error => "E" | .warning => "W"
def rStage : Stage → String | .parse => "P" | .analysis => "A"
def rDiagFull (d : Diag) : String := s!"{rSev d.sev}{rStage d.stage}{rDiag d}"

/-- kinds that depend on external parts the model does not interpret (YAML, std-key checks) -/
def externalKind (k : String) : Bool :=
  k == "std-unsupported-value" || k == "time-overridden" || k == "time-overridden-fm" || k.startsWith "other:"

def rCol (c : Col α) (withMeta : Bool) : String :=
  "sections=[" ++ " ".intercalate (c.sections.map rSection) ++ "] ingredients=[" ++
  " ".intercalate (c.ingredients.toList.map rIngredient) ++ "] cookware=[" ++
  " ".intercalate (c.cookware.toList.map rCookware) ++ "] timers=[" ++
  " ".intercalate (c.timers.toList.map rTimer) ++ "] inline=[" ++
  " ".intercalate (c.inlineQ.toList.map rInline) ++ "]" ++
  (if withMeta then " meta=[" ++ " ".intercalate (c.metaMap.map (fun p => rStr p.1 ++ "=" ++ rStr p.2)) ++ "]" else "")

def rAnalysis (r : AnalysisResult α) (hasFrontMatter : Bool) : String :=
  match r.panic with
  | some p => s!"PANIC {p}"
  | none =>
    let ds := r.diags.toList.filter (fun d => !(hasFrontMatter && externalKind d.kind))
    let dstr := "diags=[" ++ " ".intercalate (ds.map rDiagFull) ++ "]"
    match r.output with
    | none => s!"NOOUT {dstr}"
    | some c => s!"OUT {rCol c (!hasFrontMatter)}{if hasFrontMatter then "" else s!" servings={rOpt (fun l : List Nat => toString l) c.servings}"} {dstr}"

end Cook.Driver
