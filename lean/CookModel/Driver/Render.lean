import CookModel.Syntax.Blocks
/- Canonical rendering of parser events for the line protocol (mirrored by harness/src/render.rs). -/
namespace Cook.Driver
open Cook

variable {α : Type} [Arith α]

def rSpan (s : Span) : String := s!"{s.start}..{s.stop}"
def rCps (cs : List Char) : String := ".".intercalate (cs.map (fun c => toString c.toNat))
def rOpt {β} (f : β → String) : Option β → String
  | none => "-"
  | some x => f x
def rFrag (f : Frag) : String := (if f.soft then "s" else "t") ++ toString f.offset ++ ":" ++ rCps f.text
def rText (t : Text) : String := "T[" ++ ";".intercalate (t.frags.map rFrag) ++ "]@" ++ rSpan t.span
def rNumber : Number α → String
  | .regular v => s!"R {Arith.render v}"
  | .fraction w n d e => s!"F {w} {n} {d} {Arith.render e}"
def rValue : Value α → String
  | .number n => s!"N({rNumber n})"
  | .range s e => s!"RNG({rNumber s},{rNumber e})"
  | .text t => s!"TXT({rCps t})"
def rQValue (q : PQValue α) : String := s!"QV({rValue q.value.val}@{rSpan q.value.span},lock={rOpt rSpan q.lock})"
def rQuantity (q : Loc (PQuantity α)) : String :=
  s!"Q({rQValue q.val.value},unit={rOpt rText q.val.unit})@{rSpan q.span}"
def rInter (d : Loc InterData) : String :=
  s!"I({if d.val.relative then 1 else 0} {if d.val.isSection then 1 else 0} {d.val.val})@{rSpan d.span}"
def rMods (m : Loc Modifiers) : String := s!"{m.val.bits}@{rSpan m.span}"
def rDiag (d : Diag) : String := s!"({d.kind};{",".intercalate (d.labels.map rSpan)})"

def rEv : Ev α → String
  | .frontMatter t => s!"FM {rText t}"
  | .metadata k v => s!"MD {rText k} {rText v}"
  | .section n => s!"SEC {rOpt rText n}"
  | .start .step => "START step" | .start .text => "START text"
  | .stop .step => "END step" | .stop .text => "END text"
  | .text t => s!"TXT {rText t}"
  | .ingredient i =>
    "ING@" ++ rSpan i.span ++ "{m=" ++ rMods i.val.modifiers ++ ",i=" ++ rOpt rInter i.val.inter ++
    ",n=" ++ rText i.val.name ++ ",a=" ++ rOpt rText i.val.alias ++ ",q=" ++ rOpt rQuantity i.val.quantity ++
    ",note=" ++ rOpt rText i.val.note ++ "}"
  | .cookware c =>
    "CW@" ++ rSpan c.span ++ "{m=" ++ rMods c.val.modifiers ++ ",n=" ++ rText c.val.name ++
    ",a=" ++ rOpt rText c.val.alias ++ ",q=" ++ rOpt (fun q => rQValue q.val ++ "@" ++ rSpan q.span) c.val.quantity ++
    ",note=" ++ rOpt rText c.val.note ++ "}"
  | .timer t =>
    "TM@" ++ rSpan t.span ++ "{n=" ++ rOpt rText t.val.name ++ ",q=" ++ rOpt rQuantity t.val.quantity ++ "}"
  | .error d => "ERR" ++ rDiag d
  | .warning d => "WARN" ++ rDiag d

def rEvents (r : Array (Ev α) × Option String) : String :=
  match r.2 with
  | some site => s!"PANIC {site}"
  | none => if r.1.isEmpty then "<none>" else " | ".intercalate (r.1.toList.map rEv)

end Cook.Driver
