import CookModel.Driver.RecipeSexp
import CookModel.Side.Bindings
/-
  Line-protocol handler for the model of the bindings (C19).

  ffi RECIPE                 → rendering of `into_simple_recipe` plus what every item / reference
                               index dereferences to
  combine ( FI* )            → canonical (sorted) rendering of `combine_ingredients`
  combine_sel ( FI* ) ( N* ) → … of `combine_ingredients_selected`
  merge_lists IL IL          → `merge_ingredient_lists left right` (right iterated in the given order;
                               the result does not depend on it, C19_merge_iteration_order)

  FI  := ( fi TEXT OPT<AMT> OPTTEXT )     AMT := ( amt FV OPTTEXT )
  FV  := ( n BITS ) | ( r BITS BITS ) | ( t TEXT ) | e
  KV  := ( kv TEXT KIND FV )              KIND := number | range | text | empty
  IL  := ( ( il TEXT ( KV* ) )* )
-/
namespace Cook.Driver.FfiH
open Cook Sexp Ffi Proto RecipeSexp

def rFloat (x : Float) : String := if x.isNaN then "nan" else toString x.toBits

def rOptText : Option Str → String
  | none => "none"
  | some t => s!"some:{renderText t}"

def rFValue : FValue Float → String
  | .number v => s!"N:{rFloat v}"
  | .range s e => s!"R:{rFloat s}:{rFloat e}"
  | .text t => s!"T:{renderText t}"
  | .empty => "E"

def rAmount : Option (Amount Float) → String
  | none => "none"
  | some a => s!"(amt {rFValue a.quantity} {rOptText a.units})"

def rIngredient (i : FIngredient Float) : String := s!"(ing {renderText i.name} {rAmount i.amount} {rOptText i.descriptor})"
def rCookware (c : FCookware Float) : String := s!"(cw {renderText c.name} {rAmount c.amount})"
def rTimer (t : FTimer Float) : String := s!"(tm {rOptText t.name} {rAmount t.amount})"

def rIdx (l : List Nat) : String := "[" ++ ",".intercalate (l.map toString) ++ "]"

def rItem : FItem → String
  | .text t => s!"(t {renderText t})"
  | .ingredientRef i => s!"(i {i})"
  | .cookwareRef i => s!"(c {i})"
  | .timerRef i => s!"(m {i})"

def rBlock : Block → String
  | .stepBlock s => s!"(step ({" ".intercalate (s.items.map rItem)}) {rIdx s.ingredientRefs} {rIdx s.cookwareRefs} {rIdx s.timerRefs})"
  | .noteBlock t => s!"(note {renderText t})"

def rSection (s : FSection) : String :=
  s!"(sec {rOptText s.title} ({" ".intercalate (s.blocks.map rBlock)}) {rIdx s.ingredientRefs} {rIdx s.cookwareRefs} {rIdx s.timerRefs})"

def rExcept {β} (f : β → String) : Except Panic β → String
  | .ok x => f x
  | .error (.unwrapNone _) => "panic:unwrap"
  | .error .unexpectedType => "panic:type"

def rComponent : Component Float → String
  | .ingredient c => rIngredient c
  | .cookware c => rCookware c
  | .timer c => rTimer c
  | .text t => s!"(t {renderText t})"

/-- `deref_component` of every item of every step, then `deref_ingredient/cookware/timer` of
    every index of the step's three reference lists -/
def rDerefs (v : CooklangRecipe Float) : String :=
  let steps := v.sections.flatMap (fun s => s.blocks.filterMap (fun b => match b with | .stepBlock st => some st | _ => none))
  let one (st : FStep) : String :=
    " ".intercalate (st.items.map (fun it => rExcept rComponent (derefComponent v it))
      ++ st.ingredientRefs.map (fun i => rExcept rIngredient (derefIngredient v i))
      ++ st.cookwareRefs.map (fun i => rExcept rCookware (derefCookware v i))
      ++ st.timerRefs.map (fun i => rExcept rTimer (derefTimer v i)))
  " | ".intercalate (steps.map one)

def rView (v : CooklangRecipe Float) : String :=
  s!"(view ({" ".intercalate (v.sections.map rSection)}) ({" ".intercalate (v.ingredients.map rIngredient)}) " ++
  s!"({" ".intercalate (v.cookware.map rCookware)}) ({" ".intercalate (v.timers.map rTimer)}) (deref {rDerefs v}))"

/-! decoding of view-level inputs -/

def decFValue : Sexp → Option (FValue Float)
  | .list [.atom "n", b] => (bits? b).map .number
  | .list [.atom "r", s, e] => do return .range (← bits? s) (← bits? e)
  | .list [.atom "t", t] => (text? t).map .text
  | .atom "e" => some .empty
  | _ => none

def decAmount : Sexp → Option (Amount Float)
  | .list [.atom "amt", v, u] => do return ⟨← decFValue v, ← opt? text? u⟩
  | _ => none

def decFIngredient : Sexp → Option (FIngredient Float)
  | .list [.atom "fi", n, a, d] => do return ⟨← text? n, ← opt? decAmount a, ← opt? text? d⟩
  | _ => none

def decKind : Sexp → Option QuantityType
  | .atom "number" => some .number
  | .atom "range" => some .range
  | .atom "text" => some .text
  | .atom "empty" => some .empty
  | _ => none

def decKV : Sexp → Option (GKey × FValue Float)
  | .list [.atom "kv", u, k, v] => do return (⟨← text? u, ← decKind k⟩, ← decFValue v)
  | _ => none

def decIL : Sexp → Option (Str × GroupedQuantity Float)
  | .list [.atom "il", n, kvs] => do return (← text? n, ← listOf? decKV kvs)
  | _ => none

/-! canonical rendering of the maps: sorted by key -/

def strLt : List Char → List Char → Bool
  | [], [] => false
  | [], _ :: _ => true
  | _ :: _, [] => false
  | a :: as, b :: bs => if a.toNat < b.toNat then true else if b.toNat < a.toNat then false else strLt as bs

def kindIdx : QuantityType → Nat
  | .number => 0 | .range => 1 | .text => 2 | .empty => 3

def kindName : QuantityType → String
  | .number => "number" | .range => "range" | .text => "text" | .empty => "empty"

def keyLt (a b : GKey) : Bool :=
  if strLt a.name b.name then true else if strLt b.name a.name then false else kindIdx a.unitType < kindIdx b.unitType

def insertBy {β} (lt : β → β → Bool) (x : β) : List β → List β
  | [] => [x]
  | y :: ys => if lt x y then x :: y :: ys else y :: insertBy lt x ys

def sortBy {β} (lt : β → β → Bool) (l : List β) : List β := l.foldl (fun acc x => insertBy lt x acc) []

def rGrouped (g : GroupedQuantity Float) : String :=
  " ".intercalate ((sortBy (fun a b => keyLt a.1 b.1) g).map (fun p => s!"({renderText p.1.name} {kindName p.1.unitType} {rFValue p.2})"))

def rList (m : IngredientList Float) : String :=
  " ".intercalate ((sortBy (fun a b => strLt a.1 b.1) m).map (fun p => s!"({renderText p.1} {rGrouped p.2})"))

end Cook.Driver.FfiH

namespace Cook.Driver
open Cook Sexp Ffi Proto RecipeSexp FfiH

def handleFfi : List String → Option String
  | "ffi" :: rest => do
    let [r] ← parseAll rest | none
    let r ← decScaledRecipe r
    return rView (intoSimpleRecipe r)
  | "combine" :: rest => do
    let [ings] ← parseAll rest | none
    let ings ← listOf? decFIngredient ings
    return rExcept rList (combineIngredients ings)
  | "combine_sel" :: rest => do
    let [ings, idx] ← parseAll rest | none
    let ings ← listOf? decFIngredient ings
    let idx ← listOf? nat? idx
    return rExcept rList (combineIngredientsSelected ings idx)
  | "merge_lists" :: rest => do
    let [l, r] ← parseAll rest | none
    let l ← listOf? decIL l
    let r ← listOf? decIL r
    return rExcept rList (mergeIngredientLists l r)
  | _ => none

end Cook.Driver
