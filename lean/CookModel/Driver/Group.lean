import CookModel.Basic.Proto
import CookModel.Num.IngList
import CookModel.Driver.Convert
/-
  Line protocol of the grouping / ingredient list model (C10), Float instance, bundled converter.
  Quantity / value specs are those of Driver/Convert.lean.

  gr group <q>…                          → <group>           GroupedQuantity::add of each, in order
  gr groupfit <q>…                       → ok|err … | <group>   … then GroupedQuantity::fit
  gr merge <n> <q>×n <q>…                → <group>           group(first n).merge(group(rest))
  gr gvalue <v>…                         → <values> | PANIC  GroupedValue::add of each
  gr display <name> <alias|~> <modbits>  → <text>            Ingredient::display_name
  gr cookware <k> <cw>×k                 → <idx>:<values> ; …  ScaledRecipe::group_cookware
  gr ingredients <k> <ing>×k             → <idx>:<group> ## …  ScaledRecipe::group_ingredients
  gr list <k1> <ing>×k1 <k2> <ing>×k2 …  → <name>=<group> ## …  IngredientList::add_recipe of each
  gr cat <aisle text> <m> { <name> <n> <q>×n }×m → categories / other
        the list is built with add_ingredient(name, group(qs)), then categorize
  gr catlist <aisle text> <k1> <ing>×k1 …       → same, list built with add_recipe

  <ing> = name!alias|~!modbits!rel!quantity|none     rel = D<j>.<j>… | R<idx>:<i|s|t>
  <cw>  = name!alias|~!modbits!rel!value|none        rel = D<j>.<j>… | R<idx>
  <group> = K[<pq>:<quantity>|…] U[<key>:<quantity>|…] O[<quantity>|…] N[<quantity>|-]
            (unknown units sorted by key: the hash map's order is not observable in it)
-/
namespace Cook.Driver
open Cook Proto

private def sortByKey {β : Type} (l : List (Str × β)) : List (Str × β) :=
  l.mergeSort (fun a b => strCmp a.1 b.1 != .gt)

private def idOrd : MapOrder Float := fun l => l

def renderGroup (g : GroupedQuantity Float) : String :=
  let k := PhysQ.all.filterMap (fun pq => (g.known pq).map (fun q => s!"{pq.name}:{renderQuantity q}"))
  let u := (sortByKey g.unknown).map (fun e => s!"{renderText e.1}:{renderQuantity e.2}")
  let o := g.other.map renderQuantity
  let n := match g.noUnit with
    | none => "-"
    | some q => renderQuantity q
  s!"K[{"|".intercalate k}] U[{"|".intercalate u}] O[{"|".intercalate o}] N[{n}]"

private def groupOf (c : Converter Float) (qs : List (SQuantity Float)) : GroupedQuantity Float :=
  GroupedQuantity.addAll c GroupedQuantity.empty qs

private def parseOptText? (s : String) : Option (Option Str) :=
  if s = "~" then some none else (parseText? s).map some

private def parseNatList? (s : String) : Option (List Nat) :=
  if s.isEmpty then some [] else (s.splitOn ".").mapM parseNat?

private def parseTargetKind? : String → Option RefTarget
  | "i" => some .ingredient | "s" => some .step | "t" => some .section
  | _ => none

private def parseIngRel? (s : String) : Option IngredientRelation :=
  if s.startsWith "D" then
    (parseNatList? (s.drop 1).toString).map (fun l => ⟨.definition l true, none⟩)
  else if s.startsWith "R" then
    match (s.drop 1).toString.splitOn ":" with
    | [i, k] => do let i ← parseNat? i; let k ← parseTargetKind? k; some ⟨.reference i, some k⟩
    | _ => none
  else none

private def parseCwRel? (s : String) : Option ComponentRelation :=
  if s.startsWith "D" then (parseNatList? (s.drop 1).toString).map (fun l => .definition l true)
  else if s.startsWith "R" then (parseNat? (s.drop 1).toString).map .reference
  else none

private def parseIng? (s : String) : Option (Ingredient (Value Float)) :=
  match s.splitOn "!" with
  | [name, alias, mods, rel, q] => do
    let name ← parseText? name; let alias ← parseOptText? alias; let mods ← parseNat? mods
    let rel ← parseIngRel? rel; let q ← parseOptQuantity? q
    some { name := name, alias := alias, quantity := q, note := none, reference := none,
           relation := rel, modifiers := ⟨mods⟩ }
  | _ => none

private def parseOptValue? (s : String) : Option (Option (Value Float)) :=
  if s = "none" then some none else (parseVal? s).map some

private def parseCw? (s : String) : Option (Cookware (Value Float)) :=
  match s.splitOn "!" with
  | [name, alias, mods, rel, q] => do
    let name ← parseText? name; let alias ← parseOptText? alias; let mods ← parseNat? mods
    let rel ← parseCwRel? rel; let q ← parseOptValue? q
    some { name := name, alias := alias, quantity := q, note := none, relation := rel, modifiers := ⟨mods⟩ }
  | _ => none

/-- `<k> <ing>×k` repeated until the tokens run out -/
partial def parseRecipes? (toks : List String) : Option (List (ScaledRecipe Float)) :=
  match toks with
  | [] => some []
  | k :: rest => do
    let k ← parseNat? k
    if rest.length < k then none else
    let ings ← (rest.take k).mapM parseIng?
    let more ← parseRecipes? (rest.drop k)
    some ({ sections := [], ingredients := ings, cookware := [], timers := [], inlineQuantities := [] } :: more)

/-- `<name> <n> <q>×n` repeated `m` times -/
private partial def parseEntries? (m : Nat) (toks : List String) :
    Option (List (Str × List (SQuantity Float))) :=
  if m = 0 then (if toks.isEmpty then some [] else none) else
  match toks with
  | name :: n :: rest => do
    let name ← parseText? name; let n ← parseNat? n
    if rest.length < n then none else
    let qs ← (rest.take n).mapM parseQuantity?
    let more ← parseEntries? (m - 1) (rest.drop n)
    some ((name, qs) :: more)
  | _ => none

private def renderValues (vs : List (Value Float)) : String := " ".intercalate (vs.map Value.render)

def renderIngList (l : IngredientList Float) : String :=
  " ## ".intercalate (l.map (fun e => s!"{renderText e.1}={renderGroup e.2}"))

def renderCategorized (r : Categorized Float) : String :=
  let cats := r.categories.map (fun cat => s!"[{renderText cat.1}] {renderIngList cat.2}")
  " %% ".intercalate (cats ++ [s!"[other] {renderIngList r.other}"])

def handleGroupWith (c : Converter Float) : List String → Option String
  | "group" :: qs => do
    let qs ← qs.mapM parseQuantity?
    some (renderGroup (groupOf c qs))
  | "groupfit" :: qs => do
    let qs ← qs.mapM parseQuantity?
    let r := (groupOf c qs).fit c
    some s!"{renderUnitRes r.2} | {renderGroup r.1}"
  | "merge" :: n :: qs => do
    let n ← parseNat? n
    if qs.length < n then none else
    let a ← (qs.take n).mapM parseQuantity?
    let b ← (qs.drop n).mapM parseQuantity?
    some (renderGroup (GroupedQuantity.merge idOrd c (groupOf c a) (groupOf c b)))
  | "gvalue" :: vs => do
    let vs ← vs.mapM parseVal?
    some (match groupedValueAddAll [] vs with
      | none => "PANIC"
      | some g => renderValues g)
  | ["display", name, alias, mods] => do
    let name ← parseText? name; let alias ← parseOptText? alias; let mods ← parseNat? mods
    let i : Ingredient (Value Float) :=
      { name := name, alias := alias, quantity := none, note := none, reference := none,
        relation := ⟨.definition [] true, none⟩, modifiers := ⟨mods⟩ }
    some (renderText i.displayName)
  | "cookware" :: k :: rest => do
    let k ← parseNat? k
    if rest.length ≠ k then none else
    let cws ← rest.mapM parseCw?
    let defs := (cws.zipIdx).filter (fun p => !p.1.relation.isReference)
    let out ← defs.mapM (fun p =>
      match groupAmounts cws p.1 with
      | none => none
      | some g => some s!"{p.2}:{renderValues g}")
    some (" ; ".intercalate out)
  | "cookware_panics" :: k :: rest => do   -- development aid: does any index / expect panic site fire
    let k ← parseNat? k
    if rest.length ≠ k then none else
    let cws ← rest.mapM parseCw?
    some (toString (cws.any (fun cw => !cw.relation.isReference && (groupAmounts cws cw).isNone)))
  | "ingredients" :: k :: rest => do
    let k ← parseNat? k
    if rest.length ≠ k then none else
    let ings ← rest.mapM parseIng?
    let r : ScaledRecipe Float :=
      { sections := [], ingredients := ings, cookware := [], timers := [], inlineQuantities := [] }
    some (match groupIngredients c r with
      | none => "PANIC"
      | some l => " ## ".intercalate (l.map (fun e => s!"{e.index}:{renderGroup e.quantity}")))
  | "list" :: rest => do
    let rs ← parseRecipes? rest
    some (match addRecipes idOrd c [] rs with
      | none => "PANIC"
      | some l => renderIngList l)
  | "cat" :: aisle :: m :: rest => do
    let aisle ← parseText? aisle; let m ← parseNat? m
    let entries ← parseEntries? m rest
    match Aisle.parse aisle with
    | .error _ => some "aisle-error"
    | .ok conf =>
      let list := entries.foldl (fun l e => addIngredient idOrd c l e.1 (groupOf c e.2)) ([] : IngredientList Float)
      some (renderCategorized (categorize idOrd conf list))
  | "catlist" :: aisle :: rest => do
    let aisle ← parseText? aisle
    let rs ← parseRecipes? rest
    match Aisle.parse aisle with
    | .error _ => some "aisle-error"
    | .ok conf =>
      some (match addRecipes idOrd c [] rs with
        | none => "PANIC"
        | some l => renderCategorized (categorize idOrd conf l))
  | _ => none

def handleGroup : List String → Option String
  | "gr" :: rest => if bundledF.wf then handleGroupWith bundledF rest else some "pre-violated"
  | _ => none

end Cook.Driver
