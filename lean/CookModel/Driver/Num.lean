import CookModel.Basic.Proto
import CookModel.Num.Fraction
namespace Cook.Driver
open Cook Proto

def renderApprox : Option (Number Float) → String
  | none => "none"
  | some n => n.render

def handleNum : List String → Option String
  | ["approx", v, acc, md, mw] => do
    let v ← parseBits? v; let acc ← parseBits? acc; let md ← parseNat? md; let mw ← parseNat? mw
    if !newApproxPre acc md then return "pre-violated"
    return renderApprox (newApprox floatTable v acc md mw)
  | ["fractable"] =>
    some (" ".intercalate (floatTable.map FracEntry.render))
  | ["fractable_rat"] =>
    some (" ".intercalate (ratTable.map FracEntry.render))
  | ["fracform", z, w, n, d] => do
    let z ← parseNat? z; let w ← parseNat? w; let n ← parseNat? n; let d ← parseNat? d
    return (fracForm (z != 0) w n d).render
  | _ => none

end Cook.Driver
