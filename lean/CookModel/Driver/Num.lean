import CookModel.Basic.Proto
import CookModel.Num.Fraction
namespace Cook.Driver
open Cook Proto

def renderApprox : Option (Number Float) → String
  | none => "none"
  | some n => n.render

def handleNum : List String → Option String
  | ["approx", v, acc, md, mw] => do
    let v ← parseBits? v; let acc ← parseBits? acc; let md ← parseNat? md; let mw ← parseNat? mw
    if !newApproxPre acc md then return "pre-violated"
    return renderApprox (newApprox floatTable v acc md mw)
  | ["tryapprox2", v, a1, md1, mw1, a2, md2, mw2] => do
    -- `Number::try_approx` twice on the same number (history): the second call starts from whatever the first left
    let v ← parseBits? v; let a1 ← parseBits? a1; let md1 ← parseNat? md1; let mw1 ← parseNat? mw1
    let a2 ← parseBits? a2; let md2 ← parseNat? md2; let mw2 ← parseNat? mw2
    if !newApproxPre a1 md1 || !newApproxPre a2 md2 then return "pre-violated"
    let step := fun (n : Number Float) (a : Float) (md mw : Nat) =>
      match newApprox floatTable n.value a md mw with
      | some f => (f, true)
      | none => (n, false)
    let (n1, b1) := step (.regular v) a1 md1 mw1
    let (n2, b2) := step n1 a2 md2 mw2
    return s!"{n1.render} {b1} {n2.render} {b2}"
  | ["fractable"] =>
    some (" ".intercalate (floatTable.map FracEntry.render))
  | ["fractable_rat"] =>
    some (" ".intercalate (ratTable.map FracEntry.render))
  | ["fracform", z, w, n, d] => do
    let z ← parseNat? z; let w ← parseNat? w; let n ← parseNat? n; let d ← parseNat? d
    return (fracForm (z != 0) w n d).render
  | _ => none

end Cook.Driver
