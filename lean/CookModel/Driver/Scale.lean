import CookModel.Driver.Convert
import CookModel.Num.Scale
/-
  Line protocol of the scaling model (Float instance).

  scalable quantity : `none` | `L<val>@<unit>` | `X<val>@<unit>`   (L = Linear, X = Fixed)
  scalable value    : `none` | `L<val>` | `X<val>`                 (cookware)
  (val / unit as in Driver/Convert.lean)
-/
namespace Cook.Driver
open Cook Proto

def parseScalableValue? (s : String) : Option (ScalableValue Float) :=
  if s.startsWith "L" then (parseVal? (s.drop 1).toString).map .linear
  else if s.startsWith "X" then (parseVal? (s.drop 1).toString).map .fixed
  else none

def parseScalableQuantity? (s : String) : Option (Quantity (ScalableValue Float)) :=
  match s.splitOn "@" with
  | [v, u] => do let v ← parseScalableValue? v; let u ← parseUnitOpt? u; some ⟨v, u⟩
  | _ => none

def parseOpt? {β} (f : String → Option β) (s : String) : Option (Option β) :=
  if s = "none" then some none else (f s).map some

def takeN {β} (f : String → Option β) (n : Nat) (toks : List String) : Option (List β × List String) :=
  if toks.length < n then none else ((toks.take n).mapM f).map (fun xs => (xs, toks.drop n))

def scalableIngredient (q : Option (Quantity (ScalableValue Float))) : Ingredient (ScalableValue Float) :=
  { name := [], alias := none, quantity := q, note := none, reference := none,
    relation := ⟨.definition [] true, none⟩, modifiers := .empty }

def scalableCookware (v : Option (ScalableValue Float)) : Cookware (ScalableValue Float) :=
  { name := [], alias := none, quantity := v, note := none, relation := .definition [] true,
    modifiers := .empty }

def parseScalableRecipe? (ni nc nt : Nat) (toks : List String) : Option (ScalableRecipe Float) := do
  let (ings, rest) ← takeN (parseOpt? parseScalableQuantity?) ni toks
  let (cws, rest) ← takeN (parseOpt? parseScalableValue?) nc rest
  let (tims, rest) ← takeN (parseOpt? parseScalableQuantity?) nt rest
  if rest ≠ [] then none else
  some { sections := [], ingredients := ings.map scalableIngredient, cookware := cws.map scalableCookware,
         timers := tims.map (fun q => { name := none, quantity := q }), inlineQuantities := [] }

def renderOptValue : Option (Value Float) → String
  | none => "none"
  | some v => v.render

def renderScaledRecipe (r : ScaledRecipe Float) : String :=
  " ; ".intercalate (r.ingredients.map (fun i => renderOptQuantity i.quantity)
    ++ r.cookware.map (fun k => renderOptValue k.quantity)
    ++ r.timers.map (fun t => renderOptQuantity t.quantity))

def renderOutcomes (os : List ScaleOutcome) : String := " ".intercalate (os.map ScaleOutcome.name)

def renderScaled (r : ScaledRecipe Float × ScaledData Float) : String :=
  s!"{renderScaledRecipe r.1} # {Arith.render r.2.factor} # {renderOutcomes r.2.ingredients} # {renderOutcomes r.2.cookware} # {renderOutcomes r.2.timers}"

def parseServings? (s : String) : Option (Option (List Nat)) :=
  if s = "none" then some none
  else if s = "-" then some (some [])
  else ((s.splitOn ",").mapM parseNat?).map some

def handleScaleWith (c : Converter Float) : List String → Option String
  | "scale" :: f :: ni :: nc :: nt :: rest => do
    let f ← parseBits? f; let ni ← parseNat? ni; let nc ← parseNat? nc; let nt ← parseNat? nt
    let r ← parseScalableRecipe? ni nc nt rest
    some (renderScaled (recipeScale c r f))
  | "servings" :: target :: servings :: ni :: nc :: nt :: rest => do
    let target ← parseNat? target; let servings ← parseServings? servings
    let ni ← parseNat? ni; let nc ← parseNat? nc; let nt ← parseNat? nt
    let r ← parseScalableRecipe? ni nc nt rest
    some (renderScaled (recipeScaleToServings c r servings target))
  | "default" :: ni :: nc :: nt :: rest => do
    let ni ← parseNat? ni; let nc ← parseNat? nc; let nt ← parseNat? nt
    let r ← parseScalableRecipe? ni nc nt rest
    some (renderScaledRecipe (recipeDefaultScale r))
  | _ => none

def handleScale : List String → Option String
  | ["sc", "scalable", ing, lock, v] => do
    let ing ← parseNat? ing; let lock ← parseNat? lock; let v ← parseVal? v
    some (match mkScalable (ing != 0) (lock != 0) v with
      | .linear _ => "linear"
      | .fixed _ => "fixed")
  | "sc" :: "b" :: rest => if bundledF.wf then handleScaleWith bundledF rest else some "pre-violated"
  | "sc" :: "a" :: rest => if altF.wf then handleScaleWith altF rest else some "pre-violated"
  | _ => none

end Cook.Driver
