import CookModel.Driver.ScaleM
import CookModel.Side.SerdeEq
/-
  Line-protocol handler for the model of `==` on `ScalableRecipe` (Side/SerdeEq.lean; property C15,
  "deserializes to an EQUAL recipe").

  eq scalable FULL FULL   → `true` | `false`      (FULL as in Driver/Serde.lean)

  The metadata maps are compared entry by entry in order (`metaBeq`); the harness only sends pairs whose
  metadata maps are either spelled identically or differ in a value.
-/
namespace Cook.Driver
open Cook Sexp Serde

def handleSerdeEq : List String → Option String
  | "eq" :: "scalable" :: rest => do
    let [a, b] ← parseAll rest | none
    return toString (eqScalableRecipe metaBeq (← decFullScalable a) (← decFullScalable b))
  | _ => none

end Cook.Driver
