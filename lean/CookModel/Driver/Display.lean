import CookModel.Basic.Proto
import CookModel.Num.Display
import CookModel.Driver.Convert
/-
  Line protocol of the printing model (Num/Display.lean), Float instance.  Number / value / quantity
  specs are those of Driver/Convert.lean; `<alt>` is `0` (`{}`) or `1` (`{:#}`); every reply is the
  printed text as a code-point list.

  disp f64 <bits> <plus 0|1>          format!("{}", x) / format!("{:+}", x) of an f64
  disp round <bits>                   → bits            round_float
  disp number <number> <alt>          Display for Number
  disp value <val> <alt>              Display for Value
  disp svalue <F|L><val> <alt>        Display for ScalableValue (Fixed / Linear)
  disp quantity <q> <alt>             Display for Quantity<Value>
  disp squantity <F|L><q> <alt>       Display for Quantity<ScalableValue>
  disp gvalue <v>…                    Display for GroupedValue (GroupedValue::add of each) | PANIC
  disp group <q>…                     Display for GroupedQuantity (add of each, bundled converter;
                                      the harness sends at most one unknown unit key: hash order)
  disp cwname <name> <alias|~>        Cookware::display_name
-/
namespace Cook.Driver
open Cook Proto

private def parseFlag? : String → Option Bool
  | "0" => some false
  | "1" => some true
  | _ => none

private def dispOptText? (s : String) : Option (Option Str) :=
  if s = "~" then some none else (parseText? s).map some

private def parseSV? (s : String) : Option (ScalableValue Float) :=
  if s.startsWith "F" then (parseVal? (s.drop 1).toString).map .fixed
  else if s.startsWith "L" then (parseVal? (s.drop 1).toString).map .linear
  else none

def handleDisplay : List String → Option String
  | ["disp", "f64", x, plus] => do
    let x ← parseBits? x; let plus ← parseFlag? plus
    some (renderText (f64Text plus x))
  | ["disp", "round", x] => do
    let x ← parseBits? x
    some (Arith.render (roundFloat x))
  | ["disp", "number", n, alt] => do
    let n ← parseNumber? n; let alt ← parseFlag? alt
    some (renderText (n.display alt))
  | ["disp", "value", v, alt] => do
    let v ← parseVal? v; let alt ← parseFlag? alt
    some (renderText (v.display alt))
  | ["disp", "svalue", v, alt] => do
    let v ← parseSV? v; let alt ← parseFlag? alt
    some (renderText (v.display alt))
  | ["disp", "quantity", q, alt] => do
    let q ← parseQuantity? q; let alt ← parseFlag? alt
    some (renderText (SQuantity.display alt q))
  | ["disp", "squantity", q, alt] => do
    let alt ← parseFlag? alt
    let lin := q.startsWith "L"
    if !(lin || q.startsWith "F") then none else
    let q ← parseQuantity? (q.drop 1).toString
    let sq : Quantity (ScalableValue Float) := ⟨if lin then .linear q.value else .fixed q.value, q.unit⟩
    some (renderText (Quantity.displayScalable alt sq))
  | "disp" :: "gvalue" :: vs => do
    let vs ← vs.mapM parseVal?
    some (match groupedValueAddAll [] vs with
      | none => "PANIC"
      | some g => renderText (groupedValueDisplay g))
  | "disp" :: "group" :: qs => do
    let qs ← qs.mapM parseQuantity?
    let g := GroupedQuantity.addAll bundledF GroupedQuantity.empty qs
    some (renderText (GroupedQuantity.display (fun l => l) g))
  | ["disp", "cwname", name, alias] => do
    let name ← parseText? name; let alias ← dispOptText? alias
    let c : Cookware (Value Float) :=
      { name := name, alias := alias, quantity := none, note := none,
        relation := .definition [] true, modifiers := ⟨0⟩ }
    some (renderText c.displayName)
  | _ => none

end Cook.Driver
