import CookModel.Basic.Proto
import CookModel.Side.Aisle
import CookModel.Side.AisleOrig
import CookModel.Side.AisleSink
import CookModel.Side.AisleUtf8
/- Line protocol for the aisle model (C11).
   aisle <text>               → ok {C <name> {I<k> <n1> … <nk>}} | err <kind> … | panic
   aisle_rt <text>            → noparse | rt <written text> same|diff|err
   aisle_lookup <text> <name> → noparse | none | some <name> <common> <category>
   aisle_sink <text> <perCall> <cap> → noparse | ok <bytes> | werr <bytes>   (`write` into a destination that accepts
                                 at most perCall bytes per call and cap in all; bytes = what it holds afterwards)
   utf8_enc <text>            → <bytes>                    (`str::as_bytes`, `utf8Encode` of Side/AisleUtf8.lean)
   utf8_dec <bytes>           → err | ok <text>            (`std::str::from_utf8`, `utf8Decode`; bytes = comma separated
                                 decimal values < 256, `-` for none)
   ws_table                   → ranges of scalar values that `isWhitespace` accepts
   ascii_ws_table             → same for `isAsciiWhitespace` -/
namespace Cook.Driver
open Cook Proto Aisle

def renderSpan (s : Span) : String := s!"{s.start} {s.stop}"

def renderConf (c : Conf) : String :=
  " ".intercalate ("ok" :: c.categories.flatMap fun cat =>
    ["C", renderText cat.name] ++ cat.ingredients.flatMap fun i =>
      s!"I{i.names.length}" :: i.names.map renderText)

def renderAisleErr : Err → String
  | .invalidCategory s => s!"err invalid_category {renderSpan s}"
  | .expectedCategory s => s!"err expected_category {renderSpan s}"
  | .duplicateCategory n a b => s!"err dup_category {renderText n} {renderSpan a} {renderSpan b}"
  | .duplicateIngredient n a b => s!"err dup_ingredient {renderText n} {renderSpan a} {renderSpan b}"
  | .panic _ => "panic"

def renderParse : Except Err Conf → String
  | .ok c => renderConf c
  | .error e => renderAisleErr e

/-- maximal runs of scalar values satisfying `p`, as `lo-hi` -/
def wsRanges (p : Char → Bool) : String := Id.run do
  let mut out : Array String := #[]
  let mut start : Option Nat := none
  for n in [0:0x110000] do
    let ok := if n < 0xD800 || 0xDFFF < n then p (Char.ofNat n) else false
    match start, ok with
    | none, true => start := some n
    | some s, false => out := out.push s!"{s}-{n - 1}"; start := none
    | _, _ => pure ()
  " ".intercalate out.toList

def aisleOps (p : List Char → Except Err Conf) (sfx : String) : List String → Option String
  | [op, t] =>
    if op == "aisle" ++ sfx then do
      let t ← parseText? t
      return renderParse (p t)
    else if op == "aisle_rt" ++ sfx then do
      let t ← parseText? t
      match p t with
      | .error _ => return "noparse"
      | .ok c =>
        let w := write c
        let again := match p w with
          | .ok c2 => if c2 = c then "same" else "diff"
          | .error _ => "err"
        return s!"rt {renderText w} {again}"
    else none
  | [op, t, n] =>
    if op == "aisle_lookup" ++ sfx then do
      let t ← parseText? t
      let n ← parseText? n
      match p t with
      | .error _ => return "noparse"
      | .ok c =>
        match lookup c n with
        | none => return "none"
        | some i => return s!"some {renderText i.name} {renderText i.common} {renderText i.category}"
    else none
  | _ => none

def renderBytes (bs : List UInt8) : String :=
  if bs.isEmpty then "-" else ",".intercalate (bs.map fun b => toString b.toNat)

/-- `aisle::write` into a `Sink` (Side/AisleSink.lean) -/
def aisleSinkOp : List String → Option String
  | ["aisle_sink", t, n, cap] => do
    let t ← parseText? t
    let n ← parseNat? n
    let cap ← parseNat? cap
    match parse t with
    | .error _ => return "noparse"
    | .ok c =>
      let r := writeTo c ⟨n, cap, []⟩
      return s!"{if r.2 then "ok" else "werr"} {renderBytes r.1.out}"
  | _ => none

/-- byte string argument: comma separated decimal values below 256, `-` for the empty string -/
def parseBytes? (s : String) : Option (List UInt8) :=
  if s = "-" then some [] else
  (s.splitOn ",").mapM (fun p => p.toNat?.bind fun n => if n < 256 then some (UInt8.ofNat n) else none)

/-- the byte level (Side/AisleUtf8.lean) -/
def aisleUtf8Op : List String → Option String
  | ["utf8_enc", t] => do
    let t ← parseText? t
    return renderBytes (utf8Encode t)
  | ["utf8_dec", b] => do
    let b ← parseBytes? b
    match utf8Decode b with
    | none => return "err"
    | some t => return s!"ok {renderText t}"
  | _ => none

def handleAisle (toks : List String) : Option String :=
  match aisleSinkOp toks with
  | some r => some r
  | none =>
  match aisleUtf8Op toks with
  | some r => some r
  | none =>
  match aisleOps parse "" toks with
  | some r => some r
  | none =>
  match aisleOps Orig.parse "_orig" toks with   -- the code before the repairs (development aid)
  | some r => some r
  | none =>
  match toks with
  | ["ws_table"] => some (wsRanges isWhitespace)
  | ["ascii_ws_table"] => some (wsRanges isAsciiWhitespace)
  | _ => none

end Cook.Driver
