import CookModel.Driver.StdMeta
import CookModel.Driver.Syntax
import CookModel.Side.StdMetaMap
import CookModel.Syntax.Ast
/-
  Line-protocol handlers that tie model definitions added by the proof audits to the code
  (they had theorems but no correspondence run):

    sm_metadata <conv> <alpha> <map>     Side/StdMetaMap.lean: every `Metadata::…` accessor
                                         (src/metadata.rs:116-217) over a whole metadata mapping.
                                         `<conv>`, `<alpha>` and `<map>` (= `{key=value;…}`) in the
                                         encoding of Driver/StdMeta.lean.
    ast <ext> <text>                     Syntax/Ast.lean: `build_ast(PullParser::new(text, ext))`
                                         (src/ast.rs): blocks, items (rendered like the events of
                                         Driver/Render.lean), report.
-/
namespace Cook.Driver
open Cook Cook.SM Proto

/-! ### `sm_metadata` -/

private def tieOptText : Option Str → String
  | some t => s!"some {renderText t}"
  | none => "none"

private def tieNameUrl : Option NameUrl → String
  | some r => s!"some {renderOptText r.name} {renderOptText r.url}"
  | none => "none"

private def tieTime : Option RecipeTime → String
  | some (.total n) => s!"total {n}"
  | some (.composed p c) => s!"composed {renderOptNat p} {renderOptNat c}"
  | none => "none"

private def tieTags : Option (List Str) → String
  | some l => "some [" ++ ";".intercalate (l.map renderText) ++ "]"
  | none => "none"

private def tieServings : Option (List Nat) → String
  | some l => s!"some {renderNats l}"
  | none => "none"

private def tieLocale : Option (Str × Option Str) → String
  | some r => s!"some {renderText r.1} {renderOptText r.2}"
  | none => "none"

/-- all accessors of `Metadata` on the mapping `m` -/
def renderMetaAccessors (c : Conv Float) (alpha : Char → Bool) (m : List (Y × Y)) : String :=
  " | ".intercalate [
    "title " ++ tieOptText (metaTitle m),
    "description " ++ tieOptText (metaDescription m),
    "tags " ++ tieTags (metaTags m),
    "author " ++ tieNameUrl (metaAuthor alpha m),
    "source " ++ tieNameUrl (metaSource alpha m),
    "time " ++ tieTime (metaTime c m),
    "servings " ++ tieServings (metaServings m),
    "locale " ++ tieLocale (metaLocale m)]

/-! ### `ast` -/

private def tieAstItem : AstItem Float → String
  | .text t => rEv (α := Float) (.text t)
  | .ingredient i => rEv (.ingredient i)
  | .cookware c => rEv (.cookware c)
  | .timer t => rEv (.timer t)

private def tieAstBlock : AstBlock Float → String
  | .frontMatter y => s!"FM {rText y}"
  | .metadata k v => s!"MD {rText k} {rText v}"
  | .«section» n => s!"SEC {rOpt rText n}"
  | .step items => "STEP{" ++ " || ".intercalate (items.map tieAstItem) ++ "}"
  | .textBlock ts => "TEXTBLOCK{" ++ " || ".intercalate (ts.map rText) ++ "}"

/-- the `PassResult<Ast>` of `build_ast`: the blocks and the report (severity, stage, kind, labels) -/
def renderAst (s : AstState Float) : String :=
  match s.panic with
  | some p => s!"PANIC {p}"
  | none =>
    "blocks=[" ++ " | ".intercalate (s.blocks.map tieAstBlock) ++ "] report=[" ++
    " ".intercalate (s.diags.map rDiagFull) ++ "]"

def handleTie : List String → Option String
  | ["sm_metadata", conv, alpha, map] => do
    let c ← parseConv conv; let a ← parseAlpha alpha
    let y ← parseYamlS map
    if hugeExpY y then return "huge-exponent"
    match y with
    | .map m => return renderMetaAccessors c a m
    | _ => none
  | ["ast", ext, txt] => do
    let ext ← parseNat? ext
    let s ← parseText? txt
    return renderAst (buildAstOfInput (α := Float) realCharSpec ⟨ext⟩ s)
  | _ => none

end Cook.Driver
