import CookModel.Basic.Proto
import CookModel.Side.StdMeta
/-
  Line-protocol handlers of C13 (Float instance of the StdMeta model).

  Arguments (space free):
    yaml   n | b | t | s:<text> | i:<u64 or ~>:<text> | [y;y;…] | {y=y;y=y;…}
    conv   <unit_count>!<units>!<index>   units = <isTime 0/1>:<ratio bits>:<diff bits>/…   index = <text>=<unit no>/…
           (`-` for an empty list)
    alpha  <code point>,…  or `-`            (the characters of the text for which char::is_alphabetic holds)
-/
namespace Cook.Driver
open Cook Cook.SM Proto

/-! yaml value parser -/

def splitTop (sep : Char) (cs : List Char) : List (List Char) :=
  let rec go (depth : Nat) (cur : List Char) (acc : List (List Char)) : List Char → List (List Char)
    | [] => (cur.reverse :: acc).reverse
    | c :: r =>
      if c = '[' || c = '{' then go (depth + 1) (c :: cur) acc r
      else if c = ']' || c = '}' then go (depth - 1) (c :: cur) acc r
      else if c = sep && depth = 0 then go depth [] (cur.reverse :: acc) r
      else go depth (c :: cur) acc r
  go 0 [] [] cs

def parseTextL (cs : List Char) : Option Str := parseText? (String.ofList cs)

partial def parseYaml (cs : List Char) : Option Y :=
  match cs with
  | ['n'] => some .null
  | ['b'] => some .bool
  | ['t'] => some .tagged
  | 's' :: ':' :: r => (parseTextL r).map .str
  | 'i' :: ':' :: r =>
    match splitTop ':' r with
    | [u, t] =>
      let u64 := if u = ['~'] then some none else (String.ofList u).toNat?.map some
      match u64, parseTextL t with
      | some u, some t => some (.num ⟨u, t⟩)
      | _, _ => none
    | _ => none
  | '[' :: r =>
    if r.getLast? != some ']' then none else
    let inner := r.dropLast
    if inner.isEmpty then some (.seq []) else
    ((splitTop ';' inner).mapM parseYaml).map .seq
  | '{' :: r =>
    if r.getLast? != some '}' then none else
    let inner := r.dropLast
    if inner.isEmpty then some (.map []) else
    ((splitTop ';' inner).mapM (fun e =>
      match splitTop '=' e with
      | [k, v] => match parseYaml k, parseYaml v with
        | some k, some v => some (k, v)
        | _, _ => none
      | _ => none)).map .map
  | _ => none

def parseYamlS (s : String) : Option Y := parseYaml s.toList

/-! guard: a decimal exponent of seven or more digits would make the exact evaluation build a power of ten
    with millions of digits (std saturates such exponents); the harness does not generate them and the
    driver refuses them instead of running out of memory -/

def hugeExpText : Str → Bool
  | [] => false
  | c :: r =>
    if c = 'e' || c = 'E' then
      let r' := match r with
        | '+' :: t => t
        | '-' :: t => t
        | t => t
      if (r'.takeWhile isDigit).length ≥ 7 then true else hugeExpText r
    else hugeExpText r

partial def yStrings : Y → List Str
  | .str s => [s]
  | .num n => [n.text]
  | .seq l => l.flatMap yStrings
  | .map m => m.flatMap (fun e => yStrings e.1 ++ yStrings e.2)
  | _ => []

def hugeExpY (y : Y) : Bool := (yStrings y).any hugeExpText

/-! converter, literal table, alphabetic set -/

def parseUnit (s : String) : Option (TUnit Float) :=
  match s.splitOn ":" with
  | [t, r, d] => do
    let r ← parseBits? r; let d ← parseBits? d
    some ⟨t == "1", r, d⟩
  | _ => none

def listArg (s : String) (sep : String) : List String := if s == "-" then [] else s.splitOn sep

def parseConv (s : String) : Option (Conv Float) :=
  match s.splitOn "!" with
  | [n, us, ix] => do
    let n ← parseNat? n
    let us ← (listArg us "/").mapM parseUnit
    let ix ← (listArg ix "/").mapM (fun e => match e.splitOn "=" with
      | [k, i] => do let k ← parseText? k; let i ← parseNat? i; some (k, i)
      | _ => none)
    -- pad with non-time units up to `unit_count` (only emptiness is looked at)
    let pad : List (TUnit Float) := List.replicate (n - us.length) ⟨false, 1.0, 0.0⟩
    some ⟨us ++ pad, fun name => (ix.find? (fun e => e.1 = name)).map (·.2)⟩
  | _ => none

def parseAlpha (s : String) : Option (Char → Bool) := do
  let t ← (listArg s ",").mapM parseNat?
  some (fun c => t.contains c.toNat)

/-! replies -/

def renderOptNat : Option Nat → String
  | some n => toString n
  | none => "~"

def renderOptText : Option Str → String
  | some t => renderText t
  | none => "~"

def renderNats (l : List Nat) : String := if l.isEmpty then "-" else ",".intercalate (l.map toString)

def renderMinutes : Except MErr Nat → String
  | .ok n => s!"ok {n}"
  | .error _ => "none"

def renderTime : Except MErr RecipeTime → String
  | .ok (.total n) => s!"total {n}"
  | .ok (.composed p c) => s!"composed {renderOptNat p} {renderOptNat c}"
  | .error _ => "none"

def renderSyn : Option F64Syn → String
  | none => "err"
  | some .nan => "nan"
  | some (.inf _) => "inf"
  | some (.dec _) => "dec"

def handleStdMeta : List String → Option String
  | ["sm_minutes", conv, y] => do
    let c ← parseConv conv; let y ← parseYamlS y
    if hugeExpY y then return "huge-exponent"
    return renderMinutes (valueAsMinutes c y)
  | ["sm_time", conv, y] => do
    let c ← parseConv conv; let y ← parseYamlS y
    if hugeExpY y then return "huge-exponent"
    return renderTime (valueAsTime c y)
  | ["sm_common", t] => do
    let t ← parseText? t
    return renderOptNat (commonTime t)
  | ["sm_units", conv, t] => do
    let c ← parseConv conv; let t ← parseText? t
    if hugeExpText t then return "huge-exponent"
    return renderOptNat (parseTimeWithUnits c t)
  | ["sm_servings", y] => do
    let y ← parseYamlS y
    return match valueAsServings y with
      | some l => s!"some {renderNats l}"
      | none => "none"
  | ["sm_tags", y] => do
    let y ← parseYamlS y
    return match valueAsTags y with
      | some l => "some [" ++ ";".intercalate (l.map renderText) ++ "]"
      | none => "none"
  | ["sm_nameurl", alpha, y] => do
    let a ← parseAlpha alpha; let y ← parseYamlS y
    return match asNameAndUrl a y with
      | some r => s!"some {renderOptText r.name} {renderOptText r.url}"
      | none => "none"
  | ["sm_isurl", alpha, t] => do
    let a ← parseAlpha alpha; let t ← parseText? t
    return toString (isUrl a t)
  | ["sm_locale", y] => do
    let y ← parseYamlS y
    return match valueAsLocale y with
      | some r => s!"some {renderText r.1} {renderOptText r.2}"
      | none => "none"
  | ["sm_stdcheck", conv, alpha, key, y] => do
    let c ← parseConv conv; let a ← parseAlpha alpha
    let key ← parseText? key; let y ← parseYamlS y
    if hugeExpY y then return "huge-exponent"
    return match StdKey.fromStr key with
      | none => "ok"
      | some k => match checkStdEntry c a k y with
        | none => "warn"
        | some none => "ok"
        | some (some s) => s!"ok servings {renderNats s}"
  | ["sm_f64syn", t] => do
    let t ← parseText? t
    return renderSyn (parseF64Syn t)
  | ["sm_u32", t] => do
    let t ← parseText? t
    return renderOptNat (parseU32 t)
  | ["sm_words", t] => do
    let t ← parseText? t
    return "[" ++ ";".intercalate ((words t).map renderText) ++ "]"
  | ["sm_trim", t] => do
    let t ← parseText? t
    return renderText (trim t)
  | ["sm_canon", key] => do
    let key ← parseText? key
    return match StdKey.fromStr key with
      | none => "nokey"
      | some k => renderText k.canon
  | _ => none

end Cook.Driver
