import CookModel.Driver.Syntax
import CookModel.Driver.FrontMatter
import CookModel.Analysis.RefCheck
/-
  Line-protocol handler for `ParseOptions::recipe_ref_check` (Analysis/RefCheck.lean).

    recipe_rc <ext> <conv> <callback> <text>     `CooklangParser::parse_with_options` with a `recipe_ref_check`

    <conv>      0 = empty converter, 1 = bundled converter (as for `recipe`)
    <callback>  which of the callbacks of harness/src/props/c04.rs (`ref_checker`) is installed:
                1  Error if the name contains `a`, else Warning if it has more than 4 bytes, else Ok
                2  Error for every name
                3  Warning if the name has an odd number of bytes, else Ok
  Documents WITHOUT front matter only (the harness sends no others).  Reply: every diagnostic of the report
  (severity, stage, kind, label spans) in report order, and whether there is output.
-/
namespace Cook.Driver
open Cook Proto

def rcChecker (mode : Nat) (name : Str) : FM.CheckRes :=
  if mode == 1 then
    (if name.contains 'a' then .error else if utf8Len name > 4 then .warning else .ok)
  else if mode == 2 then .error
  else (if utf8Len name % 2 == 1 then .warning else .ok)

def rAnalysisRc (r : AnalysisResult Float) : String :=
  match r.panic with
  | some p => s!"PANIC {p}"
  | none =>
    match r.output with
    | none => s!"NOOUT {rDiagsFull r.diags}"
    | some _ => s!"OUT {rDiagsFull r.diags}"

def handleRefCheck : List String → Option String
  | ["recipe_rc", ext, conv, mode, txt] => do
    let ext ← parseNat? ext
    let conv ← parseNat? conv
    let mode ← parseNat? mode
    let s ← parseText? txt
    return rAnalysisRc (RC.parseRecipeR (α := Float) (realEnv ext conv) (some (rcChecker mode)) s)
  | _ => none

end Cook.Driver
