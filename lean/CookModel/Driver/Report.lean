import CookModel.Basic.Proto
import CookModel.Side.Report
import CookModel.Side.ReportWidths
import CookModel.Driver.Render
/-
  Line-protocol handler that ties Side/Report.lean (label preparation of `SourceReport::write`) to the code:

    report_prep <text> <diags>     `<diags>` = `-` or `;`-separated `W:<labels>` / `E:<labels>` in report order,
                                   `<labels>` = `-` or `,`-separated `start.end`
    reply: one entry per diagnostic in WRITE order (warnings, then errors), separated by ` `:
           `N` no labels | `R` block refused (message only) | `PANIC` | `B[<line>;<line>…]` with
           `<line>` = `L<0-based line number>:<colour>=<code points>,<colour>=<code points>…`
           (the painted pieces of that line, left to right; tabs shown as four spaces)
-/
namespace Cook.Driver
open Cook Proto

def parseSpan? (s : String) : Option Span :=
  match s.splitOn "." with
  | [a, b] => do
    let a ← a.toNat?
    let b ← b.toNat?
    some ⟨a, b⟩
  | _ => none

def parseDiagLabels? (s : String) : Option Diag :=
  match s.splitOn ":" with
  | [sev, ls] => do
    let sev ← (if sev == "W" then some Sev.warning else if sev == "E" then some Sev.error else none)
    let labels ← (if ls == "-" then some [] else (ls.splitOn ",").mapM parseSpan?)
    some ⟨sev, .parse, "", labels⟩
  | _ => none

/-- consecutive pieces of the same line -/
def groupPieces : List Piece → List (Nat × List Piece)
  | [] => []
  | p :: rest =>
    match groupPieces rest with
    | (n, ps) :: gs => if n = p.lineNo then (n, p :: ps) :: gs else (p.lineNo, [p]) :: (n, ps) :: gs
    | [] => [(p.lineNo, [p])]

def rPiece (p : Piece) : String := p.color ++ "=" ++ rCps p.text

def rPrep : PrepResult → String
  | .noLabels => "N"
  | .rejected => "R"
  | .panic _ => "PANIC"
  | .block ps =>
    "B[" ++ ";".intercalate ((groupPieces ps).map (fun g => s!"L{g.1}:" ++ ",".intercalate (g.2.map rPiece))) ++ "]"

def handleReport : List String → Option String
  | ["report_prep", txt, diags] => do
    let s ← parseText? txt
    let ds ← (if diags == "-" then some [] else (diags.splitOn ";").mapM parseDiagLabels?)
    let r := reportPrep s ds
    return if r.isEmpty then "-" else " ".intercalate (r.map rPrep)
  | _ => none

/-
    report_widths <text> <diags> <table>   `<diags>` as for `report_prep`, but a label is `start.end.t` (it carries a
                                   text) or `start.end.n`; `<table>` = `-` or `;`-separated `<code points>=<width>`:
                                   `UnicodeWidthStr::width` of the strings involved (tabs already expanded), from the
                                   real unicode-width; a string not in the table has width 0
    reply: one entry per diagnostic in write order: `N` | `R` | `PANIC` | `W<gutter width>[<line>;…]` with
           `<line>` = `L<line number>:<part>,…`, `<part>` = `i<w>` incoming, `o<w>` outgoing, `p<w>` unlabelled (left
           out when `w = 0`: nothing is drawn for it), `l<w>` labelled without text, `l<w/2 + 1 + (w - (w/2+1))>`
           labelled with text (`CodeWidth::left_right`, the `┬` row drawn under it) — what the underline row shows.
-/
def parseSpanFlag? (s : String) : Option (Span × Bool) :=
  match s.splitOn "." with
  | [a, b, f] => do
    let a ← a.toNat?
    let b ← b.toNat?
    some (⟨a, b⟩, f == "t")
  | _ => none

def parseDiagFlags? (s : String) : Option (Diag × List Bool) :=
  match s.splitOn ":" with
  | [sev, ls] => do
    let sev ← (if sev == "W" then some Sev.warning else if sev == "E" then some Sev.error else none)
    let labels ← (if ls == "-" then some [] else (ls.splitOn ",").mapM parseSpanFlag?)
    some (⟨sev, .parse, "", labels.map (·.1)⟩, (labels.mergeSort (fun x y => Span.le x.1 y.1)).map (·.2))
  | _ => none

def parseWidthEntry? (s : String) : Option (String × Nat) :=
  match s.splitOn "=" with
  | [k, v] => v.toNat?.map (fun n => (k, n))
  | _ => none

/-- the parts of one line as the underline row shows them; `flags` = has-text flags of the labels not yet drawn -/
def rWParts : List (PartKind × List Char × Nat) → List Bool → List String × List Bool
  | [], fl => ([], fl)
  | (k, _, w) :: rest, fl =>
    match k with
    | .incoming => let r := rWParts rest fl; (s!"i{w}" :: r.1, r.2)
    | .outgoing => let r := rWParts rest fl; (s!"o{w}" :: r.1, r.2)
    | .plain => let r := rWParts rest fl; (if w = 0 then r.1 else s!"p{w}" :: r.1, r.2)
    | .labelled =>
      let r := rWParts rest fl.tail
      ((if fl.headD false then s!"l{w / 2 + 1 + (w - (w / 2 + 1))}" else s!"l{w}") :: r.1, r.2)

def rWLines : List WLine → List Bool → List String
  | [], _ => []
  | (n, ps) :: rest, fl => (s!"L{n}:" ++ ",".intercalate (rWParts ps fl).1) :: rWLines rest (rWParts ps fl).2

def rWidthResult (r : WidthResult) (flags : List Bool) : String :=
  match r with
  | .noLabels => "N"
  | .rejected => "R"
  | .panic _ => "PANIC"
  | .block lines =>
    s!"W{lineNoWidth ((lines.getLast?.map (·.1)).getD 0)}[" ++ ";".intercalate (rWLines lines flags) ++ "]"

def handleReportWidths : List String → Option String
  | ["report_widths", txt, diags, table] => do
    let s ← parseText? txt
    let ds ← (if diags == "-" then some [] else (diags.splitOn ";").mapM parseDiagFlags?)
    let tbl ← (if table == "-" then some [] else (table.splitOn ";").mapM parseWidthEntry?)
    let sw : List Char → Nat := fun t => (tbl.lookup (rCps t)).getD 0
    -- write order: warnings, then errors (`reportOrder`), flags along
    let ordered := ds.filter (fun d => d.1.sev == .warning) ++ ds.filter (fun d => d.1.sev == .error)
    let r := ordered.map (fun d => rWidthResult (reportWidthsDiag sw s d.1.labels) d.2)
    return if r.isEmpty then "-" else " ".intercalate r
  | _ => none

end Cook.Driver
