import CookModel.Basic.Proto
import CookModel.Side.Report
import CookModel.Driver.Render
/-
  Line-protocol handler that ties Side/Report.lean (label preparation of `SourceReport::write`) to the code:

    report_prep <text> <diags>     `<diags>` = `-` or `;`-separated `W:<labels>` / `E:<labels>` in report order,
                                   `<labels>` = `-` or `,`-separated `start.end`
    reply: one entry per diagnostic in WRITE order (warnings, then errors), separated by ` `:
           `N` no labels | `R` block refused (message only) | `PANIC` | `B[<line>;<line>…]` with
           `<line>` = `L<0-based line number>:<colour>=<code points>,<colour>=<code points>…`
           (the painted pieces of that line, left to right; tabs shown as four spaces)
-/
namespace Cook.Driver
open Cook Proto

def parseSpan? (s : String) : Option Span :=
  match s.splitOn "." with
  | [a, b] => do
    let a ← a.toNat?
    let b ← b.toNat?
    some ⟨a, b⟩
  | _ => none

def parseDiagLabels? (s : String) : Option Diag :=
  match s.splitOn ":" with
  | [sev, ls] => do
    let sev ← (if sev == "W" then some Sev.warning else if sev == "E" then some Sev.error else none)
    let labels ← (if ls == "-" then some [] else (ls.splitOn ",").mapM parseSpan?)
    some ⟨sev, .parse, "", labels⟩
  | _ => none

/-- consecutive pieces of the same line -/
def groupPieces : List Piece → List (Nat × List Piece)
  | [] => []
  | p :: rest =>
    match groupPieces rest with
    | (n, ps) :: gs => if n = p.lineNo then (n, p :: ps) :: gs else (p.lineNo, [p]) :: (n, ps) :: gs
    | [] => [(p.lineNo, [p])]

def rPiece (p : Piece) : String := p.color ++ "=" ++ rCps p.text

def rPrep : PrepResult → String
  | .noLabels => "N"
  | .rejected => "R"
  | .panic _ => "PANIC"
  | .block ps =>
    "B[" ++ ";".intercalate ((groupPieces ps).map (fun g => s!"L{g.1}:" ++ ",".intercalate (g.2.map rPiece))) ++ "]"

def handleReport : List String → Option String
  | ["report_prep", txt, diags] => do
    let s ← parseText? txt
    let ds ← (if diags == "-" then some [] else (diags.splitOn ";").mapM parseDiagLabels?)
    let r := reportPrep s ds
    return if r.isEmpty then "-" else " ".intercalate (r.map rPrep)
  | _ => none

end Cook.Driver
