import CookModel.Driver.Ffi
import CookModel.Driver.Syntax
import CookModel.Side.BindingsEntry
/-
  Line-protocol handler for the rest of the bindings' public surface (C19, wave "bindings coverage").

  ffi_aisle TEXT NAME*      → `parse_aisle_config(TEXT)` then `category_for` of every NAME, in the given
                              order, on the one object: `panic` | `cats <C name {I<k> n1 … nk}>* # cache
                              <name=cat>* (sorted by name) # <answer>*`   (answer: `none` | `some:TEXT`)
  ffi_meta (n | sTEXT){2}*  → the view's `metadata` map / the result of `parse_metadata` for the core map
                              whose entries read (key.as_str(), value.as_str()) as given, in order:
                              `<key=value>*` sorted by key
  ffi_parse BITS TEXT       → `parse_recipe(TEXT, factor)` with the canonical parser (no extensions, empty
                              converter): the rendering of op `ffi`, or `panic:unwrap`
-/
namespace Cook.Driver.FfiH
open Cook Ffi Proto

def rAisleCats (cs : List AisleCategory) : String :=
  " ".intercalate (cs.flatMap fun cat =>
    ["C", renderText cat.name] ++ cat.ingredients.flatMap fun i =>
      s!"I{1 + i.aliases.length}" :: renderText i.name :: i.aliases.map renderText)

def rStrMap (m : AList Str Str) : String :=
  " ".intercalate ((sortBy (fun a b => strLt a.1 b.1) m).map (fun p => s!"{renderText p.1}={renderText p.2}"))

def rAisle (c : FAisleConf) (qs : List Str) : String :=
  s!"cats {rAisleCats c.categories} # cache {rStrMap c.cache} # {" ".intercalate ((c.run qs).2.map rOptText)}"

def decOptTok (s : String) : Option (Option Str) :=
  if s = "n" then some none
  else if s.startsWith "s" then (parseText? (s.drop 1).toString).map some
  else none

def decMetaEntries : List String → Option (List MetaEntry)
  | [] => some []
  | [_] => none
  | k :: v :: rest => do
    let k ← decOptTok k
    let v ← decOptTok v
    let r ← decMetaEntries rest
    return ⟨k, v⟩ :: r

def emptyConvF : Converter Float := Converter.empty (mkTable Float Gen.DENOMS)

end Cook.Driver.FfiH

namespace Cook.Driver
open Cook Ffi Proto FfiH

def handleFfiEntry : List String → Option String
  | "ffi_aisle" :: txt :: qs => do
    let t ← parseText? txt
    let qs ← qs.mapM parseText?
    return match parseAisleConfig t with
      | .ok c => rAisle c qs
      | .error _ => "panic"
  | "ffi_meta" :: rest => do
    let es ← decMetaEntries rest
    return rStrMap (intoMetadata es)
  | ["ffi_parse", f, txt] => do
    let t ← parseText? txt
    let f ← parseBits? f
    return rExcept rView (parseRecipeView (realEnv 0 0) emptyConvF t f)
  | _ => none

end Cook.Driver
