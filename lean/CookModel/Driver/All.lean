import CookModel.Driver.Num
import CookModel.Driver.Syntax
import CookModel.Driver.Ffi
/- Registry of line-protocol handlers. One line per area. -/
namespace Cook.Driver
def handlers : List (List String → Option String) := [
  handleNum,
  handleSyntax,
  handleFfi
]
end Cook.Driver
