import CookModel.Driver.Num
import CookModel.Driver.Syntax
import CookModel.Driver.Builder
/- Registry of line-protocol handlers. One line per area. -/
namespace Cook.Driver
def handlers : List (List String → Option String) := [
  handleNum,
  handleSyntax,
  handleBuilder
]
end Cook.Driver
