import CookModel.Driver.Num
import CookModel.Driver.Syntax
import CookModel.Driver.Ffi
import CookModel.Driver.Serde
/- Registry of line-protocol handlers. One line per area. -/
namespace Cook.Driver
def handlers : List (List String → Option String) := [
  handleNum,
  handleSyntax,
  handleFfi,
  handleSerde
]
end Cook.Driver
