import CookModel.Driver.Num
import CookModel.Driver.Syntax
import CookModel.Driver.StdMeta
/- Registry of line-protocol handlers. One line per area. -/
namespace Cook.Driver
def handlers : List (List String → Option String) := [
  handleNum,
  handleSyntax,
  handleStdMeta
]
end Cook.Driver
