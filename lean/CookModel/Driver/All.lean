import CookModel.Driver.Num
import CookModel.Driver.Aisle
-- import CookModel.Driver.Syntax   -- (aisle branch: main@cffb4a1 Syntax/Blocks.lean does not build yet; re-enable when merging)
/- Registry of line-protocol handlers. One line per area. -/
namespace Cook.Driver
def handlers : List (List String → Option String) := [
  handleNum,
  handleAisle
  -- , handleSyntax
]
end Cook.Driver
