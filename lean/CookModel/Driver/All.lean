import CookModel.Driver.Num
import CookModel.Driver.Convert
import CookModel.Driver.Scale
import CookModel.Driver.Syntax
import CookModel.Driver.Aisle
import CookModel.Driver.Group
import CookModel.Driver.StdMeta
import CookModel.Driver.Ffi
import CookModel.Driver.FfiEntry
import CookModel.Driver.Serde
import CookModel.Driver.Builder
import CookModel.Driver.Tie
import CookModel.Driver.Display
import CookModel.Driver.Report
import CookModel.Driver.ScaleM
import CookModel.Driver.SerdeEq
import CookModel.Driver.GroupMore
import CookModel.Driver.FrontMatter
import CookModel.Driver.RefCheck
import CookModel.Driver.RefCheckValidator
/- Registry of line-protocol handlers. One line per area. -/
namespace Cook.Driver
def handlers : List (List String → Option String) := [
  handleNum,
  handleConvert,
  handleScale,
  handleSyntax,
  handleAisle,
  handleGroup,
  handleStdMeta,
  handleFfi,
  handleFfiEntry,
  handleSerde,
  handleBuilder,
  handleTie,
  handleDisplay,
  handleReport,
  handleReportWidths,
  handleScaleM,
  handleSerdeEq,
  handleGroupMore,
  handleFrontMatter,
  handleRefCheck,
  handleRefCheckValidator
]
end Cook.Driver
