import CookModel.Driver.Num
/- Registry of line-protocol handlers. One line per area. -/
namespace Cook.Driver
def handlers : List (List String → Option String) := [
  handleNum
]
end Cook.Driver
