import CookModel.Driver.Num
import CookModel.Driver.Builder
/- Registry of line-protocol handlers. One line per area.
   (branch `builder`: Driver.Syntax left out because Syntax/Blocks.lean of main@cffb4a1 does not build; keep both lines when merging) -/
namespace Cook.Driver
def handlers : List (List String → Option String) := [
  handleNum,
  handleBuilder
]
end Cook.Driver
