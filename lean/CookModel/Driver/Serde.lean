import CookModel.Driver.RecipeSexp
import CookModel.Side.Serde
/-
  Line-protocol handler for the serde model (C15).

  json scalable ( full META DATA RECIPE )   → canonical text of `encScalableRecipe`
  json scaled   ( full META DATA RECIPE )   → canonical text of `encScaledRecipe`

  META := ( ( TEXT JV )* )
  JV   := null | true | false | ( i INT ) | ( f BITS ) | ( s TEXT ) | ( a JV* ) | ( o ( TEXT JV )* )
  DATA := none | ( some ( N* ) )                          (scalable: servings)
        | default | ( scaled BITS ( O* ) ( O* ) ( O* ) )  (scaled)      O := scaled | fixed | noQuantity | error

  Canonical JSON text: the document as serde_json writes it (same key order, no spaces), with every
  string and key spelled as a quoted list of code points, every f64 as `#<bit pattern>`; integers
  as they are.  The harness rewrites the real output into the same form.
-/
namespace Cook.Driver.SerdeH
open Cook Sexp Serde Proto

/-- the number codec of the driver: an `f64` is printed as `#` + its bit pattern -/
def bitsCodec : NumCodec Float :=
  { print := fun x => ('#' :: (toString x.toBits).toList),
    parse := fun s => match s with
      | '#' :: ds => (String.ofList ds).toNat?.map (fun n => Float.ofBits (UInt64.ofNat n))
      | _ => none }

def rTok : NumTok → String
  | .int i => toString i
  | .float s => String.ofList s

def rQuoted (s : Str) : String := "\"" ++ renderText s ++ "\""

mutual
def rJson : Json → String
  | .null => "null"
  | .bool true => "true"
  | .bool false => "false"
  | .num t => rTok t
  | .str s => rQuoted s
  | .arr xs => "[" ++ rArr xs ++ "]"
  | .obj kvs => "{" ++ rObj kvs ++ "}"
def rArr : List Json → String
  | [] => ""
  | [x] => rJson x
  | x :: rest => rJson x ++ "," ++ rArr rest
def rObj : List (Key × Json) → String
  | [] => ""
  | [(k, v)] => rQuoted k.str ++ ":" ++ rJson v
  | (k, v) :: rest => rQuoted k.str ++ ":" ++ rJson v ++ "," ++ rObj rest
end

mutual
def decJV : Sexp → Option Json
  | .atom "null" => some .null
  | .atom "true" => some (.bool true)
  | .atom "false" => some (.bool false)
  | .atom _ => none
  | .list xs => decJVList xs
/-- the forms `( i N )`, `( f B )`, `( s T )`, `( a … )`, `( o … )` -/
def decJVList : List Sexp → Option Json
  | [.atom "i", .atom n] => n.toInt?.map (fun i => .num (.int i))
  | [.atom "f", .atom b] => (parseBits? b).map (fun x => encF64 bitsCodec x)
  | [.atom "s", .atom t] => (parseText? t).map .str
  | .atom "a" :: rest => (decJVs rest).map .arr
  | [.atom "o", .list kvs] => (decKVs kvs).map .obj
  | _ => none
def decJVs : List Sexp → Option (List Json)
  | [] => some []
  | x :: rest => do
    let j ← decJV x
    let js ← decJVs rest
    return j :: js
def decKVs : List Sexp → Option (List (Key × Json))
  | [] => some []
  | .list [.atom k, v] :: rest => do
    let k ← parseText? k
    let j ← decJV v
    let js ← decKVs rest
    return (Key.other k, j) :: js
  | _ => none
end

def decMeta : Sexp → Option Serde.Metadata
  | .list kvs => (decKVs kvs).map (fun l => l.filterMap (fun p => match p.1 with | .other s => some (s, p.2) | _ => none))
  | _ => none

def decOutcomeAtom : Sexp → Option ScaleOutcome
  | .atom "scaled" => some .scaled
  | .atom "fixed" => some .fixed
  | .atom "noQuantity" => some .noQuantity
  | .atom "error" => some (.error .undefined)
  | _ => none

def decScaledData : Sexp → Option (Scaled Float)
  | .atom "default" => some .defaultScaling
  | .list [.atom "scaled", f, i, c, t] => do
    return .scaled (← bits? f) (← listOf? decOutcomeAtom i) (← listOf? decOutcomeAtom c) (← listOf? decOutcomeAtom t)
  | _ => none

end Cook.Driver.SerdeH

namespace Cook.Driver
open Cook Sexp Serde Proto SerdeH

def handleSerde : List String → Option String
  | "json" :: "scalable" :: rest => do
    let [.list [.atom "full", m, d, r]] ← parseAll rest | none
    let full : FullRecipe Float (ScalableValue Float) Servings :=
      { metadata := ← decMeta m, recipe := ← RecipeSexp.decScalableRecipe r, data := ← opt? (listOf? nat?) d }
    return rJson (encScalableRecipe bitsCodec full)
  | "json" :: "scaled" :: rest => do
    let [.list [.atom "full", m, d, r]] ← parseAll rest | none
    let full : FullRecipe Float (Value Float) (Scaled Float) :=
      { metadata := ← decMeta m, recipe := ← RecipeSexp.decScaledRecipe r, data := ← decScaledData d }
    return rJson (encScaledRecipe bitsCodec full)
  | _ => none

end Cook.Driver
