import CookModel.Driver.Syntax
import CookModel.Driver.StdMeta
import CookModel.Analysis.FrontMatter
import CookModel.Analysis.MetaValidator
/-
  Line-protocol handlers for documents WITH front matter, front matter interpreted
  (`Analysis/FrontMatter.lean`).

    recipe_fm   <ext> <conv> <fm> <validator> <text>    `CooklangParser::parse_with_options`
    metaonly_fm <ext> <conv> <fm> <validator> <text>    `CooklangParser::parse_metadata_with_options`

    <conv>       0 = empty converter, 1 = bundled converter (as for `recipe`)
    <fm>         what `serde_yaml::from_str::<Mapping>` made of the YAML slice:
                 `M{k=v;k=v;…}` the mapping in the `enc_yaml` encoding of Driver/StdMeta.lean, or
                 `E~` / `E<byte index>` a YAML error without / with a location, or
                 `-` for a document WITHOUT front matter (then the validator is called by the `>>` arm,
                 Analysis/MetaValidator.lean)
    <validator>  `-` (no `metadata_validator`) or the verdicts of the calls in call order, `,`-separated:
                 three characters `<o|w|e><include 0/1><run_std_checks 0/1>`

  Replies are the ones of `recipe` / `metaonly` with NOTHING filtered: the metadata mapping (keys and
  values in the `enc_yaml` encoding, mapping order), the servings stored for scaling, every diagnostic
  (severity, stage, kind, label spans) in report order.
-/
namespace Cook.Driver
open Cook Cook.SM Proto

partial def renderY : Y → String
  | .null => "n"
  | .bool => "b"
  | .tagged => "t"
  | .str s => "s:" ++ renderText s
  | .num n => "i:" ++ (match n.u64 with | some k => toString k | none => "~") ++ ":" ++ renderText n.text
  | .seq l => "[" ++ ";".intercalate (l.map renderY) ++ "]"
  | .map m => "{" ++ ";".intercalate (m.map (fun e => renderY e.1 ++ "=" ++ renderY e.2)) ++ "}"

def parseDecoded (s : String) : Option FM.Decoded :=
  match s.toList with
  | ['-'] => some (.err none)     -- no front matter: the decoder is never consulted
  | 'M' :: r =>
    match parseYaml r with
    | some (.map m) => some (.ok m)
    | _ => none
  | 'E' :: r =>
    if r = ['~'] then some (.err none) else (String.ofList r).toNat?.map (fun n => .err (some n))
  | _ => none

def parseVerdict (s : String) : Option FM.Verdict :=
  match s.toList with
  | [r, i, c] =>
    let res : Option FM.CheckRes := if r = 'o' then some .ok else if r = 'w' then some .warning
      else if r = 'e' then some .error else none
    res.map (fun res => ⟨res, i = '1', c = '1'⟩)
  | _ => none

def parseValidator (s : String) : Option (Option (Nat → Y → Y → FM.Verdict)) :=
  if s = "-" then some none else
  ((s.splitOn ",").mapM parseVerdict).map (fun l => some (fun i _ _ => l[i]?.getD {}))

def fmEnv (conv : Nat) (d : FM.Decoded) (v : Option (Nat → Y → Y → FM.Verdict)) : FM.Env Float :=
  ⟨fun _ => d, v, if conv == 0 then emptySM else bundledSM, uniAlpha⟩

def decodedHuge : FM.Decoded → Bool
  | .ok m => hugeExpY (.map m)
  | .err _ => false

def rMetaY (m : List (Y × Y)) : String :=
  "meta=[" ++ " ".intercalate (m.map (fun e => renderY e.1 ++ "=" ++ renderY e.2)) ++ "]"

def rServings (s : Option (List Nat)) : String := "servings=" ++ rOpt (fun l : List Nat => toString l) s

def rDiagsFull (ds : Array Diag) : String := "diags=[" ++ " ".intercalate (ds.toList.map rDiagFull) ++ "]"

/-- the whole result of `parse_with_options`, front matter interpreted -/
def rAnalysisFm (fe : FM.Env Float) (r : AnalysisResult Float) : String :=
  match r.panic with
  | some p => s!"PANIC {p}"
  | none =>
    match r.output with
    | none => s!"NOOUT {rDiagsFull (FM.fullDiags fe r)}"
    | some c => s!"OUT {rCol c false} {rMetaY (FM.fullMetadata fe c)} {rServings (FM.fullServings fe c)} {rDiagsFull (FM.fullDiags fe r)}"

/-- the whole result of `parse_metadata_with_options` (the servings are not part of `Metadata`) -/
def rMetaOnlyFm (fe : FM.Env Float) (r : AnalysisResult Float) : String :=
  match r.panic with
  | some p => s!"PANIC {p}"
  | none =>
    match r.output with
    | none => s!"NOOUT {rDiagsFull (FM.fullDiags fe r)}"
    | some c => s!"OUT {rMetaY (FM.fullMetadata fe c)} {rDiagsFull (FM.fullDiags fe r)}"

def handleFrontMatter : List String → Option String
  | ["recipe_fm", ext, conv, fm, val, txt] => do
    let ext ← parseNat? ext
    let conv ← parseNat? conv
    let d ← parseDecoded fm
    let v ← parseValidator val
    let s ← parseText? txt
    if decodedHuge d then return "huge-exponent"
    return rAnalysisFm (fmEnv conv d v) (MV.parseRecipeV (α := Float) (realEnv ext conv) v s)
  | ["metaonly_fm", ext, conv, fm, val, txt] => do
    let ext ← parseNat? ext
    let conv ← parseNat? conv
    let d ← parseDecoded fm
    let v ← parseValidator val
    let s ← parseText? txt
    if decodedHuge d then return "huge-exponent"
    return rMetaOnlyFm (fmEnv conv d v) (MV.parseMetadataV (α := Float) (realEnv ext conv) v s)
  | _ => none

end Cook.Driver
