import CookModel.Driver.Group
import CookModel.Num.IngListMore
/-
  gr fromrecipe <recipe>                      → the list of `IngredientList::from_recipe` (as `gr list`)
  gr outcome <index> <k> <ref>×k <o>*         → the folded outcome of a definition (`PANIC` = index out of range)
                                                 o := scaled | fixed | noQuantity | error
-/
namespace Cook.Driver
open Cook Proto

def parseOutcome? : String → Option ScaleOutcome
  | "scaled" => some .scaled
  | "fixed" => some .fixed
  | "noQuantity" => some .noQuantity
  | "error" => some .error
  | _ => none

def handleGroupMoreWith (c : Converter Float) : List String → Option String
  | "fromrecipe" :: rest => do
    let [r] ← parseRecipes? rest | none
    some (match fromRecipe (fun l => l) c r with
      | none => "PANIC"
      | some l => renderIngList l)
  | "outcome" :: index :: k :: rest => do
    let index ← parseNat? index; let k ← parseNat? k
    if rest.length < k then none else
    let refs ← (rest.take k).mapM parseNat?
    let outs ← (rest.drop k).mapM parseOutcome?
    some (match foldOutcome outs index refs with
      | none => "PANIC"
      | some o => o.name)
  | _ => none

def handleGroupMore : List String → Option String
  | "gr" :: rest => if bundledF.wf then handleGroupMoreWith bundledF rest else some "pre-violated"
  | _ => none

end Cook.Driver
