import CookModel.Lemmas.Text
import CookModel.Analysis.Collector
import CookModel.Lemmas.Blocks
/-
  C03  No input makes a public entry point panic, overflow or hang.

  In the model every `assert!/unwrap/expect/panic!/index` of the modelled code is a value (the
  `panic` flag of the parser and collector states) and every loop is structural recursion or runs
  on fuel whose exhaustion also sets the flag, so "no panic, no hang" is the statement
  `C03_statement`: the flag is never set.  Proved so far: text assembly never trips
  `append_fragment`'s assertion nor the offset assertion of `BlockParser::text` on any lexed run;
  every block the splitter hands to `BlockParser::new` is non-empty (its `assert!`) and does not end
  in a newline (the `debug_assert!` of `parse_multiline_block`); the splitter always makes progress
  (termination of `next_block`).  The rest of `C03_statement` is decided per run: the model's flag
  is compared with "did the real code panic" on every generated input, and every public entry
  point and consumer is run under `catch_unwind` with a watchdog.
-/
namespace Cook

def C03_statement : Prop :=
  ∀ (env : Env) (input : Str), (parseRecipe (α := Rat) env input).panic = none ∧
    (parseMetadata (α := Rat) env input).panic = none

/-- `BlockParser::text` on any run of lexed tokens: no assertion fires -/
theorem C03_text_no_panic (cs : CharSpec) (off : Nat) (s : List Char) :
    (buildText off (lexFrom cs off s)).bad = false :=
  (buildText_faithful off _ (lexFrom_chain cs off s) (lexFrom_escapedOK cs off s)).1

theorem dropWhile_head_not {β} (p : β → Bool) (l : List β) (x : β)
    (h : (l.dropWhile p).head? = some x) : p x = false := by
  induction l with
  | nil => simp at h
  | cons a t ih =>
    rw [List.dropWhile_cons] at h
    split at h
    · exact ih h
    · rename_i hp
      simp only [List.head?_cons, Option.some.injEq] at h
      subst h; simpa using hp

theorem nextBlock_spec (ts b rest : List Tok) (h : nextBlock ts = some (b, rest)) :
    ∃ l, b = trimTrailingNewlines l ∧ b.isEmpty = false := by
  unfold nextBlock at h
  cases hs : skipEmptyLines (ts.length + 1) ts with
  | none => simp [hs] at h
  | some p =>
    obtain ⟨li, r⟩ := p
    simp only [hs] at h
    generalize (if li.isSingleLine = true then (([] : List Tok), r) else moreLines (r.length + 1) r) = m at h
    by_cases he : (trimTrailingNewlines (li.toks ++ m.1)).isEmpty
    · simp [he] at h
    · simp only [he, Bool.false_eq_true, if_false, Option.some.injEq, Prod.mk.injEq] at h
      exact ⟨_, h.1.symm, by rw [← h.1]; simpa using he⟩

/-- every block handed to `BlockParser::new` is non-empty -/
theorem C03_blocks_nonempty (ts b rest : List Tok) (h : nextBlock ts = some (b, rest)) : b ≠ [] := by
  obtain ⟨_, _, hne⟩ := nextBlock_spec ts b rest h
  intro h0; simp [h0] at hne

/-- … and never ends with a newline token -/
theorem C03_blocks_no_trailing_newline (ts b rest : List Tok) (h : nextBlock ts = some (b, rest)) :
    ∀ t, b.getLast? = some t → t.kind ≠ .newline := by
  obtain ⟨l, hb, _⟩ := nextBlock_spec ts b rest h
  intro t ht hk
  rw [hb] at ht
  unfold trimTrailingNewlines at ht
  rw [List.getLast?_reverse] at ht
  have := dropWhile_head_not _ _ _ ht
  simp [hk] at this

/-- `pull_line` always consumes at least one token: the block splitter terminates -/
theorem C03_pull_line_progress (ts : List Tok) (li : LineInfo) (rest : List Tok)
    (h : pullLine ts = some (li, rest)) : rest.length < ts.length := pullLine_shorter ts li rest h

/-! ### the fuel of the block splitter never runs out

  The three loops of `next_block` are modelled with fuel.  `C03_*_fuel_suffices`: any fuel at least
  the length of the remaining stream gives the same result as the fuel the model uses (so the result
  is the fuel-free limit); `C03_splitter_terminates`: with the fuel the model uses, each loop
  satisfies its fuel-free recursion equation, i.e. a loop only ever stops for the reason the Rust
  loop stops (end of stream / non-empty line / marker / empty line), never because fuel ran out. -/

theorem C03_skip_fuel_suffices (ts : List Tok) (f : Nat) (h : ts.length ≤ f) :
    skipEmptyLines f ts = skipEmptyLines (ts.length + 1) ts :=
  blocks_skip_fuel f (ts.length + 1) ts h (by omega)

theorem C03_more_fuel_suffices (ts : List Tok) (f : Nat) (h : ts.length ≤ f) :
    moreLines f ts = moreLines (ts.length + 1) ts :=
  blocks_more_fuel f (ts.length + 1) ts h (by omega)

/-- the list of blocks does not depend on the fuel once it is at least the stream length -/
theorem C03_blocks_fuel_suffices (ts : List Tok) (f : Nat) (h : ts.length ≤ f) :
    allBlocks f ts = allBlocks (ts.length + 1) ts :=
  blocks_all_fuel f (ts.length + 1) ts h (by omega)

/-- The splitter terminates for the right reason.  With the fuel used by `nextBlock`/`pullEvents`:
    the block list is `next_block` iterated until it returns `None`; `None` is returned exactly when
    only blank tokens are left (the stream is exhausted of blocks); every step strictly shortens the
    stream; and the two inner loops obey their fuel-free recursion. -/
theorem C03_splitter_terminates (ts : List Tok) :
    (allBlocks (ts.length + 1) ts = match nextBlock ts with
      | none => []
      | some (b, rest) => b :: allBlocks (rest.length + 1) rest) ∧
    (nextBlock ts = none ↔ ∀ t ∈ ts, isEmptyTok t.kind = true) ∧
    (∀ b rest, nextBlock ts = some (b, rest) → rest.length < ts.length) ∧
    (skipEmptyLines (ts.length + 1) ts = match pullLine ts with
      | none => none
      | some (li, rest) => if li.isEmpty then skipEmptyLines (rest.length + 1) rest else some (li, rest)) ∧
    (moreLines (ts.length + 1) ts =
      if isSingleLineMarker ts.head? then ([], ts) else
      match pullLine ts with
      | none => ([], ts)
      | some (li, rest) =>
        if li.isEmpty then ([], rest) else
        (li.toks ++ (moreLines (rest.length + 1) rest).1, (moreLines (rest.length + 1) rest).2)) :=
  ⟨blocks_all_unfold ts, blocks_next_none ts,
   fun b rest h => (blocks_next_some ts b rest h).choose_spec.choose_spec.2.2.2.2,
   blocks_skip_unfold ts, blocks_more_unfold ts⟩

/-- the metadata-only scanner (`next_metadata_block` iterated): its fuel never runs out either, and
    with the fuel `pullMetaEvents` uses it obeys the fuel-free recursion (seek the next `>>` at a
    line start, take the line, continue after its newline) -/
theorem C03_meta_scanner_terminates (ts : List Tok) (last : TK) :
    (∀ f, ts.length ≤ f → metaBlocks f last ts = metaBlocks (ts.length + 1) last ts) ∧
    (metaBlocks (ts.length + 1) last ts = match seekMeta last ts with
      | none => []
      | some ts' => lineBody ts' :: metaBlocks ((afterLine ts').length + 1) .newline (afterLine ts')) := by
  refine ⟨fun f h => blocks_meta_fuel f (ts.length + 1) last ts h (by omega), ?_⟩
  rw [blocks_meta_succ]
  cases hs : seekMeta last ts with
  | none => rfl
  | some ts' =>
    obtain ⟨t, r, e, _, hl⟩ := blocks_seek_some last ts ts' hs
    have := blocks_afterLine_length t r
    rw [← e] at this
    simp only
    rw [blocks_meta_fuel ts.length ((afterLine ts').length + 1) .newline _ (by omega) (by omega)]

/-- every block handed to `BlockParser::new` by the metadata-only scanner is non-empty -/
theorem C03_meta_blocks_nonempty (f : Nat) (last : TK) (ts : List Tok) :
    ∀ b ∈ metaBlocks f last ts, b ≠ [] := by
  induction f generalizing last ts with
  | zero => intro b hb; simp [metaBlocks] at hb
  | succ n ih =>
    intro b hb
    rw [blocks_meta_succ] at hb
    cases hs : seekMeta last ts with
    | none => rw [hs] at hb; simp at hb
    | some ts' =>
      rw [hs] at hb
      obtain ⟨t, r, e, hk, _⟩ := blocks_seek_some last ts ts' hs
      simp only [List.mem_cons] at hb
      rcases hb with rfl | hb
      · rw [e]; simp [lineBody, hk]
      · exact ih _ _ b hb

/-- the emptiness test on the trimmed block in `next_block` (`return None`) is dead code: a block
    that starts with a non-empty line is never empty after trimming -/
theorem C03_trimmed_block_never_empty (ts : List Tok) :
    nextBlock ts = match skipEmptyLines (ts.length + 1) ts with
      | none => none
      | some (li, rest) =>
        some (trimTrailingNewlines (li.toks ++ (blockMore li rest).1), (blockMore li rest).2) :=
  blocks_next_eq ts

/-- Every block handed to `BlockParser::new` is a non-empty contiguous slice of the token stream.
    Hence, if the stream's spans are adjacent from `off` (they are: `C04_tokens_contiguous`), the
    block's spans are adjacent starting at its first token (`debug_assert_adjacent!`), and all its
    spans lie inside `[off, off + len]` (`tokens out of input bounds`). Holds for any fuel. -/
theorem C03_blocks_adjacent (off : Nat) (ts : List Tok) (h : Chain off ts) (f : Nat) :
    ∀ b ∈ allBlocks f ts,
      (∃ pre post, ts = pre ++ b ++ post) ∧
      (∃ t r, b = t :: r ∧ Chain t.start b) ∧
      (∀ u ∈ b, off ≤ u.start ∧ u.stop ≤ off + utf8Len (ts.flatMap (·.text))) := by
  intro b hb
  obtain ⟨hne, pre, post, e⟩ := blocks_all_infix f ts b hb
  refine ⟨⟨pre, post, by rw [e]; simp⟩, ?_, ?_⟩
  · cases b with
    | nil => exact absurd rfl hne
    | cons t r =>
      refine ⟨t, r, rfl, ?_⟩
      rw [e] at h
      exact blocks_chain_head _ t r (blocks_chain_infix off pre (t :: r) post h)
  · intro u hu
    exact blocks_chain_bounds off ts h u (by rw [e]; simp [hu])

/-! non-vacuity of the adjacency hypothesis: a two-line stream with adjacent spans -/
example : Chain 3 [⟨.word, ['a'], 3⟩, ⟨.newline, ['\n'], 4⟩, ⟨.word, ['é'], 5⟩] := ⟨rfl, rfl, rfl, trivial⟩

/-- instance for the stream `PullParser` splits: the first token of every block starts strictly
    before the end of the input and the last one ends inside it (the two `debug_assert!`s of
    `BlockParser::new`, with `off` the front-matter offset) -/
theorem C03_blocks_in_bounds (cs : CharSpec) (off : Nat) (s : List Char) :
    ∀ b ∈ allBlocks ((lexFrom cs off s).length + 1) (lexFrom cs off s),
      ∀ u ∈ b, u.start < off + utf8Len s ∧ u.stop ≤ off + utf8Len s := by
  intro b hb u hu
  have h := (C03_blocks_adjacent off _ (lexFrom_chain cs off s) _ b hb).2.2 u hu
  rw [lexFrom_tile] at h
  obtain ⟨_, pre, post, e⟩ := blocks_all_infix _ _ b hb
  have hmem : u ∈ lexFrom cs off s := by rw [e]; simp [hu]
  have hpos := utf8Len_pos (lexFrom_nonempty cs off s u hmem)
  simp only [Tok.stop] at h ⊢
  omega

end Cook
