import CookModel.Lemmas.Text
import CookModel.Analysis.Collector
/-
  C03  No input makes a public entry point panic, overflow or hang.

  In the model every `assert!/unwrap/expect/panic!/index` of the modelled code is a value (the
  `panic` flag of the parser and collector states) and every loop is structural recursion or runs
  on fuel whose exhaustion also sets the flag, so "no panic, no hang" is the statement
  `C03_statement`: the flag is never set.  Proved so far: text assembly never trips
  `append_fragment`'s assertion nor the offset assertion of `BlockParser::text` on any lexed run;
  every block the splitter hands to `BlockParser::new` is non-empty (its `assert!`) and does not end
  in a newline (the `debug_assert!` of `parse_multiline_block`); the splitter always makes progress
  (termination of `next_block`).  The rest of `C03_statement` is decided per run: the model's flag
  is compared with "did the real code panic" on every generated input, and every public entry
  point and consumer is run under `catch_unwind` with a watchdog.
-/
namespace Cook

def C03_statement : Prop :=
  ∀ (env : Env) (input : Str), (parseRecipe (α := Rat) env input).panic = none ∧
    (parseMetadata (α := Rat) env input).panic = none

/-- `BlockParser::text` on any run of lexed tokens: no assertion fires -/
theorem C03_text_no_panic (cs : CharSpec) (off : Nat) (s : List Char) :
    (buildText off (lexFrom cs off s)).bad = false :=
  (buildText_faithful off _ (lexFrom_chain cs off s) (lexFrom_escapedOK cs off s)).1

theorem dropWhile_head_not {β} (p : β → Bool) (l : List β) (x : β)
    (h : (l.dropWhile p).head? = some x) : p x = false := by
  induction l with
  | nil => simp at h
  | cons a t ih =>
    rw [List.dropWhile_cons] at h
    split at h
    · exact ih h
    · rename_i hp
      simp only [List.head?_cons, Option.some.injEq] at h
      subst h; simpa using hp

theorem nextBlock_spec (ts b rest : List Tok) (h : nextBlock ts = some (b, rest)) :
    ∃ l, b = trimTrailingNewlines l ∧ b.isEmpty = false := by
  unfold nextBlock at h
  cases hs : skipEmptyLines (ts.length + 1) ts with
  | none => simp [hs] at h
  | some p =>
    obtain ⟨li, r⟩ := p
    simp only [hs] at h
    generalize (if li.isSingleLine = true then (([] : List Tok), r) else moreLines (r.length + 1) r) = m at h
    by_cases he : (trimTrailingNewlines (li.toks ++ m.1)).isEmpty
    · simp [he] at h
    · simp only [he, Bool.false_eq_true, if_false, Option.some.injEq, Prod.mk.injEq] at h
      exact ⟨_, h.1.symm, by rw [← h.1]; simpa using he⟩

/-- every block handed to `BlockParser::new` is non-empty -/
theorem C03_blocks_nonempty (ts b rest : List Tok) (h : nextBlock ts = some (b, rest)) : b ≠ [] := by
  obtain ⟨_, _, hne⟩ := nextBlock_spec ts b rest h
  intro h0; simp [h0] at hne

/-- … and never ends with a newline token -/
theorem C03_blocks_no_trailing_newline (ts b rest : List Tok) (h : nextBlock ts = some (b, rest)) :
    ∀ t, b.getLast? = some t → t.kind ≠ .newline := by
  obtain ⟨l, hb, _⟩ := nextBlock_spec ts b rest h
  intro t ht hk
  rw [hb] at ht
  unfold trimTrailingNewlines at ht
  rw [List.getLast?_reverse] at ht
  have := dropWhile_head_not _ _ _ ht
  simp [hk] at this

/-- `pull_line` always consumes at least one token: the block splitter terminates -/
theorem C03_pull_line_progress (ts : List Tok) (li : LineInfo) (rest : List Tok)
    (h : pullLine ts = some (li, rest)) : rest.length < ts.length := pullLine_shorter ts li rest h

end Cook
