import CookModel.Lemmas.Text
import CookModel.Analysis.Collector
import CookModel.Lemmas.ParserBlocks
import CookModel.Lemmas.Blocks
import CookModel.Lemmas.ClosingFold
import CookModel.Lemmas.ClosingStream
import CookModel.Lemmas.CloseC03
import CookModel.Lemmas.AstBuild
import CookModel.Lemmas.ConsumersNoPanic
import CookModel.Lemmas.InlineScan
import CookModel.Lemmas.FinderSpec
import CookModel.Props.C09
import CookModel.Props.C04
import CookModel.Lemmas.TableFacts
import CookModel.Lemmas.RecipeKeepComp
import CookModel.Gen.DiagSites
/-
  C03  No input makes a public entry point panic, overflow or hang.

  In the model every `assert!/unwrap/expect/panic!/index` of the modelled code is a value (the
  `panic` flag of the parser and collector states) and every loop is structural recursion or runs
  on fuel whose exhaustion also sets the flag, so "no panic, no hang" is the statement
  `C03_statement`: the flag is never set.  Proved so far: text assembly never trips
  `append_fragment`'s assertion nor the offset assertion of `BlockParser::text` on any lexed run;
  every block the splitter hands to `BlockParser::new` is non-empty (its `assert!`) and does not end
  in a newline (the `debug_assert!` of `parse_multiline_block`); the splitter always makes progress
  (termination of `next_block`).  UPDATE: the block parsers (`C03_parse_events_no_panic`), the
  analysis pass on parser-like event streams (`C03_analysis_no_panic`), `parse_metadata`
  (`C03_parse_metadata_no_panic`) and `parse` up to one hypothesis on spans (`C03_holds_partial`) are
  proved below.  The rest of `C03_statement` is decided per run: the model's flag
  is compared with "did the real code panic" on every generated input, and every public entry
  point and consumer is run under `catch_unwind` with a watchdog.
-/
namespace Cook

def C03_statement : Prop :=
  ∀ (env : Env) (input : Str), (parseRecipe (α := Rat) env input).panic = none ∧
    (parseMetadata (α := Rat) env input).panic = none

/-- `BlockParser::text` on any run of lexed tokens: no assertion fires -/
theorem C03_text_no_panic (cs : CharSpec) (off : Nat) (s : List Char) :
    (buildText off (lexFrom cs off s)).bad = false :=
  (buildText_faithful off _ (lexFrom_chain cs off s) (lexFrom_escapedOK cs off s)).1

theorem dropWhile_head_not {β} (p : β → Bool) (l : List β) (x : β)
    (h : (l.dropWhile p).head? = some x) : p x = false := by
  induction l with
  | nil => simp at h
  | cons a t ih =>
    rw [List.dropWhile_cons] at h
    split at h
    · exact ih h
    · rename_i hp
      simp only [List.head?_cons, Option.some.injEq] at h
      subst h; simpa using hp

theorem nextBlock_spec (ts b rest : List Tok) (h : nextBlock ts = some (b, rest)) :
    ∃ l, b = trimTrailingNewlines l ∧ b.isEmpty = false := by
  unfold nextBlock at h
  cases hs : skipEmptyLines (ts.length + 1) ts with
  | none => simp [hs] at h
  | some p =>
    obtain ⟨li, r⟩ := p
    simp only [hs] at h
    generalize (if li.isSingleLine = true then (([] : List Tok), r) else moreLines (r.length + 1) r) = m at h
    by_cases he : (trimTrailingNewlines (li.toks ++ m.1)).isEmpty
    · simp [he] at h
    · simp only [he, Bool.false_eq_true, if_false, Option.some.injEq, Prod.mk.injEq] at h
      exact ⟨_, h.1.symm, by rw [← h.1]; simpa using he⟩

/-- every block handed to `BlockParser::new` is non-empty -/
theorem C03_blocks_nonempty (ts b rest : List Tok) (h : nextBlock ts = some (b, rest)) : b ≠ [] := by
  obtain ⟨_, _, hne⟩ := nextBlock_spec ts b rest h
  intro h0; simp [h0] at hne

/-- … and never ends with a newline token -/
theorem C03_blocks_no_trailing_newline (ts b rest : List Tok) (h : nextBlock ts = some (b, rest)) :
    ∀ t, b.getLast? = some t → t.kind ≠ .newline := by
  obtain ⟨l, hb, _⟩ := nextBlock_spec ts b rest h
  intro t ht hk
  rw [hb] at ht
  unfold trimTrailingNewlines at ht
  rw [List.getLast?_reverse] at ht
  have := dropWhile_head_not _ _ _ ht
  simp [hk] at this

/-- `pull_line` always consumes at least one token: the block splitter terminates -/
theorem C03_pull_line_progress (ts : List Tok) (li : LineInfo) (rest : List Tok)
    (h : pullLine ts = some (li, rest)) : rest.length < ts.length := pullLine_shorter ts li rest h

/-! ### The block parsers: no modelled panic site is reachable

  `BP.panic` is set by every `assert!/expect/unwrap/panic!` of src/parser/{block_parser,step,
  quantity,section,metadata,text_block}.rs and by fuel exhaustion of the two `while` loops.  The
  theorems below say it stays `none`; they are proved in `Lemmas/ParserWp.lean` (one Hoare-style
  lemma per `BlockParser` primitive) and `Lemmas/ParserNoPanic.lean` (the parsers).  A "good"
  parser state: no panic so far, cursor inside the token list, the tokens are a non-empty run of
  adjacent lexer tokens. -/

section blockParser
variable {α : Type} [Arith α]

/-- The `until(k)` … `bump(k)` idiom (closing brace, closing parenthesis, colon): whenever
    `until` finds a token, the cursor is left AT it, so the `assert_eq!` of `bump` cannot fire;
    and `bump_any` right after a successful `peek` cannot hit `expect("Expected token")`. -/
theorem C03_primitives_safe (s : BP α) (hp : s.panic = none) (hc : s.cur ≤ s.toks.length) (k : TK) :
    ((do match ← untilK (fun x => x == k) with
         | none => pure ()
         | some _ => let _ ← bump k) s).2.panic = none ∧
    ((do match ← peekK with
         | none => pure ()
         | some _ => let _ ← bumpAny) s).2.panic = none := by
  have g : G s.toks s.ext s := ⟨rfl, rfl, hp, hc⟩
  constructor
  · show Sat _ s (fun _ s' => s'.panic = none)
    refine Sat.bind (Sat.mono (untilK_sat _ g) ?_)
    rintro r s1 ⟨g1, h1⟩
    cases r with
    | none => exact Sat.pure g1.panic
    | some pre =>
      obtain ⟨-, -, ⟨t, ht, hk⟩, -⟩ := h1
      refine Sat.bind (Sat.mono (bump_sat g1 ht (by simpa using hk)) ?_)
      rintro _ s2 ⟨-, g2, -⟩
      exact Sat.pure g2.panic
  · show Sat _ s (fun _ s' => s'.panic = none)
    refine Sat.bind (peekK_sat g ?_)
    split
    · exact Sat.pure hp
    · rename_i k' hk
      obtain ⟨t, ht, -⟩ := peek_some hk
      refine Sat.bind (Sat.mono (bumpAny_sat g ht) ?_)
      rintro _ s2 ⟨-, g2, -⟩
      exact Sat.pure g2.panic

/-- `BlockParser::text(offset, tokens)` called with any contiguous sub-slice `tokens[i..j]` of
    the block and the `current_offset()` of its left end: neither the offset assertion nor the
    ordering assertion of `append_fragment` fires. -/
theorem C03_text_on_slices_no_panic (s : BP α) (hp : s.panic = none) (off : Nat)
    (hch : Chain off s.toks) (he : EscapedOK s.toks) (i j : Nat) (hij : i ≤ j) :
    (bpText (offAt s.toks i) (slice s.toks i j) s).2.panic = none := by
  have hr : RunAt (baseOff s.toks) s.toks := (show RunAt off s.toks from ⟨hch, he⟩).base
  exact bpText_sat (Q := fun _ s' => s'.panic = none) (slice_runAt hr hij) hp

/-- `parse_quantity` on a non-empty run of adjacent tokens (what `comp_body` passes): no
    `tokens_span` on an empty slice, no `rposition(..).unwrap()`, no text assertion; the outer
    parser gets its tokens and cursor back. -/
theorem C03_quantity_no_panic (s : BP α) (hp : s.panic = none) (hc : s.cur ≤ s.toks.length)
    (q : List Tok) (off : Nat) (hq : Chain off q) (he : EscapedOK q) (hne : q ≠ []) :
    (parseQuantity q s).2.panic = none ∧ (parseQuantity q s).2.cur = s.cur ∧
      (parseQuantity q s).2.toks = s.toks := by
  have g : G s.toks s.ext s := ⟨rfl, rfl, hp, hc⟩
  obtain ⟨g1, c1⟩ := parseQuantity_sat (WF.of_chain hq he hne) g
  exact ⟨g1.panic, c1, g1.toks⟩

/-- the three component parsers (`ingredient`, `cookware`, `timer`), from any good state: no
    panic (in particular: the closing parenthesis of an intermediate reference is always found,
    the modifier tokens are always a valid sequence, a cookware with the recipe flag always has
    its `@` token), and a parsed component has consumed at least its marker. -/
theorem C03_component_no_panic (s : BP α) (hp : s.panic = none) (hc : s.cur ≤ s.toks.length)
    (off : Nat) (hch : Chain off s.toks) (he : EscapedOK s.toks) (hne : s.toks ≠ []) :
    ∀ p ∈ [ingredientP (α := α), cookwareP, timerP],
      (p s).2.panic = none ∧ ((p s).1.isSome = true → s.cur < (p s).2.cur) := by
  have g : G s.toks s.ext s := ⟨rfl, rfl, hp, hc⟩
  have hw := WF.of_chain hch he hne
  intro p hpm
  simp only [List.mem_cons, List.mem_nil_iff, or_false] at hpm
  rcases hpm with rfl | rfl | rfl
  · obtain ⟨g1, h1⟩ := ingredientP_sat hw g; exact ⟨g1.panic, h1⟩
  · obtain ⟨g1, h1⟩ := cookwareP_sat hw g; exact ⟨g1.panic, h1⟩
  · obtain ⟨g1, h1⟩ := timerP_sat hw g; exact ⟨g1.panic, h1⟩

/-- `parse_step` and `parse_text_block`: the `while !self.rest().is_empty()` loops terminate
    (every iteration consumes at least one token, so fuel = number of remaining tokens is never
    exhausted), do not panic, and consume the whole block. -/
theorem C03_step_no_panic (s : BP α) (hp : s.panic = none) (hc : s.cur ≤ s.toks.length)
    (off : Nat) (hch : Chain off s.toks) (he : EscapedOK s.toks) (hne : s.toks ≠ []) :
    ((parseStep s).2.panic = none ∧ (parseStep s).2.cur = s.toks.length) ∧
    ((parseTextBlock s).2.panic = none ∧ (parseTextBlock s).2.cur = s.toks.length) := by
  have g : G s.toks s.ext s := ⟨rfl, rfl, hp, hc⟩
  have hw := WF.of_chain hch he hne
  obtain ⟨g1, c1⟩ := parseStep_sat hw g
  obtain ⟨g2, c2⟩ := parseTextBlock_sat hw g
  exact ⟨⟨g1.panic, c1⟩, ⟨g2.panic, c2⟩⟩

/-- **C03, block parser.**  For every `CharSpec`, extension set and `oldStyle` flag, running
    `BlockParser::new` + `parse_block` + `finish` on any non-empty block of adjacent lexer tokens
    reaches no panic site: no `bump` of a wrong kind, no `bump_any` at the end, no `text` offset
    assertion, no "Block tokens not parsed", no loop runs out of fuel, no "No closing paren…"
    `expect`, no `tokens_span` of an empty slice, no "parse_quantity: empty tokens".
    (The hypothesis on the last token is the `debug_assert!` of `parse_multiline_block`, which the
    splitter guarantees; the model needs none of it.) -/
theorem C03_block_no_panic (cs : CharSpec) (ext : Ext) (oldStyle : Bool) (off : Nat) (b : List Tok)
    (evs : Array (Ev α)) (hch : Chain off b) (he : EscapedOK b) (hne : b ≠ [])
    (_hlast : ∀ t, b.getLast? = some t → t.kind ≠ .newline) :
    (runBlock cs ext oldStyle b evs none).2 = none :=
  runBlock_no_panic cs ext oldStyle b evs (WF.of_chain hch he hne)

/-- every block of `allBlocks` is non-empty (from `C03_blocks_nonempty`) -/
theorem C03_all_blocks_nonempty (fuel : Nat) (ts : List Tok) : ∀ b ∈ allBlocks fuel ts, b ≠ [] := by
  induction fuel generalizing ts with
  | zero => simp [allBlocks]
  | succ fuel ih =>
    unfold allBlocks
    split
    · simp
    · rename_i b rest hn
      intro b' hb'
      simp only [List.mem_cons] at hb'
      rcases hb' with rfl | hb'
      · exact C03_blocks_nonempty ts b' rest hn
      · exact ih rest b' hb'

/-- **C03, `PullParser` run to completion (parser part of `C03_statement`).**  Given that the
    splitter hands out blocks of ADJACENT tokens (`hadj`; each block is a contiguous piece of the
    token stream — proved separately by the splitter lemmas), no input makes the pull parser reach
    a panic site.  Everything else is proved here: blocks are non-empty, consist of lexer tokens
    (so escaped tokens start with a backslash), and the block parser never panics on them.
    Missing for the full clause: the adjacency hypothesis, and the analysis pass / `parseMetadata`
    half of `C03_statement`. -/
theorem C03_parse_events_no_panic_partial (cs : CharSpec) (ext : Ext) (input : List Char)
    (hadj : ∀ (off : Nat) (s : List Char), ∀ b ∈ allBlocks ((lexFrom cs off s).length + 1) (lexFrom cs off s),
      ∃ o, Chain o b) :
    (pullEvents (α := α) cs ext input).2 = none := by
  have hwf : ∀ (off : Nat) (s : List Char),
      ∀ b ∈ allBlocks ((lexFrom cs off s).length + 1) (lexFrom cs off s), WF b := by
    intro off s b hb
    obtain ⟨o, ho⟩ := hadj off s b hb
    exact WF.of_chain ho ((lexFrom_escapedOK cs off s).of_mem (allBlocks_mem _ _ b hb))
      (C03_all_blocks_nonempty _ _ b hb)
  unfold pullEvents
  split
  rename_i toks evs0 oldStyle heq
  apply foldl_runBlock_no_panic
  split at heq
  · rename_i fm _
    simp only [Prod.mk.injEq] at heq
    rw [← heq.1]; exact hwf _ _
  · simp only [Prod.mk.injEq] at heq
    rw [← heq.1]; exact hwf 0 _

/-- the metadata-only scanner (`next_metadata_block`): `BlockParser::new` + `metadata_entry` +
    `finish` on a `>>` line never panics (in particular `finish` is only called after
    `consume_rest`) -/
theorem C03_meta_block_no_panic (cs : CharSpec) (ext : Ext) (off : Nat) (b : List Tok)
    (evs : Array (Ev α)) (hch : Chain off b) (he : EscapedOK b) (hne : b ≠ []) :
    (runMetaBlock cs ext b evs none).2 = none :=
  runMetaBlock_no_panic cs ext b evs (WF.of_chain hch he hne)

/-- **C03, metadata-only pull parser (`into_meta_iter`), complete:** for EVERY input, `CharSpec`
    and extension set no panic site of the scanner or of the block parser is reached (the `>>`
    lines the scanner cuts out are proved to be non-empty runs of adjacent tokens). -/
theorem C03_parse_meta_events_no_panic (cs : CharSpec) (ext : Ext) (input : List Char) :
    (pullMetaEvents (α := α) cs ext input).2 = none := pullMetaEvents_no_panic cs ext input

/-- hence the panic flag of `parse_metadata` can only come from the analysis pass: the second
    half of `C03_statement` is reduced to "`parseEvents` does not panic" -/
theorem C03_parse_metadata_panic_only_from_analysis (env : Env) (input : Str) :
    (parseMetadata (α := α) env input).panic =
      (parseEvents (α := α) env input (pullMetaEvents (α := α) env.cs env.ext input).1.toList).panic := by
  unfold parseMetadata
  simp only [pullMetaEvents_no_panic]

/-- the same reduction for `parse` (first half of `C03_statement`), given block adjacency -/
theorem C03_parse_recipe_panic_only_from_analysis_partial (env : Env) (input : Str)
    (hadj : ∀ (off : Nat) (s : List Char),
      ∀ b ∈ allBlocks ((lexFrom env.cs off s).length + 1) (lexFrom env.cs off s), ∃ o, Chain o b) :
    (parseRecipe (α := α) env input).panic =
      (parseEvents (α := α) env input (pullEvents (α := α) env.cs env.ext input).1.toList).panic := by
  unfold parseRecipe
  simp only [C03_parse_events_no_panic_partial env.cs env.ext input hadj]

/-- the splitter hands out ADJACENT tokens: every block of a lexed token stream is a contiguous
    piece of it (empty lines and trailing newlines are dropped between blocks, never inside) -/
theorem C03_blocks_adjacent (cs : CharSpec) (off : Nat) (s : List Char) (fuel : Nat) :
    ∀ b ∈ allBlocks fuel (lexFrom cs off s), ∃ o, Chain o b := by
  intro b hb
  obtain ⟨o, ho⟩ := allBlocks_runAt fuel _ off ⟨lexFrom_chain cs off s, lexFrom_escapedOK cs off s⟩ b hb
  exact ⟨o, ho.1⟩

/-- **C03, `PullParser` run to completion, complete:** for EVERY input, `CharSpec` and extension
    set, with or without front matter, the block splitter plus the block parsers reach no panic
    site and no loop runs out of fuel. -/
theorem C03_parse_events_no_panic (cs : CharSpec) (ext : Ext) (input : List Char) :
    (pullEvents (α := α) cs ext input).2 = none :=
  C03_parse_events_no_panic_partial cs ext input (fun off s => C03_blocks_adjacent cs off s _)

/-- the panic flag of `parse` can only come from the analysis pass -/
theorem C03_parse_recipe_panic_only_from_analysis (env : Env) (input : Str) :
    (parseRecipe (α := α) env input).panic =
      (parseEvents (α := α) env input (pullEvents (α := α) env.cs env.ext input).1.toList).panic :=
  C03_parse_recipe_panic_only_from_analysis_partial env input (fun off s => C03_blocks_adjacent env.cs off s _)

end blockParser

/-- `C03_statement` is reduced to the analysis pass (`parseEvents`, the `RecipeCollector`) not
    panicking on the event streams the pull parsers produce; the whole parser half is proved. -/
theorem C03_statement_iff_analysis_no_panic :
    C03_statement ↔ ∀ (env : Env) (input : Str),
      (parseEvents (α := Rat) env input (pullEvents (α := Rat) env.cs env.ext input).1.toList).panic = none ∧
      (parseEvents (α := Rat) env input (pullMetaEvents (α := Rat) env.cs env.ext input).1.toList).panic = none := by
  unfold C03_statement
  constructor
  · intro h env input
    have := h env input
    rwa [C03_parse_recipe_panic_only_from_analysis, C03_parse_metadata_panic_only_from_analysis] at this
  · intro h env input
    rw [C03_parse_recipe_panic_only_from_analysis, C03_parse_metadata_panic_only_from_analysis]
    exact h env input

/-! ### The analysis pass: no `apanic` site is reachable on parser-like event streams

  `Lemmas/ClosingPanic.lean` (one lemma per function of `Analysis/Collector.lean`: under which facts of
  the collector state its panic sites are unreachable) and `Lemmas/ClosingFold.lean` (the invariant
  of the fold and the theorem below). -/

/-- **C03, analysis pass.**  `RecipeCollector::parse_events` reaches none of its panic sites on any
    event list that
    * is `WellBracketed`: content events only between `Start k` and the `End k` that closes it, no
      nested `Start`, in a text block only text events, `>>` metadata (which can switch the define
      mode) only between blocks — sites "Content outside block", "End event without Start", the two
      `End` kind assertions, "Non text event in text block outside define mode text";
    * consists of `EvOK'` events: intermediate data only with the REF modifier and with a
      non-negative value, timers with a name or a quantity — sites "intermediate data without REF",
      "resolve_intermediate_ref: negative value";
    * has component spans on character boundaries of the input (`SpansOK`, the obligation of C04) —
      site "text mode: slice not on a char boundary".
    The remaining sites are unreachable whatever the events: reference targets and back-links are in
    range and are definitions (collector invariant `Inv` plus the lock-step of `locations` and the
    tables), `time_override_check` finds the key it just inserted, a one-character key is not `[…]`. -/
theorem C03_analysis_no_panic {α : Type} [Arith α] (env : Env) (input : Str) (evs : List (Ev α))
    (hev : ∀ ev ∈ evs, EvOK' ev) (hw : WellBracketed evs) (hsp : SpansOK input evs) :
    (parseEvents env input evs).panic = none := parseEvents_no_panic env input evs hev hw hsp

/-- the events of the pull parser satisfy the first two hypotheses of `C03_analysis_no_panic`, for every
    input, `CharSpec` and extension set: every event is `EvOK'` (`parse_modifiers` sets intermediate
    data only at `&`, together with REF, to a parsed natural number; `timer` recovers a quantity) and
    the stream is `WellBracketed` (`parse_step`/`parse_text_block` push `Start`, content, `End`;
    text blocks push only text; metadata and section events are pushed by single-line blocks) -/
theorem C03_parser_events_shape {α : Type} [Arith α] (cs : CharSpec) (ext : Ext) (input : Str) :
    (∀ ev ∈ (pullEvents (α := α) cs ext input).1.toList, EvOK' ev) ∧
    WellBracketed (pullEvents (α := α) cs ext input).1.toList :=
  ⟨pullEvents_evOK' cs ext input, pullEvents_wellBracketed cs ext input⟩

/-- **C03, `parse_metadata`, complete** (second half of `C03_statement`): for every input, `CharSpec`,
    extension set and converter environment neither the metadata-only scanner nor the analysis pass
    reaches a panic site (the scanner emits only front matter, metadata entries and diagnostics, on
    which all three hypotheses of `C03_analysis_no_panic` hold trivially) -/
theorem C03_parse_metadata_no_panic {α : Type} [Arith α] (env : Env) (input : Str) :
    (parseMetadata (α := α) env input).panic = none := by
  rw [C03_parse_metadata_panic_only_from_analysis]
  have hm := pullMetaEvents_meta (α := α) env.cs env.ext input
  exact parseEvents_no_panic env input _ (fun ev h => (hm ev h).evOK') (wbFrom_of_meta _ hm)
    (fun ev h => (hm ev h).spanOK input)

/-- **C03, `parse`** (first half of `C03_statement`) under the one remaining hypothesis: the spans of
    the component events lie on character boundaries of the input (`SpansOK`; the parser builds them
    from token positions, which are boundaries by `lexFrom_boundary` — the statement that they are is
    part of C04 and is not proved here).  It is only used at one site: in define mode `text` the
    source text of a component is sliced out of the input. -/
theorem C03_parse_no_panic_partial {α : Type} [Arith α] (env : Env) (input : Str)
    (hsp : SpansOK input (pullEvents (α := α) env.cs env.ext input).1.toList) :
    (parseRecipe (α := α) env input).panic = none := by
  rw [C03_parse_recipe_panic_only_from_analysis]
  exact parseEvents_no_panic env input _ (pullEvents_evOK' env.cs env.ext input)
    (pullEvents_wellBracketed env.cs env.ext input) hsp

/-- `C03_statement` under the span hypothesis of `C03_parse_no_panic_partial`; missing for the full
    statement: every component span the parser emits lies on character boundaries of the input
    (needed only for the slice taken in define mode `text`). -/
theorem C03_holds_partial
    (hsp : ∀ (env : Env) (input : Str), SpansOK input (pullEvents (α := Rat) env.cs env.ext input).1.toList) :
    C03_statement :=
  fun env input => ⟨C03_parse_no_panic_partial env input (hsp env input), C03_parse_metadata_no_panic env input⟩

/-- **C03, the modelled part, in full**: for every environment (character tables, extension bits,
    converter keys, std-metadata verdicts, case folding) and every input, neither `parse` nor
    `parse_metadata` reaches any `assert!/unwrap/expect/panic!/index/slice` site of the modelled code
    and no loop runs out of fuel.  The span hypothesis of `C03_holds_partial` is discharged by the
    C04 result that every span of every parser event is a valid span of the input
    (`pullEvents_spansOK`, from `C04_event_spans_ok`). -/
theorem C03_holds : C03_statement :=
  C03_holds_partial (fun env input => pullEvents_spansOK (α := Rat) env.cs env.ext input)

/-! non-vacuity of the three hypotheses: a step with a component and an intermediate reference, then a
    mode switch between blocks, then a text block -/
example : let evs : List (Ev Rat) := [.start .step, .text (Text.empty 0),
      .ingredient ⟨⟨⟨⟨Modifiers.REF⟩, ⟨0, 0⟩⟩, some ⟨⟨false, false, 1⟩, ⟨0, 0⟩⟩, Text.empty 0, none, none, none⟩, ⟨0, 0⟩⟩,
      .timer ⟨⟨some (Text.empty 0), none⟩, ⟨0, 0⟩⟩, .stop .step,
      .metadata (Text.empty 0) (Text.empty 0), .start .text, .text (Text.empty 0), .stop .text]
    (∀ ev ∈ evs, EvOK' ev) ∧ WellBracketed evs ∧ SpansOK [] evs := by
  intro evs
  refine ⟨?_, ?_, ?_⟩
  · intro ev hmem
    simp only [evs, List.mem_cons, List.mem_nil_iff, or_false] at hmem
    rcases hmem with rfl | rfl | rfl | rfl | rfl | rfl | rfl | rfl | rfl <;>
      simp [EvOK', Modifiers.contains]
  · exact ⟨_, rfl, _, rfl, _, rfl, _, rfl, _, rfl, _, rfl, _, rfl, _, rfl, _, rfl, trivial⟩
  · intro ev hmem sp hsp
    simp only [evs, List.mem_cons, List.mem_nil_iff, or_false] at hmem
    rcases hmem with rfl | rfl | rfl | rfl | rfl | rfl | rfl | rfl | rfl <;>
      simp only [evSpan, reduceCtorEq, Option.some.injEq] at hsp <;> subst hsp <;>
      exact ⟨[], [], [], rfl, rfl, rfl⟩

/-! non-vacuity: the tokens of `@a{1}` satisfy the hypotheses of `C03_block_no_panic` -/
example : let b : List Tok := [⟨.at, ['@'], 0⟩, ⟨.word, ['a'], 1⟩, ⟨.openBrace, ['{'], 2⟩, ⟨.int, ['1'], 3⟩,
      ⟨.closeBrace, ['}'], 4⟩]
    Chain 0 b ∧ EscapedOK b ∧ b ≠ [] ∧ ∀ t, b.getLast? = some t → t.kind ≠ .newline := by
  intro b
  refine ⟨⟨rfl, rfl, rfl, rfl, rfl, trivial⟩, ?_, by simp [b], ?_⟩
  · intro t ht hk
    simp only [b, List.mem_cons, List.mem_nil_iff, or_false] at ht
    rcases ht with rfl | rfl | rfl | rfl | rfl <;> cases hk
  · intro t ht hk
    simp only [b, List.getLast?_cons_cons, List.getLast?_singleton, Option.some.injEq] at ht
    subst ht; cases hk
/-! ### the fuel of the block splitter never runs out

  The three loops of `next_block` are modelled with fuel.  `C03_*_fuel_suffices`: any fuel at least
  the length of the remaining stream gives the same result as the fuel the model uses (so the result
  is the fuel-free limit); `C03_splitter_terminates`: with the fuel the model uses, each loop
  satisfies its fuel-free recursion equation, i.e. a loop only ever stops for the reason the Rust
  loop stops (end of stream / non-empty line / marker / empty line), never because fuel ran out. -/

theorem C03_skip_fuel_suffices (ts : List Tok) (f : Nat) (h : ts.length ≤ f) :
    skipEmptyLines f ts = skipEmptyLines (ts.length + 1) ts :=
  blocks_skip_fuel f (ts.length + 1) ts h (by omega)

theorem C03_more_fuel_suffices (ts : List Tok) (f : Nat) (h : ts.length ≤ f) :
    moreLines f ts = moreLines (ts.length + 1) ts :=
  blocks_more_fuel f (ts.length + 1) ts h (by omega)

/-- the list of blocks does not depend on the fuel once it is at least the stream length -/
theorem C03_blocks_fuel_suffices (ts : List Tok) (f : Nat) (h : ts.length ≤ f) :
    allBlocks f ts = allBlocks (ts.length + 1) ts :=
  blocks_all_fuel f (ts.length + 1) ts h (by omega)

/-- The splitter terminates for the right reason.  With the fuel used by `nextBlock`/`pullEvents`:
    the block list is `next_block` iterated until it returns `None`; `None` is returned exactly when
    only blank tokens are left (the stream is exhausted of blocks); every step strictly shortens the
    stream; and the two inner loops obey their fuel-free recursion. -/
theorem C03_splitter_terminates (ts : List Tok) :
    (allBlocks (ts.length + 1) ts = match nextBlock ts with
      | none => []
      | some (b, rest) => b :: allBlocks (rest.length + 1) rest) ∧
    (nextBlock ts = none ↔ ∀ t ∈ ts, isEmptyTok t.kind = true) ∧
    (∀ b rest, nextBlock ts = some (b, rest) → rest.length < ts.length) ∧
    (skipEmptyLines (ts.length + 1) ts = match pullLine ts with
      | none => none
      | some (li, rest) => if li.isEmpty then skipEmptyLines (rest.length + 1) rest else some (li, rest)) ∧
    (moreLines (ts.length + 1) ts =
      if isSingleLineMarker ts.head? then ([], ts) else
      match pullLine ts with
      | none => ([], ts)
      | some (li, rest) =>
        if li.isEmpty then ([], rest) else
        (li.toks ++ (moreLines (rest.length + 1) rest).1, (moreLines (rest.length + 1) rest).2)) :=
  ⟨blocks_all_unfold ts, blocks_next_none ts,
   fun b rest h => (blocks_next_some ts b rest h).choose_spec.choose_spec.2.2.2.2,
   blocks_skip_unfold ts, blocks_more_unfold ts⟩

/-- the metadata-only scanner (`next_metadata_block` iterated): its fuel never runs out either, and
    with the fuel `pullMetaEvents` uses it obeys the fuel-free recursion (seek the next `>>` at a
    line start, take the line, continue after its newline) -/
theorem C03_meta_scanner_terminates (ts : List Tok) (last : TK) :
    (∀ f, ts.length ≤ f → metaBlocks f last ts = metaBlocks (ts.length + 1) last ts) ∧
    (metaBlocks (ts.length + 1) last ts = match seekMeta last ts with
      | none => []
      | some ts' => lineBody ts' :: metaBlocks ((afterLine ts').length + 1) .newline (afterLine ts')) := by
  refine ⟨fun f h => blocks_meta_fuel f (ts.length + 1) last ts h (by omega), ?_⟩
  rw [blocks_meta_succ]
  cases hs : seekMeta last ts with
  | none => rfl
  | some ts' =>
    obtain ⟨t, r, e, _, hl⟩ := blocks_seek_some last ts ts' hs
    have := blocks_afterLine_length t r
    rw [← e] at this
    simp only
    rw [blocks_meta_fuel ts.length ((afterLine ts').length + 1) .newline _ (by omega) (by omega)]

/-- every block handed to `BlockParser::new` by the metadata-only scanner is non-empty -/
theorem C03_meta_blocks_nonempty (f : Nat) (last : TK) (ts : List Tok) :
    ∀ b ∈ metaBlocks f last ts, b ≠ [] := by
  induction f generalizing last ts with
  | zero => intro b hb; simp [metaBlocks] at hb
  | succ n ih =>
    intro b hb
    rw [blocks_meta_succ] at hb
    cases hs : seekMeta last ts with
    | none => rw [hs] at hb; simp at hb
    | some ts' =>
      rw [hs] at hb
      obtain ⟨t, r, e, hk, _⟩ := blocks_seek_some last ts ts' hs
      simp only [List.mem_cons] at hb
      rcases hb with rfl | hb
      · rw [e]; simp [lineBody, hk]
      · exact ih _ _ b hb

/-- the emptiness test on the trimmed block in `next_block` (`return None`) is dead code: a block
    that starts with a non-empty line is never empty after trimming -/
theorem C03_trimmed_block_never_empty (ts : List Tok) :
    nextBlock ts = match skipEmptyLines (ts.length + 1) ts with
      | none => none
      | some (li, rest) =>
        some (trimTrailingNewlines (li.toks ++ (blockMore li rest).1), (blockMore li rest).2) :=
  blocks_next_eq ts

/-- Every block handed to `BlockParser::new` is a non-empty contiguous slice of the token stream.
    Hence, if the stream's spans are adjacent from `off` (they are: `C04_tokens_contiguous`), the
    block's spans are adjacent starting at its first token (`debug_assert_adjacent!`), and all its
    spans lie inside `[off, off + len]` (`tokens out of input bounds`). Holds for any fuel. -/
theorem C03_blocks_are_infixes (off : Nat) (ts : List Tok) (h : Chain off ts) (f : Nat) :
    ∀ b ∈ allBlocks f ts,
      (∃ pre post, ts = pre ++ b ++ post) ∧
      (∃ t r, b = t :: r ∧ Chain t.start b) ∧
      (∀ u ∈ b, off ≤ u.start ∧ u.stop ≤ off + utf8Len (ts.flatMap (·.text))) := by
  intro b hb
  obtain ⟨hne, pre, post, e⟩ := blocks_all_infix f ts b hb
  refine ⟨⟨pre, post, by rw [e]; simp⟩, ?_, ?_⟩
  · cases b with
    | nil => exact absurd rfl hne
    | cons t r =>
      refine ⟨t, r, rfl, ?_⟩
      rw [e] at h
      exact blocks_chain_head _ t r (blocks_chain_infix off pre (t :: r) post h)
  · intro u hu
    exact blocks_chain_bounds off ts h u (by rw [e]; simp [hu])

/-! non-vacuity of the adjacency hypothesis: a two-line stream with adjacent spans -/
example : Chain 3 [⟨.word, ['a'], 3⟩, ⟨.newline, ['\n'], 4⟩, ⟨.word, ['é'], 5⟩] := ⟨rfl, rfl, rfl, trivial⟩

/-- instance for the stream `PullParser` splits: the first token of every block starts strictly
    before the end of the input and the last one ends inside it (the two `debug_assert!`s of
    `BlockParser::new`, with `off` the front-matter offset) -/
theorem C03_blocks_in_bounds (cs : CharSpec) (off : Nat) (s : List Char) :
    ∀ b ∈ allBlocks ((lexFrom cs off s).length + 1) (lexFrom cs off s),
      ∀ u ∈ b, u.start < off + utf8Len s ∧ u.stop ≤ off + utf8Len s := by
  intro b hb u hu
  have h := (C03_blocks_are_infixes off _ (lexFrom_chain cs off s) _ b hb).2.2 u hu
  rw [lexFrom_tile] at h
  obtain ⟨_, pre, post, e⟩ := blocks_all_infix _ _ b hb
  have hmem : u ∈ lexFrom cs off s := by rw [e]; simp [hu]
  have hpos := utf8Len_pos (lexFrom_nonempty cs off s u hmem)
  simp only [Tok.stop] at h ⊢
  omega


/-! ### AST building (`build_ast`, model added by the audit: Syntax/Ast.lean) -/

/-- **C03, `build_ast`.**  `build_ast` has one panic site, `panic!("Not text in text block")` when a
    `Text` block is closed while a component sits in the item buffer.  On every `WellBracketed` event
    stream (components only inside `Step` blocks, every `Start` clears the buffer) it is unreachable. -/
theorem C03_build_ast_no_panic_of_events {α : Type} [Arith α] (evs : List (Ev α)) (hw : WellBracketed evs) :
    (buildAst evs).panic = none := astBuild_no_panic evs hw

/-- **C03, AST building from source, complete:** for every input, `CharSpec` and extension set,
    `build_ast(PullParser::new(input, extensions))` reaches no panic site — neither one of the pull parser
    (`C03_parse_events_no_panic`) nor the one of `build_ast` (the parser's stream is well bracketed,
    `C03_parser_events_shape`). -/
theorem C03_build_ast_no_panic {α : Type} [Arith α] (cs : CharSpec) (ext : Ext) (input : Str) :
    (buildAstOfInput (α := α) cs ext input).panic = none :=
  astBuild_input_no_panic cs ext input (C03_parse_events_no_panic cs ext input)

/-! non-vacuity: the panic site of the `build_ast` model is reachable on a stream that is not well
    bracketed (a component inside a text block) -/
example : (buildAst (α := Rat) [.start .text,
    .timer ⟨⟨some (Text.empty 0), none⟩, ⟨0, 0⟩⟩, .stop .text]).panic = some "Not text in text block" := rfl

/-! ### the consumers of a parsed recipe: scale, convert, fit, group, list

  Models: Num/Scale.lean, Num/Convert.lean, Num/Group.lean, Num/IngList.lean.  Their panic sites are the
  values `ConvErr.panic _` (the same-quantity `assert_eq!` of `convert_f64`, `Unit::symbol`'s `expect`) and
  `none` (`all_ingredients[i]`, the `expect` of `GroupedValue::add`).  In `scale`, `group_quantities` and
  `GroupedQuantity::add` the code discards or re-routes the `Result` of an inner `fit` / `try_add`
  (`let _ = q.fit(converter)`), and so does the model; a panic inside is nevertheless a panic of the
  operation, hence the statements quantify over EVERY call of `convert_impl`, `fit`, `try_add`.
  Over ℚ (`Arith Rat`), as all numeric theorems: the f64 instance of the same definitions is what the
  differential runs compare, and f64 arithmetic itself cannot panic (no integer casts on this path). -/

/-- the empty converter (`Converter::empty()`) satisfies the converter hypothesis … -/
theorem C03_empty_converter_sound (table : List FracEntry) : (Converter.empty (α := Rat) table).Sound :=
  ⟨fun q s u hu => by simp [Converter.empty, emptyBest, BestStore.conversions, BestConversions.unitsOf] at hu,
   fun u v hu => by simp [Converter.empty] at hu,
   fun u hu => by simp [Converter.empty] at hu,
   fun u hu => by simp [Converter.empty] at hu,
   fun u hu => by simp [Converter.empty] at hu⟩

/-- … and so does the bundled one (`Converter::bundled()`, decided on the table generated from units.toml) -/
theorem C03_bundled_converter_sound : (Converter.bundled Rat).Sound := C09_bundled_sound

/-- **C03, the `assert!`s of `Number::new_approx`** (`accuracy ∈ [0, 1]`, `max_den ≤ 64`).  The model's `newApprox`
    does not contain them: they are the precondition `newApproxPre`, and `Converter.wf` demands it of the default
    configuration and of every fractions configuration the converter holds.  Every call the consumers make
    (`try_fraction`, `fit_fraction`, the candidates and the range end of `fit_fraction`) passes
    `converter.fractions_config(unit)`, which is one of those: the assertions hold at every call. -/
theorem C03_new_approx_asserts_hold {c : Converter Rat} (hw : c.wf = true) (u : Unit Rat) :
    newApproxPre (c.fractionsConfig u).accuracy (c.fractionsConfig u).maxDen = true :=
  consumers_config_pre hw u

/-- the empty and the bundled converter are well-formed in that sense -/
theorem C03_std_converters_wf (table : List FracEntry) :
    (Converter.empty (α := Rat) table).wf = true ∧ (Converter.bundled Rat).wf = true :=
  ⟨by
    have h : cfgPre (defaultCfg (α := Rat)) = true := by decide +kernel
    simp [Converter.wf, bestListsOK, Converter.empty, emptyBest, BestStore.lists, BestConversions.unitsOf,
      Fractions.cfgs, PhysQ.all, h], C09_bundled_wf⟩

/-- **C03, single quantities.**  For a sound converter no call of `ScaledQuantity::convert` (to a system,
    within the own system, or to a unit of the converter / a unit key), `ScaledQuantity::fit`,
    `ScaledQuantity::try_add` or `GroupedQuantity::fit`, on ANY quantity — parsed or not, text, range,
    unknown unit, zero, negative — returns a panic value: the `assert_eq!` on physical quantities in
    `convert_f64` and the `expect` of `Unit::symbol` are unreachable.  This covers the calls whose result
    the callers discard (`scale`'s and `group_quantities`' `let _ = ….fit(converter)`) or re-route
    (`GroupedQuantity::add` pushing to `other` when `try_add` fails). -/
theorem C03_convert_fit_add_no_panic {c : Converter Rat} (hc : c.Sound) (s : PanicSite) :
    (∀ q to, (∀ x, to = .unit (.unit x) → x ∈ c.allUnits) → (convertImpl c q to).2 ≠ .error (.panic s)) ∧
    (∀ q, (fit c q).2 ≠ .error (.panic s)) ∧
    (∀ l r x, qTryAdd c l r = .error x → x ≠ .convert (.panic s)) ∧
    (∀ g, (GroupedQuantity.fit c g).2 ≠ .error (.panic s)) :=
  ⟨fun q to hto => consumers_convertImpl_no_panic hc q to hto s,
   fun q => consumers_fit_no_panic hc q s,
   fun l r => consumers_tryAdd_no_panic hc l r s,
   fun g => consumers_groupFit_no_panic hc g s⟩

/-- **C03, `ScaledRecipe::convert`.**  For a sound converter, any recipe (parsed or not) and either target
    system, every error the recipe-wide conversion collects is a `ConvertError`, never a panic. -/
theorem C03_recipe_convert_no_panic {c : Converter Rat} (hc : c.Sound) (to : System) (r : ScaledRecipe Rat) :
    ∀ e ∈ (recipeConvert c to r).2, ∀ s, e ≠ .panic s := consumers_recipeConvert_no_panic hc to r

/-- **C03, grouping and listing a parsed recipe.**  Let `col` be the recipe `parse` returns for any input
    and environment, `c` a sound converter, `f` any factor (`scale`, `scale_to_servings`: `f = target/base`)
    and `to` a system.  Then for the scaled recipe, for the default-scaled recipe, and for each of them
    after `convert(to)`:
    * `group_ingredients` returns (no `all_ingredients[i]` out of range in `all_quantities`),
    * `IngredientList::add_recipe` into any list returns, for every iteration order of the hash maps,
    * `group_cookware` / `Cookware::group_amounts` returns for every cookware item: no index out of range and
      the `expect("non text to non text value add error")` of `GroupedValue::add` never fires.
    The inner `fit` / `try_add` calls cannot panic by `C03_convert_fit_add_no_panic`.  Uses the C06 fact
    that every `referenced_from` index of a returned recipe addresses an existing component, and that
    scaling and conversion leave relations and table lengths alone. -/
theorem C03_parsed_recipe_group_list_no_panic (env : Env) (input : Str) (col : Col Rat)
    (h : (parseRecipe (α := Rat) env input).output = some col)
    (c : Converter Rat) (f : Rat) (to : System) :
    ∀ r ∈ [(recipeScale c col.recipe f).1, recipeDefaultScale col.recipe,
           (recipeConvert c to (recipeScale c col.recipe f).1).1,
           (recipeConvert c to (recipeDefaultScale col.recipe)).1],
      (∃ es, groupIngredients c r = some es) ∧
      (∀ (ord : MapOrder Rat) (m : IngredientList Rat), ∃ m', addRecipe ord c m r = some m') ∧
      (∀ k ∈ r.cookware, ∃ g, groupAmounts r.cookware k = some g) := by
  obtain ⟨hi, hcw⟩ := col_refs_in_range env input col h
  have key : ∀ r : ScaledRecipe Rat,
      r.ingredients.map (·.relation) = col.recipe.ingredients.map (·.relation) →
      r.cookware.map (·.relation) = col.recipe.cookware.map (·.relation) →
      (∃ es, groupIngredients c r = some es) ∧
      (∀ (ord : MapOrder Rat) (m : IngredientList Rat), ∃ m', addRecipe ord c m r = some m') ∧
      (∀ k ∈ r.cookware, ∃ g, groupAmounts r.cookware k = some g) := by
    intro r h1 h2
    have hlen : r.ingredients.length = col.recipe.ingredients.length := by
      simpa using congrArg List.length h1
    have hr : RefsInRange r.ingredients := by
      intro i hi' j hj
      obtain ⟨k, hk, rfl⟩ := List.mem_iff_getElem.mp hi'
      have hk' : k < col.recipe.ingredients.length := hlen ▸ hk
      have e : r.ingredients[k].relation = col.recipe.ingredients[k].relation := by
        have := congrArg (fun l => l[k]?) h1
        simpa [hk, hk'] using this
      rw [e] at hj
      rw [hlen]
      exact hi _ (List.getElem_mem hk') j hj
    exact ⟨consumers_group_total r hr, fun ord m => addRecipe_total ord m r hr,
      consumers_groupAmounts_total r.cookware (cwRefsInRange_of_relations h2 hcw)⟩
  have hs := recipeScale_relations c col.recipe f
  have hd := recipeDefaultScale_relations col.recipe
  intro r hr
  simp only [List.mem_cons, List.mem_nil_iff, or_false] at hr
  rcases hr with rfl | rfl | rfl | rfl
  · exact key _ hs.1 hs.2
  · exact key _ hd.1 hd.2
  · have hc := recipeConvert_relations c to (recipeScale c col.recipe f).1
    exact key _ (hc.1.trans hs.1) (by rw [hc.2]; exact hs.2)
  · have hc := recipeConvert_relations c to (recipeDefaultScale col.recipe)
    exact key _ (hc.1.trans hd.1) (by rw [hc.2]; exact hd.2)

/-- **C03, report rendering (the modelled part).**  `SourceReport::write` itself (codesnake, yansi,
    unicode-width) is not modelled.  What the model states is the precondition under which the renderer's
    only partial operations — slicing the source at label offsets — are legal: every label of every
    diagnostic of `parse` and `parse_metadata` can be sliced out of the input (`&input[start..end]`
    succeeds: both ends on character boundaries, `start ≤ end ≤ len`), and sorting the labels (which
    `write_report` does first) does not change that.  Partial: the rendering code after this precondition
    (line index, width arithmetic `max(w, 1) - sub`, colour cycling) is exercised by the runs only. -/
theorem C03_report_renders_partial (env : Env) (input : Str) :
    (∀ d ∈ (parseRecipe (α := Rat) env input).diags.toList, ∀ labels : List Span, labels.Perm d.labels →
      ∀ l ∈ labels, (sliceBytes input l.start l.stop).isSome = true) ∧
    (∀ d ∈ (parseMetadata (α := Rat) env input).diags.toList, ∀ labels : List Span, labels.Perm d.labels →
      ∀ l ∈ labels, (sliceBytes input l.start l.stop).isSome = true) :=
  C04_report_labels_sliceable env input

/-- **C03 beyond `parse` / `parse_metadata`: every other entry point and consumer the model contains.**
    For every environment and input: the raw event stream (`PullParser` collected), the metadata-only
    stream and `build_ast` reach no panic site; the labels of both reports satisfy the renderer's slicing
    precondition; and for every sound, well-formed converter (the empty and the bundled one are), every factor and
    target system, scaling, default scaling, converting, grouping ingredients and cookware and listing
    the parsed recipe return without reaching a panic site.  Not in the model, hence tested only: the
    renderer after its precondition, `serde` (the encoders of Side/Serde.lean are total functions without
    panic sites) and the `Metadata` accessors (Side/StdMeta.lean: total functions over checked `u32`
    arithmetic, after the repair; C13 proves their values). -/
def C03_consumers_statement : Prop :=
  ∀ (env : Env) (input : Str),
    (pullEvents (α := Rat) env.cs env.ext input).2 = none ∧
    (pullMetaEvents (α := Rat) env.cs env.ext input).2 = none ∧
    (buildAstOfInput (α := Rat) env.cs env.ext input).panic = none ∧
    (∀ d ∈ (parseRecipe (α := Rat) env input).diags.toList, ∀ l ∈ d.labels,
      (sliceBytes input l.start l.stop).isSome = true) ∧
    (∀ d ∈ (parseMetadata (α := Rat) env input).diags.toList, ∀ l ∈ d.labels,
      (sliceBytes input l.start l.stop).isSome = true) ∧
    ∀ (c : Converter Rat), c.Sound → c.wf = true →
      (∀ u, newApproxPre (c.fractionsConfig u).accuracy (c.fractionsConfig u).maxDen = true) ∧
      (∀ s q, (fit c q).2 ≠ .error (.panic s)) ∧
      (∀ s l r x, qTryAdd c l r = .error x → x ≠ .convert (.panic s)) ∧
      (∀ s g, (GroupedQuantity.fit c g).2 ≠ .error (.panic s)) ∧
      ∀ (col : Col Rat), (parseRecipe (α := Rat) env input).output = some col → ∀ (f : Rat) (to : System),
        (∀ r ∈ [(recipeScale c col.recipe f).1, recipeDefaultScale col.recipe], ∀ e ∈ (recipeConvert c to r).2,
          ∀ s, e ≠ .panic s) ∧
        ∀ r ∈ [(recipeScale c col.recipe f).1, recipeDefaultScale col.recipe,
               (recipeConvert c to (recipeScale c col.recipe f).1).1,
               (recipeConvert c to (recipeDefaultScale col.recipe)).1],
          (∃ es, groupIngredients c r = some es) ∧
          (∀ (ord : MapOrder Rat) (m : IngredientList Rat), ∃ m', addRecipe ord c m r = some m') ∧
          (∀ k ∈ r.cookware, ∃ g, groupAmounts r.cookware k = some g)

theorem C03_consumers_hold : C03_consumers_statement := by
  intro env input
  refine ⟨C03_parse_events_no_panic env.cs env.ext input, C03_parse_meta_events_no_panic env.cs env.ext input,
    C03_build_ast_no_panic env.cs env.ext input,
    fun d hd l hl => (C03_report_renders_partial env input).1 d hd d.labels (List.Perm.refl _) l hl,
    fun d hd l hl => (C03_report_renders_partial env input).2 d hd d.labels (List.Perm.refl _) l hl, ?_⟩
  intro c hc hw
  refine ⟨consumers_config_pre hw, fun s q => consumers_fit_no_panic hc q s, fun s l r => consumers_tryAdd_no_panic hc l r s,
    fun s g => consumers_groupFit_no_panic hc g s, ?_⟩
  intro col hcol f to
  exact ⟨fun r _ => consumers_recipeConvert_no_panic hc to r,
    C03_parsed_recipe_group_list_no_panic env input col hcol c f to⟩

/-- **C03, the quantifier "every converter": every converter the builder can produce.**  `Bld.BuiltAs files c`: the
    builder model (C16) builds the layers `files` successfully, none of their ratios is zero, and `c` is the result read
    as the conversion model's converter (`Bld.convOfBuilt`).  Such a converter is sound and well-formed
    (`C16_built_converter_sound`), so — besides the empty and the bundled converter of `C03_std_converters_wf` — the
    consumer clauses of `C03_consumers_statement` hold for it: the `new_approx` assertions hold at every call, `fit`,
    `try_add`, `GroupedQuantity::fit` never return a panic value on any quantity, and for the recipe `parse` returns for
    any input and environment, scaling, default scaling, converting to either system, grouping ingredients and cookware
    and listing return without reaching a panic site. -/
theorem C03_consumers_built (env : Env) (input : Str) {files : List (Bld.UnitsFile Rat)} {c : Converter Rat}
    (hbuilt : Bld.BuiltAs files c) :
    (∀ u, newApproxPre (c.fractionsConfig u).accuracy (c.fractionsConfig u).maxDen = true) ∧
    (∀ s q, (fit c q).2 ≠ .error (.panic s)) ∧
    (∀ s q to, (∀ x, to = .unit (.unit x) → x ∈ c.allUnits) → (convertImpl c q to).2 ≠ .error (.panic s)) ∧
    (∀ s l r x, qTryAdd c l r = .error x → x ≠ .convert (.panic s)) ∧
    (∀ s g, (GroupedQuantity.fit c g).2 ≠ .error (.panic s)) ∧
    ∀ (col : Col Rat), (parseRecipe (α := Rat) env input).output = some col → ∀ (f : Rat) (to : System),
      (∀ r ∈ [(recipeScale c col.recipe f).1, recipeDefaultScale col.recipe], ∀ e ∈ (recipeConvert c to r).2,
        ∀ s, e ≠ .panic s) ∧
      ∀ r ∈ [(recipeScale c col.recipe f).1, recipeDefaultScale col.recipe,
             (recipeConvert c to (recipeScale c col.recipe f).1).1,
             (recipeConvert c to (recipeDefaultScale col.recipe)).1],
        (∃ es, groupIngredients c r = some es) ∧
        (∀ (ord : MapOrder Rat) (m : IngredientList Rat), ∃ m', addRecipe ord c m r = some m') ∧
        (∀ k ∈ r.cookware, ∃ g, groupAmounts r.cookware k = some g) := by
  obtain ⟨h1, h2, h3, h4, h5⟩ := (C03_consumers_hold env input).2.2.2.2.2 c hbuilt.sound hbuilt.wf
  exact ⟨h1, h2, fun s q to hto => (C03_convert_fit_add_no_panic hbuilt.sound s).1 q to hto, h3, h4, h5⟩

/-- … in particular every such converter satisfies the hypotheses `Sound` / `wf` of the consumer theorems above -/
theorem C03_built_converter_sound {files : List (Bld.UnitsFile Rat)} {c : Converter Rat} (hbuilt : Bld.BuiltAs files c) :
    c.Sound ∧ c.wf = true := ⟨hbuilt.sound, hbuilt.wf⟩

/-! non-vacuity: the hypothesis `Sound` is satisfiable (both converters above), and the panic value the
    theorems exclude is producible by a converter that is not sound — a best list holding a unit of
    another physical quantity makes `convert_f64`'s assertion fire in the model -/
example : convertF64 (1 : Rat) ⟨0, [], [], [], 1, 0, .mass, none⟩ ⟨1, [], [], [], 1, 0, .volume, none⟩ = none := by
  decide


/-! ### the inline-quantity scan of the analysis terminates (`find_inline_quantity`, INLINE_QUANTITIES)

  The code guards its `while let` with `debug_assert!(prev < i)` ("to be sure no infinite loop").  The model runs
  both loops (the scan for a candidate, and the loop that splits a step text at the quantities found) on fuel and
  returns silently when the fuel is exhausted; the panic flag of `C03_statement` therefore does not see this site,
  and these theorems are what excludes it.  Side condition on the character table: an ASCII digit is not white
  space for `char::is_whitespace` (`DigitsNotWs`; true of Unicode, where White_Space contains no digit). -/

/-- **C03, progress and termination of the inline-quantity scan.**  For every environment whose table does not
    classify an ASCII digit as white space:
    1. every iteration of `find_inline_quantity`'s loop hands on strictly less text than it was given, whether it
       hits or the candidate fails (`number.parse()` fails or the unit is unknown) — the strict increase of `i`
       that `debug_assert!(prev < i)` demands;
    2. a hit leaves strictly less text (`after`) than was scanned, so the splitting loop makes progress;
    3. neither loop ever stops because its fuel ran out: any fuel above the length of the text gives the result
       of the fuel the model uses;
    4. with that fuel both functions satisfy their fuel-free recursion equations. -/
theorem C03_inline_scan_terminates {α : Type} [Arith α] (env : Env) (hd : DigitsNotWs env.cs) :
    (∀ (pre rest a : Str), (inlineStep (α := α) env pre rest).after = some a → a.length < rest.length) ∧
    (∀ (fuel : Nat) (pre rest : Str) (hit : InlineHit α),
      findInlineQuantity env fuel pre rest = some hit → hit.after.length < rest.length) ∧
    (∀ (f : Nat) (pre rest : Str), rest.length < f →
      findInlineQuantity (α := α) env f pre rest = findInlineQuantity env (rest.length + 1) pre rest) ∧
    (∀ (f : Nat) (hay : Str) (items : List Item) (iq : Array (Quantity (Value α))), hay.length < f →
      inlineLoop env f hay items iq = inlineLoop env (hay.length + 1) hay items iq) ∧
    (∀ (pre rest : Str), findInlineQuantity (α := α) env (rest.length + 1) pre rest =
      match inlineStep (α := α) env pre rest with
      | .stop => none
      | .hit h => some h
      | .retry pre' after => findInlineQuantity env (after.length + 1) pre' after) ∧
    (∀ (hay : Str) (items : List Item) (iq : Array (Quantity (Value α))),
      inlineLoop env (hay.length + 1) hay items iq =
        match findInlineQuantity (α := α) env (hay.length + 1) [] hay with
        | some hit =>
          inlineLoop env (hit.after.length + 1) hit.after
            ((if hit.before.isEmpty then items else items ++ [.text hit.before]) ++ [.inlineQuantity iq.size])
            (iq.push hit.q)
        | none => (if hay.isEmpty then items else items ++ [.text hay], iq)) :=
  ⟨fun pre rest => inlineStep_progress env hd pre rest,
   inlineScan_progress env hd,
   fun f pre rest h => inlineScan_fuel env hd f _ pre rest h (Nat.lt_succ_self _),
   fun f hay items iq h => inlineLoop_fuel env hd f _ hay items iq h (Nat.lt_succ_self _),
   inlineScan_unfold env hd, inlineLoop_unfold env hd⟩

/-! non-vacuity: the side condition holds of the example table, and the scan does hit -/
example : DigitsNotWs toyCharSpec := by
  intro c h
  simp only [isAsciiDigitC, Bool.and_eq_true, decide_eq_true_eq] at h
  have h1 : 48 ≤ c.val := h.1
  have h2 : c.val ≤ 57 := h.2
  simp only [toyCharSpec, Char.isWhitespace, Bool.or_eq_false_iff, decide_eq_false_iff_not]
  refine ⟨⟨⟨?_, ?_⟩, ?_⟩, ?_⟩ <;> intro e <;> subst e <;> revert h1 h2 <;> decide

/-! ### the character table of the real lexer: `DigitsNotWs` is proved for the generated table
    (`Lemmas/TableFacts.lean`: no range of the list with the `char::is_whitespace` bit meets `0`–`9`) -/

/-- an ASCII digit is not Unicode white space in the table generated from the real code -/
theorem C03_digitsNotWs_real : DigitsNotWs realCharSpec := fun c h => tbl_digit_not_uws c (by unfold isAsciiDigitC at h; exact h)

example : (⟨realCharSpec, ⟨0⟩, fun _ => none, fun _ _ => .ok, fun c => [c], 0⟩ : Env).cs = realCharSpec := rfl

/-- `C03_inline_scan_terminates` at the character table generated from the real lexer (any environment whose
    table is that one, as the driver's `realEnv`):
    the side condition `DigitsNotWs` is proved for that table (`Lemmas/TableFacts.lean`), not assumed -/
theorem C03_inline_scan_terminates_real {α : Type} [Arith α] (env : Env) (hreal : env.cs = realCharSpec) :
    (∀ (pre rest a : Str), (inlineStep (α := α) env pre rest).after = some a → a.length < rest.length) ∧
    (∀ (fuel : Nat) (pre rest : Str) (hit : InlineHit α),
      findInlineQuantity env fuel pre rest = some hit → hit.after.length < rest.length) ∧
    (∀ (f : Nat) (pre rest : Str), rest.length < f →
      findInlineQuantity (α := α) env f pre rest = findInlineQuantity env (rest.length + 1) pre rest) ∧
    (∀ (f : Nat) (hay : Str) (items : List Item) (iq : Array (Quantity (Value α))), hay.length < f →
      inlineLoop env f hay items iq = inlineLoop env (hay.length + 1) hay items iq) ∧
    (∀ (pre rest : Str), findInlineQuantity (α := α) env (rest.length + 1) pre rest =
      match inlineStep (α := α) env pre rest with
      | .stop => none
      | .hit h => some h
      | .retry pre' after => findInlineQuantity env (after.length + 1) pre' after) ∧
    (∀ (hay : Str) (items : List Item) (iq : Array (Quantity (Value α))),
      inlineLoop env (hay.length + 1) hay items iq =
        match findInlineQuantity (α := α) env (hay.length + 1) [] hay with
        | some hit =>
          inlineLoop env (hit.after.length + 1) hit.after
            ((if hit.before.isEmpty then items else items ++ [.text hit.before]) ++ [.inlineQuantity iq.size])
            (iq.push hit.q)
        | none => (if hay.isEmpty then items else items ++ [.text hay], iq)) :=
  C03_inline_scan_terminates env (hd := hreal ▸ C03_digitsNotWs_real)

-- ===== w7reauditA =====
/-! ### wave 7, seed audit (notes/audit-C03.md "Seed audit"): the totalised `unwrap` of `parse_reference` -/

/-- **`parse_reference`: `components.pop().unwrap()` never fails.**  The model function `parseReference` writes
    the `pop().unwrap()` of the code (event_consumer.rs, `parse_reference`) as `getLast?.getD []`, i.e. it has no
    panic value at this site.  This theorem states what makes that legitimate: for EVERY name that takes the path
    branch (it starts with `./`, `../`, `.\` or `..\`) the vector the code pops from — the pieces of the path,
    backslashes read as `/`, split at `/`, without the first — is not empty (`./` gives one empty piece: the name
    is then empty, which `check_empty_name`-style diagnostics do not report; that is C05/C07 matter, not a panic).
    (A `parse_reference` that drops empty pieces before the `pop` — seed C03-10 — violates this for `./`.) -/
theorem C03_parse_reference_pop_safe (name : Str) (h : (parseReference name).isSome = true) :
    (splitOnChar '/' (name.map (fun c => if c = '\\' then '/' else c))).drop 1 ≠ [] := by
  obtain ⟨r, hr⟩ := Option.isSome_iff_exists.mp h
  obtain ⟨first, hs, _⟩ := rkc_parseReference_path name r hr
  rw [hs]
  simp

/-- the shortest path-like names take the branch: `./` (one empty piece) and `..\a` -/
example : (parseReference "./".toList).isSome = true ∧ (parseReference "..\\a".toList).isSome = true ∧
    (splitOnChar '/' "./".toList).drop 1 = [[]] := by decide

-- ===== w8c02finder =====

/-- **The candidate sequence of `find_inline_quantity` is finite and every scan position is a character position.**
    For every step text: either some candidate of its candidate sequence is accepted (`FsFinds`) or the sequence
    ends with all refused (`FsNothing`) — the `while let` always comes to one of its two exits; and each candidate
    splits the text it is read from into whole pieces, `rest = skipped ++ number ++ gap ++ unit ++ after`
    (`fs_nextCand_split`), with `after` strictly shorter than `rest`: every position the scan resumes at
    (`after`) is a suffix of the text in CHARACTERS.
    What this does NOT say (seeds C02-6 / C03-5, still tied by the correspondence run only): that the code computes
    these positions as byte offsets correctly — the model has no byte offsets at this site, so adding a character
    count to a byte index is not expressible in it. -/
theorem C03_inline_candidates_finite {α : Type} [Arith α] (env : Env) (hd : DigitsNotWs env.cs) (txt : Str) :
    ((∃ h : InlineHit α, FsFinds env [] txt h) ∨ FsNothing α env txt) ∧
    ∀ rest c, fsNextCand env.cs rest = some c →
      rest = c.skipped ++ c.number ++ c.gap ++ c.unit ++ c.after ∧ c.after.length < rest.length := by
  constructor
  · have hs := fs_find_spec (α := α) env hd (txt.length + 1) [] txt (by omega)
    cases hf : findInlineQuantity (α := α) env (txt.length + 1) [] txt with
    | none => rw [hf] at hs; exact Or.inr hs
    | some h => rw [hf] at hs; exact Or.inl ⟨h, hs⟩
  · intro rest c hc
    exact ⟨(fs_nextCand_split env.cs rest c hc).1, fs_after_shorter env hd rest c hc⟩

/-- `2 œufs` (multi-byte characters in the unit word; the toy character table of the examples knows ASCII white
    space only, texts with U+00A0 after the number are in the C02/C03 generators of the correspondence run): the
    candidate is `2`, one space, `œufs` -/
example : fsNextCand riToyEnv.cs ['2', ' ', 'œ', 'u', 'f', 's'] =
    some ⟨[], ['2'], [' '], ['œ', 'u', 'f', 's'], []⟩ := by decide +kernel

-- ===== w9c01comp =====

/-- what `C03_diag_sink_severity_sites` says of one call site `<recv>.error(<arg>)` / `<recv>.warn(<arg>)` of the
    generated table: a sink function of that name exists, and every sink function of that name (`SourceReport`'s,
    `BlockParser`'s) asserts exactly the severity `<arg>` was built with -/
def DiagSiteAgrees (s : Gen.DiagSite) : Prop :=
  (∃ k ∈ Gen.diagSinks, k.fn = s.sink) ∧ ∀ k ∈ Gen.diagSinks, k.fn = s.sink → k.asserts = s.builder

instance (s : Gen.DiagSite) : Decidable (DiagSiteAgrees s) := by unfold DiagSiteAgrees; infer_instance

/-- Seed C03-9 (the severity `debug_assert`s of `SourceReport::{error, warn}` and `BlockParser::{error, warn}` are panic
    sites the model cannot show, because `aerr`/`awarn`/`perr`/`pwarn` fuse builder and sink).  For every call site of
    /repo/src listed by translators/gen_diag_sites.py (`Gen.diagSites`: every `.error(..)` / `.warn(..)` method call
    whose argument's builder — `error!` / `warning!`, directly, through a local, a block, an `Event::Error/Warning`
    binding or one helper function / closure — can be read off the text) the severity of the builder is the severity
    the sink's debug assertion demands (`Gen.diagSinks`, scraped from the sink bodies).  A change of the code that sends
    a `warning!` through `.error(..)` (or changes what a sink asserts) regenerates the table and breaks this obligation.
    NOT covered: the sites of `Gen.diagSitesUndetermined` (the argument is the `Err` value of a callee). -/
theorem C03_diag_sink_severity_sites : ∀ s ∈ Gen.diagSites, DiagSiteAgrees s := by decide +kernel

/-- the table is not empty and holds sites of both sinks and both severities: the first site is the analysis pass
    forwarding a parser error, the second forwarding a parser warning -/
example : (Gen.diagSites.map (fun s => (s.recv, s.sink, s.builder))).take 2 =
    [("ctx", "error", .error), ("ctx", "warn", .warning)] ∧ 50 ≤ Gen.diagSites.length := by decide +kernel

/-- the obligation is not vacuous: a `warning!` sent through `ctx.error(..)` (seed C03-9) is refused -/
example : ¬ DiagSiteAgrees ⟨"src/analysis/event_consumer.rs", "ingredient", 4, "ctx", "error", .warning,
    "helper fn conflicting_reference_quantity_error"⟩ := by decide +kernel
-- ===== w9report =====

/-- **C03, report rendering: the width arithmetic.**  The one `usize` subtraction of `write_report`
    (`max(w, 1) - sub`, error.rs:537; seed audit C03-3) cannot underflow: for every sequence of code parts codesnake
    may hand to the closure, every string-width function and every state of the `prev_empty` flag, the model of the
    closure returns a width for every part and no panic value (`C04_report_widths_never_panic`).  Still exercised by
    the runs only: the slices of `Parts::segment` for unlabelled parts, the drawing code of codesnake. -/
theorem C03_report_width_arithmetic_no_panic (sw : List Char → Nat) (pe : Bool) (parts : List (List Char)) :
    ∀ e, codeWidths sw pe parts ≠ .error e := by
  intro e h
  rw [C04_report_widths_never_panic] at h
  cases h

/-! non-vacuity: an empty part (an empty label) followed by a part of string width 0 — the case in which an unclamped
    `w - sub` would underflow -/
example : codeWidths (fun _ => 0) false [[], ['\u0301']] = .ok [1, 0] := by rfl
-- ===== end w9report =====

end Cook
