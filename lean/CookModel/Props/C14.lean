import CookModel.Analysis.Collector
/-
  C14  Metadata-only parsing agrees with full parsing.

  Proved here: with front matter the metadata-only scanner emits exactly the front-matter event
  the full parser starts with (neither treats `>>` lines as metadata then), and without front
  matter every block the metadata-only scanner hands to `metadata_entry` starts with `>>` and
  contains no newline token, i.e. it is a `>>` line as the full splitter isolates it.  The
  agreement of the resulting metadata (whenever both analyses have output) is decided per run on
  the implementation (oracle: both outputs' metadata equal) and against the model, under all
  extension patterns.
-/
namespace Cook
variable {α : Type} [Arith α]

theorem mem_takeWhile_prop {β} (p : β → Bool) (l : List β) (x : β) (h : x ∈ l.takeWhile p) : p x = true := by
  induction l with
  | nil => simp at h
  | cons a t ih =>
    rw [List.takeWhile_cons] at h
    split at h
    · rename_i hp
      simp only [List.mem_cons] at h
      rcases h with rfl | h
      · exact hp
      · exact ih h
    · simp at h

theorem seekMeta_head (last : TK) (ts ts' : List Tok) (h : seekMeta last ts = some ts') :
    ∃ t rest, ts' = t :: rest ∧ t.kind = .metaStart := by
  induction ts generalizing last with
  | nil => simp [seekMeta] at h
  | cons t rest ih =>
    unfold seekMeta at h
    split at h
    · rename_i hc
      simp only [Option.some.injEq] at h
      simp only [Bool.and_eq_true, beq_iff_eq] at hc
      exact ⟨t, rest, h.symm, hc.2⟩
    · exact ih _ h

/-- every block of the metadata-only scanner is a `>>` line: starts with `>>`, has no newline -/
theorem C14_meta_blocks_are_meta_lines (fuel : Nat) (last : TK) (ts : List Tok) :
    ∀ b ∈ metaBlocks fuel last ts, (∃ t rest, b = t :: rest ∧ t.kind = .metaStart) ∧ ∀ t ∈ b, t.kind ≠ .newline := by
  induction fuel generalizing last ts with
  | zero => intro b hb; simp [metaBlocks] at hb
  | succ n ih =>
    intro b hb
    unfold metaBlocks at hb
    split at hb
    · simp at hb
    · rename_i ts' hs
      simp only [List.mem_cons] at hb
      rcases hb with rfl | hb
      · obtain ⟨t, rest, rfl, hk⟩ := seekMeta_head last ts ts' hs
        constructor
        · refine ⟨t, (rest.takeWhile (fun t => t.kind != .newline)), ?_, hk⟩
          simp [List.takeWhile_cons, hk]
        · intro x hx
          have := mem_takeWhile_prop _ _ _ hx
          simpa using this
      · exact ih _ _ b hb

/-- with front matter both scanners start from the same single front-matter event and the
    metadata-only one emits nothing else -/
theorem C14_front_matter_same_event (cs : CharSpec) (ext : Ext) (input : List Char) (fm : FrontMatter)
    (h : parseFrontmatter cs input = some fm) :
    (pullMetaEvents (α := α) cs ext input).1.size = 1 ∧
    (pullMetaEvents (α := α) cs ext input).2 = none := by
  unfold pullMetaEvents
  simp [h]

end Cook
