import CookModel.Analysis.Collector
import CookModel.Lemmas.Blocks
import CookModel.Lemmas.MetaAgree
import CookModel.Lemmas.CollectorAgree
/-
  C14  Metadata-only parsing agrees with full parsing.

  Proved here, for every input, character table, extension set and environment:
  * token level (`C14_meta_blocks_eq`, no side condition): the slices the metadata-only scanner
    hands to `metadata_entry` are exactly the blocks of the full splitter that start with `>>`;
  * event level (`C14_metadata_events_agree`): without front matter the `Metadata` events of the
    full pull parser are exactly the events of the metadata-only parser — no other block parser
    ever emits a metadata event and `metadata_entry` does not depend on the event queue;
  * analysis level (`C14_agree_partial`): without front matter, whenever both analyses have output
    their metadata map, std-key locations, servings and old-style spans are equal — non-metadata
    events never touch that part of the collector, and a metadata event's effect on it depends only
    on it;
  * with front matter the metadata-only scanner emits exactly the front-matter event the full parser
    starts with (`C14_front_matter_same_event`); the agreement of the analyses in that case is
    decided per run (oracle: both outputs' metadata equal) and against the model.
-/
namespace Cook
variable {α : Type} [Arith α]

theorem mem_takeWhile_prop {β} (p : β → Bool) (l : List β) (x : β) (h : x ∈ l.takeWhile p) : p x = true := by
  induction l with
  | nil => simp at h
  | cons a t ih =>
    rw [List.takeWhile_cons] at h
    split at h
    · rename_i hp
      simp only [List.mem_cons] at h
      rcases h with rfl | h
      · exact hp
      · exact ih h
    · simp at h

theorem seekMeta_head (last : TK) (ts ts' : List Tok) (h : seekMeta last ts = some ts') :
    ∃ t rest, ts' = t :: rest ∧ t.kind = .metaStart := by
  induction ts generalizing last with
  | nil => simp [seekMeta] at h
  | cons t rest ih =>
    unfold seekMeta at h
    split at h
    · rename_i hc
      simp only [Option.some.injEq] at h
      simp only [Bool.and_eq_true, beq_iff_eq] at hc
      exact ⟨t, rest, h.symm, hc.2⟩
    · exact ih _ h

/-- every block of the metadata-only scanner is a `>>` line: starts with `>>`, has no newline -/
theorem C14_meta_blocks_are_meta_lines (fuel : Nat) (last : TK) (ts : List Tok) :
    ∀ b ∈ metaBlocks fuel last ts, (∃ t rest, b = t :: rest ∧ t.kind = .metaStart) ∧ ∀ t ∈ b, t.kind ≠ .newline := by
  induction fuel generalizing last ts with
  | zero => intro b hb; simp [metaBlocks] at hb
  | succ n ih =>
    intro b hb
    unfold metaBlocks at hb
    split at hb
    · simp at hb
    · rename_i ts' hs
      simp only [List.mem_cons] at hb
      rcases hb with rfl | hb
      · obtain ⟨t, rest, rfl, hk⟩ := seekMeta_head last ts ts' hs
        constructor
        · refine ⟨t, (rest.takeWhile (fun t => t.kind != .newline)), ?_, hk⟩
          simp [List.takeWhile_cons, hk]
        · intro x hx
          have := mem_takeWhile_prop _ _ _ hx
          simpa using this
      · exact ih _ _ b hb

/-- with front matter both scanners start from the same single front-matter event and the
    metadata-only one emits nothing else -/
theorem C14_front_matter_same_event (cs : CharSpec) (ext : Ext) (input : List Char) (fm : FrontMatter)
    (h : parseFrontmatter cs input = some fm) :
    (pullMetaEvents (α := α) cs ext input).1.size = 1 ∧
    (pullMetaEvents (α := α) cs ext input).2 = none := by
  unfold pullMetaEvents
  simp [h]

/-- `meta_blocks_eq`, for EVERY token list and with NO side condition: the sequence of token slices
    the metadata-only scanner (`next_metadata_block`) hands to `metadata_entry` is exactly the
    sequence of those blocks of the full splitter (`next_block`) whose first token is `>>`, in the
    same order.  (A `>>` at the start of a line is always its own single-line block in the full
    splitter; `>>` after leading whitespace, after an escaped newline or inside a line is in neither
    list; a `>>` line directly after a step line ends that step's block; the last line needs no
    newline.) -/
theorem C14_meta_blocks_eq (ts : List Tok) :
    metaBlocks (ts.length + 1) .newline ts =
    (allBlocks (ts.length + 1) ts).filter (fun b => b.head?.map (·.kind) == some .metaStart) := by
  have h := blocks_meta_eq ts.length ts (Nat.le_refl _)
  unfold metaBlocksOf at h
  rw [h]
  apply List.filter_congr
  intro b _
  unfold isMetaBlock
  cases b.head? with
  | none => rfl
  | some t => simp

/-- hence every block of the full splitter that starts with `>>` is one line without its newline:
    `parse_block` sees the same tokens for a metadata entry as `next_metadata_block` gives -/
theorem C14_full_splitter_meta_block_is_line (ts : List Tok) :
    ∀ b ∈ allBlocks (ts.length + 1) ts, b.head?.map (·.kind) = some .metaStart →
      (∀ t ∈ b, t.kind ≠ .newline) ∧ b ∈ metaBlocks (ts.length + 1) .newline ts := by
  intro b hb hh
  have hm : b ∈ metaBlocks (ts.length + 1) .newline ts := by
    rw [C14_meta_blocks_eq]
    exact List.mem_filter.2 ⟨hb, by simp [hh]⟩
  exact ⟨(C14_meta_blocks_are_meta_lines _ _ _ b hm).2, hm⟩

/-- without front matter the metadata-only parser runs `metadata_entry` over exactly the `>>`
    blocks of the full splitter on the same token stream -/
theorem C14_meta_scanner_runs_on_full_blocks (cs : CharSpec) (ext : Ext) (input : List Char)
    (h : parseFrontmatter cs input = none) :
    pullMetaEvents (α := α) cs ext input =
      (((allBlocks ((lex cs input).length + 1) (lex cs input)).filter
          (fun b => b.head?.map (·.kind) == some .metaStart)).foldl
        (fun acc b => runMetaBlock cs ext b acc.1 acc.2) (#[], none)) := by
  unfold pullMetaEvents
  simp only [h]
  rw [C14_meta_blocks_eq]

/-- In the full parser only a block that starts with `>>` can contribute a metadata event: for any
    other block (step, text, section; any `old_style_metadata` flag) `parse_block` leaves the
    metadata events of the queue as they were. -/
theorem C14_other_blocks_make_no_metadata (cs : CharSpec) (ext : Ext) (o : Bool) (b : List Tok)
    (evs : Array (Ev α)) (p : Option String) (hb : b ≠ [])
    (hh : b.head?.map (·.kind) ≠ some .metaStart) :
    (runBlock (α := α) cs ext o b evs p).1.toList.filter Ev.isKey = evs.toList.filter Ev.isKey := by
  rw [runBlock_evs cs ext o b evs p hb]
  apply parseBlock_other_head
  cases b with
  | nil => contradiction
  | cons t r => simpa using hh

/-- On a `>>` block both parsers add the same metadata event (or none): the one `metadata_entry`
    parses from the block's tokens, independently of what is already in the queue. -/
theorem C14_meta_block_same_entry (cs : CharSpec) (ext : Ext) (b : List Tok)
    (evs evs' : Array (Ev α)) (p p' : Option String) (hb : b ≠ [])
    (hh : b.head?.map (·.kind) = some .metaStart) :
    ∃ new : List (Ev α),
      (runBlock (α := α) cs ext true b evs p).1.toList.filter Ev.isKey = evs.toList.filter Ev.isKey ++ new ∧
      (runMetaBlock (α := α) cs ext b evs' p').1.toList.filter Ev.isKey = evs'.toList.filter Ev.isKey ++ new := by
  refine ⟨newOf (entryOf (α := α) cs ext b), ?_, runMetaBlock_meta cs ext b evs' p' hb⟩
  have h := runBlock_meta cs ext b evs p hb
  have hm : isMetaBlock b = true := by
    cases b with
    | nil => contradiction
    | cons t r => simpa [isMetaBlock] using hh
  rw [hm] at h
  exact h

/-- `C14_agree` at the level of parser events, for EVERY input without front matter, every
    character table and every extension set: the `Metadata` (and front matter) events produced by the full
    `PullParser` are exactly the events produced by the metadata-only parser
    (`into_meta_iter`), same keys, same values, same spans, same order.  (What the analysis makes of
    them is the same code in both cases and is compared per run.) -/
theorem C14_metadata_events_agree (cs : CharSpec) (ext : Ext) (input : List Char)
    (h : parseFrontmatter cs input = none) :
    (pullEvents (α := α) cs ext input).1.toList.filter Ev.isKey =
    (pullMetaEvents (α := α) cs ext input).1.toList.filter Ev.isKey :=
  metadata_events_agree cs ext input h

/-- `C14_agree` for inputs WITHOUT front matter, for every environment (character table, extension
    set, converter, std-metadata checker): whenever both `parse` and `parse_metadata` have output,
    the metadata parts of the two results are equal — the `>>` metadata map (same keys, same values,
    same insertion order), the locations of the standard keys, the parsed servings, the spans of
    the deprecated old-style entries and the (absent) front matter.
    Missing for the full clause (hence `_partial`): inputs WITH front matter (there the
    metadata-only parser stops after the front-matter event while the full parser still processes
    `>> [config]: …` lines when the MODES extension is on; what is proved for that case is
    `C14_front_matter_same_event`). -/
theorem C14_agree_partial (env : Env) (input : Str) (h : parseFrontmatter env.cs input = none)
    (r1 r2 : Col α) (h1 : (parseRecipe (α := α) env input).output = some r1)
    (h2 : (parseMetadata (α := α) env input).output = some r2) :
    r1.metaMap = r2.metaMap ∧ r1.metaLocs = r2.metaLocs ∧ r1.servings = r2.servings ∧
    r1.oldStyleUsed = r2.oldStyleUsed ∧ r1.frontMatter = r2.frontMatter ∧ r1.oldStyle = r2.oldStyle := by
  have e := analysis_agree env input h r1 r2 h1 h2
  exact ⟨congrArg MS.metaMap e, congrArg MS.metaLocs e, congrArg MS.servings e,
    congrArg MS.oldStyleUsed e, congrArg MS.frontMatter e, congrArg MS.oldStyle e⟩

/-- the pieces of that proof, as statements about the collector: (1) an event that is neither
    `Metadata` nor front matter leaves the metadata part of the collector state untouched … -/
theorem C14_other_events_keep_metadata (env : Env) (input : Str) (ev : Ev α) (h : ev.isKey = false)
    (s : Col α) : ((processEvent env input ev s).2).ms = s.ms :=
  (pf_processEvent s.ms env input ev h).run s rfl

/-- … and (2) what a `Metadata` event does to the metadata part depends only on that part (not on
    the steps, ingredients, modes or diagnostics collected so far). -/
theorem C14_metadata_event_depends_on_metadata_only (env : Env) (k v : Text) (s s' : Col α)
    (h : s.ms = s'.ms) :
    ((processEvent (α := α) env [] (.metadata k v) s).2).ms = ((processEvent (α := α) env [] (.metadata k v) s').2).ms :=
  ((sm_metadataA env k v).run s s' h).2

/-! non-vacuity of "no front matter": an old-style metadata line followed by a step -/
example : parseFrontmatter ⟨fun c => c == ' ', fun _ => false, fun _ => true, fun c => c == ' ' || c == '\n', fun _ => true⟩
    ">> a: b\nx".toList = none := by decide

/-! the corner cases, on concrete streams (both sides computed):
    leading whitespace before `>>` (not metadata in either scanner); a `>>` line right after a
    step line without a blank line; a `>>` after an escaped newline (an `escaped` token is not a
    newline token); a last `>>` line without trailing newline -/
example :
    let ts : List Tok := [⟨.ws, [' '], 0⟩, ⟨.metaStart, ['>', '>'], 1⟩, ⟨.word, ['a'], 3⟩, ⟨.newline, ['\n'], 4⟩,
      ⟨.word, ['s'], 5⟩, ⟨.newline, ['\n'], 6⟩,
      ⟨.metaStart, ['>', '>'], 7⟩, ⟨.word, ['k'], 9⟩, ⟨.newline, ['\n'], 10⟩,
      ⟨.word, ['b'], 11⟩, ⟨.escaped, ['\\', '\n'], 12⟩, ⟨.metaStart, ['>', '>'], 14⟩, ⟨.newline, ['\n'], 16⟩,
      ⟨.metaStart, ['>', '>'], 17⟩, ⟨.word, ['z'], 19⟩]
    metaBlocks (ts.length + 1) .newline ts =
      [[⟨.metaStart, ['>', '>'], 7⟩, ⟨.word, ['k'], 9⟩], [⟨.metaStart, ['>', '>'], 17⟩, ⟨.word, ['z'], 19⟩]] ∧
    allBlocks (ts.length + 1) ts =
      [[⟨.ws, [' '], 0⟩, ⟨.metaStart, ['>', '>'], 1⟩, ⟨.word, ['a'], 3⟩, ⟨.newline, ['\n'], 4⟩, ⟨.word, ['s'], 5⟩],
       [⟨.metaStart, ['>', '>'], 7⟩, ⟨.word, ['k'], 9⟩],
       [⟨.word, ['b'], 11⟩, ⟨.escaped, ['\\', '\n'], 12⟩, ⟨.metaStart, ['>', '>'], 14⟩],
       [⟨.metaStart, ['>', '>'], 17⟩, ⟨.word, ['z'], 19⟩]] := by decide

end Cook
