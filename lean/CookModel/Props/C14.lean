import CookModel.Analysis.Collector
import CookModel.Lemmas.Blocks
import CookModel.Lemmas.MetaAgree
import CookModel.Lemmas.CollectorAgree
import CookModel.Lemmas.MetaFront
import CookModel.Lemmas.MetaDiagsParser
import CookModel.Lemmas.MetaDiagsFront
import CookModel.Lemmas.MetaFrontDiags
import CookModel.Lemmas.MetaAudit
import CookModel.Lemmas.FrontMatterDoc
import CookModel.Lemmas.MetaValidator
/-
  C14  Metadata-only parsing agrees with full parsing.

  Proved here, for every input, character table, extension set and environment:
  * token level (`C14_meta_blocks_eq`, no side condition): the slices the metadata-only scanner
    hands to `metadata_entry` are exactly the blocks of the full splitter that start with `>>`;
  * event level (`C14_metadata_events_agree`): without front matter the `Metadata` events of the
    full pull parser are exactly the events of the metadata-only parser — no other block parser
    ever emits a metadata event and `metadata_entry` does not depend on the event queue;
  * analysis level (`C14_agree_partial`): without front matter, whenever both analyses have output
    their metadata map, std-key locations, servings and old-style spans are equal — non-metadata
    events never touch that part of the collector, and a metadata event's effect on it depends only
    on it;
  * with front matter the metadata-only scanner emits exactly the front-matter event the full parser
    starts with (`C14_front_matter_same_event`, `C14_front_matter_split_same`); every other
    metadata-carrying event of the full parser is then a `[config]` entry under MODES
    (`C14_front_matter_only_config_entries`), which after front matter never touches the metadata
    (`C14_config_entry_keeps_metadata_after_front_matter`);
  * hence `C14_agree`, for EVERY input (with or without front matter), every character table,
    extension set and environment: whenever both analyses have output, the metadata parts are equal.
  (The YAML text of the front matter is carried by the event as a slice of the input; decoding it
  is `serde_yaml`, outside the model: both entry points hand the same slice at the same offset to
  the same collector code, in the same initial state.)
  * diagnostics: without front matter the analysis diagnostics about metadata (five kinds) are the
    same in both reports (`C14_metadata_diagnostics_agree_partial`); for every input the three
    kinds about `>>` values are (`C14_std_metadata_diagnostics_agree`); with front matter the
    `config-*` kinds differ by design (the metadata-only parser stops after the front matter);
  * PARSE-stage diagnostics about metadata lines (`metadata-invalid`, `empty-metadata-key`,
    `empty-metadata-value`): without front matter they are the same in both event streams and in
    both reports, interleaved the same way with the `Metadata` events, with NO hypothesis that the
    analyses have output (`C14_metadata_trace_agree`, `C14_parse_stage_metadata_diagnostics_agree`);
    only `metadata_entry` pushes them, the collector adds and drops no parse-stage diagnostic;
  * with front matter (`C14_front_matter_diagnostics`): the metadata-only report is empty, the
    metadata diagnostics of the full report are `config-*` ones only and none without MODES; the
    full parser still warns about `>>` lines of the body (`metadata-invalid`, …) although they are
    steps there — the reports differ exactly by what the full analysis says about the body.
-/
namespace Cook
variable {α : Type} [Arith α]

theorem mem_takeWhile_prop {β} (p : β → Bool) (l : List β) (x : β) (h : x ∈ l.takeWhile p) : p x = true := by
  induction l with
  | nil => simp at h
  | cons a t ih =>
    rw [List.takeWhile_cons] at h
    split at h
    · rename_i hp
      simp only [List.mem_cons] at h
      rcases h with rfl | h
      · exact hp
      · exact ih h
    · simp at h

theorem seekMeta_head (last : TK) (ts ts' : List Tok) (h : seekMeta last ts = some ts') :
    ∃ t rest, ts' = t :: rest ∧ t.kind = .metaStart := by
  induction ts generalizing last with
  | nil => simp [seekMeta] at h
  | cons t rest ih =>
    unfold seekMeta at h
    split at h
    · rename_i hc
      simp only [Option.some.injEq] at h
      simp only [Bool.and_eq_true, beq_iff_eq] at hc
      exact ⟨t, rest, h.symm, hc.2⟩
    · exact ih _ h

/-- every block of the metadata-only scanner is a `>>` line: starts with `>>`, has no newline -/
theorem C14_meta_blocks_are_meta_lines (fuel : Nat) (last : TK) (ts : List Tok) :
    ∀ b ∈ metaBlocks fuel last ts, (∃ t rest, b = t :: rest ∧ t.kind = .metaStart) ∧ ∀ t ∈ b, t.kind ≠ .newline := by
  induction fuel generalizing last ts with
  | zero => intro b hb; simp [metaBlocks] at hb
  | succ n ih =>
    intro b hb
    unfold metaBlocks at hb
    split at hb
    · simp at hb
    · rename_i ts' hs
      simp only [List.mem_cons] at hb
      rcases hb with rfl | hb
      · obtain ⟨t, rest, rfl, hk⟩ := seekMeta_head last ts ts' hs
        constructor
        · refine ⟨t, (rest.takeWhile (fun t => t.kind != .newline)), ?_, hk⟩
          simp [List.takeWhile_cons, hk]
        · intro x hx
          have := mem_takeWhile_prop _ _ _ hx
          simpa using this
      · exact ih _ _ b hb

/-- with front matter both scanners start from the same single front-matter event and the
    metadata-only one emits nothing else -/
theorem C14_front_matter_same_event (cs : CharSpec) (ext : Ext) (input : List Char) (fm : FrontMatter)
    (h : parseFrontmatter cs input = some fm) :
    (pullMetaEvents (α := α) cs ext input).1.size = 1 ∧
    (pullMetaEvents (α := α) cs ext input).2 = none := by
  unfold pullMetaEvents
  simp [h]

/-- `meta_blocks_eq`, for EVERY token list and with NO side condition: the sequence of token slices
    the metadata-only scanner (`next_metadata_block`) hands to `metadata_entry` is exactly the
    sequence of those blocks of the full splitter (`next_block`) whose first token is `>>`, in the
    same order.  (A `>>` at the start of a line is always its own single-line block in the full
    splitter; `>>` after leading whitespace, after an escaped newline or inside a line is in neither
    list; a `>>` line directly after a step line ends that step's block; the last line needs no
    newline.) -/
theorem C14_meta_blocks_eq (ts : List Tok) :
    metaBlocks (ts.length + 1) .newline ts =
    (allBlocks (ts.length + 1) ts).filter (fun b => b.head?.map (·.kind) == some .metaStart) := by
  have h := blocks_meta_eq ts.length ts (Nat.le_refl _)
  unfold metaBlocksOf at h
  rw [h]
  apply List.filter_congr
  intro b _
  unfold isMetaBlock
  cases b.head? with
  | none => rfl
  | some t => simp

/-- hence every block of the full splitter that starts with `>>` is one line without its newline:
    `parse_block` sees the same tokens for a metadata entry as `next_metadata_block` gives -/
theorem C14_full_splitter_meta_block_is_line (ts : List Tok) :
    ∀ b ∈ allBlocks (ts.length + 1) ts, b.head?.map (·.kind) = some .metaStart →
      (∀ t ∈ b, t.kind ≠ .newline) ∧ b ∈ metaBlocks (ts.length + 1) .newline ts := by
  intro b hb hh
  have hm : b ∈ metaBlocks (ts.length + 1) .newline ts := by
    rw [C14_meta_blocks_eq]
    exact List.mem_filter.2 ⟨hb, by simp [hh]⟩
  exact ⟨(C14_meta_blocks_are_meta_lines _ _ _ b hm).2, hm⟩

/-- without front matter the metadata-only parser runs `metadata_entry` over exactly the `>>`
    blocks of the full splitter on the same token stream -/
theorem C14_meta_scanner_runs_on_full_blocks (cs : CharSpec) (ext : Ext) (input : List Char)
    (h : parseFrontmatter cs input = none) :
    pullMetaEvents (α := α) cs ext input =
      (((allBlocks ((lex cs input).length + 1) (lex cs input)).filter
          (fun b => b.head?.map (·.kind) == some .metaStart)).foldl
        (fun acc b => runMetaBlock cs ext b acc.1 acc.2) (#[], none)) := by
  unfold pullMetaEvents
  simp only [h]
  rw [C14_meta_blocks_eq]

/-- In the full parser only a block that starts with `>>` can contribute a metadata event: for any
    other block (step, text, section; any `old_style_metadata` flag) `parse_block` leaves the
    metadata events of the queue as they were. -/
theorem C14_other_blocks_make_no_metadata (cs : CharSpec) (ext : Ext) (o : Bool) (b : List Tok)
    (evs : Array (Ev α)) (p : Option String) (hb : b ≠ [])
    (hh : b.head?.map (·.kind) ≠ some .metaStart) :
    (runBlock (α := α) cs ext o b evs p).1.toList.filter Ev.isKey = evs.toList.filter Ev.isKey := by
  rw [runBlock_evs cs ext o b evs p hb]
  apply parseBlock_other_head
  cases b with
  | nil => contradiction
  | cons t r => simpa using hh

/-- On a `>>` block both parsers add the same metadata event (or none): the one `metadata_entry`
    parses from the block's tokens, independently of what is already in the queue. -/
theorem C14_meta_block_same_entry (cs : CharSpec) (ext : Ext) (b : List Tok)
    (evs evs' : Array (Ev α)) (p p' : Option String) (hb : b ≠ [])
    (hh : b.head?.map (·.kind) = some .metaStart) :
    ∃ new : List (Ev α),
      (runBlock (α := α) cs ext true b evs p).1.toList.filter Ev.isKey = evs.toList.filter Ev.isKey ++ new ∧
      (runMetaBlock (α := α) cs ext b evs' p').1.toList.filter Ev.isKey = evs'.toList.filter Ev.isKey ++ new := by
  refine ⟨newOf (entryOf (α := α) cs ext b), ?_, runMetaBlock_meta cs ext b evs' p' hb⟩
  have h := runBlock_meta cs ext b evs p hb
  have hm : isMetaBlock b = true := by
    cases b with
    | nil => contradiction
    | cons t r => simpa [isMetaBlock] using hh
  rw [hm] at h
  exact h

/-- `C14_agree` at the level of parser events, for EVERY input without front matter, every
    character table and every extension set: the `Metadata` (and front matter) events produced by the full
    `PullParser` are exactly the events produced by the metadata-only parser
    (`into_meta_iter`), same keys, same values, same spans, same order.  (What the analysis makes of
    them is the same code in both cases and is compared per run.) -/
theorem C14_metadata_events_agree (cs : CharSpec) (ext : Ext) (input : List Char)
    (h : parseFrontmatter cs input = none) :
    (pullEvents (α := α) cs ext input).1.toList.filter Ev.isKey =
    (pullMetaEvents (α := α) cs ext input).1.toList.filter Ev.isKey :=
  metadata_events_agree cs ext input h

/-- `C14_agree` for inputs WITHOUT front matter, for every environment (character table, extension
    set, converter, std-metadata checker): whenever both `parse` and `parse_metadata` have output,
    the metadata parts of the two results are equal — the `>>` metadata map (same keys, same values,
    same insertion order), the locations of the standard keys, the parsed servings, the spans of
    the deprecated old-style entries and the (absent) front matter.
    Missing for the full clause (hence `_partial`): inputs WITH front matter (there the
    metadata-only parser stops after the front-matter event while the full parser still processes
    `>> [config]: …` lines when the MODES extension is on; what is proved for that case is
    `C14_front_matter_same_event`).  The full clause is `C14_agree` below. -/
theorem C14_agree_partial (env : Env) (input : Str) (h : parseFrontmatter env.cs input = none)
    (r1 r2 : Col α) (h1 : (parseRecipe (α := α) env input).output = some r1)
    (h2 : (parseMetadata (α := α) env input).output = some r2) :
    r1.metaMap = r2.metaMap ∧ r1.metaLocs = r2.metaLocs ∧ r1.servings = r2.servings ∧
    r1.oldStyleUsed = r2.oldStyleUsed ∧ r1.frontMatter = r2.frontMatter ∧ r1.oldStyle = r2.oldStyle := by
  have e := analysis_agree env input h r1 r2 h1 h2
  exact ⟨congrArg MS.metaMap e, congrArg MS.metaLocs e, congrArg MS.servings e,
    congrArg MS.oldStyleUsed e, congrArg MS.frontMatter e, congrArg MS.oldStyle e⟩

/-- the pieces of that proof, as statements about the collector: (1) an event that is neither
    `Metadata` nor front matter leaves the metadata part of the collector state untouched … -/
theorem C14_other_events_keep_metadata (env : Env) (input : Str) (ev : Ev α) (h : ev.isKey = false)
    (s : Col α) : ((processEvent env input ev s).2).ms = s.ms :=
  (pf_processEvent s.ms env input ev h).run s rfl

/-- … and (2) what a `Metadata` event does to the metadata part depends only on that part (not on
    the steps, ingredients, modes or diagnostics collected so far). -/
theorem C14_metadata_event_depends_on_metadata_only (env : Env) (k v : Text) (s s' : Col α)
    (h : s.ms = s'.ms) :
    ((processEvent (α := α) env [] (.metadata k v) s).2).ms = ((processEvent (α := α) env [] (.metadata k v) s').2).ms :=
  ((sm_metadataA env k v).run s s' h).2

/-- (1) Both entry points split the front matter identically: when `parse_frontmatter` finds a
    front-matter block, the metadata-only parser emits exactly one event, the front-matter event
    with the YAML slice at its offset, and the metadata-carrying events of the full parser start
    with that very event (same text, same offset); the full parser goes on with the rest of the
    input, lexed from `cookOffset`. -/
theorem C14_front_matter_split_same (cs : CharSpec) (ext : Ext) (input : List Char) (fm : FrontMatter)
    (h : parseFrontmatter cs input = some fm) :
    (pullMetaEvents (α := α) cs ext input).1.toList = [.frontMatter (Text.fromStr fm.yamlText fm.yamlOffset)] ∧
    ((pullEvents (α := α) cs ext input).1.toList.filter Ev.isKey).head? =
      some (.frontMatter (Text.fromStr fm.yamlText fm.yamlOffset)) := by
  refine ⟨mfront_pullMetaEvents cs ext input fm h, ?_⟩
  obtain ⟨L, e, _⟩ := mfront_pullEvents (α := α) cs ext input fm h
  unfold metaOf at e
  rw [e]; rfl

/-- (1, continued) After the split the full parser is the ordinary block loop, with
    `old_style_metadata = false`, over the tokens of the cooklang part lexed at `cookOffset`,
    started with the front-matter event in the queue.  (That `cookText`/`yamlText` are the input
    slices at `cookOffset`/`yamlOffset` is `C04_frontmatter_offsets`, `C04_frontmatter_yaml_slice`.) -/
theorem C14_full_parser_after_front_matter (cs : CharSpec) (ext : Ext) (input : List Char) (fm : FrontMatter)
    (h : parseFrontmatter cs input = some fm) :
    pullEvents (α := α) cs ext input =
      (allBlocks ((lexFrom cs fm.cookOffset fm.cookText).length + 1) (lexFrom cs fm.cookOffset fm.cookText)).foldl
        (fun acc b => runBlock cs ext false b acc.1 acc.2)
        (#[.frontMatter (Text.fromStr fm.yamlText fm.yamlOffset)], none) := by
  unfold pullEvents
  simp only [h]

/-- (2a) With front matter the full parser runs every block with `old_style_metadata = false`:
    besides the front-matter event, the only metadata-carrying events it emits are `>> [key]: value`
    config entries, and those only when the MODES extension is on.  (Ordinary `>>` lines are parsed
    as steps/text.) -/
theorem C14_front_matter_only_config_entries (cs : CharSpec) (ext : Ext) (input : List Char) (fm : FrontMatter)
    (h : parseFrontmatter cs input = some fm) :
    ∃ L, (pullEvents (α := α) cs ext input).1.toList.filter Ev.isKey =
        .frontMatter (Text.fromStr fm.yamlText fm.yamlOffset) :: L ∧
      ∀ ev ∈ L, ∃ k v, ev = .metadata k v ∧ isConfigKey cs k = true ∧ ext.has Gen.EXT_MODES = true :=
  mfront_pullEvents cs ext input fm h

/-- (2b) Once the front-matter event is processed (`old_style_metadata = false`), a config entry
    under MODES leaves the metadata part of the collector untouched: it switches a mode, or reports
    `config-invalid-value` / `config-unknown-key`; the unknown key is NOT inserted in the map. -/
theorem C14_config_entry_keeps_metadata_after_front_matter (env : Env) (input : Str) (k v : Text)
    (hk : isConfigKey env.cs k = true) (hx : env.ext.has Gen.EXT_MODES = true)
    (s : Col α) (ho : s.oldStyle = false) :
    ((processEvent env input (.metadata k v) s).2).ms = s.ms :=
  (pf_metadataA_cfg (α := α) s.ms ho env k v hk hx).run s rfl

/-- With front matter, whenever the full parse has output, its `>>`-metadata is empty: the map,
    the std-key locations, the servings and the old-style spans are the initial ones, and the front
    matter recorded is the YAML slice of the split.  (`>>` lines after front matter never become
    metadata, under any extension set.) -/
theorem C14_front_matter_full_metadata (env : Env) (input : Str) (fm : FrontMatter)
    (h : parseFrontmatter env.cs input = some fm) (r1 : Col α)
    (h1 : (parseRecipe (α := α) env input).output = some r1) :
    r1.metaMap = [] ∧ r1.metaLocs = [] ∧ r1.servings = none ∧ r1.oldStyleUsed = [] ∧
    r1.frontMatter = some (Text.fromStr fm.yamlText fm.yamlOffset) ∧ r1.oldStyle = false := by
  have e := analysis_front_full env input fm h r1 h1
  exact ⟨congrArg MS.metaMap e, congrArg MS.metaLocs e, congrArg MS.servings e,
    congrArg MS.oldStyleUsed e, congrArg MS.frontMatter e, congrArg MS.oldStyle e⟩

/-- With front matter `parse_metadata` always has output (its only event is the front-matter
    event; no parse error can occur), with the same metadata part as above. -/
theorem C14_front_matter_meta_only_has_output (env : Env) (input : Str) (fm : FrontMatter)
    (h : parseFrontmatter env.cs input = some fm) :
    ∃ r2 : Col α, (parseMetadata (α := α) env input).output = some r2 ∧
      r2.metaMap = [] ∧ r2.metaLocs = [] ∧ r2.servings = none ∧ r2.oldStyleUsed = [] ∧
      r2.frontMatter = some (Text.fromStr fm.yamlText fm.yamlOffset) ∧ r2.oldStyle = false := by
  obtain ⟨r2, e2, e⟩ := analysis_front_meta (α := α) env input fm h
  exact ⟨r2, e2, congrArg MS.metaMap e, congrArg MS.metaLocs e, congrArg MS.servings e,
    congrArg MS.oldStyleUsed e, congrArg MS.frontMatter e, congrArg MS.oldStyle e⟩

/-- **`C14_agree`**, full clause: for EVERY input — with or without a YAML front-matter block —
    every character table, extension set, converter and std-metadata checker: whenever both `parse`
    and `parse_metadata` have output, the metadata parts of the two results are equal: the `>>`
    metadata map (same keys, values, insertion order), the locations of the standard keys, the
    parsed servings, the spans of the deprecated old-style entries, the front-matter slice handed
    to the YAML decoder (text and offset) and the `old_style_metadata` flag.
    The content of the YAML block is not interpreted by the model (`serde_yaml` is external): what
    is proved is that both entry points give the decoder the same slice, from the same collector
    state; whatever function of that slice the decoder computes is therefore the same in both. -/
theorem C14_agree (env : Env) (input : Str)
    (r1 r2 : Col α) (h1 : (parseRecipe (α := α) env input).output = some r1)
    (h2 : (parseMetadata (α := α) env input).output = some r2) :
    r1.metaMap = r2.metaMap ∧ r1.metaLocs = r2.metaLocs ∧ r1.servings = r2.servings ∧
    r1.oldStyleUsed = r2.oldStyleUsed ∧ r1.frontMatter = r2.frontMatter ∧ r1.oldStyle = r2.oldStyle := by
  have e := analysis_agree_all env input r1 r2 h1 h2
  exact ⟨congrArg MS.metaMap e, congrArg MS.metaLocs e, congrArg MS.servings e,
    congrArg MS.oldStyleUsed e, congrArg MS.frontMatter e, congrArg MS.oldStyle e⟩

/-- The DIAGNOSTICS about metadata agree as well, for inputs without front matter: whenever both
    `parse` and `parse_metadata` have output, the analysis-stage diagnostics of the kinds
    `config-invalid-value`, `config-unknown-key`, `std-unsupported-value`, `time-overridden` and
    `meta-deprecated` are the same in both reports — same severity, same labels, same order
    (`Diag.isMeta` is that filter).  Ingredients: no other event of the full parser makes the
    collector emit a diagnostic of these kinds (frame sweep over the collector, `pd_processEvent`),
    every warning event of either parser is a parse-stage diagnostic (`pullEvents_warnOK`), and the
    diagnostics a `Metadata` event causes depend only on the metadata collected so far
    (`sd_metadataA`).
    Partial: inputs WITH front matter are not covered, and cannot be for the two `config-*` kinds:
    there the full parser still reports them for `>> [key]: value` lines under MODES, which the
    metadata-only parser never sees.  The other three kinds agree for every input:
    `C14_std_metadata_diagnostics_agree`. -/
theorem C14_metadata_diagnostics_agree_partial (env : Env) (input : Str)
    (h : parseFrontmatter env.cs input = none)
    (r1 r2 : Col α) (h1 : (parseRecipe (α := α) env input).output = some r1)
    (h2 : (parseMetadata (α := α) env input).output = some r2) :
    r1.diags.toList.filter Diag.isMeta = r2.diags.toList.filter Diag.isMeta :=
  congrArg MD.ds (analysis_agree_md env input h r1 r2 h1 h2)

/-- For EVERY input (with or without front matter), every extension set and environment: whenever
    both `parse` and `parse_metadata` have output, the analysis diagnostics about `>>` metadata
    VALUES — `std-unsupported-value`, `time-overridden`, `meta-deprecated` (`Diag.isStdMeta`) —
    are the same in both reports (severity, labels, order).  Without front matter this is a part of
    `C14_metadata_diagnostics_agree_partial`; with front matter neither analysis reports one for a
    `>>` line (`C14_front_matter_no_std_diagnostics`), the config entries the full parser still
    processes report `config-*` kinds only.  (Diagnostics about the CONTENT of the YAML block come
    from `serde_yaml`/`check_std_entry` on the decoded mapping, outside the model; both entry
    points run that on the same slice from the same state.) -/
theorem C14_std_metadata_diagnostics_agree (env : Env) (input : Str)
    (r1 r2 : Col α) (h1 : (parseRecipe (α := α) env input).output = some r1)
    (h2 : (parseMetadata (α := α) env input).output = some r2) :
    r1.diags.toList.filter Diag.isStdMeta = r2.diags.toList.filter Diag.isStdMeta :=
  congrArg Prod.snd (analysis_agree_sd env input r1 r2 h1 h2)

/-- with front matter, the full analysis reports no `std-unsupported-value`, `time-overridden` or
    `meta-deprecated` diagnostic for any `>>` line -/
theorem C14_front_matter_no_std_diagnostics (env : Env) (input : Str) (fm : FrontMatter)
    (h : parseFrontmatter env.cs input = some fm) (r1 : Col α)
    (h1 : (parseRecipe (α := α) env input).output = some r1) :
    r1.diags.toList.filter Diag.isStdMeta = [] :=
  congrArg Prod.snd (analysis_front_full_sd env input fm h r1 h1)

/-- the pieces, as statements about the collector: (1) an event that is neither `Metadata` nor front
    matter (a parser warning being a parse-stage diagnostic) adds no metadata diagnostic … -/
theorem C14_other_events_add_no_metadata_diagnostic (env : Env) (input : Str) (ev : Ev α)
    (h : ev.isKey = false) (hw : ∀ d, ev = .warning d → d.stage = .parse) (s : Col α) :
    ((processEvent env input ev s).2).diags.toList.filter Diag.isMeta = s.diags.toList.filter Diag.isMeta :=
  congrArg MD.ds ((pd_processEvent s.md env input ev h hw).run s rfl)

/-- … (2) every warning event of the full parser and of the metadata-only parser carries a
    parse-stage diagnostic … -/
theorem C14_parser_warnings_are_parse_stage (cs : CharSpec) (ext : Ext) (input : List Char) (d : Diag) :
    (Ev.warning d ∈ (pullEvents (α := α) cs ext input).1.toList → d.stage = .parse) ∧
    (Ev.warning d ∈ (pullMetaEvents (α := α) cs ext input).1.toList → d.stage = .parse) :=
  ⟨fun h => pullEvents_warnOK cs ext input _ h d rfl, fun h => pullMetaEvents_warnOK cs ext input _ h d rfl⟩

/-- … and (3) the metadata diagnostics a `Metadata` event adds depend only on the metadata part of
    the collector and the metadata diagnostics so far. -/
theorem C14_metadata_event_diagnostics_depend_on_metadata_only (env : Env) (k v : Text) (s s' : Col α)
    (h : s.ms = s'.ms)
    (hd : s.diags.toList.filter Diag.isMeta = s'.diags.toList.filter Diag.isMeta) :
    ((processEvent (α := α) env [] (.metadata k v) s).2).diags.toList.filter Diag.isMeta =
    ((processEvent (α := α) env [] (.metadata k v) s').2).diags.toList.filter Diag.isMeta := by
  have hmd : s.md = s'.md := by simp only [Col.md, h, hd]
  exact congrArg MD.ds ((sd_metadataA env k v).run s s' hmd).2

/-! the filter is not trivial: it keeps the metadata kinds and drops the others and parse-stage ones -/
example : Diag.isMeta ⟨.warning, .analysis, "meta-deprecated", [⟨0, 7⟩]⟩ = true ∧
    Diag.isMeta ⟨.warning, .analysis, "std-unsupported-value", []⟩ = true ∧
    Diag.isMeta ⟨.warning, .analysis, "redundant-new", []⟩ = false ∧
    Diag.isMeta ⟨.warning, .parse, "empty-metadata-value", []⟩ = false := by decide
example : Diag.isStdMeta ⟨.warning, .analysis, "time-overridden", [⟨0, 7⟩]⟩ = true ∧
    Diag.isStdMeta ⟨.warning, .analysis, "config-unknown-key", []⟩ = false := by decide

/-! non-vacuity of the front-matter case.  (`lexFrom` is defined by well-founded recursion, so whole
    inputs with a non-empty cooklang part do not reduce by `rfl`; the pieces do.) -/
def C14_exCs : CharSpec :=
  ⟨fun c => c == ' ', fun _ => false, fun c => c == 'x', fun c => c == ' ' || c == '\n', fun c => c == 'x'⟩
def C14_exEnv : Env := ⟨C14_exCs, ⟨Gen.EXT_MODES⟩, fun _ => none, fun _ _ => .ok, fun c => [c], 0⟩

/-- an input with front matter (also after a blank line), the split and its offsets -/
example : parseFrontmatter C14_exCs "\n---\na: 1\n---\n>> [mode]: steps\n".toList =
    some ⟨"a: 1\n".toList, 5, ">> [mode]: steps\n".toList, 14⟩ := by rfl

/-- both analyses have output on an input with front matter (so the hypotheses of `C14_agree` are
    satisfiable in the front-matter case) -/
example : (parseRecipe (α := Rat) C14_exEnv "---\na: 1\n---\n".toList).output.isSome = true ∧
    (parseMetadata (α := Rat) C14_exEnv "---\na: 1\n---\n".toList).output.isSome = true := by
  have h : parseFrontmatter C14_exCs "---\na: 1\n---\n".toList = some ⟨"a: 1\n".toList, 4, [], 13⟩ := by rfl
  have hl : ∀ off, lexFrom C14_exCs off [] = [] := by intro off; unfold lexFrom; rfl
  constructor
  · unfold parseRecipe pullEvents
    simp only [C14_exEnv, h, hl]
    rfl
  · obtain ⟨r2, e, _⟩ := C14_front_matter_meta_only_has_output (α := Rat) C14_exEnv _ _ h
    rw [e]; rfl

/-- the block `>> [m]: s` after front matter (`old_style_metadata = false`): with MODES the full
    parser emits one `Metadata` event for it, a config entry; without MODES it is a step
    (start, text, end) and no metadata event at all -/
def C14_exToks : List Tok :=
  [⟨.metaStart, ['>', '>'], 13⟩, ⟨.ws, [' '], 15⟩, ⟨.punct, ['['], 16⟩, ⟨.word, ['m'], 17⟩, ⟨.punct, [']'], 18⟩,
   ⟨.colon, [':'], 19⟩, ⟨.ws, [' '], 20⟩, ⟨.word, ['s'], 21⟩]
example : (runBlock (α := Rat) C14_exCs ⟨Gen.EXT_MODES⟩ false C14_exToks #[] none).1.toList.map Ev.isKey = [true] := by rfl
example : (runBlock (α := Rat) C14_exCs ⟨0⟩ false C14_exToks #[] none).1.toList.map Ev.isKey = [false, false, false] := by rfl
example : isConfigKey C14_exCs (Text.fromStr " [m]".toList 15) = true ∧ (Ext.mk Gen.EXT_MODES).has Gen.EXT_MODES = true :=
  ⟨by rfl, by decide⟩

/-! non-vacuity of "no front matter": an old-style metadata line followed by a step -/
example : parseFrontmatter ⟨fun c => c == ' ', fun _ => false, fun _ => true, fun c => c == ' ' || c == '\n', fun _ => true⟩
    ">> a: b\nx".toList = none := by decide

/-! the corner cases, on concrete streams (both sides computed):
    leading whitespace before `>>` (not metadata in either scanner); a `>>` line right after a
    step line without a blank line; a `>>` after an escaped newline (an `escaped` token is not a
    newline token); a last `>>` line without trailing newline -/
example :
    let ts : List Tok := [⟨.ws, [' '], 0⟩, ⟨.metaStart, ['>', '>'], 1⟩, ⟨.word, ['a'], 3⟩, ⟨.newline, ['\n'], 4⟩,
      ⟨.word, ['s'], 5⟩, ⟨.newline, ['\n'], 6⟩,
      ⟨.metaStart, ['>', '>'], 7⟩, ⟨.word, ['k'], 9⟩, ⟨.newline, ['\n'], 10⟩,
      ⟨.word, ['b'], 11⟩, ⟨.escaped, ['\\', '\n'], 12⟩, ⟨.metaStart, ['>', '>'], 14⟩, ⟨.newline, ['\n'], 16⟩,
      ⟨.metaStart, ['>', '>'], 17⟩, ⟨.word, ['z'], 19⟩]
    metaBlocks (ts.length + 1) .newline ts =
      [[⟨.metaStart, ['>', '>'], 7⟩, ⟨.word, ['k'], 9⟩], [⟨.metaStart, ['>', '>'], 17⟩, ⟨.word, ['z'], 19⟩]] ∧
    allBlocks (ts.length + 1) ts =
      [[⟨.ws, [' '], 0⟩, ⟨.metaStart, ['>', '>'], 1⟩, ⟨.word, ['a'], 3⟩, ⟨.newline, ['\n'], 4⟩, ⟨.word, ['s'], 5⟩],
       [⟨.metaStart, ['>', '>'], 7⟩, ⟨.word, ['k'], 9⟩],
       [⟨.word, ['b'], 11⟩, ⟨.escaped, ['\\', '\n'], 12⟩, ⟨.metaStart, ['>', '>'], 14⟩],
       [⟨.metaStart, ['>', '>'], 17⟩, ⟨.word, ['z'], 19⟩]] := by decide

/-! ## parse-stage diagnostics about metadata lines -/

/-- The METADATA TRACE agrees, for EVERY input without front matter, every character table and
    extension set: the sequence made of the `Metadata` events AND the error/warning events of the
    kinds `metadata-invalid`, `empty-metadata-key`, `empty-metadata-value` (`Ev.isTrace`) is the same
    in the event stream of the full `PullParser` and in the one of the metadata-only parser — same
    events, same diagnostics (severity, labels), same interleaving.  Strengthens
    `C14_metadata_events_agree`.  Ingredients: no block parser other than `metadata_entry` pushes an
    event of the trace (third sweep over the block parsers; kinds built by string interpolation and
    the errors of the number reader included), what `metadata_entry` pushes depends only on the
    block, and a `>>` block for which `metadata_entry` fails is re-parsed as a step, which adds
    nothing to the trace. -/
theorem C14_metadata_trace_agree (cs : CharSpec) (ext : Ext) (input : List Char)
    (h : parseFrontmatter cs input = none) :
    (pullEvents (α := α) cs ext input).1.toList.filter Ev.isTrace =
    (pullMetaEvents (α := α) cs ext input).1.toList.filter Ev.isTrace :=
  metadata_trace_agree cs ext input h

/-- **Parse-stage metadata diagnostics agree**, for EVERY input without front matter and every
    environment: the parse-stage diagnostics of the kinds `metadata-invalid`, `empty-metadata-key`
    and `empty-metadata-value` (`Diag.isParseMeta`) are the same — severity, labels, order —
    (1) in the error/warning events of `PullParser` and of the metadata-only parser, and
    (2) in the reports of `parse` and `parse_metadata`.  No hypothesis that the analyses have output:
    `empty-metadata-key` is an error, after which neither has; the reports then keep the parse-stage
    diagnostics, and these agree as well. -/
theorem C14_parse_stage_metadata_diagnostics_agree (env : Env) (input : Str)
    (h : parseFrontmatter env.cs input = none) :
    ((pullEvents (α := α) env.cs env.ext input).1.toList.filterMap isDiagEv).filter Diag.isParseMeta =
      ((pullMetaEvents (α := α) env.cs env.ext input).1.toList.filterMap isDiagEv).filter Diag.isParseMeta ∧
    (parseRecipe (α := α) env input).diags.toList.filter Diag.isParseMeta =
      (parseMetadata (α := α) env input).diags.toList.filter Diag.isParseMeta :=
  ⟨events_parse_meta_agree env.cs env.ext input h, report_parse_meta_agree env input h⟩

/-- the pieces: (1) a block that does not start with `>>` (step, text, section; any
    `old_style_metadata` flag) adds nothing to the metadata trace — in particular no diagnostic of
    the three kinds … -/
theorem C14_other_blocks_add_no_metadata_diagnostic (cs : CharSpec) (ext : Ext) (o : Bool) (b : List Tok)
    (evs : Array (Ev α)) (p : Option String) (hb : b ≠ [])
    (hh : b.head?.map (·.kind) ≠ some .metaStart) :
    (runBlock (α := α) cs ext o b evs p).1.toList.filter Ev.isTrace = evs.toList.filter Ev.isTrace := by
  rw [runBlock_evs cs ext o b evs p hb]
  apply parseBlock_other_head_trace
  cases b with
  | nil => contradiction
  | cons t r => simpa using hh

/-- … (2) on a `>>` block both parsers add the same thing to the trace, a function of the block alone
    (`entryTrace`: the metadata diagnostics `metadata_entry` pushes, then its entry if it parsed one),
    whatever is already in the queue; when `metadata_entry` fails the full parser parses the block
    again as a step, which adds nothing to the trace … -/
theorem C14_meta_block_same_trace (cs : CharSpec) (ext : Ext) (b : List Tok)
    (evs evs' : Array (Ev α)) (p p' : Option String) (hb : b ≠ [])
    (hh : b.head?.map (·.kind) = some .metaStart) :
    (runBlock (α := α) cs ext true b evs p).1.toList.filter Ev.isTrace =
      evs.toList.filter Ev.isTrace ++ entryTrace (α := α) cs ext b ∧
    (runMetaBlock (α := α) cs ext b evs' p').1.toList.filter Ev.isTrace =
      evs'.toList.filter Ev.isTrace ++ entryTrace (α := α) cs ext b := by
  refine ⟨?_, runMetaBlock_trace cs ext b evs' p' hb⟩
  have h := runBlock_trace cs ext b evs p hb
  have hm : isMetaBlock b = true := by
    cases b with
    | nil => contradiction
    | cons t r => simpa [isMetaBlock] using hh
  rw [hm] at h
  exact h

/-- … and (3) for ANY event list, whether or not the analysis has output: the parse-stage diagnostics
    of the report of `parse_events` are exactly the parse-stage diagnostics carried by the
    error/warning events, in order — the collector adds no parse-stage diagnostic of its own (fourth
    frame sweep over the collector) and drops none, also when a parse error cuts the run short. -/
theorem C14_report_parse_stage_diagnostics_are_the_events (env : Env) (input : Str) (l : List (Ev α)) :
    (parseEvents env input l).diags.toList.filter (fun d => d.stage == .parse) =
      (l.filterMap isDiagEv).filter (fun d => d.stage == .parse) :=
  parseEvents_parse_diags env input l

/-- **Diagnostics WITH front matter**, precisely.  For every input with a front-matter block, every
    extension set and environment:
    (a) the report of `parse_metadata` is EMPTY (no diagnostic, no panic) and it has output: its only
        event is the front-matter event;
    (b) whenever `parse` has output, the metadata diagnostics of its report (`Diag.isMeta`, five
        kinds) are exactly its `config-invalid-value` / `config-unknown-key` diagnostics
        (`Diag.isCfg`): none of `std-unsupported-value`, `time-overridden`, `meta-deprecated`;
    (c) without the MODES extension it has no metadata diagnostic at all, so the analysis
        diagnostics about metadata agree (both empty);
    so the two reports differ by exactly what the full analysis says about the cooklang BODY: under
    MODES the `config-*` diagnostics of `>> [key]: value` lines (see the example below, where they do
    differ), and the parse-stage diagnostics of the body, among them `metadata-invalid` /
    `empty-metadata-value` warnings for `>>` lines that are steps there (`metadata_entry` is tried
    first and its warnings stay when it backtracks).  Diagnostics about the CONTENT of the YAML
    block come from `serde_yaml` / the std-key checks on the decoded mapping, outside the model. -/
theorem C14_front_matter_diagnostics (env : Env) (input : Str) (fm : FrontMatter)
    (h : parseFrontmatter env.cs input = some fm) :
    ((parseMetadata (α := α) env input).diags = #[] ∧ (parseMetadata (α := α) env input).panic = none ∧
      (parseMetadata (α := α) env input).output.isSome = true) ∧
    ∀ r1 : Col α, (parseRecipe (α := α) env input).output = some r1 →
      r1.diags.toList.filter Diag.isMeta = r1.diags.toList.filter Diag.isCfg ∧
      r1.diags.toList.filter Diag.isStdMeta = [] ∧
      (env.ext.has Gen.EXT_MODES = false → r1.diags.toList.filter Diag.isMeta = []) := by
  refine ⟨⟨(front_meta_report env input fm h).1, (front_meta_report env input fm h).2, ?_⟩, ?_⟩
  · obtain ⟨r2, e, _⟩ := analysis_front_meta (α := α) env input fm h
    rw [e]; rfl
  · intro r1 h1
    exact ⟨front_full_meta_is_cfg env input fm h r1 h1,
      congrArg Prod.snd (analysis_front_full_sd env input fm h r1 h1),
      fun hm => front_full_no_modes env input fm h hm r1 h1⟩

/-- hence, with front matter and without MODES, the analysis diagnostics about metadata agree
    whenever both analyses have output (with MODES they do not, see the example) -/
theorem C14_front_matter_no_modes_diagnostics_agree (env : Env) (input : Str) (fm : FrontMatter)
    (h : parseFrontmatter env.cs input = some fm) (hm : env.ext.has Gen.EXT_MODES = false)
    (r1 r2 : Col α) (h1 : (parseRecipe (α := α) env input).output = some r1)
    (h2 : (parseMetadata (α := α) env input).output = some r2) :
    r1.diags.toList.filter Diag.isMeta = r2.diags.toList.filter Diag.isMeta := by
  rw [front_full_no_modes env input fm h hm r1 h1, front_meta_output_diags env input fm h r2 h2]
  rfl

/-- Summary for EVERY input, with or without front matter: the metadata-only report never says
    anything about metadata that the full report does not say.  Its parse-stage metadata diagnostics
    are a sublist of those of the full report (equal without front matter, empty with), and whenever
    both analyses have output so are its analysis diagnostics about metadata. -/
theorem C14_metadata_only_diagnostics_included (env : Env) (input : Str) :
    List.Sublist ((parseMetadata (α := α) env input).diags.toList.filter Diag.isParseMeta)
      ((parseRecipe (α := α) env input).diags.toList.filter Diag.isParseMeta) ∧
    ∀ r1 r2 : Col α, (parseRecipe (α := α) env input).output = some r1 →
      (parseMetadata (α := α) env input).output = some r2 →
      List.Sublist (r2.diags.toList.filter Diag.isMeta) (r1.diags.toList.filter Diag.isMeta) := by
  cases h : parseFrontmatter env.cs input with
  | none =>
    refine ⟨by rw [report_parse_meta_agree env input h]; exact List.Sublist.refl _, ?_⟩
    intro r1 r2 h1 h2
    rw [C14_metadata_diagnostics_agree_partial env input h r1 r2 h1 h2]
    exact List.Sublist.refl _
  | some fm =>
    refine ⟨by rw [(front_meta_report env input fm h).1]; exact List.nil_sublist _, ?_⟩
    intro r1 r2 h1 h2
    rw [front_meta_output_diags env input fm h r2 h2]
    exact List.nil_sublist _

/-! the filters are not trivial -/
example : Diag.isParseMeta ⟨.warning, .parse, "metadata-invalid", [⟨0, 4⟩]⟩ = true ∧
    Diag.isParseMeta ⟨.error, .parse, "empty-metadata-key", []⟩ = true ∧
    Diag.isParseMeta ⟨.warning, .parse, "empty-metadata-value", []⟩ = true ∧
    Diag.isParseMeta ⟨.warning, .parse, "section-invalid", []⟩ = false ∧
    Diag.isParseMeta ⟨.warning, .analysis, "meta-deprecated", []⟩ = false := by decide
example : Diag.isCfg ⟨.error, .analysis, "config-invalid-value", []⟩ = true ∧
    Diag.isCfg ⟨.warning, .analysis, "time-overridden", []⟩ = false := by decide

/-! WHOLE-INPUT examples with a non-empty cooklang text.  `lexFrom` is defined by well-founded
    recursion and does not reduce; `lexFuel` is its structurally recursive twin
    (`lexFrom_eq_fuel`), which does.  The closed terms are evaluated by the kernel (`decide +kernel`):
    the elaborator's `rfl`/`decide` needs minutes and gigabytes on them. -/

/-- front matter, then a `[mode]` entry with a bad value and a step; MODES on: both analyses have
    output (the hypotheses of `C14_agree` / `C14_front_matter_diagnostics` hold on an input with a
    cooklang body), the full report is exactly one `config-invalid-value`, the metadata-only report
    is empty — the `config-*` diagnostics DO differ -/
def C14_exInput : List Char := "---\na: 1\n---\n>> [mode]: x\nx\n".toList

example : parseFrontmatter C14_exCs C14_exInput = some ⟨"a: 1\n".toList, 4, ">> [mode]: x\nx\n".toList, 13⟩ ∧
    ((parseRecipe (α := Rat) C14_exEnv C14_exInput).output.isSome = true ∧
     (parseRecipe (α := Rat) C14_exEnv C14_exInput).diags.toList.map (·.kind) = ["config-invalid-value"]) ∧
    (parseMetadata (α := Rat) C14_exEnv C14_exInput).output.isSome = true ∧
    (parseMetadata (α := Rat) C14_exEnv C14_exInput).diags = #[] := by
  have h : parseFrontmatter C14_exCs C14_exInput =
      some ⟨"a: 1\n".toList, 4, ">> [mode]: x\nx\n".toList, 13⟩ := by rfl
  have hl : lexFrom C14_exCs 13 ">> [mode]: x\nx\n".toList = lexFuel C14_exCs 15 13 ">> [mode]: x\nx\n".toList :=
    lexFrom_eq_fuel _ _ _ _ (by decide)
  refine ⟨h, ?_, ?_⟩
  · unfold parseRecipe pullEvents
    simp only [C14_exEnv, h, hl]
    decide +kernel
  · have hd := C14_front_matter_diagnostics (α := Rat) C14_exEnv C14_exInput _ h
    exact ⟨hd.1.2.2, hd.1.1⟩

/-- no front matter: a `>>` line without colon (`metadata-invalid`, then parsed as a step by the full
    parser), an entry with an empty value (`empty-metadata-value`) and a step.  Both reports carry
    these two parse-stage metadata diagnostics, in this order (and `meta-deprecated`): the two sides
    of `C14_parse_stage_metadata_diagnostics_agree` are not empty -/
def C14_exInput2 : List Char := ">> a\n>> k:\nx".toList
def C14_exEnv0 : Env := ⟨C14_exCs, ⟨0⟩, fun _ => none, fun _ _ => .ok, fun c => [c], 0⟩

example : parseFrontmatter C14_exCs C14_exInput2 = none ∧
    ((parseRecipe (α := Rat) C14_exEnv0 C14_exInput2).diags.toList.filter Diag.isParseMeta).map (·.kind) =
      ["metadata-invalid", "empty-metadata-value"] ∧
    ((parseMetadata (α := Rat) C14_exEnv0 C14_exInput2).diags.toList.filter Diag.isParseMeta).map (·.kind) =
      ["metadata-invalid", "empty-metadata-value"] ∧
    (parseRecipe (α := Rat) C14_exEnv0 C14_exInput2).diags.size = 3 ∧
    (parseMetadata (α := Rat) C14_exEnv0 C14_exInput2).diags.size = 3 := by
  have h : parseFrontmatter C14_exCs C14_exInput2 = none := by decide
  have hl : lex C14_exCs C14_exInput2 = lexFuel C14_exCs 12 0 C14_exInput2 := lexFrom_eq_fuel _ _ _ _ (by decide)
  refine ⟨h, ?_, ?_, ?_, ?_⟩
  · unfold parseRecipe pullEvents
    simp only [C14_exEnv0, h, hl]
    decide +kernel
  · unfold parseMetadata pullMetaEvents
    simp only [C14_exEnv0, h, hl]
    decide +kernel
  · unfold parseRecipe pullEvents
    simp only [C14_exEnv0, h, hl]
    decide +kernel
  · unfold parseMetadata pullMetaEvents
    simp only [C14_exEnv0, h, hl]
    decide +kernel

/-- with front matter the full parser still warns about `>>` lines of the body: the block `>> s:`
    (empty value) run with `old_style_metadata = false` pushes `empty-metadata-value` and then the
    events of a step — no `Metadata` event; the metadata-only parser never sees that line -/
example :
    let toks : List Tok := [⟨.metaStart, ['>', '>'], 13⟩, ⟨.ws, [' '], 15⟩, ⟨.word, ['s'], 16⟩, ⟨.colon, [':'], 17⟩]
    ((runBlock (α := Rat) C14_exCs ⟨0⟩ false toks #[] none).1.toList.filterMap isDiagEv).map (·.kind) =
      ["empty-metadata-value"] ∧
    (runBlock (α := Rat) C14_exCs ⟨0⟩ false toks #[] none).1.toList.map Ev.isKey = [false, false, false, false] := by
  constructor <;> rfl

/-! ## audit wave (notes/audit-C14.md): the premise "both succeed", the YAML clause, non-vacuity -/

/-- **`parse_events` has output exactly when no event is a parser error** (`Event::Error`), for
    every event list: the premise "both parses produce output" of the property is "neither event
    stream contains an error event". -/
theorem C14_output_iff_no_error_event (env : Env) (input : Str) (l : List (Ev α)) :
    (parseEvents env input l).output.isSome = true ↔ ∀ ev ∈ l, ev.isErr = false :=
  parseEvents_output_iff env input l

/-- The ONLY error event the metadata-only parser can emit, on any input, is one of the
    metadata-line diagnostics of `metadata_entry` (in fact `empty-metadata-key`; the other two kinds
    are warnings): it never fails for a reason the full parser does not see. -/
theorem C14_metadata_only_errors_are_metadata_errors (cs : CharSpec) (ext : Ext) (input : List Char)
    (d : Diag) (h : Ev.error d ∈ (pullMetaEvents (α := α) cs ext input).1.toList) :
    parseMetaKind d.kind = true :=
  pullMetaEvents_errors_are_meta cs ext input d h

/-- **The premise of the property is "the full parse succeeds".**  For EVERY input (with or without
    front matter), extension set and environment: whenever `parse` has output, `parse_metadata` has
    output as well.  So "for every input on which both succeed" quantifies over exactly the inputs
    on which `parse` succeeds, and `C14_agree` applies to all of them.  (The converse is false: a
    step with a parse error, e.g. `@x{1/0}` after a `>>` line, makes `parse` fail while
    `parse_metadata`, which never looks at steps, succeeds — see the example below.) -/
theorem C14_full_output_implies_metadata_only_output (env : Env) (input : Str)
    (h1 : (parseRecipe (α := α) env input).output.isSome = true) :
    (parseMetadata (α := α) env input).output.isSome = true :=
  full_output_gives_meta_output env input h1

/-- … hence `C14_agree` with the single premise that `parse` has output: `parse_metadata` then has
    an output too, and its metadata part equals that of the full parse. -/
theorem C14_agree_of_full_output (env : Env) (input : Str) (r1 : Col α)
    (h1 : (parseRecipe (α := α) env input).output = some r1) :
    ∃ r2 : Col α, (parseMetadata (α := α) env input).output = some r2 ∧
      r1.metaMap = r2.metaMap ∧ r1.metaLocs = r2.metaLocs ∧ r1.servings = r2.servings ∧
      r1.oldStyleUsed = r2.oldStyleUsed ∧ r1.frontMatter = r2.frontMatter ∧ r1.oldStyle = r2.oldStyle := by
  have h := C14_full_output_implies_metadata_only_output (α := α) env input (by rw [h1]; rfl)
  obtain ⟨r2, h2⟩ := Option.isSome_iff_exists.1 h
  exact ⟨r2, h2, C14_agree env input r1 r2 h1 h2⟩

/-- **"for `>>` entries and YAML front matter alike"**, with the external decoder made explicit.
    `Col.metadataOut decode r` is the metadata a caller sees: with a front-matter event it is
    `decode slice` — what `process_frontmatter` (`serde_yaml::from_str`, the std-key checks, the
    removal of rejected keys) makes of the YAML slice (text AND offset), the code replacing the map by
    the decoded mapping — and otherwise the `>>` map.  For EVERY such function `decode`, every input,
    extension set and environment: whenever both parses have output the two results are equal.
    ASSUMED (trusted base, `serde_yaml` is outside the model): the decoded mapping is a function of
    the slice, the converter and the (default) parse options only — `process_frontmatter` reads
    nothing else of the collector — which is what "for every `decode`" expresses.  PROVED: both entry
    points hand it the same slice at the same offset (`C14_front_matter_split_same`), as the first
    event, from the initial state; nothing the full parser emits afterwards touches the map
    (`C14_front_matter_only_config_entries`, `C14_config_entry_keeps_metadata_after_front_matter`,
    `C14_other_events_keep_metadata`). -/
theorem C14_agree_for_every_decoder {β : Type} (decode : Text → β) (env : Env) (input : Str)
    (r1 r2 : Col α) (h1 : (parseRecipe (α := α) env input).output = some r1)
    (h2 : (parseMetadata (α := α) env input).output = some r2) :
    r1.metadataOut decode = r2.metadataOut decode :=
  metadataOut_agree decode env input r1 r2 h1 h2

/-! non-vacuity of `C14_agree` in the `>>` case, VALUES and duplicate keys included: on
    `>> a: b⏎>> k: v⏎>> a: c⏎x` both parses have output and both maps are `[(a, c), (k, v)]` — the
    second `a` entry replaces the value in place (insertion order of the first), as
    `serde_yaml::Mapping::insert` does.  (An implementation that agreed on keys only, or that kept
    the first value in one of the two paths, would not satisfy `C14_agree`.) -/
def C14_exInput3 : List Char := ">> a: b\n>> k: v\n>> a: c\nx".toList

example : parseFrontmatter C14_exCs C14_exInput3 = none ∧
    (parseRecipe (α := Rat) C14_exEnv0 C14_exInput3).output.map (·.metaMap) =
      some [("a".toList, "c".toList), ("k".toList, "v".toList)] ∧
    (parseMetadata (α := Rat) C14_exEnv0 C14_exInput3).output.map (·.metaMap) =
      some [("a".toList, "c".toList), ("k".toList, "v".toList)] := by
  have h : parseFrontmatter C14_exCs C14_exInput3 = none := by decide
  have hl : lex C14_exCs C14_exInput3 = lexFuel C14_exCs 25 0 C14_exInput3 := lexFrom_eq_fuel _ _ _ _ (by decide)
  refine ⟨h, ?_, ?_⟩
  · unfold parseRecipe pullEvents
    simp only [C14_exEnv0, h, hl]
    decide +kernel
  · unfold parseMetadata pullMetaEvents
    simp only [C14_exEnv0, h, hl]
    decide +kernel

/-! the converse of `C14_full_output_implies_metadata_only_output` fails: on `>> a: b⏎@x{1/0}` (a
    division by zero in a step) only `parse_metadata` has output -/
example : (parseRecipe (α := Rat) C14_exEnv0 ">> a: b\n@x{1/0}".toList).output.isSome = false ∧
    (parseMetadata (α := Rat) C14_exEnv0 ">> a: b\n@x{1/0}".toList).output.isSome = true := by
  have h : parseFrontmatter C14_exCs ">> a: b\n@x{1/0}".toList = none := by decide
  have hl : lex C14_exCs ">> a: b\n@x{1/0}".toList = lexFuel C14_exCs 15 0 ">> a: b\n@x{1/0}".toList :=
    lexFrom_eq_fuel _ _ _ _ (by decide)
  constructor
  · unfold parseRecipe pullEvents
    simp only [C14_exEnv0, h, hl]
    decide +kernel
  · unfold parseMetadata pullMetaEvents
    simp only [C14_exEnv0, h, hl]
    decide +kernel

/-! on `>> :⏎x` (empty key, an error in BOTH streams) neither has output.  The decoder view distinguishes the two
    cases: without front matter it is the `>>` map, with front matter the decoded slice. -/
example : (parseRecipe (α := Rat) C14_exEnv0 ">> :\nx".toList).output.isSome = false ∧
    (parseMetadata (α := Rat) C14_exEnv0 ">> :\nx".toList).output.isSome = false := by
  have h : parseFrontmatter C14_exCs ">> :\nx".toList = none := by decide
  have hl : lex C14_exCs ">> :\nx".toList = lexFuel C14_exCs 6 0 ">> :\nx".toList := lexFrom_eq_fuel _ _ _ _ (by decide)
  constructor
  · unfold parseRecipe pullEvents
    simp only [C14_exEnv0, h, hl]
    decide +kernel
  · unfold parseMetadata pullMetaEvents
    simp only [C14_exEnv0, h, hl]
    decide +kernel

example : (Col.metadataOut (α := Rat) (fun t => t.span) { metaMap := [("a".toList, "b".toList)] }) =
      .inl [("a".toList, "b".toList)] ∧
    (Col.metadataOut (α := Rat) (fun t => t.span)
      { frontMatter := some (Text.fromStr "a: 1\n".toList 4), oldStyle := false }) = .inr ⟨4, 9⟩ := by
  constructor <;> rfl

/-! ### front matter interpreted: the loop of `process_frontmatter` modelled (Analysis/FrontMatter.lean) -/

/-- **`C14_agree` for the metadata a caller sees, front matter interpreted.**  `FM.fullMetadata fe c` is
    `content.metadata.map` of a result: the mapping `process_frontmatter` stores (the decoded mapping
    without the entries a validator excluded) when there is front matter that decodes, otherwise the
    `>>` map.  For EVERY input (with or without front matter), extension set and environment, and every
    `fe` (result of the YAML decoder on the slice, validator verdicts, converter): whenever `parse` and
    `parse_metadata` both have output, the two metadata maps are equal — keys, values, order.  The
    decoder itself remains a parameter (`fe.decode`, applied to the text of the slice both entry points
    hand over); the loop, the removals and the diagnostics are the model's. -/
theorem C14_agree_interpreted (env : Env) (fe : FM.Env α) (input : Str)
    (r1 r2 : Col α) (h1 : (parseRecipe (α := α) env input).output = some r1)
    (h2 : (parseMetadata (α := α) env input).output = some r2) :
    FM.fullMetadata fe r1 = FM.fullMetadata fe r2 := by
  obtain ⟨e1, _, _, _, e5, _⟩ := C14_agree env input r1 r2 h1 h2
  unfold FM.fullMetadata
  rw [e1, e5]

/-- **The front-matter diagnostics agree as well.**  For every input WITH front matter: `parse_metadata`
    has output, and whenever `parse` has output too, (1) both ran `process_frontmatter` on the same slice
    with the same outcome (`FM.outcomeOf`: stored mapping, servings, diagnostics with their labels);
    (2) the WHOLE report of `parse_metadata` is the list of front-matter diagnostics, and the report of
    `parse` is that same list followed by its other diagnostics (`FM.fullDiags`); (3) the metadata
    maps are equal, namely the stored mapping (empty after a YAML error).  The validator is the same
    function of (call number, key, value) in both runs — a stateful callback that answers differently
    in the second run is outside the statement. -/
theorem C14_front_matter_interpreted_agree (env : Env) (fe : FM.Env α) (input : Str) (fm : FrontMatter)
    (h : parseFrontmatter env.cs input = some fm) (r1 : Col α)
    (h1 : (parseRecipe (α := α) env input).output = some r1) :
    ∃ r2 : Col α, (parseMetadata (α := α) env input).output = some r2 ∧
      FM.outcomeOf fe (parseRecipe (α := α) env input) = FM.outcomeOf fe (parseMetadata (α := α) env input) ∧
      FM.fullDiags fe (parseMetadata (α := α) env input) = (FM.processFrontmatter fe (FM.docYaml fm)).diags.toArray ∧
      FM.fullDiags fe (parseRecipe (α := α) env input) =
        FM.fullDiags fe (parseMetadata (α := α) env input) ++ (parseRecipe (α := α) env input).diags ∧
      FM.fullMetadata fe r1 = FM.fullMetadata fe r2 ∧
      FM.fullMetadata fe r1 = ((FM.processFrontmatter fe (FM.docYaml fm)).map).getD [] := by
  obtain ⟨a1, a2, a3, _⟩ := FM.fmd_full env fe input fm h r1 h1
  obtain ⟨r2, b0, b1, b2, b3⟩ := FM.fmd_meta (α := α) env fe input fm h
  exact ⟨r2, b0, by rw [a1, b1], b2, by rw [a2, b2], by rw [a3, b3], a3⟩

/-! non-vacuity: on `---⏎a: 1⏎---⏎>> [mode]: x⏎x⏎` (front matter, MODES on) both parses have output
    (example above); with a decoder giving `{a: 1}` and no validator the front-matter report is empty and
    the stored mapping has one entry -/
example : ((FM.processFrontmatter (α := Rat) ⟨fun _ => .ok [(.str "a".toList, .num ⟨some 1, "1".toList⟩)], none,
      ⟨[], fun _ => none⟩, fun _ => false⟩ (FM.docYaml ⟨"a: 1\n".toList, 4, ">> [mode]: x\nx\n".toList, 13⟩)).diags = [] ∧
    ((FM.processFrontmatter (α := Rat) ⟨fun _ => .ok [(.str "a".toList, .num ⟨some 1, "1".toList⟩)], none,
      ⟨[], fun _ => none⟩, fun _ => false⟩ (FM.docYaml ⟨"a: 1\n".toList, 4, ">> [mode]: x\nx\n".toList, 13⟩)).map.map List.length) =
      some 1) := by decide

-- ===== w6fmrest =====
/-! ## `ParseOptions::metadata_validator` on the `>>` path (Analysis/MetaValidator.lean)

  `MV.parseRecipeV env val` / `MV.parseMetadataV env val` are `parse_with_options` /
  `parse_metadata_with_options` with the validator `val` (`none` = no validator; `some f`: `f n key value` is
  the verdict — `CheckResult` kind, `include`, `run_std_checks` — of the `n`-th call, 0-based; the validator is
  a `FnMut`, so the verdict may depend on the call number).  For a `>>` entry that is not a `[config]` entry the
  code calls it on the two `Value::String`s, pushes its diagnostic, returns when `include` is off, inserts, returns
  when `run_std_checks` is off, and otherwise goes on as without a validator (`MV.metadataV`).  Tied to the code by
  `recipe_fm` / `metaonly_fm` with `-` for the front-matter argument. -/

/-- A validator that always answers `Ok` and leaves both options on (in particular: the default
    `CheckOptions`) is no validator: both entry points return what they return without one. -/
theorem C14_validator_default_verdict (env : Env) (f : Nat → SM.Y → SM.Y → FM.Verdict) (input : Str)
    (hf : ∀ n a b, (f n a b).res = .ok ∧ (f n a b).incl = true ∧ (f n a b).runStd = true) :
    MV.parseRecipeV (α := α) env (some f) input = parseRecipe env input ∧
    MV.parseMetadataV (α := α) env (some f) input = parseMetadata env input := by
  constructor
  · unfold MV.parseRecipeV parseRecipe MV.parseEventsV parseEvents
    simp only [MV.mvl_loop_default env input f hf]; rfl
  · unfold MV.parseMetadataV parseMetadata MV.parseEventsV parseEvents
    simp only [MV.mvl_loop_default env input f hf]; rfl

/-- With front matter the event fold never consults the validator (the only `Metadata` events are `[config]`
    entries, which return before the call): under every validator both entry points fold exactly as without
    one.  The validator is then consulted by `process_frontmatter` only (`FM.processFrontmatter`,
    `C14_front_matter_interpreted_agree`), so the call numbers of the two places never interleave. -/
theorem C14_validator_front_matter_fold (env : Env) (val : Option (Nat → SM.Y → SM.Y → FM.Verdict)) (input : Str)
    (fm : FrontMatter) (h : parseFrontmatter env.cs input = some fm) :
    MV.parseRecipeV (α := α) env val input = parseRecipe env input ∧
    MV.parseMetadataV (α := α) env val input = parseMetadata env input :=
  MV.mvl_front_same env val input fm h

/-- **`C14_agree` under a `metadata_validator`**, for `>>` entries (and front matter alike): for EVERY input,
    environment and validator — any function of (call number, key, value), the same in both runs — whenever
    `parse_with_options` and `parse_metadata_with_options` both have output, the metadata parts of the two results
    are equal: the `>>` map (so the same entries were excluded by `include(false)`), the std-key locations and the
    servings (so the same entries skipped the std checks by `run_std_checks(false)`), the old-style spans, the
    front-matter slice and the `old_style_metadata` flag.  Reason: both parsers emit the same `Metadata` events in
    the same order (`C14_metadata_events_agree`), so the validator sees the same sequence of calls, and what the
    arm does to the metadata part depends on that part and the verdict only. -/
theorem C14_agree_under_validator (env : Env) (val : Option (Nat → SM.Y → SM.Y → FM.Verdict)) (input : Str)
    (r1 r2 : Col α) (h1 : (MV.parseRecipeV (α := α) env val input).output = some r1)
    (h2 : (MV.parseMetadataV (α := α) env val input).output = some r2) :
    r1.metaMap = r2.metaMap ∧ r1.metaLocs = r2.metaLocs ∧ r1.servings = r2.servings ∧
    r1.oldStyleUsed = r2.oldStyleUsed ∧ r1.frontMatter = r2.frontMatter ∧ r1.oldStyle = r2.oldStyle := by
  cases hfm : parseFrontmatter env.cs input with
  | some fm =>
    obtain ⟨e1, e2⟩ := MV.mvl_front_same (α := α) env val input fm hfm
    rw [e1] at h1; rw [e2] at h2
    exact C14_agree env input r1 r2 h1 h2
  | none =>
    have e := MV.mvl_analysis_agree env val input hfm r1 r2 h1 h2
    exact ⟨congrArg MS.metaMap e, congrArg MS.metaLocs e, congrArg MS.servings e,
      congrArg MS.oldStyleUsed e, congrArg MS.frontMatter e, congrArg MS.oldStyle e⟩

/-- …hence the metadata a caller sees (`FM.fullMetadata`: the mapping `process_frontmatter` stores, else the `>>`
    map) and the servings stored for scaling (`FM.fullServings`) are the same from both entry points, under every
    validator, with or without front matter. -/
theorem C14_agree_interpreted_under_validator (env : Env) (fe : FM.Env α) (input : Str)
    (r1 r2 : Col α) (h1 : (MV.parseRecipeV (α := α) env fe.validator input).output = some r1)
    (h2 : (MV.parseMetadataV (α := α) env fe.validator input).output = some r2) :
    FM.fullMetadata fe r1 = FM.fullMetadata fe r2 ∧ FM.fullServings fe r1 = FM.fullServings fe r2 := by
  obtain ⟨e1, _, e3, _, e5, _⟩ := C14_agree_under_validator env fe.validator input r1 r2 h1 h2
  unfold FM.fullMetadata FM.fullServings
  rw [e1, e3, e5]
  exact ⟨rfl, rfl⟩

/-! non-vacuity: `>> a: b⏎>> c: d⏎x`, no front matter, a validator that excludes the first entry with a warning
    and lets the second pass without std checks: both entry points have output, the map is `c: d` in both, both
    reports start with the validator's warning (labels: key span, value span) -/
def C14_exInputV : List Char := ">> a: b\n>> c: d\nx".toList
def C14_exValV : Nat → SM.Y → SM.Y → FM.Verdict := fun n _ _ => if n = 0 then ⟨.warning, false, true⟩ else ⟨.ok, true, false⟩

example : parseFrontmatter C14_exCs C14_exInputV = none ∧
    ((MV.parseRecipeV (α := Rat) C14_exEnv0 (some C14_exValV) C14_exInputV).output.map (·.metaMap)) =
      some [("c".toList, "d".toList)] ∧
    ((MV.parseMetadataV (α := Rat) C14_exEnv0 (some C14_exValV) C14_exInputV).output.map (·.metaMap)) =
      some [("c".toList, "d".toList)] ∧
    (MV.parseRecipeV (α := Rat) C14_exEnv0 (some C14_exValV) C14_exInputV).diags.toList.map (fun d => (d.kind, d.labels)) =
      [("metadata-validator", [⟨2, 4⟩, ⟨5, 7⟩]), ("meta-deprecated", [⟨2, 7⟩, ⟨10, 15⟩])] ∧
    (MV.parseMetadataV (α := Rat) C14_exEnv0 (some C14_exValV) C14_exInputV).diags.toList.map (fun d => (d.kind, d.labels)) =
      [("metadata-validator", [⟨2, 4⟩, ⟨5, 7⟩]), ("meta-deprecated", [⟨2, 7⟩, ⟨10, 15⟩])] := by
  have h : parseFrontmatter C14_exCs C14_exInputV = none := by decide
  have hl : lex C14_exCs C14_exInputV = lexFuel C14_exCs 17 0 C14_exInputV := lexFrom_eq_fuel _ _ _ _ (by decide)
  refine ⟨h, ?_, ?_, ?_, ?_⟩
  · unfold MV.parseRecipeV pullEvents
    simp only [C14_exEnv0, h, hl]
    decide +kernel
  · unfold MV.parseMetadataV pullMetaEvents
    simp only [C14_exEnv0, h, hl]
    decide +kernel
  · unfold MV.parseRecipeV pullEvents
    simp only [C14_exEnv0, h, hl]
    decide +kernel
  · unfold MV.parseMetadataV pullMetaEvents
    simp only [C14_exEnv0, h, hl]
    decide +kernel

end Cook
