import CookModel.Lemmas.GroupConserve
import CookModel.Lemmas.GroupAudit
import CookModel.Lemmas.ParsedScaledRefs
import CookModel.Props.C09
import CookModel.Lemmas.GroupWhole
import CookModel.Lemmas.GroupOutcome
import CookModel.Props.C08
import CookModel.Lemmas.FractionSat
import CookModel.Lemmas.MergeSat
import CookModel.Lemmas.CatSat
/-
  C10  Grouping and listing ingredients conserves quantities.

  All statements are about the models Num/Group.lean (src/quantity.rs: `try_add`,
  `GroupedQuantity`, `GroupedValue`) and Num/IngList.lean (src/model.rs `all_quantities`,
  `group_quantities`, `group_amounts`; src/ingredient_list.rs `group_ingredients`, `add_recipe`,
  `add_ingredient`, `categorize` AS REPAIRED by fixes/0001-fix-categorize-…) at `α := Rat`; the f64
  instance of the same definitions is compared with the Rust code by harness/src/props/c10.rs.

  Vocabulary (Lemmas/GroupWeights.lean, Lemmas/GroupConserve.lean):
  * a numeric quantity belongs to a class `QClass`: the physical quantity of its (known) unit,
    its unknown unit text, or "no unit" (`measure`); its two ends are `Number::value`s (fraction
    error included), for a known unit as amounts in the base unit — so a total does not depend on
    the unit the running sum happens to be kept in;
  * `total c cls qs` = (sum of the lower ends, sum of the upper ends) of the quantities of `qs`
    in class `cls` — "ranges end-wise"; a number counts with both ends equal;
  * `texts qs` = the text quantities of `qs`, verbatim (text and unit);
  * `Holds c cls out inp`: both ends of the `cls` total of `out` and `inp` are equal and
    `texts out` is a permutation of `texts inp`;
  * what a group holds is what `GroupedQuantity::iter` yields (known totals, unknown-unit totals
    in the hash map's order `ord`, the quantities parked in `other`, the unit-less total); every
    theorem holds for EVERY iteration order `ord` of the hash map (`ord.IsPerm`);
  * `c.Sound` are the builder's invariants of a converter (C09/C16; decided for the bundled one);
  * `LinearClass c cls`: the units of the class have no offset.  It holds for every unknown unit,
    for "no unit" and for volume, mass, length and time of the bundled converter
    (`C10_bundled_linear`).  For temperature it does not, and there the statement is false in the
    code and in any implementation: a sum of temperatures depends on the unit it is made in
    (`C10_offset_units_do_not_sum`).  `C10_add_known_in_stored_unit` says what `add` does for
    every unit, offset or not.
-/
namespace Cook
open Arith GroupedQuantity

/-! ## which classes are linear -/

def linearB (c : Converter Rat) (pq : PhysQ) : Bool :=
  c.allUnits.all (fun u => decide (u.pq = pq → u.difference = 0))

theorem linearB_sound {c : Converter Rat} {pq : PhysQ} (h : linearB c pq = true) :
    LinearClass c (.known pq) := by
  intro u hu hpq
  simp only [linearB, List.all_eq_true, decide_eq_true_eq] at h
  exact h u hu hpq

/-- volume, mass, length and time of the shipped units file have no offsets (decided on the table
    generated from the current units.toml); unknown units and unit-less values never have one -/
theorem C10_bundled_linear (cls : QClass) (h : cls ≠ .known .temperature) :
    LinearClass (Converter.bundled Rat) cls := by
  cases cls with
  | unknown _ => trivial
  | noUnit => trivial
  | known pq =>
    cases pq with
    | volume => exact linearB_sound (by decide +kernel)
    | mass => exact linearB_sound (by decide +kernel)
    | length => exact linearB_sound (by decide +kernel)
    | time => exact linearB_sound (by decide +kernel)
    | temperature => exact absurd rfl h

/-! ## adding to a group -/

/-- `GroupedQuantity::add` conserves: afterwards the group holds what it held plus `q` — per
    class total (both ends) and texts. -/
theorem C10_add_conserves {c : Converter Rat} (hc : c.Sound) (ord : MapOrder Rat) (hord : ord.IsPerm)
    (g : GroupedQuantity Rat) (q : SQuantity Rat) (cls : QClass) (hlin : LinearClass c cls) :
    Holds c cls ((g.add c q).iter ord) (g.iter ord ++ [q]) := by
  apply holds_of_weights hc hlin
  intro w hw
  rw [gsum_iter w ord hord, add_gsum hw.additive, sumBy_append, gsum_iter w ord hord]
  simp only [sumBy_cons, sumBy_nil]; grind

/-- any sequence of `add`s, by induction: the group holds what it held plus all of `qs`; in
    particular a group built from nothing holds exactly its inputs -/
theorem C10_adds_conserve {c : Converter Rat} (hc : c.Sound) (ord : MapOrder Rat) (hord : ord.IsPerm)
    (g : GroupedQuantity Rat) (qs : List (SQuantity Rat)) (cls : QClass) (hlin : LinearClass c cls) :
    Holds c cls ((addAll c g qs).iter ord) (g.iter ord ++ qs) ∧
    Holds c cls ((addAll c empty qs).iter ord) qs := by
  constructor
  · apply holds_of_weights hc hlin
    intro w hw
    rw [gsum_iter w ord hord, addAll_gsum hw.additive, sumBy_append, gsum_iter w ord hord]
  · apply holds_of_weights hc hlin
    intro w hw
    rw [gsum_iter w ord hord, addAll_gsum hw.additive, gsum_empty]; grind

/-- totals and texts do not depend on the order in which the quantities are added, nor on the
    iteration order of the hash map -/
theorem C10_add_order_irrelevant {c : Converter Rat} (hc : c.Sound) (ord ord' : MapOrder Rat)
    (hord : ord.IsPerm) (hord' : ord'.IsPerm) (qs qs' : List (SQuantity Rat)) (hperm : qs.Perm qs')
    (cls : QClass) (hlin : LinearClass c cls) :
    Holds c cls ((addAll c empty qs).iter ord) ((addAll c empty qs').iter ord') :=
  ((C10_adds_conserve hc ord hord empty qs cls hlin).2.trans (Holds.of_perm hperm)).trans
    (C10_adds_conserve hc ord' hord' empty qs' cls hlin).2.symm

/-- What `add` does to the running total of a physical quantity, for EVERY unit (offset or
    not): the new total is in the stored unit and each of its ends is the old end plus the
    corresponding end of `q` restated in the stored unit (same amount in base units). -/
theorem C10_add_known_in_stored_unit {c : Converter Rat} (hc : c.Sound) (g : GroupedQuantity Rat)
    (q stored : SQuantity Rat) (su uq : Unit Rat) (l1 h1 lo hi : Rat)
    (hq : unitInfo c q = some uq) (hs : unitInfo c stored = some su) (hpq : su.pq = uq.pq)
    (hg : g.known uq.pq = some stored) (hsb : stored.value.bounds = some (l1, h1))
    (hqb : q.value.bounds = some (lo, hi)) :
    ∃ n lo' hi', (g.add c q).known uq.pq = some n ∧ n.unit = stored.unit ∧
      amount lo' su = amount lo uq ∧ amount hi' su = amount hi uq ∧
      n.value.bounds = some (l1 + lo', h1 + hi') := by
  obtain ⟨kq, hkq, hfq⟩ := unitInfo_some hq
  obtain ⟨ks, hks, hfs⟩ := unitInfo_some hs
  have hqt : q.value.isText = false := by
    cases hv : q.value with
    | text t => simp [hv, Value.bounds] at hqb
    | number _ => rfl
    | range _ _ => rfl
  -- the conversion of the right operand
  have hspec := convertImpl_spec hc q (.unit (.unit su)) (by intro x hx; cases hx; exact findUnit_mem hfs)
  have hnotfail : ∀ e, (convertImpl c q (.unit (.unit su))).2 ≠ .error e := by
    intro e he
    generalize hr : convertImpl c q (.unit (.unit su)) = r at hspec he
    obtain ⟨q', res⟩ := r
    simp only at he
    subst he
    obtain ⟨_, hfail⟩ := hspec.error_inv
    cases hfail with
    | noUnit h => rw [hkq] at h; cases h
    | unknownUnit k h hf => rw [hkq] at h; cases h; rw [hfq] at hf; cases hf
    | textValue u t _ hv => simp [hv, Value.bounds] at hqb
    | unknownTarget u k _ hto _ => cases hto
    | mixed u t tu hu hto ht hne =>
      cases hto
      simp only [Converter.getUnit, Except.ok.injEq] at ht
      subst ht
      rw [hq] at hu; cases hu
      exact hne hpq.symm
    | noBest u s _ hs' _ => rcases hs' with h | ⟨h, _⟩ <;> cases h
  generalize hr : convertImpl c q (.unit (.unit su)) = r at hspec hnotfail
  obtain ⟨q', res⟩ := r
  cases res with
  | error e => exact absurd rfl (hnotfail e)
  | ok _ =>
    obtain ⟨u, nu, hu, hrest, _, _, hkey⟩ := hspec.ok_inv
    have hnu : nu = su := by
      have := hkey _ rfl
      simp only [Converter.getUnit, Except.ok.injEq] at this
      exact this.symm
    subst hnu
    rw [hq] at hu
    simp only [Option.some.injEq] at hu
    subst hu
    rcases bounds_of_amounts hrest.amounts with ⟨hn, _⟩ | ⟨lo0, hi0, lo', hi', hb, hb', hlo, hhi⟩
    · rw [hn] at hqb; cases hqb
    · rw [hqb] at hb
      simp only [Option.some.injEq, Prod.mk.injEq] at hb
      obtain ⟨rfl, rfl⟩ := hb
      -- the addition of the values cannot fail: neither is a text
      have hadd : ∃ v, stored.value.tryAdd q'.value = .ok v ∧ v.bounds = some (l1 + lo', h1 + hi') := by
        cases hsv : stored.value <;> cases hqv : q'.value <;>
          simp_all [Value.bounds, Value.tryAdd, Number.value] <;> grind
      obtain ⟨v, hv, hvb⟩ := hadd
      have hcompat : qCompatibleUnit c stored q = .ok (some nu) := by
        simp [qCompatibleUnit, hks, hkq, hfs, hfq, hpq]
      have htry : qTryAdd c stored q = .ok ⟨v, stored.unit⟩ := by
        simp [qTryAdd, hcompat, convertRhs, hr, hv]
      refine ⟨⟨v, stored.unit⟩, lo', hi', ?_, rfl, hlo, hhi, hvb⟩
      unfold GroupedQuantity.add
      simp [hqt, hkq, hfq, hg, addTo, htry, setKnown]

/-! ## merging, fitting -/

/-- `GroupedQuantity::merge` conserves: the result holds what both groups held -/
theorem C10_merge_conserves {c : Converter Rat} (hc : c.Sound) (ord : MapOrder Rat) (hord : ord.IsPerm)
    (g h : GroupedQuantity Rat) (cls : QClass) (hlin : LinearClass c cls) :
    Holds c cls ((merge ord c g h).iter ord) (g.iter ord ++ h.iter ord) := by
  apply holds_of_weights hc hlin
  intro w hw
  rw [gsum_iter w ord hord, merge_gsum hw.additive ord hord, sumBy_append, gsum_iter w ord hord,
    gsum_iter w ord hord]

/-- `GroupedQuantity::fit` changes units and number forms only: whatever it returns (it stops at
    the first error), the group holds what it held.  Needs no linearity: a restated quantity has
    the same amounts. -/
theorem C10_fit_conserves {c : Converter Rat} (hc : c.Sound) (ord : MapOrder Rat) (hord : ord.IsPerm)
    (g : GroupedQuantity Rat) (cls : QClass) :
    (total c cls ((g.fit c).1.iter ord)) = (total c cls (g.iter ord)) ∧
    (texts ((g.fit c).1.iter ord)).Perm (texts (g.iter ord)) := by
  have h : ∀ w, FitInvariant c w → sumBy w ((g.fit c).1.iter ord) = sumBy w (g.iter ord) := by
    intro w hw
    rw [gsum_iter w ord hord, fit_gsum hw, gsum_iter w ord hord]
  refine ⟨?_, texts_perm_of_wText (fun t => h _ (wText_fitInvariant hc t))⟩
  unfold total
  rw [h _ (wEnd_fitInvariant hc cls false), h _ (wEnd_fitInvariant hc cls true)]

/-- the converter-free merge used by the repaired `categorize` conserves as well -/
theorem C10_absorb_conserves {c : Converter Rat} (hc : c.Sound) (ord : MapOrder Rat) (hord : ord.IsPerm)
    (g h : GroupedQuantity Rat) (cls : QClass) (hlin : LinearClass c cls) :
    Holds c cls ((absorb ord g h).iter ord) (g.iter ord ++ h.iter ord) := by
  apply holds_of_weights hc hlin
  intro w hw
  rw [gsum_iter w ord hord, absorb_gsum hw.joinAdditive ord hord, sumBy_append, gsum_iter w ord hord,
    gsum_iter w ord hord]

/-! ## an ingredient with its references -/

/-- Given the recipe invariant (every `referenced_from` index is in range and points to a
    reference to this definition; every reference is registered with its definition, once):
    * `all_quantities` of a definition never hits the index panic and yields exactly its own
      quantity and those of its `referenced_from`, each once, in that order;
    * the indices grouped under a definition are pairwise different, each is an ingredient that
      stands for an ingredient (nothing foreign is counted);
    * every ingredient that stands for an ingredient (a definition, or a reference to one — not an
      intermediate reference to a step or section) is reached from exactly one definition. -/
theorem C10_group_counts_once {all : List (Ingredient (Value Rat))} (h : RefsConsistent all) :
    (∀ d i, all[d]? = some i → i.relation.isDefinition = true →
      allQuantities all i = some (quantitiesAt all (groupIndices i d)) ∧
      (groupIndices i d).Nodup ∧
      ∀ j ∈ groupIndices i d, ∃ ij, all[j]? = some ij ∧ ij.owned = true) ∧
    (∀ j ij, all[j]? = some ij → ij.owned = true →
      ∃ d i, all[d]? = some i ∧ i.relation.isDefinition = true ∧ j ∈ groupIndices i d ∧
        ∀ d' i', all[d']? = some i' → i'.relation.isDefinition = true → j ∈ groupIndices i' d' →
          d' = d) := by
  refine ⟨?_, fun j ij hj hown => owned_unique h hj hown⟩
  intro d i hd hdef
  refine ⟨?_, groupIndices_nodup h hd hdef, fun j hj => groupIndices_owned h hd hdef hj⟩
  rw [allQuantities_inRange (h.inRange i (List.mem_iff_getElem?.mpr ⟨d, hd⟩))]
  simp only [groupIndices, quantitiesAt, List.filterMap_cons, hd, Option.bind_some]
  cases i.quantity <;> rfl

/-- `Ingredient::group_quantities` (add all, then fit): the group holds exactly the quantities of
    the ingredient and of its references -/
theorem C10_group_conserves {c : Converter Rat} (hc : c.Sound) (ord : MapOrder Rat) (hord : ord.IsPerm)
    (all : List (Ingredient (Value Rat))) (i : Ingredient (Value Rat))
    (hin : ∀ j ∈ i.relation.relation.referencedFrom, j < all.length)
    (cls : QClass) (hlin : LinearClass c cls) :
    ∃ g, groupQuantities c all i = some g ∧
      Holds c cls (g.iter ord) (i.quantity.toList ++ quantitiesAt all i.relation.relation.referencedFrom) := by
  have hq := allQuantities_inRange hin
  have hsome : (groupQuantities c all i).isSome = true := by
    rw [groupQuantities_isSome_iff, hq]; rfl
  cases hg : groupQuantities c all i with
  | none => rw [hg] at hsome; cases hsome
  | some g =>
    refine ⟨g, rfl, holds_of_weights hc hlin ?_⟩
    intro w hw
    rw [gsum_iter w ord hord, groupQuantities_gsum hw.additive hw.fitInvariant hg, defQuantities, hq]
    rfl

/-- `group_ingredients` lists exactly the definitions, in recipe order (increasing index), each
    with the group of its own `group_quantities` -/
theorem C10_recipe_order {c : Converter Rat} (r : ScaledRecipe Rat) (es : List (GroupedIngredient Rat))
    (h : groupIngredients c r = some es) :
    es.map (·.ingredient) = r.ingredients.filter (fun i => i.relation.isDefinition) ∧
    es.map (·.index) = ((r.ingredients.zipIdx).filter (fun p => p.1.relation.isDefinition)).map (·.2) ∧
    ∀ e ∈ es, groupQuantities c r.ingredients e.ingredient = some e.quantity := by
  obtain ⟨h1, h2, h3⟩ := groupFrom_spec _ _ _ h
  exact ⟨h1, h3, h2⟩

/-! ## shopping lists -/

/-- `IngredientList::add_recipe` over any sequence of recipes (whose reference indices are in
    range): no panic, and the entry `name` of the resulting list holds what it held before plus,
    for every recipe, the quantities of every LISTED definition displayed as `name` together with
    those of its references (`recipeQuantities`).  Hidden ingredients and references are not
    definitions that are listed: they contribute nothing of their own. -/
theorem C10_list_conserves {c : Converter Rat} (hc : c.Sound) (ord : MapOrder Rat) (hord : ord.IsPerm)
    (rs : List (ScaledRecipe Rat)) (hr : ∀ r ∈ rs, RefsInRange r.ingredients)
    (m : IngredientList Rat) (cls : QClass) (hlin : LinearClass c cls) :
    ∃ m', addRecipes ord c m rs = some m' ∧
      ∀ name, Holds c cls (entryQuantities ord m' name)
        (entryQuantities ord m name ++ rs.flatMap (recipeQuantities name)) := by
  obtain ⟨m', hm'⟩ := addRecipes_total (c := c) ord rs m hr
  refine ⟨m', hm', fun name => holds_of_weights hc hlin ?_⟩
  intro w hw
  rw [sumBy_entryQuantities w ord hord, addRecipes_entryW hw.additive hw.fitInvariant ord hord rs m m' hm',
    sumBy_append, sumBy_entryQuantities w ord hord, sumBy_flatMap]
  congr 1
  apply sumBy_congr
  intro r _
  rw [sumBy_recipeQuantities]

/-- the names of a list built from recipes are exactly the display names of the listed
    definitions: a hidden ingredient, a reference, an intermediate reference never makes an entry -/
theorem C10_listed_names {c : Converter Rat} (ord : MapOrder Rat) (r : ScaledRecipe Rat)
    (m m' : IngredientList Rat) (h : addRecipe ord c m r = some m') (name : Str) :
    (m'.get? name).isSome = true ↔
      (m.get? name).isSome = true ∨
      ∃ i ∈ r.ingredients, i.relation.isDefinition = true ∧ i.modifiers.shouldBeListed = true ∧
        i.displayName = name := by
  unfold addRecipe groupIngredients at h
  split at h
  · cases h
  · rename_i es hes
    simp only [Option.some.injEq] at h
    subst h
    obtain ⟨h1, _, _⟩ := groupFrom_spec _ _ _ hes
    rw [foldl_addEntry_keys]
    have hmem : ∀ i, (∃ e ∈ es, e.ingredient = i) ↔ i ∈ r.ingredients ∧ i.relation.isDefinition = true := by
      intro i
      have : i ∈ es.map (·.ingredient) ↔ i ∈ r.ingredients.filter (fun i => i.relation.isDefinition) := by
        rw [h1]
      simpa [List.mem_map, List.mem_filter] using this
    constructor
    · rintro (h | ⟨e, he, hl, hn⟩)
      · exact Or.inl h
      · obtain ⟨hi, hd⟩ := (hmem e.ingredient).mp ⟨e, he, rfl⟩
        exact Or.inr ⟨e.ingredient, hi, hd, hl, hn⟩
    · rintro (h | ⟨i, hi, hd, hl, hn⟩)
      · exact Or.inl h
      · obtain ⟨e, he, rfl⟩ := (hmem i).mpr ⟨hi, hd⟩
        exact Or.inr ⟨e, he, hl, hn⟩

/-! ## splitting a list by aisle -/

/-- `IngredientList::categorize` (as repaired) conserves, for every aisle configuration — also
    when several listed names share a common name: what is found under (category, common name)
    is what the list held under all the names the aisle file sends there; what is found under a
    name of the `other` list is what the list held under that name (the names of a list are
    distinct: `hnd`, true of every list built by `add_recipe`, `C10_list_names_distinct`). -/
theorem C10_categorize_conserves {c : Converter Rat} (hc : c.Sound) (ord : MapOrder Rat)
    (hord : ord.IsPerm) (aisle : Aisle.Conf) (l : IngredientList Rat) (hnd : (BMap.keys l).Nodup)
    (cls : QClass) (hlin : LinearClass c cls) :
    (∀ cat common, Holds c cls (categoryQuantities ord (categorize ord aisle l) cat common)
        (sentQuantities ord aisle l cat common)) ∧
    (∀ name, Holds c cls (entryQuantities ord (categorize ord aisle l).other name)
        (unsentQuantities ord aisle l name)) := by
  constructor
  · intro cat common
    apply holds_of_weights hc hlin
    intro w hw
    rw [sumBy_categoryQuantities w ord hord, sumBy_sentQuantities w ord hord]
    unfold categorize
    rw [categorize_catW hw.joinAdditive ord hord]
    simp [catW, BMap.get?]; grind
  · intro name
    apply holds_of_weights hc hlin
    intro w _
    rw [sumBy_entryQuantities w ord hord, sumBy_unsentQuantities w ord hord]
    unfold categorize
    have := categorize_otherW (w := w) ord aisle l ⟨[], []⟩ hnd (by intro k _; rfl) name
    unfold otherW at this
    unfold entryW
    rw [this]
    simp [BMap.get?]; grind

/-- the names of a list built by `add_recipe` from the empty list are distinct -/
theorem C10_list_names_distinct {c : Converter Rat} (ord : MapOrder Rat) (rs : List (ScaledRecipe Rat))
    (m' : IngredientList Rat) (h : addRecipes ord c [] rs = some m') : (BMap.keys m').Nodup :=
  addRecipes_nodup ord rs [] m' List.nodup_nil h

/-! ## cookware amounts -/

/-- `GroupedValue::add` over any sequence of values: the `expect` never fires, the numeric total
    (both ends) of the result is the sum of the numeric inputs and the texts are the same. -/
theorem C10_cookware_conserves (vs : List (Value Rat)) :
    ∃ g, groupedValueAddAll [] vs = some g ∧
      sumBy (vEnd false) g = sumBy (vEnd false) vs ∧ sumBy (vEnd true) g = sumBy (vEnd true) vs ∧
      (valueTexts g).Perm (valueTexts vs) := by
  obtain ⟨g, hg⟩ := groupedValueAddAll_some vs []
  have h : ∀ w, VAdditive w → sumBy w g = sumBy w vs := by
    intro w hw
    rw [groupedValueAddAll_sum hw vs hg]; simp only [sumBy_nil]; grind
  exact ⟨g, hg, h _ (vEnd_additive false), h _ (vEnd_additive true),
    valueTexts_perm (fun t => h _ (vText_additive t))⟩

/-! ## audit additions (notes/audit-C10.md): every order of merging, every order of recipes,
    several recipes, cookware with its references -/

/-- `merge` in either direction gives the same totals and texts: `a.merge(b)` and `b.merge(a)` hold the
    same, whatever the iteration orders of the hash maps involved (the one `merge` iterates with, the
    one the result is read with). -/
theorem C10_merge_commutes {c : Converter Rat} (hc : c.Sound) (ord ord' o1 o2 : MapOrder Rat)
    (hord : ord.IsPerm) (hord' : ord'.IsPerm) (ho1 : o1.IsPerm) (ho2 : o2.IsPerm)
    (g h : GroupedQuantity Rat) (cls : QClass) (hlin : LinearClass c cls) :
    Holds c cls ((merge ord c g h).iter o1) ((merge ord' c h g).iter o2) := by
  apply holds_of_weights hc hlin
  intro w hw
  rw [gsum_iter w o1 ho1, gsum_iter w o2 ho2, merge_gsum hw.additive ord hord,
    merge_gsum hw.additive ord' hord']
  grind

/-- "all orders of merging": any number of groups merged into `g` one after the other (`mergeAll`)
    hold what `g` and all of them held, and the result does not depend on the order in which they are
    merged nor on any iteration order. -/
theorem C10_merge_order_irrelevant {c : Converter Rat} (hc : c.Sound) (ord ord' o1 o2 : MapOrder Rat)
    (hord : ord.IsPerm) (hord' : ord'.IsPerm) (ho1 : o1.IsPerm) (ho2 : o2.IsPerm)
    (g : GroupedQuantity Rat) (hs hs' : List (GroupedQuantity Rat)) (hp : hs.Perm hs')
    (cls : QClass) (hlin : LinearClass c cls) :
    Holds c cls ((mergeAll ord c g hs).iter o1) (g.iter o1 ++ hs.flatMap (fun h => h.iter o1)) ∧
    Holds c cls ((mergeAll ord c g hs).iter o1) ((mergeAll ord' c g hs').iter o2) := by
  constructor
  · apply holds_of_weights hc hlin
    intro w hw
    rw [gsum_iter w o1 ho1, audit_mergeAll_gsum hw.additive ord hord, sumBy_append, gsum_iter w o1 ho1,
      sumBy_flatMap]
    congr 1
    exact sumBy_congr _ (fun h _ => (gsum_iter w o1 ho1 h).symm)
  · apply holds_of_weights hc hlin
    intro w hw
    rw [gsum_iter w o1 ho1, gsum_iter w o2 ho2, audit_mergeAll_gsum hw.additive ord hord,
      audit_mergeAll_gsum hw.additive ord' hord', sumBy_perm _ hp]

/-- "all sequences of recipes", any order: the recipes added in two different orders (and with
    different hash orders) give lists whose entries hold the same, name by name. -/
theorem C10_list_order_irrelevant {c : Converter Rat} (hc : c.Sound) (ord ord' : MapOrder Rat)
    (hord : ord.IsPerm) (hord' : ord'.IsPerm) (rs rs' : List (ScaledRecipe Rat)) (hp : rs.Perm rs')
    (hr : ∀ r ∈ rs, RefsInRange r.ingredients) (m : IngredientList Rat)
    (cls : QClass) (hlin : LinearClass c cls) :
    ∃ m1 m2, addRecipes ord c m rs = some m1 ∧ addRecipes ord' c m rs' = some m2 ∧
      ∀ name, Holds c cls (entryQuantities ord m1 name) (entryQuantities ord' m2 name) := by
  obtain ⟨m1, h1⟩ := addRecipes_total (c := c) ord rs m hr
  obtain ⟨m2, h2⟩ := addRecipes_total (c := c) ord' rs' m (fun r h => hr r (hp.mem_iff.mpr h))
  refine ⟨m1, m2, h1, h2, fun name => holds_of_weights hc hlin ?_⟩
  intro w hw
  rw [sumBy_entryQuantities w ord hord, sumBy_entryQuantities w ord' hord',
    audit_addRecipes_perm_entryW hw.additive hw.fitInvariant ord ord' hord hord' rs rs' hp m m1 m2 h1 h2]

/-- `C10_listed_names` for a sequence of recipes: after any number of `add_recipe` calls the names of
    the list are the names it had plus the display names of the listed definitions of the recipes —
    a hidden ingredient, a reference, an intermediate reference of ANY of the recipes never makes an
    entry. -/
theorem C10_listed_names_all {c : Converter Rat} (ord : MapOrder Rat) (rs : List (ScaledRecipe Rat))
    (m m' : IngredientList Rat) (h : addRecipes ord c m rs = some m') (name : Str) :
    (m'.get? name).isSome = true ↔
      (m.get? name).isSome = true ∨
      ∃ r ∈ rs, ∃ i ∈ r.ingredients, i.relation.isDefinition = true ∧
        i.modifiers.shouldBeListed = true ∧ i.displayName = name :=
  audit_addRecipes_names ord rs m m' h (fun r a b hab nm => C10_listed_names ord r a b hab nm) name

/-- `Cookware::group_amounts` (the cookware mirror of `C10_group_conserves`): with the
    `referenced_from` indices in range neither the index nor the `expect` panic is reached, and the
    grouped value holds exactly the amount of the item and those of its references — numeric total (both
    ends) and texts. -/
theorem C10_cookware_group_conserves (all : List (Cookware (Value Rat))) (i : Cookware (Value Rat))
    (hin : ∀ j ∈ i.relation.referencedFrom, j < all.length) :
    ∃ g, groupAmounts all i = some g ∧
      sumBy (vEnd false) g = sumBy (vEnd false) (i.quantity.toList ++ amountsAt all i.relation.referencedFrom) ∧
      sumBy (vEnd true) g = sumBy (vEnd true) (i.quantity.toList ++ amountsAt all i.relation.referencedFrom) ∧
      (valueTexts g).Perm (valueTexts (i.quantity.toList ++ amountsAt all i.relation.referencedFrom)) := by
  obtain ⟨g, hg, h1, h2, h3⟩ :=
    C10_cookware_conserves (i.quantity.toList ++ amountsAt all i.relation.referencedFrom)
  refine ⟨g, ?_, h1, h2, h3⟩
  unfold groupAmounts
  rw [audit_allAmounts_inRange hin]
  exact hg

/-- `GroupedValue::merge`: the `expect` never fires and the result holds what both held. -/
theorem C10_cookware_merge_conserves (g other : List (Value Rat)) :
    ∃ r, groupedValueMerge g other = some r ∧
      sumBy (vEnd false) r = sumBy (vEnd false) (g ++ other) ∧
      sumBy (vEnd true) r = sumBy (vEnd true) (g ++ other) ∧
      (valueTexts r).Perm (valueTexts (g ++ other)) := by
  obtain ⟨r, hr⟩ := groupedValueAddAll_some other g
  have h : ∀ w, VAdditive w → sumBy w r = sumBy w (g ++ other) := by
    intro w hw
    rw [groupedValueAddAll_sum hw other hr, sumBy_append]
  exact ⟨r, hr, h _ (vEnd_additive false), h _ (vEnd_additive true),
    valueTexts_perm (fun t => h _ (vText_additive t))⟩

/-- **From recipes to the aisles, in one statement.**  A list built from any sequence of recipes (reference
    indices in range) and split by ANY aisle configuration: no panic, and what is found under
    (category, common name) is exactly — per class total, both ends, and texts — what the recipes' own
    tables say: the quantities of every listed definition whose display name the aisle file sends there,
    with those of its references (`selRecipeQuantities`); what is found under a name of `other` is the
    same for the listed definitions displayed under that name which the aisle file does not know.  The
    intermediate list does not occur on the right-hand side. -/
theorem C10_shopping_list_conserves {c : Converter Rat} (hc : c.Sound) (ord : MapOrder Rat)
    (hord : ord.IsPerm) (aisle : Aisle.Conf) (rs : List (ScaledRecipe Rat))
    (hr : ∀ r ∈ rs, RefsInRange r.ingredients) (cls : QClass) (hlin : LinearClass c cls) :
    ∃ l, addRecipes ord c [] rs = some l ∧
      (∀ cat common, Holds c cls (categoryQuantities ord (categorize ord aisle l) cat common)
        (rs.flatMap (selRecipeQuantities (fun n => decide (sentTo aisle n cat common))))) ∧
      (∀ name, Holds c cls (entryQuantities ord (categorize ord aisle l).other name)
        (rs.flatMap (selRecipeQuantities (fun n => decide (Aisle.lookup aisle n = none ∧ n = name))))) := by
  obtain ⟨l, hl⟩ := addRecipes_total (c := c) ord rs [] hr
  have hnd := C10_list_names_distinct ord rs l hl
  obtain ⟨h1, h2⟩ := C10_categorize_conserves hc ord hord aisle l hnd cls hlin
  refine ⟨l, hl, fun cat common => (h1 cat common).trans ?_, fun name => (h2 name).trans ?_⟩
  · apply holds_of_weights hc hlin
    intro w hw
    have key := audit_selW_addRecipes hw.additive hw.fitInvariant
      (fun n => decide (sentTo aisle n cat common)) ord hord rs [] l hl
    have e1 : sumBy (fun e : Str × GroupedQuantity Rat =>
        if sentTo aisle e.1 cat common then GroupedQuantity.gsum w e.2 else 0) l =
        selW w (fun n => decide (sentTo aisle n cat common)) l := by
      unfold selW; apply sumBy_congr; intro e _; simp
    rw [sumBy_sentQuantities w ord hord, e1, key, sumBy_flatMap]
    simp only [selW, sumBy_nil]
    rw [sumBy_congr rs (fun r _ => (audit_sumBy_selRecipeQuantities w _ r).symm)]
    grind
  · apply holds_of_weights hc hlin
    intro w hw
    have key := audit_selW_addRecipes hw.additive hw.fitInvariant
      (fun n => decide (Aisle.lookup aisle n = none ∧ n = name)) ord hord rs [] l hl
    have e1 : sumBy (fun e : Str × GroupedQuantity Rat =>
        if Aisle.lookup aisle e.1 = none ∧ e.1 = name then GroupedQuantity.gsum w e.2 else 0) l =
        selW w (fun n => decide (Aisle.lookup aisle n = none ∧ n = name)) l := by
      unfold selW; apply sumBy_congr; intro e _; simp
    rw [sumBy_unsentQuantities w ord hord, e1, key, sumBy_flatMap]
    simp only [selW, sumBy_nil]
    rw [sumBy_congr rs (fun r _ => (audit_sumBy_selRecipeQuantities w _ r).symm)]
    grind

/-! ## every recipe the parser returns (link to C06, Lemmas/ParsedScaled.lean)

  `ParsedScaled r`: `r` is what `parse` returns for SOME environment and input — valid or alongside any
  diagnostics — scaled by `scale(factor)` with any factor and converter, or by `default_scale`.  For
  these recipes the hypotheses `RefsConsistent` / `RefsInRange` of the theorems above are theorems
  (C06's invariant, carried through scaling), so "for all valid recipes and sequences of recipes" holds
  without an assumption on the recipe. -/

/-- the reference tables of every parsed and scaled recipe are consistent and in range -/
theorem C10_parsed_recipe_consistent {r : ScaledRecipe Rat} (h : ParsedScaled r) :
    RefsConsistent r.ingredients ∧ RefsInRange r.ingredients :=
  ⟨h.refsConsistent, h.refsConsistent.inRange⟩

/-- `C10_group_counts_once` for every parsed and scaled recipe: `all_quantities` of a definition never
    hits the index panic and yields its own quantity and those of its references, each once; nothing
    foreign is counted; every ingredient that stands for an ingredient is counted under exactly one
    definition. -/
theorem C10_parsed_group_counts_once {r : ScaledRecipe Rat} (h : ParsedScaled r) :
    (∀ d i, r.ingredients[d]? = some i → i.relation.isDefinition = true →
      allQuantities r.ingredients i = some (quantitiesAt r.ingredients (groupIndices i d)) ∧
      (groupIndices i d).Nodup ∧
      ∀ j ∈ groupIndices i d, ∃ ij, r.ingredients[j]? = some ij ∧ ij.owned = true) ∧
    (∀ j ij, r.ingredients[j]? = some ij → ij.owned = true →
      ∃ d i, r.ingredients[d]? = some i ∧ i.relation.isDefinition = true ∧ j ∈ groupIndices i d ∧
        ∀ d' i', r.ingredients[d']? = some i' → i'.relation.isDefinition = true → j ∈ groupIndices i' d' →
          d' = d) :=
  C10_group_counts_once h.refsConsistent

/-- `C10_group_conserves` for every ingredient of every parsed and scaled recipe -/
theorem C10_parsed_group_conserves {c : Converter Rat} (hc : c.Sound) (ord : MapOrder Rat) (hord : ord.IsPerm)
    {r : ScaledRecipe Rat} (h : ParsedScaled r) (i : Ingredient (Value Rat)) (hi : i ∈ r.ingredients)
    (cls : QClass) (hlin : LinearClass c cls) :
    ∃ g, groupQuantities c r.ingredients i = some g ∧
      Holds c cls (g.iter ord)
        (i.quantity.toList ++ quantitiesAt r.ingredients i.relation.relation.referencedFrom) :=
  C10_group_conserves hc ord hord r.ingredients i (h.refsConsistent.inRange i hi) cls hlin

/-- `C10_list_conserves` for every sequence of parsed and scaled recipes: no panic, and each entry holds
    what it held plus the quantities of the listed definitions displayed under its name, with their
    references. -/
theorem C10_parsed_list_conserves {c : Converter Rat} (hc : c.Sound) (ord : MapOrder Rat) (hord : ord.IsPerm)
    (rs : List (ScaledRecipe Rat)) (hr : ∀ r ∈ rs, ParsedScaled r)
    (m : IngredientList Rat) (cls : QClass) (hlin : LinearClass c cls) :
    ∃ m', addRecipes ord c m rs = some m' ∧
      ∀ name, Holds c cls (entryQuantities ord m' name)
        (entryQuantities ord m name ++ rs.flatMap (recipeQuantities name)) :=
  C10_list_conserves hc ord hord rs (fun r h => (hr r h).refsConsistent.inRange) m cls hlin

/-- `C10_shopping_list_conserves` for every sequence of parsed and scaled recipes and every aisle
    configuration (in particular every one `aisle::parse` returns) -/
theorem C10_parsed_shopping_list_conserves {c : Converter Rat} (hc : c.Sound) (ord : MapOrder Rat)
    (hord : ord.IsPerm) (aisle : Aisle.Conf) (rs : List (ScaledRecipe Rat))
    (hr : ∀ r ∈ rs, ParsedScaled r) (cls : QClass) (hlin : LinearClass c cls) :
    ∃ l, addRecipes ord c [] rs = some l ∧
      (∀ cat common, Holds c cls (categoryQuantities ord (categorize ord aisle l) cat common)
        (rs.flatMap (selRecipeQuantities (fun n => decide (sentTo aisle n cat common))))) ∧
      (∀ name, Holds c cls (entryQuantities ord (categorize ord aisle l).other name)
        (rs.flatMap (selRecipeQuantities (fun n => decide (Aisle.lookup aisle n = none ∧ n = name))))) :=
  C10_shopping_list_conserves hc ord hord aisle rs (fun r h => (hr r h).refsConsistent.inRange) cls hlin

/-! ## witnesses and non-vacuity -/

namespace C10Witness

def cB : Converter Rat := Converter.bundled Rat
/-- two legitimate iteration orders of the hash map -/
def idOrd : MapOrder Rat := fun l => l
def revOrd : MapOrder Rat := fun l => l.reverse
theorem idOrd_isPerm : idOrd.IsPerm := fun l => List.Perm.refl l
theorem revOrd_isPerm : revOrd.IsPerm := fun l => List.reverse_perm l

def kg : Str := ['k', 'g']
def gram : Str := ['g']
def bag : Str := ['b', 'a', 'g']
def degC : Str := ['°', 'C']
def degF : Str := ['°', 'F']
def tuna : Str := ['t', 'u', 'n', 'a']
def chicken : Str := ['c', 'h', 'i', 'c', 'k', 'e', 'n', ' ', 'o', 'f', ' ', 't', 'h', 'e', ' ', 's', 'e', 'a']
def canned : Str := ['c', 'a', 'n', 'n', 'e', 'd']
def flour : Str := ['f', 'l', 'o', 'u', 'r']
def num (v : Rat) (u : Option Str) : SQuantity Rat := ⟨.number (.regular v), u⟩
def ing (name : Str) (q : Option (SQuantity Rat)) (rel : IngredientRelation) (mods : Nat) :
    Ingredient (Value Rat) :=
  { name := name, alias := none, quantity := q, note := none, reference := none, relation := rel,
    modifiers := ⟨mods⟩ }

/-- the doc example of `group_quantities`: `@flour{1000%g} @&flour{200%g} @&flour{1%bag}` plus a
    range and a text -/
def flourQs : List (SQuantity Rat) :=
  [num 1000 (some gram), num 200 (some gram), num 1 (some bag),
   ⟨.range (.regular 1) (.fraction 2 1 2 0), some kg⟩, ⟨.text ['s', 'o', 'm', 'e'], none⟩]

/-- the theorems speak about non-trivial groups: 1000 g + 200 g + 1–2½ kg = 2200–3700 g,
    one bag apart, the text kept; for both iteration orders -/
example : total cB (.known .mass) ((addAll cB empty flourQs).iter idOrd) = (2200, 3700) ∧
    total cB (.unknown bag) ((addAll cB empty flourQs).iter revOrd) = (1, 1) ∧
    texts ((addAll cB empty flourQs).iter idOrd) = [⟨.text ['s', 'o', 'm', 'e'], none⟩] := by
  decide +kernel

example : total cB (.known .mass) ((addAll cB empty flourQs.reverse).fit cB).1.knownList = (2200, 3700) := by
  decide +kernel

/-- a recipe table that satisfies the invariant of `C10_group_counts_once`:
    `@flour{1000%g} @water{} @&flour{200%g} @&(~1)flour{5%g}` (the last one refers to a step) -/
def refRecipe : List (Ingredient (Value Rat)) :=
  [ing flour (some (num 1000 (some gram))) ⟨.definition [2] true, none⟩ 0,
   ing ['w'] none ⟨.definition [] true, none⟩ 0,
   ing flour (some (num 200 (some gram))) ⟨.reference 0, some .ingredient⟩ 2,
   ing flour (some (num 5 (some gram))) ⟨.reference 1, some .step⟩ 2]

theorem refRecipe_consistent : RefsConsistent refRecipe := by
  refine ⟨?_, ?_, ?_⟩
  · intro d i hd j hj
    have hlt : d < 4 := (List.getElem?_eq_some_iff.mp hd).1
    match d, hlt with
    | 0, _ => cases hd; simp [ing, ComponentRelation.referencedFrom] at hj; subst hj; exact ⟨_, rfl, rfl⟩
    | 1, _ => cases hd; simp [ing, ComponentRelation.referencedFrom] at hj
    | 2, _ => cases hd; simp [ing, ComponentRelation.referencedFrom] at hj
    | 3, _ => cases hd; simp [ing, ComponentRelation.referencedFrom] at hj
  · intro j ij d hj hrel
    have hlt : j < 4 := (List.getElem?_eq_some_iff.mp hj).1
    match j, hlt with
    | 0, _ => cases hj; simp [ing] at hrel
    | 1, _ => cases hj; simp [ing] at hrel
    | 2, _ =>
      cases hj; simp [ing] at hrel; subst hrel
      exact ⟨_, rfl, rfl, by simp [ing, ComponentRelation.referencedFrom]⟩
    | 3, _ => cases hj; simp [ing] at hrel
  · intro d i hd
    have hlt : d < 4 := (List.getElem?_eq_some_iff.mp hd).1
    match d, hlt with
    | 0, _ => cases hd; simp [ing, ComponentRelation.referencedFrom]
    | 1, _ => cases hd; simp [ing, ComponentRelation.referencedFrom]
    | 2, _ => cases hd; simp [ing, ComponentRelation.referencedFrom]
    | 3, _ => cases hd; simp [ing, ComponentRelation.referencedFrom]

/-- … and on it the list has one entry `flour` holding 1200 g: the reference is counted under
    its definition, the intermediate reference (5 g) nowhere -/
example : ((addRecipes idOrd cB [] [⟨[], refRecipe, [], [], []⟩]).map
    (fun l => (l.map (·.1), total cB (.known .mass) (entryQuantities idOrd l flour)))) =
    some ([flour, ['w']], (1200, 1200)) := by decide +kernel

end C10Witness

open C10Witness in
/-- Why the conservation theorems ask for `LinearClass`: with offset units (temperature) a "sum"
    depends on the unit it is made in, so no implementation can make the total independent of the
    order — 10 °C then 32 °F is kept in °C, 32 °F then 10 °C in °F, and the two totals are
    different amounts (witness on the bundled converter, decided by the kernel). -/
theorem C10_offset_units_do_not_sum :
    ¬ LinearClass cB (.known .temperature) ∧
    (total cB (.known .temperature) ((addAll cB empty [num 10 (some degC), num 32 (some degF)]).iter idOrd)).1 ≠
    (total cB (.known .temperature) ((addAll cB empty [num 32 (some degF), num 10 (some degC)]).iter idOrd)).1 := by
  constructor
  · intro h
    have hu : cB.findUnit degC ≠ none := by decide +kernel
    cases hf : cB.findUnit degC with
    | none => exact hu hf
    | some u =>
      have hd := h u (findUnit_mem hf)
      have : (cB.findUnit degC).map (fun u => decide (u.pq = .temperature ∧ u.difference ≠ 0)) = some true := by
        decide +kernel
      rw [hf] at this
      simp only [Option.map_some, Option.some.injEq, decide_eq_true_eq] at this
      exact this.2 (hd this.1)
  · decide +kernel

namespace C10Witness

/-- the aisle file `[canned]⏎tuna|chicken of the sea` -/
def aisleText : List Char :=
  ['[', 'c', 'a', 'n', 'n', 'e', 'd', ']', '\n'] ++ tuna ++ ['|'] ++ chicken
def aisleConf : Aisle.Conf := ⟨[⟨canned, [⟨[tuna, chicken]⟩]⟩]⟩
theorem aisle_parses : (Aisle.parse aisleText).toOption = some aisleConf := by decide +kernel

/-- the recipe `@tuna{1%kg} @chicken of the sea{2%kg}` after analysis -/
def tunaRecipe : ScaledRecipe Rat :=
  ⟨[], [ing tuna (some (num 1 (some kg))) ⟨.definition [] true, none⟩ 0,
        ing chicken (some (num 2 (some kg))) ⟨.definition [] true, none⟩ 0], [], [], []⟩

def tunaList : IngredientList Rat := (addRecipes idOrd cB [] [tunaRecipe]).getD []

end C10Witness

open C10Witness in
/-- DESIGN.md §8 item 8, the defect that fixes/0001-fix-categorize-… repairs: with the code as it
    was (`insert` under the common name, `categorizeOrig`) the two listed names `tuna` and
    `chicken of the sea` share the common name `tuna`, one entry overwrites the other and of the
    3000 g the list holds only 1000 g arrive under (canned, tuna) — the conservation statement is
    FALSE for the original code.  The repaired `categorize` delivers all 3000 g. -/
theorem C10_categorize_orig_loses :
    tunaList.map (·.1) = [chicken, tuna] ∧
    (total cB (.known .mass) (sentQuantities idOrd aisleConf tunaList canned tuna)) = (3000, 3000) ∧
    (total cB (.known .mass)
      (categoryQuantities idOrd (categorizeOrig aisleConf tunaList) canned tuna)) = (1000, 1000) ∧
    (total cB (.known .mass)
      (categoryQuantities idOrd (categorize idOrd aisleConf tunaList) canned tuna)) = (3000, 3000) := by
  decide +kernel

open C10Witness in
/-- … so `C10_categorize_conserves` cannot be stated for the original code -/
theorem C10_categorize_orig_not_conserving :
    ¬ Holds cB (.known .mass) (categoryQuantities idOrd (categorizeOrig aisleConf tunaList) canned tuna)
        (sentQuantities idOrd aisleConf tunaList canned tuna) := by
  intro h
  have h1 := h.1
  have := C10_categorize_orig_loses
  rw [this.2.1, this.2.2.1] at h1
  exact absurd h1 (by decide +kernel)

/-- the hypotheses of the theorems are satisfiable together: the bundled converter is sound, its
    mass class is linear, both orders are permutations, the witness table is consistent -/
example : (Converter.bundled Rat).Sound ∧ LinearClass (Converter.bundled Rat) (.known .mass) ∧
    C10Witness.idOrd.IsPerm ∧ C10Witness.revOrd.IsPerm ∧ RefsConsistent C10Witness.refRecipe :=
  ⟨C09_bundled_sound, C10_bundled_linear _ (by decide), C10Witness.idOrd_isPerm,
   C10Witness.revOrd_isPerm, C10Witness.refRecipe_consistent⟩

open C10Witness in
/-- `C10_shopping_list_conserves` speaks about something: the right-hand side for the tuna recipe and the
    aisle file `[canned]⏎tuna|chicken of the sea` is 3000 g under (canned, tuna), nothing in `other`; and
    merging two groups in either direction gives 1200 g -/
example : total cB (.known .mass)
      ([tunaRecipe].flatMap (selRecipeQuantities (fun n => decide (sentTo aisleConf n canned tuna)))) = (3000, 3000) ∧
    [tunaRecipe].flatMap (selRecipeQuantities (fun n => decide (Aisle.lookup aisleConf n = none ∧ n = tuna))) = [] ∧
    total cB (.known .mass) ((merge idOrd cB (addAll cB empty [num 1 (some kg)]) (addAll cB empty [num 200 (some gram)])).iter idOrd)
      = (1200, 1200) ∧
    total cB (.known .mass) ((merge idOrd cB (addAll cB empty [num 200 (some gram)]) (addAll cB empty [num 1 (some kg)])).iter revOrd)
      = (1200, 1200) := by
  decide +kernel

/-- `ParsedScaled` is inhabited (the analysis has an output, here on the empty input; `lexFrom` is
    defined by well-founded recursion, so inputs with content do not reduce by `rfl` — the content of the
    hypothesis is exercised by `refRecipe_consistent` above) -/
example : ∃ r, ParsedScaled r := by
  let cs : CharSpec :=
    ⟨fun c => c == ' ', fun _ => false, fun c => c == 'x', fun c => c == ' ' || c == '\n', fun c => c == 'x'⟩
  let env : Env := ⟨cs, ⟨Gen.EXT_MODES⟩, fun _ => none, fun _ _ => .ok, fun c => [c], 0⟩
  have hsome : (parseRecipe (α := Rat) env []).output.isSome = true := by
    have hl : ∀ off, lexFrom cs off [] = [] := by intro off; unfold lexFrom; rfl
    have hf : parseFrontmatter cs [] = none := by rfl
    unfold parseRecipe pullEvents
    simp only [env, hf, lex, hl]
    rfl
  cases hc : (parseRecipe (α := Rat) env []).output with
  | none => rw [hc] at hsome; cases hsome
  | some c => exact ⟨_, env, [], c, hc, Or.inr rfl⟩

/-! ## second audit (wave 5, notes/audit-C10.md): the one-recipe constructor, the whole list, the folded outcome -/

/-- **`IngredientList::from_recipe`** (the one-recipe constructor; Num/IngListMore.lean, tied by `gr fromrecipe`) is
    `add_recipe` into an empty list, and conserves like it: with the reference indices in range it returns, its names
    are distinct, and the entry `name` holds — per class total, both ends, and texts — exactly the quantities of the
    LISTED definitions displayed as `name`, each with those of its references.  In particular two definitions that
    share a display name are both counted (a constructor that collects `(display name, quantity)` pairs into the
    map, keeping the last one, violates this). -/
theorem C10_from_recipe_conserves {c : Converter Rat} (hc : c.Sound) (ord : MapOrder Rat) (hord : ord.IsPerm)
    (r : ScaledRecipe Rat) (hr : RefsInRange r.ingredients) (cls : QClass) (hlin : LinearClass c cls) :
    ∃ l, fromRecipe ord c r = some l ∧ addRecipes ord c [] [r] = some l ∧ (BMap.keys l).Nodup ∧
      (∀ name, Holds c cls (entryQuantities ord l name) (recipeQuantities name r)) ∧
      (∀ name, (l.get? name).isSome = true ↔
        ∃ i ∈ r.ingredients, i.relation.isDefinition = true ∧ i.modifiers.shouldBeListed = true ∧
          i.displayName = name) := by
  obtain ⟨l, hl, hh⟩ := C10_list_conserves hc ord hord [r] (by simpa using hr) [] cls hlin
  have hfr : fromRecipe ord c r = some l := by
    simp only [addRecipes] at hl
    unfold fromRecipe
    cases h : addRecipe ord c [] r with
    | none => simp [h] at hl
    | some l' => simpa [h] using hl
  refine ⟨l, hfr, hl, C10_list_names_distinct ord [r] l hl, ?_, ?_⟩
  · intro name
    refine (hh name).trans (Holds.of_perm ?_)
    simp [entryQuantities, BMap.get?]
  · intro name
    have := C10_listed_names ord r [] l hfr name
    simpa [BMap.get?] using this

/-- **The whole split list holds what the whole list held** ("splitting it by aisle never lose or invent amounts",
    as ONE statement over the entire list): everything found under all (category, common name) pairs and under all
    names of `other` together (`allCategorized`: what `CategorizedIngredientList::iter` yields) equals — per class
    total, both ends, and texts — everything the list held under all its names (`allListed`), for every aisle
    configuration.  So no entry is dropped, overwritten or counted twice anywhere in the split. -/
theorem C10_categorize_whole_list {c : Converter Rat} (hc : c.Sound) (ord : MapOrder Rat) (hord : ord.IsPerm)
    (aisle : Aisle.Conf) (l : IngredientList Rat) (hnd : (BMap.keys l).Nodup)
    (cls : QClass) (hlin : LinearClass c cls) :
    Holds c cls (allCategorized ord (categorize ord aisle l)) (allListed ord l) := by
  apply holds_of_weights hc hlin
  intro w hw
  rw [gw_sumBy_allCategorized w ord hord, gw_sumBy_allListed w ord hord,
    gw_categorize_total hw.joinAdditive ord hord aisle l hnd]

/-- … and from the recipes: for any sequence of recipes (reference indices in range) and any aisle configuration,
    the whole list and the whole split list both hold exactly the quantities of ALL listed definitions of all the
    recipes, each with those of its references (`selRecipeQuantities (fun _ => true)`): nothing hidden or
    reference-only is added, nothing listed is lost, whatever names collide. -/
theorem C10_shopping_list_whole {c : Converter Rat} (hc : c.Sound) (ord : MapOrder Rat) (hord : ord.IsPerm)
    (aisle : Aisle.Conf) (rs : List (ScaledRecipe Rat)) (hr : ∀ r ∈ rs, RefsInRange r.ingredients)
    (cls : QClass) (hlin : LinearClass c cls) :
    ∃ l, addRecipes ord c [] rs = some l ∧
      Holds c cls (allListed ord l) (rs.flatMap (selRecipeQuantities (fun _ => true))) ∧
      Holds c cls (allCategorized ord (categorize ord aisle l))
        (rs.flatMap (selRecipeQuantities (fun _ => true))) := by
  obtain ⟨l, hl⟩ := addRecipes_total (c := c) ord rs [] hr
  have hnd := C10_list_names_distinct ord rs l hl
  have h1 : Holds c cls (allListed ord l) (rs.flatMap (selRecipeQuantities (fun _ => true))) := by
    apply holds_of_weights hc hlin
    intro w hw
    have key := audit_selW_addRecipes hw.additive hw.fitInvariant (fun _ => true) ord hord rs [] l hl
    have e1 : gw_listW w l = selW w (fun _ => true) l := by
      unfold gw_listW selW; apply sumBy_congr; intro e _; simp
    rw [gw_sumBy_allListed w ord hord, e1, key, sumBy_flatMap]
    simp only [selW, sumBy_nil]
    rw [sumBy_congr rs (fun r _ => (audit_sumBy_selRecipeQuantities w _ r).symm)]
    grind
  exact ⟨l, hl, h1, (C10_categorize_whole_list hc ord hord aisle l hnd cls hlin).trans h1⟩

/-- **The scaling outcome of a grouped ingredient** (`GroupedIngredient::outcome`, the fold in `group_ingredients`;
    `foldOutcome`, tied by `gr outcome`): with the definition's index and its `referenced_from` indices inside the
    outcome vector (true of a scaled recipe: the vector lines up with the ingredients, C08, and the indices are in
    range, C06) the fold never hits the index panic and reports `Error` if the definition or any of its references
    was not scalable, else `Fixed` if one of them was fixed, else the definition's own outcome. -/
theorem C10_grouped_outcome (outs : List ScaleOutcome) (index : Nat) (refs : List Nat) (own : ScaleOutcome)
    (hown : outs[index]? = some own) (hr : ∀ j ∈ refs, j < outs.length) :
    foldOutcome outs index refs =
      some (if (index :: refs).any (fun j => decide (outs[j]? = some .error)) then .error
            else if (index :: refs).any (fun j => decide (outs[j]? = some .fixed)) then .fixed else own) :=
  go_foldOutcome outs index refs own hown hr

namespace C10Witness
/-- `@flour{1%kg} @flour|meal{200%g}`-like table: two definitions displayed under the same name -/
def twoDefs : ScaledRecipe Rat :=
  ⟨[], [ing flour (some (num 1 (some kg))) ⟨.definition [] true, none⟩ 0,
        ing flour (some (num 200 (some gram))) ⟨.definition [] true, none⟩ 0], [], [], []⟩
end C10Witness

open C10Witness in
/-- the new statements speak about something: `from_recipe` of two same-named definitions lists ONE entry holding
    both (1200 g); the whole tuna list (3000 g) arrives whole in the split; a definition scaled `Scaled` with a
    `Fixed` reference folds to `Fixed`, with an `Error` one to `Error` -/
example : ((fromRecipe idOrd cB twoDefs).map
      (fun l => (l.map (·.1), total cB (.known .mass) (entryQuantities idOrd l flour)))) = some ([flour], (1200, 1200)) ∧
    total cB (.known .mass) (allListed idOrd tunaList) = (3000, 3000) ∧
    total cB (.known .mass) (allCategorized idOrd (categorize idOrd aisleConf tunaList)) = (3000, 3000) ∧
    total cB (.known .mass) (allCategorized idOrd (categorizeOrig aisleConf tunaList)) = (1000, 1000) ∧
    foldOutcome [.scaled, .noQuantity, .fixed] 0 [2] = some .fixed ∧
    foldOutcome [.scaled, .error, .fixed] 0 [2, 1] = some .error ∧
    foldOutcome [.scaled, .noQuantity] 0 [1] = some .scaled := by
  decide +kernel

-- ===== w10c10fold =====

/-- **The outcome reported for a grouped ingredient of THIS scaled recipe** (`group_ingredients` run on what
    `parse` + `scale(factor)` returned; instance of `C10_grouped_outcome` with the outcome vector `scale` actually
    produced, `C08_outcomes_align`, and the reference tables C06 guarantees, `C10_parsed_recipe_consistent`).
    For every input, environment, converter and factor, and for the ingredient at ANY index `d` of the scaled recipe
    (in the code: every definition):
    * the outcome vector has an entry `own` for `d`, and an entry for each `referenced_from` index — the fold never
      hits the index panic;
    * each of these entries is the outcome of the PARSED ingredient at that index (`outcomeOf`: no quantity / `Fixed`
      / `Scaled`), and none is `Error`;
    * the fold is `Fixed` if the definition or one of its references was fixed, else the definition's own outcome —
      the outcomes of exactly `d :: referenced_from` (`groupIndices`) and of nothing else. -/
theorem C10_grouped_outcome_of_scaled (env : Env) (input : Str) (c : Col Rat)
    (h : (parseRecipe (α := Rat) env input).output = some c) (cv : Converter Rat) (f : Rat)
    (d : Nat) (i : Ingredient (Value Rat))
    (hd : (recipeScale cv c.toRecipe f).1.ingredients[d]? = some i) :
    ∃ own, (recipeScale cv c.toRecipe f).2.ingredients[d]? = some own ∧
      (∀ j ∈ groupIndices i d, ∃ o ij, (recipeScale cv c.toRecipe f).2.ingredients[j]? = some o ∧
        c.ingredients[j]? = some ij ∧ o = outcomeOf (ij.quantity.map (·.value)) ∧ o ≠ .error) ∧
      foldOutcome (recipeScale cv c.toRecipe f).2.ingredients d i.relation.relation.referencedFrom =
        some (if (groupIndices i d).any
            (fun j => decide ((recipeScale cv c.toRecipe f).2.ingredients[j]? = some .fixed)) then .fixed else own) := by
  have hps : ParsedScaled (recipeScale cv c.toRecipe f).1 := ⟨env, input, c, h, Or.inl ⟨cv, f, rfl⟩⟩
  have hrange := (C10_parsed_recipe_consistent hps).2
  obtain ⟨halign, _, _, hlen, _, _⟩ := C08_outcomes_align cv c.toRecipe f
  have hnoerr := (C08_parsed_recipe_outcomes env input c h cv c.toRecipe rfl rfl rfl f).1
  have hdlt : d < (recipeScale cv c.toRecipe f).1.ingredients.length := (List.getElem?_eq_some_iff.mp hd).1
  have hrefs : ∀ j ∈ i.relation.relation.referencedFrom, j < (recipeScale cv c.toRecipe f).2.ingredients.length := by
    intro j hj
    rw [hlen]
    exact hrange i (List.mem_of_getElem? hd) j hj
  have hentry : ∀ j, j < (recipeScale cv c.toRecipe f).2.ingredients.length →
      ∃ o ij, (recipeScale cv c.toRecipe f).2.ingredients[j]? = some o ∧
        c.ingredients[j]? = some ij ∧ o = outcomeOf (ij.quantity.map (·.value)) ∧ o ≠ .error := by
    intro j hj
    have hj' : j < c.ingredients.toList.length := by
      have := hj
      rw [halign] at this
      simpa [Col.toRecipe] using this
    have hq : (recipeScale cv c.toRecipe f).2.ingredients[j]? =
        some (outcomeOf ((c.ingredients.toList[j]).quantity.map (·.value))) := by
      rw [halign, List.getElem?_map]
      simp [Col.toRecipe, List.getElem?_eq_getElem hj']
    refine ⟨_, c.ingredients.toList[j], hq, ?_, rfl, hnoerr _ (List.mem_of_getElem? hq)⟩
    rw [← Array.getElem?_toList]; exact List.getElem?_eq_getElem hj'
  have hdo : d < (recipeScale cv c.toRecipe f).2.ingredients.length := by rw [hlen]; exact hdlt
  refine ⟨(recipeScale cv c.toRecipe f).2.ingredients[d], List.getElem?_eq_getElem hdo, ?_, ?_⟩
  · intro j hj
    rcases List.mem_cons.mp hj with rfl | hj
    · exact hentry _ hdo
    · exact hentry j (hrefs j hj)
  · rw [C10_grouped_outcome _ d _ _ (List.getElem?_eq_getElem hdo) hrefs]
    have hne : (d :: i.relation.relation.referencedFrom).any
        (fun j => decide ((recipeScale cv c.toRecipe f).2.ingredients[j]? = some .error)) = false := by
      rw [List.any_eq_false]
      intro j _ hje
      have hje := of_decide_eq_true hje
      exact hnoerr _ (List.mem_of_getElem? hje) rfl
    rw [hne]
    rfl

/-- an environment with the component-modifier extension (so `@&a` is a reference), no known units -/
def C10_exEnvRefs : Env :=
  ⟨toyCharSpec, ⟨Gen.EXT_COMPONENT_MODIFIERS⟩, fun _ => none, fun _ _ => .ok, fun c => [c], 0⟩

/-- the hypotheses of `C10_grouped_outcome_of_scaled` are satisfiable and the statement speaks about something:
    `@a{1}`, `@&a{=2}`, `@b` parses to a definition with `referenced_from = [1]`; scaled by 2 with the bundled
    converter the outcomes are `Scaled, Fixed, NoQuantity`, and the definition's group (indices 0 and 1) folds to
    `Fixed` — `@b`'s `NoQuantity` at index 2 plays no part -/
example : ((parseRecipe (α := Rat) C10_exEnvRefs "@a{1}\n\n@&a{=2}\n\n@b\n".toList).output.map (fun c =>
   ((recipeScale (Converter.bundled Rat) c.toRecipe 2).1.ingredients.map (·.relation.relation.referencedFrom),
    (recipeScale (Converter.bundled Rat) c.toRecipe 2).2.ingredients,
    foldOutcome (recipeScale (Converter.bundled Rat) c.toRecipe 2).2.ingredients 0 [1]))) =
   some ([[1], [], []], [.scaled, .fixed, .noQuantity], some .fixed) := by decide +kernel

/-! ### saturation of the fraction approximation (`Number::new_approx`, guard `whole == u32::MAX`) -/

/-- **A fraction `new_approx` returns is never a saturated one.**  For every table, value, accuracy and limits: if
    `Number::new_approx(value, …)` returns the fraction `whole num/den (+err)`, then
    * it stands for exactly `value` (`whole + num/den + err = value`), `whole ≤ max_whole`, and `value` is below
      `u32::MAX` (so the cast `value.trunc() as u32` did not saturate);
    * EITHER (table branch) `whole` is the integral part of `value`: `whole < u32::MAX` and
      `whole ≤ value < whole + 1`;
    * OR (rounded branch, `num/den = 0/1`) `whole` is `value` rounded: `whole - 1/2 ≤ value < whole + 1/2`.
    Without the guard `whole == u32::MAX` (seeded change C10-1 of round 8) `4294967296.5` was returned as
    `4294967295 1/2`: the first disjunct fails (`whole + 1 ≤ value`) and so does the second. -/
theorem C10_new_approx_no_saturation (t : List FracEntry) (v acc : Rat) (maxDen maxWhole w n d : Nat) (e : Rat)
    (h : newApprox t v acc maxDen maxWhole = some (.fraction w n d e)) :
    (Number.fraction w n d e).value = v ∧ w ≤ maxWhole ∧ v < ((u32Max : Nat) : Rat) ∧
    ((w = wholeOf v ∧ w < u32Max ∧ (w : Rat) ≤ v ∧ v < (w : Rat) + 1) ∨
     (n = 0 ∧ d = 1 ∧ (w : Rat) = ((ratRound v : Int) : Rat) ∧ (w : Rat) - 1/2 ≤ v ∧ v < (w : Rat) + 1/2)) := by
  have hval := newApprox_value t v acc maxDen maxWhole _ h
  obtain ⟨hv, hw, hne, hc⟩ := newApprox_cases t v acc maxDen maxWhole _ h
  have hv0 : 0 ≤ v := Rat.le_of_lt hv
  refine ⟨hval, ?_, fsat_lt_u32Max hv0 hne, ?_⟩
  · rcases hc with ⟨h1, _⟩ | ⟨h1, _, _, h4⟩ | ⟨e', _, h1, _⟩
    · cases h1
    · cases h1; exact h4
    · cases h1; exact hw
  · rcases hc with ⟨h1, _⟩ | ⟨h1, _, _, h4⟩ | ⟨e', _, h1, _⟩
    · cases h1
    · cases h1
      right
      have hr := roundedOf_exact hv0 hne
      have hb := fsat_round_bounds hv0
      refine ⟨rfl, rfl, hr, ?_, ?_⟩
      · rw [hr]; exact hb.1
      · rw [hr]; exact hb.2
    · cases h1
      left
      have hb := fsat_wholeOf_bounds hv0 hne
      have hle := @fsat_wholeOf_lt v
      exact ⟨rfl, by omega, hb.1, hb.2⟩

/-- **`new_approx` refuses every value from `u32::MAX` on** — whatever the table, accuracy and limits (also
    `max_whole = u32::MAX`, the default configuration): such a value stays a plain number. -/
theorem C10_new_approx_refuses_beyond_u32 (t : List FracEntry) (v acc : Rat) (maxDen maxWhole : Nat)
    (hbig : ((u32Max : Nat) : Rat) ≤ v) : newApprox t v acc maxDen maxWhole = none := by
  cases hn : newApprox t v acc maxDen maxWhole with
  | none => rfl
  | some n =>
    obtain ⟨hv, _, hne, _⟩ := newApprox_cases t v acc maxDen maxWhole n hn
    have := fsat_lt_u32Max (Rat.le_of_lt hv) hne
    exact absurd hbig (Rat.not_le.mpr this)

/-- **Adding quantities to a group and fitting it conserves the total, with no bound on the amounts** — in particular
    when the total exceeds `2^32` (the regression behind seeded change C10-1: `2147483648.5 cup + 2147483648 cup`
    fitted to `4294967295 1/2 cup`, two cups less than the sum).  For every sound converter, every hash order, every
    list of quantities `qs` and every linear class: the group built from `qs` and then fitted (whether `fit` returns
    `Ok` or stops at an error) holds — per class total, both ends, and texts — exactly `qs`; and every number the
    converter's approximation (`Converter::approx` = `Number::new_approx` with the unit's configuration, the only
    place where `fit` makes a fraction: `tryApprox`, `fracCandidates`, `fitFractionApply`) returns stands for exactly
    the value it was given, which is then below `u32::MAX`. -/
theorem C10_fit_conserves_beyond_u32 {c : Converter Rat} (hc : c.Sound) (ord : MapOrder Rat) (hord : ord.IsPerm)
    (qs : List (SQuantity Rat)) (cls : QClass) (hlin : LinearClass c cls) :
    Holds c cls (((addAll c empty qs).fit c).1.iter ord) qs ∧
    (∀ (v : Rat) (cfg : FracCfg Rat) (n : Number Rat), c.approx v cfg = some n →
      n.value = v ∧ v < ((u32Max : Nat) : Rat)) ∧
    (∀ (v : Rat) (cfg : FracCfg Rat), ((u32Max : Nat) : Rat) ≤ v → c.approx v cfg = none) := by
  refine ⟨?_, ?_, ?_⟩
  · obtain ⟨h1, h2⟩ := C10_fit_conserves hc ord hord (addAll c empty qs) cls
    have hfit : Holds c cls (((addAll c empty qs).fit c).1.iter ord) ((addAll c empty qs).iter ord) :=
      ⟨by rw [h1], by rw [h1], h2⟩
    exact hfit.trans (C10_adds_conserve hc ord hord empty qs cls hlin).2
  · intro v cfg n hn
    obtain ⟨hv, _, hne, _⟩ := newApprox_cases _ v _ _ _ n hn
    exact ⟨newApprox_value _ v _ _ _ n hn, fsat_lt_u32Max (Rat.le_of_lt hv) hne⟩
  · intro v cfg hbig
    exact C10_new_approx_refuses_beyond_u32 _ v _ _ _ hbig

namespace C10Witness
def cupText : Str := ['c', 'u', 'p']
/-- `2147483648.5 cup` and `2147483648 cup`: the sum `4294967296.5` is above `2^32` -/
def bigCups : List (SQuantity Rat) := [num (4294967297/2) (some cupText), num 2147483648 (some cupText)]
end C10Witness

open C10Witness in
/-- the statements speak about something (exact table, accuracy 5 %, `max_whole = u32::MAX`):
    `2.5` becomes `2 1/2` (table branch); `2147483647.75` becomes `2147483647 3/4` (table branch, a large whole; accuracy 1e-11, with 5 % it is rounded);
    `4294967294.5` becomes the ROUNDED `4294967295 - 0.5` — the only way a whole part equal to `u32::MAX` is ever
    returned, and it is exact (second disjunct; this is why `whole < u32::MAX` is claimed for the table branch only);
    `4294967296.5` is refused.  With the bundled converter `2147483648.5 cup + 2147483648 cup`, grouped and fitted,
    is the plain number `4294967296.5 c` and the volume total of the fitted group is that of the two inputs. -/
example : newApprox ratTable (5/2 : Rat) (5/100) 4 u32Max = some (.fraction 2 1 2 0) ∧
    newApprox ratTable (8589934591/4 : Rat) (1/100000000000) 4 u32Max = some (.fraction 2147483647 3 4 0) ∧
    newApprox ratTable (8589934589/2 : Rat) (5/100) 4 u32Max = some (.fraction 4294967295 0 1 (-1/2)) ∧
    newApprox ratTable (8589934593/2 : Rat) (5/100) 4 u32Max = none ∧
    ((GroupedQuantity.fit cB (addAll cB empty bigCups)).1.iter idOrd) =
      [⟨.number (.regular (8589934593/2)), some ['c']⟩] ∧
    total cB (.known .volume) ((GroupedQuantity.fit cB (addAll cB empty bigCups)).1.iter idOrd) =
      total cB (.known .volume) bigCups ∧
    (total cB (.known .volume) bigCups).1 = (8589934593/2) * (59147059/250000000) := by
  decide +kernel

/-- the hypotheses of `C10_fit_conserves_beyond_u32` hold for the bundled converter and its volume class -/
example : Holds C10Witness.cB (.known .volume)
    (((addAll C10Witness.cB empty C10Witness.bigCups).fit C10Witness.cB).1.iter C10Witness.idOrd) C10Witness.bigCups :=
  (C10_fit_conserves_beyond_u32 C09_bundled_sound C10Witness.idOrd C10Witness.idOrd_isPerm C10Witness.bigCups (.known .volume)
    (C10_bundled_linear _ (by decide))).1

/-- **`fit` never writes a saturated fraction** — for EVERY converter (no invariant needed), quantity, group and hash
    order.  `Number.NotSaturated` (Lemmas/FractionSat.lean): a plain number, or a fraction whose written whole part is
    the integral part of, or the rounding of, the value it stands for (`whole - 1/2 ≤ value < whole + 1`) with the
    value below `u32::MAX`.
    * If the numbers of a quantity (both ends of a range) are not saturated, neither are those of
      `ScaledQuantity::fit` of it, whether it returns `Ok` or an error;
    * if the numbers of everything a group yields are not saturated, neither are those of everything
      `GroupedQuantity::fit` of it yields.
    In particular a group of plain numbers — what `add` of plain numbers builds — is fitted to plain numbers and
    honest fractions only, however large its totals are: with `C10_fit_conserves_beyond_u32`, what is WRITTEN
    (`whole num/den`) is within one unit of the conserved total.  Proof: the only constructor of fractions on the
    fit path is `Converter::approx` (`fnum_fit`, `fnum_group_fit`: `tryFraction`, `fracCandidates`/`min_by`,
    `fitFractionApply`, `convertImpl`), and `C10_new_approx_no_saturation`. -/
theorem C10_fit_never_saturates (c : Converter Rat) :
    (∀ q : SQuantity Rat, q.value.AllNum Number.NotSaturated → (Cook.fit c q).1.value.AllNum Number.NotSaturated) ∧
    (∀ (ord : MapOrder Rat) (g : GroupedQuantity Rat),
      (∀ q ∈ g.iter ord, q.value.AllNum Number.NotSaturated) →
      ∀ q ∈ (g.fit c).1.iter ord, q.value.AllNum Number.NotSaturated) :=
  ⟨fun q hq => fnum_fit (fsat_approxClosed c) q hq, fun ord g hg => fnum_group_fit (fsat_approxClosed c) ord g hg⟩

open C10Witness in
/-- the hypothesis is satisfiable and the conclusion speaks about fractions: with the bundled converter
    `1.25 cup + 1.25 cup` (plain numbers) is fitted to `2 1/2 c`, `1073741823.875 cup` twice to the rounded
    `2147483648 (-0.25) c`; the group of `bigCups` consists of plain numbers -/
example : ((GroupedQuantity.fit cB (addAll cB empty [num (5/4) (some cupText), num (5/4) (some cupText)])).1.iter idOrd) =
      [⟨.number (.fraction 2 1 2 0), some ['c']⟩] ∧
    ((GroupedQuantity.fit cB (addAll cB empty
        [num (8589934591/8) (some cupText), num (8589934591/8) (some cupText)])).1.iter idOrd) =
      [⟨.number (.fraction 2147483648 0 1 (-1/4)), some ['c']⟩] ∧
    ((addAll cB empty bigCups).iter idOrd) = [⟨.number (.regular (8589934593/2)), some cupText⟩] := by
  decide +kernel

example : ∀ q ∈ (addAll C10Witness.cB empty C10Witness.bigCups).iter C10Witness.idOrd,
    q.value.AllNum Number.NotSaturated := by
  have h : ((addAll C10Witness.cB empty C10Witness.bigCups).iter C10Witness.idOrd) =
      [⟨.number (.regular (8589934593/2)), some C10Witness.cupText⟩] := by decide +kernel
  rw [h]
  intro q hq
  simp only [List.mem_singleton] at hq
  subst hq
  trivial

/-- **Grouping and fitting never writes a saturated fraction**: for every converter, every hash order and every list
    of quantities whose own numbers are not saturated (every plain number is; a written `1 1/2` is), everything the
    group built from them by `add` and then fitted yields consists of plain numbers and non-saturated fractions.
    (`add` stores an input as it is or a sum, and a sum is always a plain number — `Value::try_add`; `fit`:
    `C10_fit_never_saturates`.)  Together with `C10_fit_conserves_beyond_u32`: the group holds exactly the inputs
    AND what it shows for them is honest, with no bound on the amounts. -/
theorem C10_add_fit_never_saturates (c : Converter Rat) (ord : MapOrder Rat) (hord : ord.IsPerm)
    (qs : List (SQuantity Rat)) (hqs : ∀ q ∈ qs, q.value.AllNum Number.NotSaturated) :
    (∀ q ∈ (addAll c empty qs).iter ord, q.value.AllNum Number.NotSaturated) ∧
    (∀ q ∈ ((addAll c empty qs).fit c).1.iter ord, q.value.AllNum Number.NotSaturated) := by
  have h1 := fnum_iter_of_allNum ord hord
    (fnum_addAll (c := c) (fsat_approxClosed c).regular qs empty fnum_empty hqs)
  exact ⟨h1, (C10_fit_never_saturates c).2 ord _ h1⟩

/-- its hypothesis holds of the two large cup quantities (plain numbers) and of a written `1 1/2` -/
example : (∀ q ∈ C10Witness.bigCups, q.value.AllNum Number.NotSaturated) ∧
    (Number.fraction 1 1 2 0 : Number Rat).NotSaturated := by
  refine ⟨?_, ?_⟩
  · intro q hq
    simp only [C10Witness.bigCups, List.mem_cons, List.not_mem_nil, or_false] at hq
    rcases hq with rfl | rfl <;> trivial
  · simp only [Number.NotSaturated]
    decide +kernel

-- ===== w11c10merge =====

namespace C10Witness
/-- `1.25 cup` and `3 bag`, added -/
def mergeA : GroupedQuantity Rat := addAll cB empty [num (5/4) (some cupText), num 3 (some bag)]
/-- `1.25 cup + 1.25 cup` and `1 bag`, added and FITTED: holds the fraction `2 1/2 c` -/
def mergeB : GroupedQuantity Rat :=
  (GroupedQuantity.fit cB (addAll cB empty [num (5/4) (some cupText), num (5/4) (some cupText), num 1 (some bag)])).1
/-- two definitions of flour, `1.25 cup` and a written `1 1/4 cup`, and an inline `300 g` -/
def cupRecipe : ScaledRecipe Rat :=
  ⟨[], [ing flour (some (num (5/4) (some cupText))) ⟨.definition [] true, none⟩ 0,
        ing flour (some ⟨.number (.fraction 1 1 4 0), some cupText⟩) ⟨.definition [] true, none⟩ 0], [], [],
   [num 300 (some gram)]⟩

theorem mergeA_allNum : mergeA.AllNum Number.NotSaturated :=
  fnum_addAll (fsat_approxClosed cB).regular _ _ fnum_empty (by
    intro q hq
    simp only [List.mem_cons, List.not_mem_nil, or_false] at hq
    rcases hq with rfl | rfl <;> trivial)

theorem mergeB_allNum : mergeB.AllNum Number.NotSaturated :=
  msat_group_fit (fsat_approxClosed cB) (fnum_addAll (fsat_approxClosed cB).regular _ _ fnum_empty (by
    intro q hq
    simp only [List.mem_cons, List.not_mem_nil, or_false] at hq
    rcases hq with rfl | rfl | rfl <;> trivial))

theorem cupRecipe_allNum : cupRecipe.AllNum Number.NotSaturated := by
  have hf : (Number.fraction 1 1 4 0 : Number Rat).NotSaturated := by
    simp only [Number.NotSaturated]
    decide +kernel
  refine ⟨?_, ?_, ?_⟩
  · intro i hi q hq
    simp only [cupRecipe, List.mem_cons, List.not_mem_nil, or_false] at hi
    rcases hi with rfl | rfl <;> simp only [ing, Option.some.injEq] at hq <;> subst hq
    · trivial
    · exact hf
  · intro t ht
    cases ht
  · intro q hq
    simp only [cupRecipe, List.mem_cons, List.not_mem_nil, or_false] at hq
    subst hq
    trivial
end C10Witness

/-- **`GroupedQuantity::merge` never writes a saturated fraction**: for every converter and hash order, if the
    numbers stored in two groups (all four stores: known slots, unknown-unit map, `other`, no-unit slot; both ends
    of ranges) are plain numbers or non-saturated fractions (`Number.NotSaturated`: `whole - 1/2 ≤ value < whole + 1`,
    `value < u32::MAX`), then so are the numbers stored in `g.merge(other)`, everything it yields, and everything it
    yields after `fit`.  (`merge` is `add` of everything `other` yields: an `add` stores its argument as it is or a
    sum, and a sum is a plain number — `fnum_addAll`.) -/
theorem C10_merge_never_saturates (c : Converter Rat) (ord : MapOrder Rat) (hord : ord.IsPerm)
    (g other : GroupedQuantity Rat) (hg : g.AllNum Number.NotSaturated) (ho : other.AllNum Number.NotSaturated) :
    (merge ord c g other).AllNum Number.NotSaturated ∧
    (∀ q ∈ (merge ord c g other).iter ord, q.value.AllNum Number.NotSaturated) ∧
    (∀ q ∈ ((merge ord c g other).fit c).1.iter ord, q.value.AllNum Number.NotSaturated) := by
  have h := msat_merge (c := c) (fsat_approxClosed c).regular ord hord hg ho
  have h1 := fnum_iter_of_allNum ord hord h
  exact ⟨h, h1, (C10_fit_never_saturates c).2 ord _ h1⟩

open C10Witness in
/-- the hypotheses hold of a group of plain numbers and of a fitted group that holds the fraction `2 1/2 c`;
    merging the second into the first gives `3.75 cup` and `4 bag` -/
example : mergeA.AllNum Number.NotSaturated ∧ mergeB.AllNum Number.NotSaturated ∧
    mergeB.iter idOrd = [⟨.number (.fraction 2 1 2 0), some ['c']⟩, num 1 (some bag)] ∧
    (merge idOrd cB mergeA mergeB).iter idOrd = [num (15/4) (some cupText), num 4 (some bag)] :=
  ⟨mergeA_allNum, mergeB_allNum, by decide +kernel, by decide +kernel⟩

/-- **`GroupedQuantity::absorb` never writes a saturated fraction**: the converter-free merge used by
    `categorize`.  Same statement as for `merge`: both groups hold only plain numbers and non-saturated fractions ⇒
    so does `g.absorb(other)`, what it yields, and what it yields after `fit` with any converter.  (`absorb` stores
    `join` of the stored total and the argument — a `Value::try_add` sum, a plain number — or copies the argument:
    into its slot, or to `other`.) -/
theorem C10_absorb_never_saturates (c : Converter Rat) (ord : MapOrder Rat) (hord : ord.IsPerm)
    (g other : GroupedQuantity Rat) (hg : g.AllNum Number.NotSaturated) (ho : other.AllNum Number.NotSaturated) :
    (absorb ord g other).AllNum Number.NotSaturated ∧
    (∀ q ∈ (absorb ord g other).iter ord, q.value.AllNum Number.NotSaturated) ∧
    (∀ q ∈ ((absorb ord g other).fit c).1.iter ord, q.value.AllNum Number.NotSaturated) := by
  have h := msat_absorb (fsat_approxClosed c).regular ord hord hg ho
  have h1 := fnum_iter_of_allNum ord hord h
  exact ⟨h, h1, (C10_fit_never_saturates c).2 ord _ h1⟩

open C10Witness in
/-- the same two groups: `absorb` keeps `1.25 cup`, sums the bags and COPIES the fraction `2 1/2 c` to `other`
    (the units `cup` and `c` differ as text, so `join` refuses): the conclusion speaks about a fraction -/
example : (absorb idOrd mergeA mergeB).iter idOrd =
    [num (5/4) (some cupText), num 4 (some bag), ⟨.number (.fraction 2 1 2 0), some ['c']⟩] := by
  decide +kernel

/-- **`ScaledRecipe::convert` never writes a saturated fraction**: for every converter and target system, if the
    numbers of every quantity the conversion visits (ingredients, timers, inline quantities; both ends of ranges)
    are plain numbers or non-saturated fractions, so are those of the converted recipe — also as the method on the
    full recipe (`convertM`).  (`convert` makes fractions only through `Converter::approx`, `fnum_convertImpl`; what
    it does not convert it leaves as it was.) -/
theorem C10_convert_recipe_never_saturates (c : Converter Rat) (to : System) :
    (∀ r : ScaledRecipe Rat, r.AllNum Number.NotSaturated → (recipeConvert c to r).1.AllNum Number.NotSaturated) ∧
    (∀ s : Serde.FullRecipe Rat (Value Rat) (Serde.Scaled Rat), ScaledRecipe.AllNum Number.NotSaturated s.recipe →
      ScaledRecipe.AllNum Number.NotSaturated (convertM c to s).1.recipe) :=
  ⟨fun r hr => msat_recipeConvert (fsat_approxClosed c) to r hr,
   fun s hs => msat_recipeConvert (fsat_approxClosed c) to s.recipe hs⟩

open C10Witness in
/-- the hypothesis holds of a recipe with a plain `1.25 cup`, a written `1 1/4 cup` and an inline `300 g`; converted
    to imperial with the bundled converter both cups become the fraction `1 1/4 c` and the grams the rounded
    `11 oz` (error term kept) -/
example : cupRecipe.AllNum Number.NotSaturated ∧
    (recipeConvert cB .imperial cupRecipe).1.ingredients.map (·.quantity) =
      [some ⟨.number (.fraction 1 1 4 0), some ['c']⟩, some ⟨.number (.fraction 1 1 4 0), some ['c']⟩] ∧
    (recipeConvert cB .imperial cupRecipe).1.inlineQuantities =
      [⟨.number (.fraction 11 0 1 (-18951607/45359237)), some ['o', 'z']⟩] :=
  ⟨cupRecipe_allNum, by decide +kernel, by decide +kernel⟩

/-- **The ingredient list never holds a saturated fraction**: for every converter and hash order, if every group
    of a list holds only plain numbers and non-saturated fractions and so do the ingredient quantities of a recipe,
    then whenever `add_recipe` returns (no index panic) every group of the new list does; in particular
    `IngredientList::from_recipe` of such a recipe, and of such a recipe after `convert` to any system.
    (`group_quantities` = `add`s + `fit`: `C10_add_fit_never_saturates`; the entry of the name is `merge`d:
    `C10_merge_never_saturates`; the other entries are not touched.) -/
theorem C10_ingredient_list_never_saturates (c : Converter Rat) (ord : MapOrder Rat) (hord : ord.IsPerm) :
    (∀ (list : IngredientList Rat) (r : ScaledRecipe Rat) (out : IngredientList Rat),
      IngredientList.AllNum Number.NotSaturated list →
      (∀ i ∈ r.ingredients, ∀ q, i.quantity = some q → q.value.AllNum Number.NotSaturated) →
      addRecipe ord c list r = some out → IngredientList.AllNum Number.NotSaturated out) ∧
    (∀ (r : ScaledRecipe Rat) (out : IngredientList Rat), r.AllNum Number.NotSaturated →
      fromRecipe ord c r = some out → IngredientList.AllNum Number.NotSaturated out) ∧
    (∀ (to : System) (r : ScaledRecipe Rat) (out : IngredientList Rat), r.AllNum Number.NotSaturated →
      fromRecipe ord c (recipeConvert c to r).1 = some out → IngredientList.AllNum Number.NotSaturated out) := by
  have hnil : IngredientList.AllNum Number.NotSaturated ([] : IngredientList Rat) := by
    intro e he
    cases he
  refine ⟨?_, ?_, ?_⟩
  · intro list r out hl hr h
    exact msat_addRecipe (fsat_approxClosed c) ord hord hl r hr out h
  · intro r out hr h
    exact msat_addRecipe (fsat_approxClosed c) ord hord hnil r hr.1 out h
  · intro to r out hr h
    exact msat_addRecipe (fsat_approxClosed c) ord hord hnil _
      (msat_recipeConvert (fsat_approxClosed c) to r hr).1 out h

open C10Witness in
/-- `from_recipe` of the cup recipe returns: each definition is grouped and fitted to the fraction `1 1/4 c`, the two
    are merged under `flour` into the plain `2.5 c`; the same after conversion to imperial -/
example : (groupIngredients cB cupRecipe).map (fun l => l.map (fun e => e.quantity.iter idOrd)) =
      some [[⟨.number (.fraction 1 1 4 0), some ['c']⟩], [⟨.number (.fraction 1 1 4 0), some ['c']⟩]] ∧
    (fromRecipe idOrd cB cupRecipe).map (fun l => l.map (fun e => (e.1, e.2.iter idOrd))) =
      some [(flour, [num (5/2) (some ['c'])])] ∧
    (fromRecipe idOrd cB (recipeConvert cB .imperial cupRecipe).1).map
        (fun l => l.map (fun e => (e.1, e.2.iter idOrd))) = some [(flour, [num (5/2) (some ['c'])])] := by
  decide +kernel

-- ===== w12c10cat =====

namespace C10Witness
/-- a list of three names: `chicken of the sea` holds the FITTED group (`2 1/2 c`, `1 bag`), `flour` and `tuna` hold
    `1.25 cup, 3 bag`; the aisle file `aisleConf` sends `tuna` and `chicken of the sea` to (`canned`, `tuna`) -/
def catList : IngredientList Rat := [(chicken, mergeB), (flour, mergeA), (tuna, mergeA)]

theorem catList_allNum : IngredientList.AllNum Number.NotSaturated catList := by
  intro e he
  simp only [catList, List.mem_cons, List.not_mem_nil, or_false] at he
  rcases he with rfl | rfl | rfl
  · exact mergeB_allNum
  · exact mergeA_allNum
  · exact mergeA_allNum

/-- cookware amounts: the written fractions `1 1/2` and `2 1/4`, a text and the range `1 – 2` -/
def cwVals : List (Value Rat) :=
  [.number (.fraction 1 1 2 0), .number (.fraction 2 1 4 0), .text ['a'], .range (.regular 1) (.fraction 2 0 1 0)]

theorem cwVals_allNum : ∀ v ∈ cwVals, v.AllNum Number.NotSaturated := by
  have h1 : (Number.fraction 1 1 2 0 : Number Rat).NotSaturated := by
    simp only [Number.NotSaturated]; decide +kernel
  have h2 : (Number.fraction 2 1 4 0 : Number Rat).NotSaturated := by
    simp only [Number.NotSaturated]; decide +kernel
  have h3 : (Number.fraction 2 0 1 0 : Number Rat).NotSaturated := by
    simp only [Number.NotSaturated]; decide +kernel
  intro v hv
  simp only [cwVals, List.mem_cons, List.not_mem_nil, or_false] at hv
  rcases hv with rfl | rfl | rfl | rfl
  · exact h1
  · exact h2
  · trivial
  · exact ⟨trivial, h3⟩
end C10Witness

/-- **`IngredientList::categorize` never writes a saturated fraction**: for every aisle configuration and hash order,
    if every group of the list holds only plain numbers and non-saturated fractions (`IngredientList.AllNum
    Number.NotSaturated`, what `C10_ingredient_list_never_saturates` gives for a list built by `add_recipe`), then so
    does every group found under every (category, common name) and every group of `other`
    (`Categorized.AllNum`), everything those groups yield (`iter`), and everything they yield after `fit` with any
    converter.  (`categorize` copies a group or `absorb`s it into the one already under the common name:
    `C10_absorb_never_saturates`, by induction over the list.) -/
theorem C10_categorize_never_saturates (c : Converter Rat) (ord : MapOrder Rat) (hord : ord.IsPerm)
    (aisle : Aisle.Conf) (list : IngredientList Rat) (hl : IngredientList.AllNum Number.NotSaturated list) :
    Categorized.AllNum Number.NotSaturated (categorize ord aisle list) ∧
    (∀ k ∈ (categorize ord aisle list).categories, ∀ e ∈ k.2,
      (∀ q ∈ e.2.iter ord, q.value.AllNum Number.NotSaturated) ∧
      (∀ q ∈ (e.2.fit c).1.iter ord, q.value.AllNum Number.NotSaturated)) ∧
    (∀ e ∈ (categorize ord aisle list).other,
      (∀ q ∈ e.2.iter ord, q.value.AllNum Number.NotSaturated) ∧
      (∀ q ∈ (e.2.fit c).1.iter ord, q.value.AllNum Number.NotSaturated)) := by
  have h := csat_categorize (fsat_approxClosed c).regular ord hord aisle hl
  have hy : ∀ g : GroupedQuantity Rat, g.AllNum Number.NotSaturated →
      (∀ q ∈ g.iter ord, q.value.AllNum Number.NotSaturated) ∧
      (∀ q ∈ (g.fit c).1.iter ord, q.value.AllNum Number.NotSaturated) := by
    intro g hg
    have h1 := fnum_iter_of_allNum ord hord hg
    exact ⟨h1, (C10_fit_never_saturates c).2 ord _ h1⟩
  exact ⟨h, fun k hk e he => hy _ (h.1 k hk e he), fun e he => hy _ (h.2 e he)⟩

open C10Witness in
/-- the three-name list split by `aisleConf`: `tuna` is absorbed into the fitted group already under (`canned`, `tuna`)
    — the bags are summed to the plain `4 bag`, the fraction `2 1/2 c` stays, `1.25 cup` is copied — and `flour` goes
    to `other` unchanged: the conclusion speaks about a fraction -/
example : IngredientList.AllNum Number.NotSaturated catList ∧
    (categorize idOrd aisleConf catList).categories.map (fun k => k.1) = [canned] ∧
    (categorize idOrd aisleConf catList).categories.flatMap (fun k => k.2.map (fun e => (e.1, e.2.iter idOrd))) =
      [(tuna, [⟨.number (.fraction 2 1 2 0), some ['c']⟩, num 4 (some bag), num (5/4) (some cupText)])] ∧
    (categorize idOrd aisleConf catList).other.map (fun e => (e.1, e.2.iter idOrd)) =
      [(flour, [num (5/4) (some cupText), num 3 (some bag)])] :=
  ⟨catList_allNum, by decide +kernel, by decide +kernel, by decide +kernel⟩

/-- **A sequence of `add_recipe` calls never writes a saturated fraction**: for every converter and hash order, a
    list whose groups hold only plain numbers and non-saturated fractions, and recipes whose ingredient quantities do:
    the list after all the calls (when none panics — `C10_recipes_to_aisles` says when) has only such groups,
    everything they yield, and everything they yield after `fit`; in particular from the empty list.  (Induction over
    the recipes with part (1) of `C10_ingredient_list_never_saturates`.) -/
theorem C10_add_recipes_never_saturates (c : Converter Rat) (ord : MapOrder Rat) (hord : ord.IsPerm)
    (rs : List (ScaledRecipe Rat))
    (hr : ∀ r ∈ rs, ∀ i ∈ r.ingredients, ∀ q, i.quantity = some q → q.value.AllNum Number.NotSaturated) :
    (∀ (list out : IngredientList Rat), IngredientList.AllNum Number.NotSaturated list →
      addRecipes ord c list rs = some out →
      IngredientList.AllNum Number.NotSaturated out ∧
      ∀ e ∈ out, (∀ q ∈ e.2.iter ord, q.value.AllNum Number.NotSaturated) ∧
        (∀ q ∈ (e.2.fit c).1.iter ord, q.value.AllNum Number.NotSaturated)) ∧
    (∀ out : IngredientList Rat, addRecipes ord c [] rs = some out →
      IngredientList.AllNum Number.NotSaturated out) := by
  have hmain : ∀ (list out : IngredientList Rat), IngredientList.AllNum Number.NotSaturated list →
      addRecipes ord c list rs = some out → IngredientList.AllNum Number.NotSaturated out :=
    fun list out hl h => csat_addRecipes (fsat_approxClosed c) ord hord rs hl hr out h
  refine ⟨?_, ?_⟩
  · intro list out hl h
    have ho := hmain list out hl h
    refine ⟨ho, ?_⟩
    intro e he
    have h1 := fnum_iter_of_allNum ord hord (ho e he)
    exact ⟨h1, (C10_fit_never_saturates c).2 ord _ h1⟩
  · intro out h
    exact hmain [] out (fun e he => absurd he List.not_mem_nil) h

open C10Witness in
/-- the cup recipe (a plain `1.25 cup` and a written `1 1/4 cup`) added twice, once as it is and once converted to
    imperial: the four fitted `1 1/4 c` are merged under `flour` into the plain `5 c` -/
example : cupRecipe.AllNum Number.NotSaturated ∧
    (addRecipes idOrd cB [] [cupRecipe, (recipeConvert cB .imperial cupRecipe).1]).map
      (fun l => l.map (fun e => (e.1, e.2.iter idOrd))) = some [(flour, [num 5 (some ['c'])])] :=
  ⟨cupRecipe_allNum, by decide +kernel⟩

/-- **Cookware amounts (`GroupedValue`) never hold a saturated fraction, and hold exactly the inputs.**
    `GroupedValue::add` of a value into a group, over any sequence (`groupedValueAddAll`), and `GroupedValue::merge`:
    if every number the group and the added values hold (both ends of ranges; nothing is asked of texts) is a plain
    number or a non-saturated fraction, the `expect` does not fire and every number of the result is one too — and
    (`C10_cookware_conserves`, `C10_cookware_merge_conserves`, repeated here for the same result `r`) the numeric total
    of the result, both ends, is that of the group plus the added values.  No bound on the amounts: a sum is the
    plain number `Value::try_add` makes (`fnum_tryAdd`), everything else is copied; no fraction is ever made here
    (cookware amounts are never `fit`). -/
theorem C10_grouped_value_never_saturates (g vs : List (Value Rat))
    (hg : ∀ v ∈ g, v.AllNum Number.NotSaturated) (hv : ∀ v ∈ vs, v.AllNum Number.NotSaturated) :
    (∀ v ∈ vs, ∃ r, groupedValueAdd g v = some r ∧ (∀ x ∈ r, x.AllNum Number.NotSaturated) ∧
      sumBy (vEnd false) r = sumBy (vEnd false) g + vEnd false v ∧
      sumBy (vEnd true) r = sumBy (vEnd true) g + vEnd true v) ∧
    (∃ r, groupedValueAddAll g vs = some r ∧ groupedValueMerge g vs = some r ∧
      (∀ x ∈ r, x.AllNum Number.NotSaturated) ∧
      sumBy (vEnd false) r = sumBy (vEnd false) g + sumBy (vEnd false) vs ∧
      sumBy (vEnd true) r = sumBy (vEnd true) g + sumBy (vEnd true) vs) := by
  have hreg : ∀ x : Rat, (Number.regular x).NotSaturated := fun _ => trivial
  refine ⟨?_, ?_⟩
  · intro v hvm
    obtain ⟨r, hr⟩ := groupedValueAdd_some g v
    exact ⟨r, hr, csat_groupedValueAdd hreg hg (hv v hvm) hr,
      groupedValueAdd_sum (vEnd_additive false) hr, groupedValueAdd_sum (vEnd_additive true) hr⟩
  · obtain ⟨r, hr⟩ := groupedValueAddAll_some vs g
    exact ⟨r, hr, hr, csat_groupedValueAddAll hreg vs hg hv hr,
      groupedValueAddAll_sum (vEnd_additive false) vs hr, groupedValueAddAll_sum (vEnd_additive true) vs hr⟩

open C10Witness in
/-- the written fractions `1 1/2` and `2 1/4`, a text and the range `1 – 2` added into the empty group give the range
    of plain numbers `4.75 – 5.75` and the text; merged into a group holding `1 1/2`, a text and `2 1/4` give the
    plain `3.75` and the text -/
example : (∀ v ∈ cwVals, v.AllNum Number.NotSaturated) ∧
    groupedValueAddAll [] cwVals = some [.range (.regular (19/4)) (.regular (23/4)), .text ['a']] ∧
    groupedValueMerge [(.number (.fraction 1 1 2 0) : Value Rat)] [.text ['a'], .number (.fraction 2 1 4 0)] =
      some [.number (.regular (15/4)), .text ['a']] :=
  ⟨cwVals_allNum, by decide +kernel, by decide +kernel⟩

end Cook
