import CookModel.Lemmas.Collector
import CookModel.Lemmas.Diag
/-
  C07  Diagnostics are sound, complete and placed on the offending construct.

  Proved here for every event sequence (so for every input, extension set and converter):
  the validity definition, the parse-error short-circuit (no output, only parse-stage
  diagnostics) and that without a parse-stage error event there always is output.
  Soundness on well-formed recipes and completeness/placement for each catalogued invalid
  construct are decided on every run by planted-construct generators: the diagnostic (kind,
  severity, stage, every label) is compared with the model and the oracle checks that the primary
  label touches the planted span.
-/
namespace Cook
variable {α : Type} [Arith α]

/-- `PassResult::is_valid`: output present and no error diagnostic -/
def AnalysisResult.isValid (r : AnalysisResult α) : Bool :=
  r.output.isSome && !(r.diags.toList.any (fun d => d.sev == .error))

omit [Arith α] in
theorem C07_validity_def (r : AnalysisResult α) :
    r.isValid = true ↔ (r.output.isSome = true ∧ ∀ d ∈ r.diags.toList, d.sev ≠ .error) := by
  unfold AnalysisResult.isValid
  simp only [Bool.and_eq_true, Bool.not_eq_true', List.any_eq_false, beq_iff_eq]

/-- a parse-stage error event suppresses the output and every analysis-stage diagnostic -/
theorem C07_parse_error_suppresses (env : Env) (input : Str) (evs : List (Ev α)) (s : Col α)
    (h : ∃ d, Ev.error d ∈ evs) :
    (parseEventsLoop env input evs s).output = none ∧
    ∀ d ∈ (parseEventsLoop env input evs s).diags.toList, d.stage = .parse :=
  parseEventsLoop_error_suppresses env input evs s h

/-- without a parse-stage error event there is output (analysis errors keep the output) -/
theorem C07_analysis_error_keeps_output (env : Env) (input : Str) (evs : List (Ev α)) (s : Col α)
    (h : ∀ d, Ev.error d ∉ evs) : (parseEventsLoop env input evs s).output.isSome :=
  parseEventsLoop_no_error_output env input evs s h

/-! ### Completeness in isolation, value level (src/parser/quantity.rs) -/

/-- **Zero denominator.**  For every two integer tokens `a`, `b` where `b` spells zero (and `a` fits
    `u32`), the fraction reader returns the error `division-by-zero` (severity error, stage parse)
    whose only label is exactly the span of the fraction, from the start of `a` to the end of `b`.
    Consequently `numeric_value` and `parse_value`'s number reader return that error for every token
    run `pre ++ mid ++ post` where `pre`/`post` are blanks and comments and the non-blank tokens of
    `mid` are `a / b` (`1/0`, `1 / 0`, ` 1/0 `…), provided the run is not split as a range. -/
theorem C07_zero_denominator (a s b : Tok) (ha : a.kind = .int) (hs : s.kind = .slash) (hb : b.kind = .int)
    (hau : digitsToNat a.text ≤ u32Max) (hb0 : digitsToNat b.text = 0)
    (pre mid post : List Tok) (hpre : ∀ t ∈ pre, Blank t) (hpost : ∀ t ∈ post, Blank t)
    (hfirst : mid.head? = some a) (hlast : mid.getLast? = some b)
    (hmid : mid.filter notWsComment = [a, s, b]) (rangeExt : Bool)
    (hr : rangeExt = false ∨ ∀ t ∈ pre ++ mid ++ post, t.kind ≠ .minus) :
    fracNum (α := α) a b = .error ⟨.error, .parse, "division-by-zero", [⟨a.start, b.stop⟩]⟩ ∧
    numericValue (α := α) (pre ++ mid ++ post) =
      some (.error ⟨.error, .parse, "division-by-zero", [⟨a.start, b.stop⟩]⟩) ∧
    numOrRange (α := α) rangeExt (pre ++ mid ++ post) =
      some (.error ⟨.error, .parse, "division-by-zero", [⟨a.start, b.stop⟩]⟩) := by
  have hna : ¬ Blank a := by simp [Blank, isWsComment, ha]
  have hnb : ¬ Blank b := by simp [Blank, isWsComment, hb]
  have htrim := diag_trim_pad pre post mid a b hpre hpost hfirst hlast hna hnb
  have hz := diag_fracNum_zero (α := α) a b hau hb0
  have hnv : numericValue (α := α) (pre ++ mid ++ post) = some (.error (divZeroDiag a b)) := by
    rw [diag_numericValue_frac _ a s b (by rw [htrim]; exact hmid) ha hs hb, hz]; rfl
  exact ⟨hz, hnv, by rw [diag_numOrRange_eq _ _ hr]; exact hnv⟩

/-- the same for the mixed form `i a/b` (`1 1/0`): the label is the span of the fraction part -/
theorem C07_zero_denominator_mixed (i a s b : Tok) (hi : i.kind = .int) (ha : a.kind = .int) (hs : s.kind = .slash)
    (hb : b.kind = .int) (hiu : digitsToNat i.text ≤ u32Max)
    (hau : digitsToNat a.text ≤ u32Max) (hb0 : digitsToNat b.text = 0)
    (pre mid post : List Tok) (hpre : ∀ t ∈ pre, Blank t) (hpost : ∀ t ∈ post, Blank t)
    (hfirst : mid.head? = some i) (hlast : mid.getLast? = some b)
    (hmid : mid.filter notWsComment = [i, a, s, b]) (rangeExt : Bool)
    (hr : rangeExt = false ∨ ∀ t ∈ pre ++ mid ++ post, t.kind ≠ .minus) :
    mixedNum (α := α) i a b = .error ⟨.error, .parse, "division-by-zero", [⟨a.start, b.stop⟩]⟩ ∧
    numOrRange (α := α) rangeExt (pre ++ mid ++ post) =
      some (.error ⟨.error, .parse, "division-by-zero", [⟨a.start, b.stop⟩]⟩) := by
  have hni : ¬ Blank i := by simp [Blank, isWsComment, hi]
  have hnb : ¬ Blank b := by simp [Blank, isWsComment, hb]
  have htrim := diag_trim_pad pre post mid i b hpre hpost hfirst hlast hni hnb
  have hz := diag_mixedNum_zero (α := α) i a b hiu hau hb0
  refine ⟨hz, ?_⟩
  rw [diag_numOrRange_eq _ _ hr, diag_numericValue_mixed _ i a s b (by rw [htrim]; exact hmid) hi ha hs hb, hz]
  rfl

/-- **Integer overflow.**  A numerator, denominator or whole part above `u32::MAX` gives the error
    `int-parse` (error, parse stage) labelled with exactly that token; the value readers return it
    for the padded spellings of the fraction and of the mixed number. -/
theorem C07_int_overflow (i a s b : Tok) (hi : i.kind = .int) (ha : a.kind = .int) (hs : s.kind = .slash)
    (hb : b.kind = .int) :
    (u32Max < digitsToNat a.text →
      fracNum (α := α) a b = .error ⟨.error, .parse, "int-parse", [⟨a.start, a.stop⟩]⟩) ∧
    (digitsToNat a.text ≤ u32Max → u32Max < digitsToNat b.text →
      fracNum (α := α) a b = .error ⟨.error, .parse, "int-parse", [⟨b.start, b.stop⟩]⟩) ∧
    (u32Max < digitsToNat i.text →
      mixedNum (α := α) i a b = .error ⟨.error, .parse, "int-parse", [⟨i.start, i.stop⟩]⟩) ∧
    (∀ (pre mid post : List Tok) (d : Diag) (rangeExt : Bool), (∀ t ∈ pre, Blank t) → (∀ t ∈ post, Blank t) →
      mid.head? = some a → mid.getLast? = some b → mid.filter notWsComment = [a, s, b] →
      (rangeExt = false ∨ ∀ t ∈ pre ++ mid ++ post, t.kind ≠ .minus) →
      fracNum (α := α) a b = .error d →
      numOrRange (α := α) rangeExt (pre ++ mid ++ post) = some (.error d)) ∧
    (∀ (pre mid post : List Tok) (d : Diag) (rangeExt : Bool), (∀ t ∈ pre, Blank t) → (∀ t ∈ post, Blank t) →
      mid.head? = some i → mid.getLast? = some b → mid.filter notWsComment = [i, a, s, b] →
      (rangeExt = false ∨ ∀ t ∈ pre ++ mid ++ post, t.kind ≠ .minus) →
      mixedNum (α := α) i a b = .error d →
      numOrRange (α := α) rangeExt (pre ++ mid ++ post) = some (.error d)) := by
  have hni : ¬ Blank i := by simp [Blank, isWsComment, hi]
  have hna : ¬ Blank a := by simp [Blank, isWsComment, ha]
  have hnb : ¬ Blank b := by simp [Blank, isWsComment, hb]
  refine ⟨fun h => diag_fracNum_overflow_num a b h, fun h1 h2 => diag_fracNum_overflow_den a b h1 h2,
    fun h => diag_mixedNum_overflow_whole i a b h, ?_, ?_⟩
  · intro pre mid post d rangeExt hpre hpost hfirst hlast hmid hr hd
    have htrim := diag_trim_pad pre post mid a b hpre hpost hfirst hlast hna hnb
    rw [diag_numOrRange_eq _ _ hr, diag_numericValue_frac _ a s b (by rw [htrim]; exact hmid) ha hs hb, hd]
    rfl
  · intro pre mid post d rangeExt hpre hpost hfirst hlast hmid hr hd
    have htrim := diag_trim_pad pre post mid i b hpre hpost hfirst hlast hni hnb
    rw [diag_numOrRange_eq _ _ hr, diag_numericValue_mixed _ i a s b (by rw [htrim]; exact hmid) hi ha hs hb, hd]
    rfl

/-- the reader's error becomes an error EVENT of the parser: `parse_value` pushes exactly it -/
theorem C07_value_error_pushed (tokens : List Tok) (s : BP α) (d : Diag)
    (h : numOrRange (α := α) (s.ext.has Gen.EXT_RANGE_VALUES) tokens = some (.error d)) :
    (parseValue (α := α) tokens s).2.evs = s.evs.push (.error d) := by
  rw [diag_parseValue_error tokens s d h]

/-! non-vacuity: `1/0`, ` 1 / 0 ` and `2 1/0` with concrete tokens -/
example : numOrRange (α := Rat) true [⟨.int, ['1'], 0⟩, ⟨.slash, ['/'], 1⟩, ⟨.int, ['0'], 2⟩] =
    some (.error ⟨.error, .parse, "division-by-zero", [⟨0, 3⟩]⟩) :=
  (C07_zero_denominator ⟨.int, ['1'], 0⟩ ⟨.slash, ['/'], 1⟩ ⟨.int, ['0'], 2⟩ rfl rfl rfl (by decide) (by decide)
    [] [⟨.int, ['1'], 0⟩, ⟨.slash, ['/'], 1⟩, ⟨.int, ['0'], 2⟩] [] (by simp) (by simp) rfl rfl rfl true
    (Or.inr (by decide))).2.2
example : numOrRange (α := Rat) false
    [⟨.ws, [' '], 0⟩, ⟨.int, ['2'], 1⟩, ⟨.ws, [' '], 2⟩, ⟨.int, ['1'], 3⟩, ⟨.slash, ['/'], 4⟩, ⟨.int, ['0'], 5⟩] =
    some (.error ⟨.error, .parse, "division-by-zero", [⟨3, 6⟩]⟩) :=
  (C07_zero_denominator_mixed ⟨.int, ['2'], 1⟩ ⟨.int, ['1'], 3⟩ ⟨.slash, ['/'], 4⟩ ⟨.int, ['0'], 5⟩ rfl rfl rfl rfl
    (by decide) (by decide) (by decide) [⟨.ws, [' '], 0⟩]
    [⟨.int, ['2'], 1⟩, ⟨.ws, [' '], 2⟩, ⟨.int, ['1'], 3⟩, ⟨.slash, ['/'], 4⟩, ⟨.int, ['0'], 5⟩] []
    (by simp [Blank, isWsComment]) (by simp) rfl rfl rfl false (Or.inl rfl)).2
example : u32Max < digitsToNat ['4', '2', '9', '4', '9', '6', '7', '2', '9', '6'] := by decide

end Cook
