import CookModel.Lemmas.Collector
import CookModel.Lemmas.Diag
import CookModel.Lemmas.DiagComp
import CookModel.Lemmas.DiagAnalysis
import CookModel.Lemmas.DiagMore
import CookModel.Lemmas.DiagInside
import CookModel.Lemmas.DiagInsideTimer
import CookModel.Lemmas.DiagQuiet
import CookModel.Lemmas.DiagAnalysisMore
import CookModel.Lemmas.DiagInterRef
import CookModel.Lemmas.DiagRefChecks
import CookModel.Lemmas.DiagExact
import CookModel.Lemmas.ExtLawsEvents
import CookModel.Lemmas.DiagExactComp
import CookModel.Lemmas.DiagEmptyValue
import CookModel.Lemmas.DiagAnalysisExact
import CookModel.Lemmas.DiagSoundDoc
import CookModel.Lemmas.DiagAnalysisIff
import CookModel.Lemmas.DiagRefChecksExact
import CookModel.Lemmas.DiagEmptyValueMore
import CookModel.Lemmas.DiagSoundConv
import CookModel.Lemmas.TableFacts
import CookModel.Lemmas.FrontMatterStd
import CookModel.Lemmas.DiagPlaceInst
import CookModel.Lemmas.DiagPlaceReport
import CookModel.Lemmas.DiagSoundUsesNone2
import CookModel.Lemmas.DiagNoticeSpans
import CookModel.Lemmas.DiagEventExact2
import CookModel.Lemmas.DiagPlaceFam
import CookModel.Lemmas.MetaValidator
import CookModel.Lemmas.DiagPlaceDocInst
import CookModel.Lemmas.DiagEventKinds
import CookModel.Lemmas.DiagPlaceDocQty
import CookModel.Lemmas.DiagPlaceName
import CookModel.Lemmas.DiagPlaceDocMore
import CookModel.Lemmas.DiagPlaceInter
import CookModel.Lemmas.DiagPlaceDocName
import CookModel.Lemmas.DiagPlaceSingle
import CookModel.Lemmas.DiagPlaceInterCw
import CookModel.Lemmas.DiagPlaceDocLock
import CookModel.Lemmas.DiagPlaceNote
/-
  C07  Diagnostics are sound, complete and placed on the offending construct.

  Proved here for every event sequence (so for every input, extension set and converter):
  the validity definition, the parse-error short-circuit (no output, only parse-stage
  diagnostics) and that without a parse-stage error event there always is output.
  Soundness on well-formed recipes and completeness/placement for each catalogued invalid
  construct are decided on every run by planted-construct generators: the diagnostic (kind,
  severity, stage, every label) is compared with the model and the oracle checks that the primary
  label touches the planted span.
-/
namespace Cook
variable {α : Type} [Arith α]

/-- `PassResult::is_valid`: output present and no error diagnostic -/
def AnalysisResult.isValid (r : AnalysisResult α) : Bool :=
  r.output.isSome && !(r.diags.toList.any (fun d => d.sev == .error))

omit [Arith α] in
theorem C07_validity_def (r : AnalysisResult α) :
    r.isValid = true ↔ (r.output.isSome = true ∧ ∀ d ∈ r.diags.toList, d.sev ≠ .error) := by
  unfold AnalysisResult.isValid
  simp only [Bool.and_eq_true, Bool.not_eq_true', List.any_eq_false, beq_iff_eq]

/-- a parse-stage error event suppresses the output and every analysis-stage diagnostic -/
theorem C07_parse_error_suppresses (env : Env) (input : Str) (evs : List (Ev α)) (s : Col α)
    (h : ∃ d, Ev.error d ∈ evs) :
    (parseEventsLoop env input evs s).output = none ∧
    ∀ d ∈ (parseEventsLoop env input evs s).diags.toList, d.stage = .parse :=
  parseEventsLoop_error_suppresses env input evs s h

/-- without a parse-stage error event there is output (analysis errors keep the output) -/
theorem C07_analysis_error_keeps_output (env : Env) (input : Str) (evs : List (Ev α)) (s : Col α)
    (h : ∀ d, Ev.error d ∉ evs) : (parseEventsLoop env input evs s).output.isSome :=
  parseEventsLoop_no_error_output env input evs s h

/-! ### Completeness in isolation, value level (src/parser/quantity.rs) -/

/-- **Zero denominator.**  For every two integer tokens `a`, `b` where `b` spells zero (and `a` fits
    `u32`), the fraction reader returns the error `division-by-zero` (severity error, stage parse)
    whose only label is exactly the span of the fraction, from the start of `a` to the end of `b`.
    Consequently `numeric_value` and `parse_value`'s number reader return that error for every token
    run `pre ++ mid ++ post` where `pre`/`post` are blanks and comments and the non-blank tokens of
    `mid` are `a / b` (`1/0`, `1 / 0`, ` 1/0 `…), provided the run is not split as a range. -/
theorem C07_zero_denominator (a s b : Tok) (ha : a.kind = .int) (hs : s.kind = .slash) (hb : b.kind = .int)
    (hau : digitsToNat a.text ≤ u32Max) (hb0 : digitsToNat b.text = 0)
    (pre mid post : List Tok) (hpre : ∀ t ∈ pre, Blank t) (hpost : ∀ t ∈ post, Blank t)
    (hfirst : mid.head? = some a) (hlast : mid.getLast? = some b)
    (hmid : mid.filter notWsComment = [a, s, b]) (rangeExt : Bool)
    (hr : rangeExt = false ∨ ∀ t ∈ pre ++ mid ++ post, t.kind ≠ .minus) :
    fracNum (α := α) a b = .error ⟨.error, .parse, "division-by-zero", [⟨a.start, b.stop⟩]⟩ ∧
    numericValue (α := α) (pre ++ mid ++ post) =
      some (.error ⟨.error, .parse, "division-by-zero", [⟨a.start, b.stop⟩]⟩) ∧
    numOrRange (α := α) rangeExt (pre ++ mid ++ post) =
      some (.error ⟨.error, .parse, "division-by-zero", [⟨a.start, b.stop⟩]⟩) := by
  have hna : ¬ Blank a := by simp [Blank, isWsComment, ha]
  have hnb : ¬ Blank b := by simp [Blank, isWsComment, hb]
  have htrim := diag_trim_pad pre post mid a b hpre hpost hfirst hlast hna hnb
  have hz := diag_fracNum_zero (α := α) a b hau hb0
  have hnv : numericValue (α := α) (pre ++ mid ++ post) = some (.error (divZeroDiag a b)) := by
    rw [diag_numericValue_frac _ a s b (by rw [htrim]; exact hmid) ha hs hb, hz]; rfl
  exact ⟨hz, hnv, by rw [diag_numOrRange_eq _ _ hr]; exact hnv⟩

/-- the same for the mixed form `i a/b` (`1 1/0`): the label is the span of the fraction part -/
theorem C07_zero_denominator_mixed (i a s b : Tok) (hi : i.kind = .int) (ha : a.kind = .int) (hs : s.kind = .slash)
    (hb : b.kind = .int) (hiu : digitsToNat i.text ≤ u32Max)
    (hau : digitsToNat a.text ≤ u32Max) (hb0 : digitsToNat b.text = 0)
    (pre mid post : List Tok) (hpre : ∀ t ∈ pre, Blank t) (hpost : ∀ t ∈ post, Blank t)
    (hfirst : mid.head? = some i) (hlast : mid.getLast? = some b)
    (hmid : mid.filter notWsComment = [i, a, s, b]) (rangeExt : Bool)
    (hr : rangeExt = false ∨ ∀ t ∈ pre ++ mid ++ post, t.kind ≠ .minus) :
    mixedNum (α := α) i a b = .error ⟨.error, .parse, "division-by-zero", [⟨a.start, b.stop⟩]⟩ ∧
    numOrRange (α := α) rangeExt (pre ++ mid ++ post) =
      some (.error ⟨.error, .parse, "division-by-zero", [⟨a.start, b.stop⟩]⟩) := by
  have hni : ¬ Blank i := by simp [Blank, isWsComment, hi]
  have hnb : ¬ Blank b := by simp [Blank, isWsComment, hb]
  have htrim := diag_trim_pad pre post mid i b hpre hpost hfirst hlast hni hnb
  have hz := diag_mixedNum_zero (α := α) i a b hiu hau hb0
  refine ⟨hz, ?_⟩
  rw [diag_numOrRange_eq _ _ hr, diag_numericValue_mixed _ i a s b (by rw [htrim]; exact hmid) hi ha hs hb, hz]
  rfl

/-- **Integer overflow.**  A numerator, denominator or whole part above `u32::MAX` gives the error
    `int-parse` (error, parse stage) labelled with exactly that token; the value readers return it
    for the padded spellings of the fraction and of the mixed number. -/
theorem C07_int_overflow (i a s b : Tok) (hi : i.kind = .int) (ha : a.kind = .int) (hs : s.kind = .slash)
    (hb : b.kind = .int) :
    (u32Max < digitsToNat a.text →
      fracNum (α := α) a b = .error ⟨.error, .parse, "int-parse", [⟨a.start, a.stop⟩]⟩) ∧
    (digitsToNat a.text ≤ u32Max → u32Max < digitsToNat b.text →
      fracNum (α := α) a b = .error ⟨.error, .parse, "int-parse", [⟨b.start, b.stop⟩]⟩) ∧
    (u32Max < digitsToNat i.text →
      mixedNum (α := α) i a b = .error ⟨.error, .parse, "int-parse", [⟨i.start, i.stop⟩]⟩) ∧
    (∀ (pre mid post : List Tok) (d : Diag) (rangeExt : Bool), (∀ t ∈ pre, Blank t) → (∀ t ∈ post, Blank t) →
      mid.head? = some a → mid.getLast? = some b → mid.filter notWsComment = [a, s, b] →
      (rangeExt = false ∨ ∀ t ∈ pre ++ mid ++ post, t.kind ≠ .minus) →
      fracNum (α := α) a b = .error d →
      numOrRange (α := α) rangeExt (pre ++ mid ++ post) = some (.error d)) ∧
    (∀ (pre mid post : List Tok) (d : Diag) (rangeExt : Bool), (∀ t ∈ pre, Blank t) → (∀ t ∈ post, Blank t) →
      mid.head? = some i → mid.getLast? = some b → mid.filter notWsComment = [i, a, s, b] →
      (rangeExt = false ∨ ∀ t ∈ pre ++ mid ++ post, t.kind ≠ .minus) →
      mixedNum (α := α) i a b = .error d →
      numOrRange (α := α) rangeExt (pre ++ mid ++ post) = some (.error d)) := by
  have hni : ¬ Blank i := by simp [Blank, isWsComment, hi]
  have hna : ¬ Blank a := by simp [Blank, isWsComment, ha]
  have hnb : ¬ Blank b := by simp [Blank, isWsComment, hb]
  refine ⟨fun h => diag_fracNum_overflow_num a b h, fun h1 h2 => diag_fracNum_overflow_den a b h1 h2,
    fun h => diag_mixedNum_overflow_whole i a b h, ?_, ?_⟩
  · intro pre mid post d rangeExt hpre hpost hfirst hlast hmid hr hd
    have htrim := diag_trim_pad pre post mid a b hpre hpost hfirst hlast hna hnb
    rw [diag_numOrRange_eq _ _ hr, diag_numericValue_frac _ a s b (by rw [htrim]; exact hmid) ha hs hb, hd]
    rfl
  · intro pre mid post d rangeExt hpre hpost hfirst hlast hmid hr hd
    have htrim := diag_trim_pad pre post mid i b hpre hpost hfirst hlast hni hnb
    rw [diag_numOrRange_eq _ _ hr, diag_numericValue_mixed _ i a s b (by rw [htrim]; exact hmid) hi ha hs hb, hd]
    rfl

/-- the reader's error becomes an error EVENT of the parser: `parse_value` pushes exactly it -/
theorem C07_value_error_pushed (tokens : List Tok) (s : BP α) (d : Diag)
    (h : numOrRange (α := α) (s.ext.has Gen.EXT_RANGE_VALUES) tokens = some (.error d)) :
    (parseValue (α := α) tokens s).2.evs = s.evs.push (.error d) := by
  rw [diag_parseValue_error tokens s d h]

/-! non-vacuity: `1/0`, ` 1 / 0 ` and `2 1/0` with concrete tokens -/
example : numOrRange (α := Rat) true [⟨.int, ['1'], 0⟩, ⟨.slash, ['/'], 1⟩, ⟨.int, ['0'], 2⟩] =
    some (.error ⟨.error, .parse, "division-by-zero", [⟨0, 3⟩]⟩) :=
  (C07_zero_denominator ⟨.int, ['1'], 0⟩ ⟨.slash, ['/'], 1⟩ ⟨.int, ['0'], 2⟩ rfl rfl rfl (by decide) (by decide)
    [] [⟨.int, ['1'], 0⟩, ⟨.slash, ['/'], 1⟩, ⟨.int, ['0'], 2⟩] [] (by simp) (by simp) rfl rfl rfl true
    (Or.inr (by decide))).2.2
example : numOrRange (α := Rat) false
    [⟨.ws, [' '], 0⟩, ⟨.int, ['2'], 1⟩, ⟨.ws, [' '], 2⟩, ⟨.int, ['1'], 3⟩, ⟨.slash, ['/'], 4⟩, ⟨.int, ['0'], 5⟩] =
    some (.error ⟨.error, .parse, "division-by-zero", [⟨3, 6⟩]⟩) :=
  (C07_zero_denominator_mixed ⟨.int, ['2'], 1⟩ ⟨.int, ['1'], 3⟩ ⟨.slash, ['/'], 4⟩ ⟨.int, ['0'], 5⟩ rfl rfl rfl rfl
    (by decide) (by decide) (by decide) [⟨.ws, [' '], 0⟩]
    [⟨.int, ['2'], 1⟩, ⟨.ws, [' '], 2⟩, ⟨.int, ['1'], 3⟩, ⟨.slash, ['/'], 4⟩, ⟨.int, ['0'], 5⟩] []
    (by simp [Blank, isWsComment]) (by simp) rfl rfl rfl false (Or.inl rfl)).2
example : u32Max < digitsToNat ['4', '2', '9', '4', '9', '6', '7', '2', '9', '6'] := by decide

/-! ### Completeness in isolation, component level (src/parser/step.rs)

  `Has ev s s'`: the event queue of `s'` is the queue of `s` followed by new events, `ev` among them.
  `Cut k s mtoks body s1 s2 s3`: from state `s` the marker `k` was consumed, `modifiers()` returned the
  token run `mtoks` and `comp_body()` returned `body` (name tokens, braces, quantity tokens).
  The theorems hold for EVERY parser state (any tokens, cursor, extensions, queue). -/

/-- **How a component is read.**  Every successful run of `ingredient` / `cookware` / `timer` cuts the
    component into pieces (`Cut`, and the note for the first two) WITHOUT pushing any event or touching
    the tables, and is then the run of the tail (`ingredientTail`, `cookwareTail`, `timerTail`: the rest
    of the Rust function, verbatim) on those pieces. -/
theorem C07_component_cut (s s' : BP α) (ev : Ev α) :
    (ingredientP s = (some ev, s') → ∃ mtoks body note s1 s2 s3 s4,
      Cut .at s mtoks body s1 s2 s3 ∧ noteP s3 = (note, s4) ∧ Same s s4 ∧
      ingredientP s = ingredientTail (curOff s) (curOff s4) (curOff s1) (curOff s2) mtoks body note s4) ∧
    (cookwareP s = (some ev, s') → ∃ mtoks body note s1 s2 s3 s4,
      Cut .hash s mtoks body s1 s2 s3 ∧ noteP s3 = (note, s4) ∧ Same s s4 ∧
      cookwareP s = cookwareTail (curOff s) (curOff s4) (curOff s1) (curOff s2) mtoks body note s4) ∧
    (timerP s = (some ev, s') → ∃ mtoks body s1 s2 s3,
      Cut .tilde s mtoks body s1 s2 s3 ∧ Same s s3 ∧
      timerP s = timerTail (curOff s) (curOff s3) (curOff s2) mtoks body s3) := by
  refine ⟨fun h => ?_, fun h => ?_, fun h => ?_⟩
  · obtain ⟨mtoks, body, note, s1, s2, s3, s4, hc, hn⟩ := ingredientP_some_cut h
    exact ⟨mtoks, body, note, s1, s2, s3, s4, hc, hn, hc.same.trans (noteP_same hn), ingredientP_cut hc hn⟩
  · obtain ⟨mtoks, body, note, s1, s2, s3, s4, hc, hn⟩ := cookwareP_some_cut h
    exact ⟨mtoks, body, note, s1, s2, s3, s4, hc, hn, hc.same.trans (noteP_same hn), cookwareP_cut hc hn⟩
  · obtain ⟨mtoks, body, s1, s2, s3, hc⟩ := timerP_some_cut h
    exact ⟨mtoks, body, s1, s2, s3, hc, hc.same, timerP_cut hc⟩

/-- **Empty name.**  Whenever `ingredient` (resp. `cookware`) returns a component whose name text is
    blank, the run pushed the error `empty-name:ingredient` (resp. `empty-name:cookware`), severity
    error, stage parse, whose only label is the span of that name text.
    Partial: that this label lies inside the component's span is not proved here (it is checked on
    every run by the planted-construct oracle and by C04 for well-formedness of the span).
    [Now proved separately, for every diagnostic of the component: `C07_label_inside_ingredient`,
    `C07_label_inside_cookware`.] -/
theorem C07_empty_name_partial (s s' : BP α) :
    (∀ i, ingredientP s = (some (.ingredient i), s') → i.val.name.isTextEmpty s.cs = true →
      Has (.error ⟨.error, .parse, "empty-name:ingredient", [i.val.name.span]⟩) s s') ∧
    (∀ c, cookwareP s = (some (.cookware c), s') → c.val.name.isTextEmpty s.cs = true →
      Has (.error ⟨.error, .parse, "empty-name:cookware", [c.val.name.span]⟩) s s') := by
  constructor
  · intro i h hb
    obtain ⟨mtoks, body, note, s1, s2, s3, s4, hc, hn⟩ := ingredientP_some_cut h
    have q4 : Same s s4 := hc.same.trans (noteP_same hn)
    have ht := ingredientTail_empty_name (α := α) (curOff s) (curOff s4) (curOff s1) (curOff s2) mtoks body note s4
    unfold Sat at ht
    rw [← ingredientP_cut hc hn, h] at ht
    exact ((ht i rfl).2 (by rw [q4.1]; exact hb)).right q4.grow
  · intro c h hb
    obtain ⟨mtoks, body, note, s1, s2, s3, s4, hc, hn⟩ := cookwareP_some_cut h
    have q4 : Same s s4 := hc.same.trans (noteP_same hn)
    have ht := cookwareTail_empty_name (α := α) (curOff s) (curOff s4) (curOff s1) (curOff s2) mtoks body note s4
    unfold Sat at ht
    rw [← cookwareP_cut hc hn, h] at ht
    exact ((ht c rfl).2 (by rw [q4.1]; exact hb)).right q4.grow

/-- **Unit on cookware.**  If the braces of a cookware item hold the tokens `qt` and `parse_quantity`
    on them (run where the parser reaches it: a state `sq` with the same tables and extensions and a
    longer queue) returns a quantity with a unit, the run pushed the error `cookware-unit` (error,
    parse) labelled from the `%` separator (or, without separator, the unit's start) to the unit's end.
    Partial: label-inside-the-component is not proved.  [Now: `C07_label_inside_cookware`.] -/
theorem C07_cookware_unit_partial (s s1 s2 s3 s4 : BP α) (mtoks : List Tok) (body : Body) (note : Option Text)
    (hc : Cut .hash s mtoks body s1 s2 s3) (hn : noteP s3 = (note, s4)) :
    ∃ sq, Grow s sq ∧ ∀ qt unit, body.quantity = some qt →
      (parseQuantity (α := α) qt sq).1.quantity.val.unit = some unit →
      Has (.error ⟨.error, .parse, "cookware-unit", [cookwareUnitSpan (parseQuantity (α := α) qt sq).1 unit]⟩)
        s (cookwareP s).2 := by
  have q4 : Same s s4 := hc.same.trans (noteP_same hn)
  have ht := cookwareTail_unit (α := α) (curOff s) (curOff s4) (curOff s1) (curOff s2) mtoks body note s4
  unfold Sat at ht
  rw [← cookwareP_cut hc hn] at ht
  obtain ⟨sq, gq, h⟩ := ht
  exact ⟨sq, q4.grow.trans gq, fun qt unit hqt hu => (h qt unit hqt hu).right q4.grow⟩

/-- **Timers.**  For a timer cut into the modifier tokens `mtoks` and the body `body`:
    * modifiers present ⇒ `modifiers-not-allowed:timer` labelled with the span of the modifier tokens;
    * (COMPONENT_ALIAS) a `|` among the name tokens, at index `i` ⇒ `alias-not-allowed:timer` labelled
      from the `|` to the end of the name tokens;
    * braces with content whose parsed quantity has no unit ⇒ `timer-missing-unit`, labelled with the
      position right after the value;
    * no quantity, TIMER_REQUIRES_TIME ⇒ `timer-missing-quantity` labelled with the braces (or the
      position after the name);
    * no quantity, not TIMER_REQUIRES_TIME, blank name ⇒ `timer-neither-name-nor-quantity` labelled
      from the name offset to the closing brace.
    All are severity error, stage parse.  Partial: label-inside-the-component is not proved.
    [Now: `C07_label_inside_timer`.] -/
theorem C07_timer_diagnostics_partial (s s1 s2 s3 : BP α) (mtoks : List Tok) (body : Body)
    (hc : Cut .tilde s mtoks body s1 s2 s3) :
    (mtoks.isEmpty = false →
      Has (.error ⟨.error, .parse, "modifiers-not-allowed:timer", [tokensSpan mtoks]⟩) s (timerP s).2) ∧
    (∀ i, s.ext.has Gen.EXT_COMPONENT_ALIAS = true → body.name.findIdx? (fun t => t.kind == .or) = some i →
      Has (.error ⟨.error, .parse, "alias-not-allowed:timer",
        [⟨((body.name[i]?).getD dummyTok).start,
          ((body.name.getLast?).getD ((body.name[i]?).getD dummyTok)).stop⟩]⟩) s (timerP s).2) ∧
    (∃ sq, Grow s sq ∧ ∀ qt, body.quantity = some qt →
      (parseQuantity (α := α) qt sq).1.quantity.val.unit = none →
      Has (.error ⟨.error, .parse, "timer-missing-unit",
        [Span.pos (parseQuantity (α := α) qt sq).1.quantity.val.value.value.span.stop]⟩) s (timerP s).2) ∧
    (body.quantity = none → s.ext.has Gen.EXT_TIMER_REQUIRES_TIME = true →
      Has (.error ⟨.error, .parse, "timer-missing-quantity",
        [body.close.getD (Span.pos (buildText (curOff s2) body.name).span.stop)]⟩) s (timerP s).2) ∧
    (body.quantity = none → s.ext.has Gen.EXT_TIMER_REQUIRES_TIME = false →
      (buildText (curOff s2) body.name).isTextEmpty s.cs = true →
      Has (.error ⟨.error, .parse, "timer-neither-name-nor-quantity", [timerNeitherSpan (curOff s2) body]⟩)
        s (timerP s).2) := by
  have q3 : Same s s3 := hc.same
  have ht := timerTail_spec (α := α) (curOff s) (curOff s3) (curOff s2) mtoks body s3
  unfold Sat at ht
  rw [← timerP_cut hc] at ht
  obtain ⟨h1, h2, ⟨sq, gq, h3⟩, h4, h5⟩ := ht
  refine ⟨fun h => (h1 h).right q3.grow, fun i he hi => (h2 i (by rw [q3.2.1]; exact he) hi).right q3.grow,
    ⟨sq, q3.grow.trans gq, fun qt hqt hu => (h3 qt hqt hu).right q3.grow⟩, ?_, ?_⟩
  · intro hq he
    exact (h4 hq (by rw [q3.2.1]; exact he)).right q3.grow
  · intro hq he hb
    exact (h5 hq (by rw [q3.2.1]; exact he) (by rw [q3.1]; exact hb)).right q3.grow

/-! non-vacuity: `@{}` is an ingredient with a blank name; `~{}` is cut into a body without quantity
    (no modifiers, no alias), so with every extension off it gets `timer-neither-name-nor-quantity` -/
def C07_exIngr : BP Rat :=
  ⟨[⟨.at, ['@'], 0⟩, ⟨.openBrace, ['{'], 1⟩, ⟨.closeBrace, ['}'], 2⟩], 0, ⟨0⟩, toyCharSpec, #[], none⟩
example : ∃ i s', ingredientP C07_exIngr = (some (.ingredient i), s') ∧
    i.val.name.isTextEmpty C07_exIngr.cs = true := ⟨_, _, rfl, rfl⟩
def C07_exTimer : BP Rat :=
  ⟨[⟨.tilde, ['~'], 0⟩, ⟨.openBrace, ['{'], 1⟩, ⟨.closeBrace, ['}'], 2⟩], 0, ⟨0⟩, toyCharSpec, #[], none⟩
example : ∃ mtoks body s1 s2 s3, Cut .tilde C07_exTimer mtoks body s1 s2 s3 ∧ body.quantity = none ∧
    C07_exTimer.ext.has Gen.EXT_TIMER_REQUIRES_TIME = false ∧
    (buildText (curOff s2) body.name).isTextEmpty C07_exTimer.cs = true :=
  ⟨_, _, _, _, _, ⟨⟨_, rfl⟩, rfl, rfl⟩, rfl, rfl, rfl⟩

/-! ### More component-level diagnostics (src/parser/step.rs), exact on the minimal construct

  `Pushed l s s'`: the final state has the tables and extensions of `s` and its event queue is the
  queue of `s` followed by EXACTLY the events `l` (so: these diagnostics and no other).
  `SimpleMods mtoks`: every modifier token is one of `@ & ? + -` (no parenthesised intermediate data). -/

/-- **Duplicate modifier** and **recipe modifier on cookware.**  For a component without quantity, with
    a non-blank name without alias separator, whose modifier tokens `mtoks` are plain modifier tokens:
    * `ingredient` returns the ingredient with the accumulated flags and pushes exactly one
      `duplicate-modifier` (error, parse, labelled with the span of all modifier tokens) per token that
      repeats an earlier one, and nothing else;
    * `cookware` does the same and then, iff a `@` is among the modifiers, pushes
      `cookware-recipe-modifier` (error, parse) labelled with the first `@` token;
    * the number of `duplicate-modifier` errors is 0 exactly when the kinds of the modifier tokens are
      pairwise different; the recipe error list is empty exactly when there is no `@`.
    So `@&&x{}` gets exactly one error, `@&?-x{}` none, `#@x{}` exactly the recipe error. -/
theorem C07_duplicate_modifier (s s1 s2 s3 s4 : BP α) (mtoks : List Tok) (body : Body) (note : Option Text)
    (hs : SimpleMods mtoks) (hq : body.quantity = none)
    (ha : s.ext.has Gen.EXT_COMPONENT_ALIAS = false ∨ ∀ t ∈ body.name, t.kind ≠ .or)
    (hn : (buildText (curOff s2) body.name).isTextEmpty s.cs = false) (hnote : noteP s3 = (note, s4)) :
    (Cut .at s mtoks body s1 s2 s3 →
      (ingredientP s).1 = some (.ingredient
        ⟨⟨simpleFlags mtoks (curOff s1), none, buildText (curOff s2) body.name, none, none, note⟩,
         ⟨curOff s, curOff s4⟩⟩) ∧
      Pushed (List.replicate (foldMods Modifiers.empty mtoks).2
        (.error ⟨.error, .parse, "duplicate-modifier", [tokensSpan mtoks]⟩)) s (ingredientP s).2) ∧
    (Cut .hash s mtoks body s1 s2 s3 →
      (cookwareP s).1 = some (.cookware
        ⟨⟨simpleFlags mtoks (curOff s1), buildText (curOff s2) body.name, none, none, note⟩,
         ⟨curOff s, curOff s4⟩⟩) ∧
      Pushed (List.replicate (foldMods Modifiers.empty mtoks).2
        (.error ⟨.error, .parse, "duplicate-modifier", [tokensSpan mtoks]⟩) ++ recipeModEvs mtoks)
        s (cookwareP s).2) ∧
    ((foldMods Modifiers.empty mtoks).2 = 0 ↔ (mtoks.map (·.kind)).Nodup) ∧
    ((simpleFlags mtoks (curOff s1)).val.contains Modifiers.RECIPE = true ↔ ∃ t ∈ mtoks, t.kind = .at) := by
  refine ⟨fun hc => ?_, fun hc => ?_, foldMods_empty_dups_kinds mtoks hs, simpleFlags_recipe mtoks _ hs⟩
  · have q4 : Same s s4 := hc.same.trans (noteP_same hnote)
    have ht := ingredientTail_noqty (α := α) (curOff s) (curOff s4) (curOff s1) (curOff s2) mtoks body note s4
      [] _ none (parseAlias_quiet' "ingredient" body.name _ s4 (by rw [q4.2.1]; exact ha))
      (by rw [q4.1]; exact hn) hq hs
    unfold Sat at ht
    rw [← ingredientP_cut hc hnote] at ht
    exact ⟨ht.2, (q4.pushed.trans ht.1).cast (by simp [dupEvs, dupModEv])⟩
  · have q4 : Same s s4 := hc.same.trans (noteP_same hnote)
    have ht := cookwareTail_noqty (α := α) (curOff s) (curOff s4) (curOff s1) (curOff s2) mtoks body note s4
      [] _ none (parseAlias_quiet' "cookware" body.name _ s4 (by rw [q4.2.1]; exact ha))
      (by rw [q4.1]; exact hn) hq hs
    unfold Sat at ht
    rw [← cookwareP_cut hc hnote] at ht
    exact ⟨ht.2, (q4.pushed.trans ht.1).cast (by simp [dupEvs, dupModEv])⟩

/-- **Recipe modifier on cookware**, the label: the error list of `C07_duplicate_modifier` is the single
    error `cookware-recipe-modifier` on the first `@` token when there is one, and empty otherwise. -/
theorem C07_cookware_recipe_modifier (mtoks : List Tok) :
    (∀ t, mtoks.find? (fun t => t.kind == .at) = some t → recipeModEvs (α := α) mtoks =
      [.error ⟨.error, .parse, "cookware-recipe-modifier", [⟨t.start, t.stop⟩]⟩]) ∧
    ((∀ t ∈ mtoks, t.kind ≠ .at) → recipeModEvs (α := α) mtoks = []) := by
  constructor
  · intro t h; simp only [recipeModEvs, h]
  · intro h
    have : mtoks.find? (fun t => t.kind == .at) = none := by
      rw [List.find?_eq_none]; intro t ht hk; exact h t ht (by simpa using hk)
    simp only [recipeModEvs, this]

/-- **Alias errors** (COMPONENT_ALIAS).  For a component without modifiers and quantity whose name
    tokens have their first `|` at index `i`, with a non-blank text before it: `ingredient` / `cookware`
    return the component named by the tokens before the `|` and push exactly `aliasEvs`:
    * another `|` after the first ⇒ `multiple-aliases:<kind>` (error, parse) labelled from the first
      `|` to the end of the name tokens, no alias;
    * otherwise a blank alias text ⇒ `empty-alias:<kind>` labelled with the `|` token, no alias;
    * otherwise nothing, and the alias is the text after the `|`. -/
theorem C07_alias_errors (s s1 s2 s3 s4 : BP α) (body : Body) (note : Option Text) (i : Nat)
    (he : s.ext.has Gen.EXT_COMPONENT_ALIAS = true)
    (hi : body.name.findIdx? (fun t => t.kind == .or) = some i) (hq : body.quantity = none)
    (hn : (buildText (curOff s2) (body.name.take i)).isTextEmpty s.cs = false)
    (hnote : noteP s3 = (note, s4)) :
    (Cut .at s [] body s1 s2 s3 →
      (ingredientP s).1 = some (.ingredient
        ⟨⟨⟨Modifiers.empty, Span.pos (curOff s1)⟩, none, buildText (curOff s2) (body.name.take i),
          aliasRes body.name i s.cs, none, note⟩, ⟨curOff s, curOff s4⟩⟩) ∧
      Pushed (aliasEvs "ingredient" body.name i s.cs) s (ingredientP s).2) ∧
    (Cut .hash s [] body s1 s2 s3 →
      (cookwareP s).1 = some (.cookware
        ⟨⟨⟨Modifiers.empty, Span.pos (curOff s1)⟩, buildText (curOff s2) (body.name.take i),
          aliasRes body.name i s.cs, none, note⟩, ⟨curOff s, curOff s4⟩⟩) ∧
      Pushed (aliasEvs "cookware" body.name i s.cs) s (cookwareP s).2) ∧
    (∀ c : String,
      ((body.name.drop (i + 1)).any (fun t => t.kind == .or) = true →
        aliasEvs (α := α) c body.name i s.cs = [.error ⟨.error, .parse, s!"multiple-aliases:{c}",
          [⟨(aliasSep body.name i).start, (((body.name.drop (i + 1)).getLast?).getD (aliasSep body.name i)).stop⟩]⟩] ∧
        aliasRes body.name i s.cs = none) ∧
      ((body.name.drop (i + 1)).any (fun t => t.kind == .or) = false →
        (buildText (aliasSep body.name i).stop (body.name.drop (i + 1))).isTextEmpty s.cs = true →
        aliasEvs (α := α) c body.name i s.cs = [.error ⟨.error, .parse, s!"empty-alias:{c}",
          [⟨(aliasSep body.name i).start, (aliasSep body.name i).stop⟩]⟩] ∧
        aliasRes body.name i s.cs = none) ∧
      ((body.name.drop (i + 1)).any (fun t => t.kind == .or) = false →
        (buildText (aliasSep body.name i).stop (body.name.drop (i + 1))).isTextEmpty s.cs = false →
        aliasEvs (α := α) c body.name i s.cs = [] ∧
        aliasRes body.name i s.cs = some (buildText (aliasSep body.name i).stop (body.name.drop (i + 1))))) := by
  refine ⟨fun hc => ?_, fun hc => ?_, fun c => ⟨fun h => ?_, fun h1 h2 => ?_, fun h1 h2 => ?_⟩⟩
  · have q4 : Same s s4 := hc.same.trans (noteP_same hnote)
    have ht := ingredientTail_noqty (α := α) (curOff s) (curOff s4) (curOff s1) (curOff s2) [] body note s4
      _ _ _ (parseAlias_sep "ingredient" body.name _ i s4 (by rw [q4.2.1]; exact he) hi)
      (by rw [q4.1]; exact hn) hq (by intro t ht; cases ht)
    unfold Sat at ht
    rw [← ingredientP_cut hc hnote, q4.1] at ht
    exact ⟨ht.2, (q4.pushed.trans ht.1).cast (by simp [dupEvs, foldMods])⟩
  · have q4 : Same s s4 := hc.same.trans (noteP_same hnote)
    have ht := cookwareTail_noqty (α := α) (curOff s) (curOff s4) (curOff s1) (curOff s2) [] body note s4
      _ _ _ (parseAlias_sep "cookware" body.name _ i s4 (by rw [q4.2.1]; exact he) hi)
      (by rw [q4.1]; exact hn) hq (by intro t ht; cases ht)
    unfold Sat at ht
    rw [← cookwareP_cut hc hnote, q4.1] at ht
    exact ⟨ht.2, (q4.pushed.trans ht.1).cast (by simp [dupEvs, foldMods, recipeModEvs])⟩
  · simp only [aliasEvs, aliasRes, h, if_true, and_self]
  · simp only [aliasEvs, aliasRes, h1, h2, if_true, if_false, Bool.false_eq_true, and_self]
  · simp only [aliasEvs, aliasRes, h1, h2, if_false, Bool.false_eq_true, and_self]

/-- **Intermediate-reference data on cookware**: if `parse_modifiers` on the modifier tokens (run where
    the parser reaches it: a state `sq` with the same tables and extensions and a longer queue)
    returns intermediate data `d`, the run pushed `inter-ref-not-allowed:cookware` (error, parse)
    labelled with the span of the data `(…)`.  Partial: label-inside-the-component is
    `C07_label_inside_cookware`. -/
theorem C07_cookware_inter_ref_partial (s s1 s2 s3 s4 : BP α) (mtoks : List Tok) (body : Body) (note : Option Text)
    (hc : Cut .hash s mtoks body s1 s2 s3) (hn : noteP s3 = (note, s4)) :
    ∃ sq, Grow s sq ∧ ∀ d, (parseModifiers (α := α) mtoks (curOff s1) sq).1.inter = some d →
      Has (.error ⟨.error, .parse, "inter-ref-not-allowed:cookware", [d.span]⟩) s (cookwareP s).2 := by
  have q4 : Same s s4 := hc.same.trans (noteP_same hn)
  have ht := cookwareTail_inter (α := α) (curOff s) (curOff s4) (curOff s1) (curOff s2) mtoks body note s4
  unfold Sat at ht
  rw [← cookwareP_cut hc hn] at ht
  obtain ⟨sq, gq, h⟩ := ht
  exact ⟨sq, q4.grow.trans gq, fun d hd => (h d hd).right q4.grow⟩

/-! non-vacuity: `@&&x{}` (one duplicate), `#@x{}` (recipe modifier on cookware), `@x|{}` (empty alias),
    `@x|a|b{}` (multiple aliases), `#&(1)x{}` (intermediate data on cookware) -/
def C07_exDup : BP Rat :=
  ⟨[⟨.at, ['@'], 0⟩, ⟨.and, ['&'], 1⟩, ⟨.and, ['&'], 2⟩, ⟨.word, ['x'], 3⟩, ⟨.openBrace, ['{'], 4⟩,
    ⟨.closeBrace, ['}'], 5⟩], 0, ⟨Gen.EXT_COMPONENT_MODIFIERS⟩, toyCharSpec, #[], none⟩
example : ∃ body note s1 s2 s3 s4, Cut .at C07_exDup [⟨.and, ['&'], 1⟩, ⟨.and, ['&'], 2⟩] body s1 s2 s3 ∧
    noteP s3 = (note, s4) ∧ body.quantity = none ∧ C07_exDup.ext.has Gen.EXT_COMPONENT_ALIAS = false ∧
    (buildText (curOff s2) body.name).isTextEmpty C07_exDup.cs = false ∧
    (foldMods Modifiers.empty [⟨.and, ['&'], 1⟩, ⟨.and, ['&'], 2⟩]).2 = 1 :=
  ⟨_, _, _, _, _, _, ⟨⟨_, rfl⟩, rfl, rfl⟩, rfl, rfl, rfl, rfl, rfl⟩
example : SimpleMods [⟨.and, ['&'], 1⟩, ⟨.and, ['&'], 2⟩] := by unfold SimpleMods; decide
def C07_exRecipeCw : BP Rat :=
  ⟨[⟨.hash, ['#'], 0⟩, ⟨.at, ['@'], 1⟩, ⟨.word, ['x'], 2⟩, ⟨.openBrace, ['{'], 3⟩, ⟨.closeBrace, ['}'], 4⟩],
    0, ⟨Gen.EXT_COMPONENT_MODIFIERS⟩, toyCharSpec, #[], none⟩
example : ∃ body s1 s2 s3, Cut .hash C07_exRecipeCw [⟨.at, ['@'], 1⟩] body s1 s2 s3 ∧
    recipeModEvs (α := Rat) [⟨.at, ['@'], 1⟩] = [.error ⟨.error, .parse, "cookware-recipe-modifier", [⟨1, 2⟩]⟩] :=
  ⟨_, _, _, _, ⟨⟨_, rfl⟩, rfl, rfl⟩, rfl⟩
def C07_exAlias1 : BP Rat :=
  ⟨[⟨.at, ['@'], 0⟩, ⟨.word, ['x'], 1⟩, ⟨.or, ['|'], 2⟩, ⟨.openBrace, ['{'], 3⟩, ⟨.closeBrace, ['}'], 4⟩],
    0, ⟨Gen.EXT_COMPONENT_ALIAS⟩, toyCharSpec, #[], none⟩
example : ∃ body note s1 s2 s3 s4, Cut .at C07_exAlias1 [] body s1 s2 s3 ∧ noteP s3 = (note, s4) ∧
    body.name.findIdx? (fun t => t.kind == .or) = some 1 ∧ body.quantity = none ∧
    (buildText (curOff s2) (body.name.take 1)).isTextEmpty C07_exAlias1.cs = false ∧
    aliasEvs (α := Rat) "ingredient" body.name 1 C07_exAlias1.cs =
      [.error ⟨.error, .parse, "empty-alias:ingredient", [⟨2, 3⟩]⟩] :=
  ⟨_, _, _, _, _, _, ⟨⟨_, rfl⟩, rfl, rfl⟩, rfl, rfl, rfl, rfl, rfl⟩
def C07_exAlias2 : BP Rat :=
  ⟨[⟨.hash, ['#'], 0⟩, ⟨.word, ['x'], 1⟩, ⟨.or, ['|'], 2⟩, ⟨.word, ['a'], 3⟩, ⟨.or, ['|'], 4⟩, ⟨.word, ['b'], 5⟩,
    ⟨.openBrace, ['{'], 6⟩, ⟨.closeBrace, ['}'], 7⟩], 0, ⟨Gen.EXT_COMPONENT_ALIAS⟩, toyCharSpec, #[], none⟩
example : ∃ body s1 s2 s3, Cut .hash C07_exAlias2 [] body s1 s2 s3 ∧
    body.name.findIdx? (fun t => t.kind == .or) = some 1 ∧
    aliasEvs (α := Rat) "cookware" body.name 1 C07_exAlias2.cs =
      [.error ⟨.error, .parse, "multiple-aliases:cookware", [⟨2, 6⟩]⟩] :=
  ⟨_, _, _, _, ⟨⟨_, rfl⟩, rfl, rfl⟩, rfl, rfl⟩
def C07_exInterCw : BP Rat :=
  ⟨[⟨.hash, ['#'], 0⟩, ⟨.and, ['&'], 1⟩, ⟨.openParen, ['('], 2⟩, ⟨.int, ['1'], 3⟩, ⟨.closeParen, [')'], 4⟩,
    ⟨.word, ['x'], 5⟩, ⟨.openBrace, ['{'], 6⟩, ⟨.closeBrace, ['}'], 7⟩],
    0, ⟨Gen.EXT_COMPONENT_MODIFIERS ||| Gen.EXT_INTERMEDIATE_PREPARATIONS⟩, toyCharSpec, #[], none⟩
example : ∃ mtoks body s1 s2 s3, Cut .hash C07_exInterCw mtoks body s1 s2 s3 ∧
    (parseModifiers (α := Rat) mtoks (curOff s1) s3).1.inter = some ⟨⟨false, false, 1⟩, ⟨2, 5⟩⟩ :=
  ⟨_, _, _, _, _, ⟨⟨_, rfl⟩, rfl, rfl⟩, rfl⟩

/-- **Syntax errors of the intermediate-reference data `&( … )`** (`parse_intermediate_ref_data`).
    The modifier tokens after the `&` are `(`, `inner`, `)`, `rest`, where `inner` contains no `)`;
    `f` = the tokens of `inner` that are not blanks/block comments.  Then, from every parser state, the
    function returns no data and the remaining tokens `rest`, and pushes EXACTLY one error (severity
    error, stage parse):
    * `f = []` (`&()`) ⇒ `inter-ref-empty`, labelled with the span of the parenthesised group;
    * `f = [~, =, int]` (`&(~=1)`) ⇒ `inter-ref-wrong-order`, labelled with the `~` and the `=` tokens;
    * `f = [int]` above 32767 (`&(99999)`) ⇒ `int-parse`, labelled with the number;
    * `f = [-, int]` or `[+, int]` (`&(-1)`) ⇒ `inter-ref-sign`, labelled with the sign;
    * `f = [x]`, `x` not an integer (`&(x)`) ⇒ `inter-ref-invalid`, labelled with the span of `inner`;
    and `f = [int]` that fits is accepted WITHOUT event, the data's span being the whole group. -/
theorem C07_inter_ref_syntax (op cp : Tok) (inner rest : List Tok) (s : BP α)
    (hop : op.kind = .openParen) (hcp : cp.kind = .closeParen) (hin : ∀ t ∈ inner, t.kind ≠ .closeParen) :
    (inner.filter nonBlankTok = [] →
      parseInterRef (α := α) (op :: (inner ++ cp :: rest)) s = ((none, rest),
        { s with evs := s.evs.push (.error ⟨.error, .parse, "inter-ref-empty",
          [tokensSpan (op :: (inner ++ [cp]))]⟩) })) ∧
    (∀ a b i, inner.filter nonBlankTok = [a, b, i] → a.kind = .tilde → b.kind = .eq → i.kind = .int →
      parseInterRef (α := α) (op :: (inner ++ cp :: rest)) s = ((none, rest),
        { s with evs := s.evs.push (.error ⟨.error, .parse, "inter-ref-wrong-order",
          [⟨a.start, a.stop⟩, ⟨b.start, b.stop⟩]⟩) })) ∧
    (∀ i, inner.filter nonBlankTok = [i] → i.kind = .int → 32767 < digitsToNat i.text →
      parseInterRef (α := α) (op :: (inner ++ cp :: rest)) s = ((none, rest),
        { s with evs := s.evs.push (.error ⟨.error, .parse, "int-parse", [⟨i.start, i.stop⟩]⟩) })) ∧
    (∀ sg i, inner.filter nonBlankTok = [sg, i] → (sg.kind = .minus ∨ sg.kind = .plus) → i.kind = .int →
      parseInterRef (α := α) (op :: (inner ++ cp :: rest)) s = ((none, rest),
        { s with evs := s.evs.push (.error ⟨.error, .parse, "inter-ref-sign", [⟨sg.start, sg.stop⟩]⟩) })) ∧
    (∀ x, inner.filter nonBlankTok = [x] → x.kind ≠ .int →
      parseInterRef (α := α) (op :: (inner ++ cp :: rest)) s = ((none, rest),
        { s with evs := s.evs.push (.error ⟨.error, .parse, "inter-ref-invalid", [tokensSpan inner]⟩) })) ∧
    (∀ i, inner.filter nonBlankTok = [i] → i.kind = .int → digitsToNat i.text ≤ 32767 →
      parseInterRef (α := α) (op :: (inner ++ cp :: rest)) s =
        ((some ⟨⟨false, false, digitsToNat i.text⟩, tokensSpan (op :: (inner ++ [cp]))⟩, rest), s)) :=
  ⟨parseInterRef_empty op cp inner rest s hop hcp hin,
   fun a b i => parseInterRef_wrong_order op cp inner rest s hop hcp hin a b i,
   fun i => parseInterRef_too_large op cp inner rest s hop hcp hin i,
   fun sg i => parseInterRef_signed op cp inner rest s hop hcp hin sg i,
   fun x => parseInterRef_invalid op cp inner rest s hop hcp hin x,
   fun i => parseInterRef_good op cp inner rest s hop hcp hin i⟩

/-- **… and at the level of the component** (`@&( … )name{}`, INTERMEDIATE_PREPARATIONS).  An ingredient
    cut into the modifier tokens `&` `(` inner `)`, a body without quantity, a non-blank name without alias
    separator: whenever the data reader rejects the group with an event `ev` (each case of
    `C07_inter_ref_syntax` with `rest = []`), `ingredient` returns the ingredient with the `&` flag and
    no intermediate data and pushes EXACTLY `ev`. -/
theorem C07_inter_ref_syntax_component (s s1 s2 s3 s4 : BP α) (amp op cp : Tok) (inner : List Tok)
    (body : Body) (note : Option Text) (ev : Ev α)
    (hc : Cut .at s (amp :: op :: (inner ++ [cp])) body s1 s2 s3) (hnote : noteP s3 = (note, s4))
    (hamp : amp.kind = .and) (he : s.ext.has Gen.EXT_INTERMEDIATE_PREPARATIONS = true)
    (hPI : ∀ s0 : BP α, parseInterRef (α := α) (op :: (inner ++ cp :: [])) s0 =
      ((none, []), { s0 with evs := s0.evs.push ev }))
    (hq : body.quantity = none)
    (ha : s.ext.has Gen.EXT_COMPONENT_ALIAS = false ∨ ∀ t ∈ body.name, t.kind ≠ .or)
    (hn : (buildText (curOff s2) body.name).isTextEmpty s.cs = false) :
    (ingredientP s).1 = some (.ingredient
      ⟨⟨⟨Modifiers.empty.insert Modifiers.REF, tokensSpan (amp :: op :: (inner ++ [cp]))⟩, none,
        buildText (curOff s2) body.name, none, none, note⟩, ⟨curOff s, curOff s4⟩⟩) ∧
    Pushed [ev] s (ingredientP s).2 := by
  have q4 : Same s s4 := hc.same.trans (noteP_same hnote)
  have ht := ingredientTail_interref_err (α := α) (curOff s) (curOff s4) (curOff s1) (curOff s2) amp op cp inner
    body note ev s4 hamp (by rw [q4.2.1]; exact he) hPI hq (by rw [q4.2.1]; exact ha) (by rw [q4.1]; exact hn)
  unfold Sat at ht
  rw [← ingredientP_cut hc hnote] at ht
  exact ⟨ht.2, (q4.pushed.trans ht.1).cast (by simp)⟩

/-! non-vacuity: `@&()x{}` with COMPONENT_MODIFIERS and INTERMEDIATE_PREPARATIONS -/
def C07_exInterEmpty : BP Rat :=
  ⟨[⟨.at, ['@'], 0⟩, ⟨.and, ['&'], 1⟩, ⟨.openParen, ['('], 2⟩, ⟨.closeParen, [')'], 3⟩, ⟨.word, ['x'], 4⟩,
    ⟨.openBrace, ['{'], 5⟩, ⟨.closeBrace, ['}'], 6⟩],
    0, ⟨Gen.EXT_COMPONENT_MODIFIERS ||| Gen.EXT_INTERMEDIATE_PREPARATIONS⟩, toyCharSpec, #[], none⟩
example : ∃ body note s1 s2 s3 s4,
    Cut .at C07_exInterEmpty (⟨.and, ['&'], 1⟩ :: ⟨.openParen, ['('], 2⟩ :: ([] ++ [⟨.closeParen, [')'], 3⟩])) body s1 s2 s3 ∧
    noteP s3 = (note, s4) ∧ body.quantity = none ∧
    C07_exInterEmpty.ext.has Gen.EXT_INTERMEDIATE_PREPARATIONS = true ∧
    C07_exInterEmpty.ext.has Gen.EXT_COMPONENT_ALIAS = false ∧
    (buildText (curOff s2) body.name).isTextEmpty C07_exInterEmpty.cs = false :=
  ⟨_, _, _, _, _, _, ⟨⟨_, rfl⟩, rfl, rfl⟩, rfl, rfl, rfl, rfl, rfl⟩

/-- **Empty value.**  Value tokens that do not read as a number (or range) and whose text is blank
    (`@x{ %g}`): `parse_value` pushes exactly `empty-value` (error, parse) labelled with the span of
    that text, and returns a value located from the first token to the current offset.
    [Component level: `C07_empty_value_component`, `C07_empty_value_component_blank`.] -/
theorem C07_empty_value (tokens : List Tok) (s : BP α)
    (hnone : numOrRange (α := α) (s.ext.has Gen.EXT_RANGE_VALUES) tokens = none)
    (hemp : (buildText ((tokens.head?.map (·.start)).getD (curOff s)) tokens).isTextEmpty s.cs = true) :
    Pushed [.error ⟨.error, .parse, "empty-value",
        [(buildText ((tokens.head?.map (·.start)).getD (curOff s)) tokens).span]⟩] s
      (parseValue (α := α) tokens s).2 ∧
    (parseValue (α := α) tokens s).1.span = ⟨(tokens.head?.map (·.start)).getD (curOff s), curOff s⟩ :=
  parseValue_empty tokens s hnone hemp

/-- **Empty value, at the level of `parse_quantity` and of the ingredient** (lifts `C07_empty_value`).
    The quantity tokens between the braces are `pre ++ lk ++ vt ++ [%] ++ ut`: blanks/comments `pre`
    (`scaling_lock` eats them), an optional lock token `=` (`lk`), value tokens `vt` without `%` that do
    not read as a number/range and whose text is blank, the `%`, the unit tokens.  (Without a lock the
    value tokens cannot start with a blank or `=`: the blank would belong to `pre`.)  Then, under EVERY
    extension set, `parse_quantity` pushes EXACTLY `empty-value` (error, parse, labelled with the span
    of the blank value text) followed by `empty-unit` iff the unit text is blank too, and returns the
    lock and the unit; and an ingredient cut into no modifier tokens, a non-blank name without alias
    separator and these quantity tokens returns the ingredient with that quantity and pushes exactly
    these events.  `{ %g}`, `{=%g}`, `{= %g}`, `{ = %g}`. -/
theorem C07_empty_value_component (s : BP α) (pre lk vt ut : List Tok) (pct : Tok)
    (hpre : ∀ t ∈ pre, isWsComment t.kind = true)
    (hlk : lk = [] ∨ ∃ e, lk = [e] ∧ e.kind = .eq)
    (hhead : lk = [] → ∀ t0, vt.head? = some t0 → isWsComment t0.kind = false ∧ t0.kind ≠ .eq)
    (hvp : ∀ t ∈ vt, t.kind ≠ .percent) (hp : pct.kind = .percent)
    (hnone : numOrRange (α := α) (s.ext.has Gen.EXT_RANGE_VALUES) vt = none)
    (hemp : (buildText ((vt.head?.map (·.start)).getD
      (offAt (pre ++ (lk ++ (vt ++ pct :: ut))) (pre.length + lk.length + vt.length))) vt).isTextEmpty s.cs = true) :
    (Pushed (emptyValueEv (buildText ((vt.head?.map (·.start)).getD
          (offAt (pre ++ (lk ++ (vt ++ pct :: ut))) (pre.length + lk.length + vt.length))) vt) ::
        emptyUnitEvs pct ut s.cs) s (parseQuantity (α := α) (pre ++ (lk ++ (vt ++ pct :: ut))) s).2 ∧
      (parseQuantity (α := α) (pre ++ (lk ++ (vt ++ pct :: ut))) s).1.quantity.val.unit =
        (if (buildText pct.stop ut).isTextEmpty s.cs then none else some (buildText pct.stop ut)) ∧
      (parseQuantity (α := α) (pre ++ (lk ++ (vt ++ pct :: ut))) s).1.quantity.val.value.lock = lockSpan lk) ∧
    (∀ s1 s2 s3 s4 body note, body.quantity = some (pre ++ (lk ++ (vt ++ pct :: ut))) →
      (s.ext.has Gen.EXT_COMPONENT_ALIAS = false ∨ ∀ t ∈ body.name, t.kind ≠ .or) →
      (buildText (curOff s2) body.name).isTextEmpty s.cs = false → noteP s3 = (note, s4) →
      Cut .at s [] body s1 s2 s3 →
      (∃ q : Loc (PQuantity α), (ingredientP s).1 = some (.ingredient
          ⟨⟨⟨Modifiers.empty, Span.pos (curOff s1)⟩, none, buildText (curOff s2) body.name, none, some q, note⟩,
           ⟨curOff s, curOff s4⟩⟩) ∧ q.val.value.lock = lockSpan lk ∧
          q.val.unit = (if (buildText pct.stop ut).isTextEmpty s.cs then none else some (buildText pct.stop ut))) ∧
      Pushed (emptyValueEv (buildText ((vt.head?.map (·.start)).getD
          (offAt (pre ++ (lk ++ (vt ++ pct :: ut))) (pre.length + lk.length + vt.length))) vt) ::
        emptyUnitEvs pct ut s.cs) s (ingredientP s).2) := by
  refine ⟨c07e_parseQuantity_empty pre lk vt ut pct s hpre hlk hhead hvp hp hnone hemp, ?_⟩
  intro s1 s2 s3 s4 body note hq ha hn hnote hc
  have q4 : Same s s4 := hc.same.trans (noteP_same hnote)
  have ht := c07e_ingredientTail_q (α := α) (curOff s) (curOff s4) (curOff s1) (curOff s2) body note s4 _ hq
    (by rw [q4.2.1]; exact ha) (by rw [q4.1]; exact hn)
    (emptyValueEv (buildText ((vt.head?.map (·.start)).getD
      (offAt (pre ++ (lk ++ (vt ++ pct :: ut))) (pre.length + lk.length + vt.length))) vt) ::
        emptyUnitEvs pct ut s.cs)
    (fun r => r.quantity.val.unit =
        (if (buildText pct.stop ut).isTextEmpty s.cs then none else some (buildText pct.stop ut)) ∧
      r.quantity.val.value.lock = lockSpan lk)
    (fun sq qq => by
      have h := c07e_parseQuantity_empty pre lk vt ut pct sq hpre hlk hhead hvp hp
        (by rw [qq.2.1, q4.2.1]; exact hnone) (by rw [qq.1, q4.1]; exact hemp)
      rw [qq.1, q4.1] at h
      exact h)
  unfold Sat at ht
  rw [← ingredientP_cut hc hnote] at ht
  obtain ⟨p, q, ⟨hu, hl⟩, hr⟩ := ht
  exact ⟨⟨q.quantity, hr, hl, hu⟩, (q4.pushed.trans p).cast (by simp)⟩

/-- **… the two spellings named in the catalogue: `@x{ %g}` and `@x{=%g}`** (no value token at all).
    With `vt = []` the two hypotheses on the value hold by themselves, and the label of `empty-value` is
    the POSITION right after the blanks and the lock, i.e. where the value should have been. -/
theorem C07_empty_value_component_blank (s : BP α) :
    numOrRange (α := α) (s.ext.has Gen.EXT_RANGE_VALUES) [] = none ∧
    (∀ off, (buildText ((([] : List Tok).head?.map (·.start)).getD off) []).isTextEmpty s.cs = true) ∧
    (∀ off, emptyValueEv (α := α) (buildText ((([] : List Tok).head?.map (·.start)).getD off) []) =
      .error ⟨.error, .parse, "empty-value", [Span.pos off]⟩) := by
  refine ⟨?_, fun off => rfl, fun off => rfl⟩
  cases s.ext.has Gen.EXT_RANGE_VALUES <;> rfl

/-! non-vacuity: `@x{ %g}` and `@x{=%g}`: the cut exists, the quantity tokens have the shape
    `pre ++ lk ++ [] ++ [%] ++ ut`, and `ingredient` pushes exactly one `empty-value` at offset 4 -/
def C07_exEmptyVal : BP Rat :=
  ⟨[⟨.at, ['@'], 0⟩, ⟨.word, ['x'], 1⟩, ⟨.openBrace, ['{'], 2⟩, ⟨.ws, [' '], 3⟩, ⟨.percent, ['%'], 4⟩,
    ⟨.word, ['g'], 5⟩, ⟨.closeBrace, ['}'], 6⟩], 0, ⟨0⟩, toyCharSpec, #[], none⟩
example : ∃ body note s1 s2 s3 s4, Cut .at C07_exEmptyVal [] body s1 s2 s3 ∧ noteP s3 = (note, s4) ∧
    body.quantity = some ([⟨.ws, [' '], 3⟩] ++ ([] ++ ([] ++ ⟨.percent, ['%'], 4⟩ :: [⟨.word, ['g'], 5⟩]))) ∧
    (buildText (curOff s2) body.name).isTextEmpty C07_exEmptyVal.cs = false :=
  ⟨_, _, _, _, _, _, ⟨⟨_, rfl⟩, rfl, rfl⟩, rfl, rfl, rfl⟩
example : (ingredientP C07_exEmptyVal).2.evs = #[.error ⟨.error, .parse, "empty-value", [⟨4, 4⟩]⟩] := rfl
def C07_exEmptyValLock : BP Rat :=
  ⟨[⟨.at, ['@'], 0⟩, ⟨.word, ['x'], 1⟩, ⟨.openBrace, ['{'], 2⟩, ⟨.eq, ['='], 3⟩, ⟨.percent, ['%'], 4⟩,
    ⟨.word, ['g'], 5⟩, ⟨.closeBrace, ['}'], 6⟩], 0, ⟨0⟩, toyCharSpec, #[], none⟩
example : ∃ body s1 s2 s3, Cut .at C07_exEmptyValLock [] body s1 s2 s3 ∧
    body.quantity = some ([] ++ ([⟨.eq, ['='], 3⟩] ++ ([] ++ ⟨.percent, ['%'], 4⟩ :: [⟨.word, ['g'], 5⟩]))) :=
  ⟨_, _, _, _, ⟨⟨_, rfl⟩, rfl, rfl⟩, rfl⟩
example : (ingredientP C07_exEmptyValLock).2.evs = #[.error ⟨.error, .parse, "empty-value", [⟨4, 4⟩]⟩] := rfl

/-! non-vacuity: `( )`, `(~=1)`, `(-1)` as token lists; a blank value -/
example : ([⟨.ws, [' '], 3⟩] : List Tok).filter nonBlankTok = [] := by decide
example : ([⟨.tilde, ['~'], 3⟩, ⟨.eq, ['='], 4⟩, ⟨.int, ['1'], 5⟩] : List Tok).filter nonBlankTok =
    [⟨.tilde, ['~'], 3⟩, ⟨.eq, ['='], 4⟩, ⟨.int, ['1'], 5⟩] := by decide
example : numOrRange (α := Rat) false [⟨.ws, [' '], 3⟩] = none ∧
    (buildText 3 [⟨.ws, [' '], 3⟩]).isTextEmpty toyCharSpec = true := ⟨rfl, rfl⟩

/-- **Empty metadata key** (and value).  Whenever `metadata_entry` returns the entry `>> key: value`:
    a blank key ⇒ it pushed exactly `empty-metadata-key` (error, parse) labelled with the key's span;
    a non-blank key with a blank value ⇒ exactly the warning `empty-metadata-value` labelled with the
    value's span, then the key's span; both non-blank ⇒ no event. -/
theorem C07_empty_metadata_key (s s' : BP α) (k v : Text)
    (h : metadataEntry s = (some (.metadata k v), s')) :
    (k.isTextEmpty s.cs = true →
      Pushed [.error ⟨.error, .parse, "empty-metadata-key", [k.span]⟩] s s') ∧
    (k.isTextEmpty s.cs = false → v.isTextEmpty s.cs = true →
      Pushed [.warning ⟨.warning, .parse, "empty-metadata-value", [v.span, k.span]⟩] s s') ∧
    (k.isTextEmpty s.cs = false → v.isTextEmpty s.cs = false → Pushed [] s s') :=
  (Sat.of_run (metadataEntry_spec s) h) k v rfl

/-! non-vacuity: `>> : x` -/
def C07_exMeta : BP Rat :=
  ⟨[⟨.metaStart, ['>', '>'], 0⟩, ⟨.ws, [' '], 2⟩, ⟨.colon, [':'], 3⟩, ⟨.ws, [' '], 4⟩, ⟨.word, ['x'], 5⟩],
    0, ⟨0⟩, toyCharSpec, #[], none⟩
example : ∃ k v s', metadataEntry C07_exMeta = (some (.metadata k v), s') ∧
    k.isTextEmpty C07_exMeta.cs = true := ⟨_, _, _, rfl, rfl⟩

/-! ### Placement: labels inside the construct -/

/-- **Every label of every diagnostic of an ingredient lies inside the ingredient.**  Run `ingredient`
    from any parser state whose token list is a block (non-empty, adjacent tokens: what the block
    splitter produces, `WF`) with the cursor inside and no earlier panic.  If it returns the ingredient
    `i`, then the events it pushed are all parse diagnostics (errors or warnings: empty name, alias
    errors, duplicate modifier, every intermediate-reference syntax error, zero denominator, integer
    overflow, empty value, empty unit, …), and EVERY label `sp` of each of them is a well-formed span
    inside the span of the ingredient: `i.span.start ≤ sp.start ≤ sp.stop ≤ i.span.stop`.
    The span starts at the `@` (the `current_offset` of the cursor). -/
theorem C07_label_inside_ingredient (s s' : BP α) (i : Loc (PIngredient α)) (hw : WF s.toks)
    (hp : s.panic = none) (hcur : s.cur ≤ s.toks.length)
    (h : ingredientP s = (some (.ingredient i), s')) :
    i.span.start = curOff s ∧
    ∃ l, s'.evs.toList = s.evs.toList ++ l ∧ ∀ x ∈ l, ∃ d, (x = .error d ∨ x = .warning d) ∧
      ∀ sp ∈ d.labels, i.span.start ≤ sp.start ∧ sp.start ≤ sp.stop ∧ sp.stop ≤ i.span.stop := by
  obtain ⟨h1, l, hl, hall⟩ := ingredientP_labels_inside hw (⟨rfl, rfl, hp, hcur⟩ : G s.toks s.ext s) h
  refine ⟨h1, l, hl, ?_⟩
  intro x hx
  have := hall x hx
  cases x <;> first | exact ⟨_, Or.inl rfl, this⟩ | exact ⟨_, Or.inr rfl, this⟩ | exact this.elim

/-- the same for a cookware item (additionally: unit on cookware, recipe modifier, intermediate data) -/
theorem C07_label_inside_cookware (s s' : BP α) (c : Loc (PCookware α)) (hw : WF s.toks)
    (hp : s.panic = none) (hcur : s.cur ≤ s.toks.length)
    (h : cookwareP s = (some (.cookware c), s')) :
    c.span.start = curOff s ∧
    ∃ l, s'.evs.toList = s.evs.toList ++ l ∧ ∀ x ∈ l, ∃ d, (x = .error d ∨ x = .warning d) ∧
      ∀ sp ∈ d.labels, c.span.start ≤ sp.start ∧ sp.start ≤ sp.stop ∧ sp.stop ≤ c.span.stop := by
  obtain ⟨h1, l, hl, hall⟩ := cookwareP_labels_inside hw (⟨rfl, rfl, hp, hcur⟩ : G s.toks s.ext s) h
  refine ⟨h1, l, hl, ?_⟩
  intro x hx
  have := hall x hx
  cases x <;> first | exact ⟨_, Or.inl rfl, this⟩ | exact ⟨_, Or.inr rfl, this⟩ | exact this.elim

/-- the same for a timer (modifiers / alias not allowed, missing unit, missing quantity, neither name
    nor quantity, and every diagnostic of the quantity reader): every label lies inside the timer's
    span — with ONE exception by design: the warning `note-not-allowed:timer`, which `check_note` pushes
    when a parenthesised note FOLLOWS the timer; its labels are on that note, i.e. right after the timer. -/
theorem C07_label_inside_timer (s s' : BP α) (t : Loc (PTimer α)) (hw : WF s.toks)
    (hp : s.panic = none) (hcur : s.cur ≤ s.toks.length)
    (h : timerP s = (some (.timer t), s')) :
    t.span.start = curOff s ∧
    ∃ l, s'.evs.toList = s.evs.toList ++ l ∧ ∀ x ∈ l,
      (∃ a b, x = .warning ⟨.warning, .parse, "note-not-allowed:timer", [a, b]⟩) ∨
      ∃ d, (x = .error d ∨ x = .warning d) ∧
        ∀ sp ∈ d.labels, t.span.start ≤ sp.start ∧ sp.start ≤ sp.stop ∧ sp.stop ≤ t.span.stop := by
  obtain ⟨h1, l, hl, hall⟩ := timerP_labels_inside hw (⟨rfl, rfl, hp, hcur⟩ : G s.toks s.ext s) h
  refine ⟨h1, l, hl, ?_⟩
  intro x hx
  rcases hall x hx with this | hn
  · right
    cases x <;> first | exact ⟨_, Or.inl rfl, this⟩ | exact ⟨_, Or.inr rfl, this⟩ | exact this.elim
  · exact Or.inl hn

/-! non-vacuity: the token list of `@&&x{}` is a block and `ingredient` succeeds on it (and pushes one error) -/
example : WF C07_exDup.toks ∧ ∃ i s', ingredientP C07_exDup = (some (.ingredient i), s') := by
  refine ⟨WF.of_chain (off := 0) (by simp [C07_exDup, Chain, Tok.stop, utf8Len]; decide)
    (by intro t ht; simp [C07_exDup] at ht; rcases ht with rfl | rfl | rfl | rfl | rfl | rfl <;> simp)
    (by simp [C07_exDup]), ?_⟩
  have hc : ∃ body note s1 s2 s3 s4, Cut .at C07_exDup [⟨.and, ['&'], 1⟩, ⟨.and, ['&'], 2⟩] body s1 s2 s3 ∧
      noteP s3 = (note, s4) ∧ body.quantity = none ∧
      (buildText (curOff s2) body.name).isTextEmpty C07_exDup.cs = false :=
    ⟨_, _, _, _, _, _, ⟨⟨_, rfl⟩, rfl, rfl⟩, rfl, rfl, rfl⟩
  obtain ⟨body, note, s1, s2, s3, s4, hcut, hn, hq, hne⟩ := hc
  have h := (C07_duplicate_modifier C07_exDup s1 s2 s3 s4 _ body note (by unfold SimpleMods; decide) hq
    (Or.inl rfl) hne hn).1 hcut
  exact ⟨_, (ingredientP C07_exDup).2, Prod.ext h.1 rfl⟩

/-! ### Completeness in isolation, analysis level (src/analysis/event_consumer.rs) -/

/-- **Dangling reference.**  If no existing component of the kind that is not itself a reference has
    a name equal (under case folding) to the new one, the new component is not `+`, and it is treated
    as a reference (it carries `&`, or the define mode is `steps`), then `resolve_reference` pushes the
    error `reference-not-found` (error, analysis) as the LAST diagnostic, labelled with the component's
    span (`location`), returns the modifiers unchanged with no target (the component stays a
    definition) and changes nothing but the diagnostics. -/
theorem C07_reference_not_found (env : Env) (container : String) (inherit : Nat)
    (existing : List (Str × Modifiers)) (name : Str) (mods : Modifiers) (location modLoc : Span) (s : Col α)
    (hnew : mods.contains Modifiers.NEW = false)
    (hnone : ∀ (i : Nat) (n : Str) (m : Modifiers), existing[i]? = some (n, m) →
      m.contains Modifiers.REF = false → nameEq env name n = false)
    (href : mods.contains Modifiers.REF = true ∨ s.defineMode = .steps) :
    (resolveReference env container inherit existing name mods location modLoc s).1 = (mods, none) ∧
    ∃ pre, (resolveReference env container inherit existing name mods location modLoc s).2.diags.toList =
        s.diags.toList ++ pre ++ [⟨.error, .analysis, "reference-not-found", [location]⟩] ∧
      (resolveReference env container inherit existing name mods location modLoc s).2 =
        { s with diags := (resolveReference env container inherit existing name mods location modLoc s).2.diags } :=
  resolveReference_not_found env container inherit existing name mods location modLoc s hnew
    (sameNameIdx_none env existing name hnone) href

/-- **`+` and `&` together**: `ref-conflicting-modifiers` (error, analysis) on the modifiers' span;
    the component stays a definition -/
theorem C07_new_and_ref_conflict (env : Env) (container : String) (inherit : Nat)
    (existing : List (Str × Modifiers)) (name : Str) (mods : Modifiers) (location modLoc : Span) (s : Col α)
    (hn : mods.contains Modifiers.NEW = true) (hr : mods.contains Modifiers.REF = true) :
    resolveReference env container inherit existing name mods location modLoc s =
      ((mods, none),
       { s with diags := s.diags.push ⟨.error, .analysis, "ref-conflicting-modifiers", [modLoc]⟩ }) :=
  resolveReference_new_and_ref env container inherit existing name mods location modLoc s hn hr

/-- **Intermediate references.**  Value 0 is `inter-ref-zero` (absolute) or `inter-ref-self`
    (relative); a step number beyond the steps of the current section, or a section number beyond the
    finished sections, is `inter-ref-bounds`; and whatever error the target computation gives,
    `resolve_intermediate_ref` pushes it as an analysis error labelled with the span of the
    intermediate data `(…)`, returning no relation. -/
theorem C07_intermediate_ref_errors (d : Loc InterData) (s : Col α) (hv : 0 ≤ d.val.val) :
    (∀ kind, interRefTarget s.cur.content s.sections.length d.val = .error kind →
      resolveInterRef d s = (none, { s with diags := s.diags.push ⟨.error, .analysis, kind, [d.span]⟩ })) ∧
    (d.val.val.toNat = 0 → interRefTarget s.cur.content s.sections.length d.val =
      .error (if d.val.relative then "inter-ref-self" else "inter-ref-zero")) ∧
    (d.val.val.toNat ≠ 0 → d.val.isSection = false → (stepIndices s.cur.content).length < d.val.val.toNat →
      interRefTarget s.cur.content s.sections.length d.val = .error "inter-ref-bounds") ∧
    (d.val.val.toNat ≠ 0 → d.val.isSection = true → s.sections.length < d.val.val.toNat →
      interRefTarget s.cur.content s.sections.length d.val = .error "inter-ref-bounds") :=
  ⟨fun kind h => resolveInterRef_error d s kind hv h, interRefTarget_zero _ _ _,
   interRefTarget_bounds_step _ _ _, interRefTarget_bounds_section _ _ _⟩

/-- **Bad mode value.**  With MODES, `>> [mode]: v` / `>> [define]: v` with `v` not one of
    all/default/components/ingredients/steps/text, and `>> [duplicate]: v` with `v` not one of
    new/default/reference/ref, push `config-invalid-value` (error, analysis) labelled with the value's
    span, then the key's span, and change nothing else. -/
theorem C07_bad_mode_value (env : Env) (key value : Text) (s : Col α)
    (hm : env.ext.has Gen.EXT_MODES = true)
    (hk1 : (key.trimmed env.cs).head? = some '[') (hk2 : (key.trimmed env.cs).getLast? = some ']')
    (hk3 : (key.trimmed env.cs).length ≥ 2) :
    ((String.ofList (((key.trimmed env.cs).drop 1).dropLast) = "define" ∨
      String.ofList (((key.trimmed env.cs).drop 1).dropLast) = "mode") →
     (∀ w ∈ ["all", "default", "components", "ingredients", "steps", "text"],
        String.ofList (value.outerTrimmed env.cs) ≠ w) →
     (metadataA env key value s).2 =
       { s with diags := s.diags.push ⟨.error, .analysis, "config-invalid-value", [value.span, key.span]⟩ }) ∧
    (String.ofList (((key.trimmed env.cs).drop 1).dropLast) = "duplicate" →
     (∀ w ∈ ["new", "default", "reference", "ref"], String.ofList (value.outerTrimmed env.cs) ≠ w) →
     (metadataA env key value s).2 =
       { s with diags := s.diags.push ⟨.error, .analysis, "config-invalid-value", [value.span, key.span]⟩ }) :=
  ⟨fun hc hv => metadataA_bad_mode env key value s hm hk1 hk2 hk3 hc hv,
   fun hc hv => metadataA_bad_duplicate env key value s hm hk1 hk2 hk3 hc hv⟩

/-- **Timer units (ADVANCED_UNITS).**  A text value gives `timer-value-text` on the value's span; a
    unit the converter does not know gives `timer-unit-unknown`, a known unit of another physical
    quantity gives `timer-unit-not-time`, both on the unit's span; a time unit gives nothing. -/
theorem C07_timer_unit_checks (env : Env) (q : Loc (PQuantity α)) (r : Quantity (ScalableValue α)) (s : Col α)
    (he : env.ext.has Gen.EXT_ADVANCED_UNITS = true) :
    (r.value.val.isText = true → r.unit = none → (timerQuantityChecks env q r s).2 =
      { s with diags := s.diags.push ⟨.error, .analysis, "timer-value-text", [q.val.value.value.span]⟩ }) ∧
    (∀ u, r.value.val.isText = false → r.unit = some u →
      (env.findUnit u = none → (timerQuantityChecks env q r s).2 =
        { s with diags := s.diags.push (⟨.error, .analysis, "timer-unit-unknown",
            [(q.val.unit.map (·.span)).getD ⟨0, 0⟩]⟩ : Diag) }) ∧
      (∀ pq, env.findUnit u = some pq → pq ≠ env.timeQ → (timerQuantityChecks env q r s).2 =
        { s with diags := s.diags.push (⟨.error, .analysis, "timer-unit-not-time",
            [(q.val.unit.map (·.span)).getD ⟨0, 0⟩]⟩ : Diag) }) ∧
      (env.findUnit u = some env.timeQ → (timerQuantityChecks env q r s).2 = s)) :=
  ⟨fun ht hu => timerQuantityChecks_text env q r s he ht hu,
   fun u ht hu => timerQuantityChecks_unit env q r s u he ht hu⟩

/-- **Note on a reference**, partial: `note_reference_error` pushes `note-in-reference` (error,
    analysis) labelled with the note's span widened over its parentheses, then the definition's note
    (or the position after the definition).  Missing: that `ingredient`/`cookware` reach it exactly
    when the new component is a resolved reference carrying a note. -/
theorem C07_note_in_reference_partial (input : Str) (noteSpan defSpan : Span) (defNote : Option Span) (s : Col α) :
    (noteReferenceError (α := α) input noteSpan defSpan defNote s).2 =
      { s with diags := s.diags.push ⟨.error, .analysis, "note-in-reference",
        [noteRefSpan input noteSpan, defNote.getD (Span.pos defSpan.stop)]⟩ } :=
  noteReferenceError_run input noteSpan defSpan defNote s

/-! non-vacuity of the analysis hypotheses -/
example : (Modifiers.mk (Modifiers.NEW ||| Modifiers.REF)).contains Modifiers.NEW = true ∧
    (Modifiers.mk (Modifiers.NEW ||| Modifiers.REF)).contains Modifiers.REF = true := by decide
example : interRefTarget [] 0 ⟨false, false, 0⟩ = .error "inter-ref-zero" := by rfl
example : interRefTarget [] 0 ⟨true, false, 0⟩ = .error "inter-ref-self" := by rfl
example : interRefTarget [] 0 ⟨false, false, 99⟩ = .error "inter-ref-bounds" := by rfl

/-- **Unnecessary scaling lock, exactly.**  Turning a parsed value into a scalable value pushes the
    warning `unnecessary-scaling-lock` (analysis stage, labelled with the value's span) exactly when the
    value carries a lock `=` and the lock has no effect (the component is not an ingredient, or the
    value is text); in every other case nothing at all is pushed — in particular `@flour{=200%g}` is quiet. -/
theorem C07_unnecessary_scaling_lock (env : Env) (v : PQValue α) (isIngredient : Bool) (s : Col α) :
    (valueOf env v isIngredient s).2 =
      (if v.lock.isSome && (!isIngredient || v.value.val.isText) then
        { s with diags := s.diags.push ⟨.warning, .analysis, "unnecessary-scaling-lock", [v.value.span]⟩ }
       else s) :=
  valueOf_run env v isIngredient s

/-- **Conflicting modifiers on a reference.**  An explicit reference (`&`, not `+`) whose definition is
    found at index `refTo` and that carries a modifier (other than `&`) the definition does not have
    — `refConflictBits` is the set of such modifier bits, computed as in `resolve_reference` — gets
    `ref-conflicting-modifiers` (error, analysis) on the modifiers' span as the LAST diagnostic, after
    at most a `redundant-ref` warning, and is still resolved to `refTo`. -/
theorem C07_ref_conflicting_modifiers (env : Env) (container : String) (inherit : Nat)
    (existing : List (Str × Modifiers)) (name : Str) (mods : Modifiers) (location modLoc : Span) (s : Col α)
    (refTo : Nat) (hn : mods.contains Modifiers.NEW = false) (hr : mods.contains Modifiers.REF = true)
    (hfound : sameNameIdx env existing name = some refTo)
    (hconf : refConflictBits mods ⟨(((existing[refTo]?).map (·.2)).getD Modifiers.empty).bits &&& inherit⟩ ≠ 0) :
    ∃ pre, (resolveReference env container inherit existing name mods location modLoc s).2.diags.toList =
        s.diags.toList ++ pre ++ [⟨.error, .analysis, "ref-conflicting-modifiers", [modLoc]⟩] ∧
      (resolveReference env container inherit existing name mods location modLoc s).1.2 = some ⟨refTo, false⟩ :=
  resolveReference_conflict env container inherit existing name mods location modLoc s refTo hn hr hfound hconf

/-- **Modifiers not allowed on an intermediate reference.**  The checks of an ingredient with
    intermediate data `&(…)` push `inter-ref-conflicting-modifiers` (error, analysis, on the modifiers'
    span) exactly when one of `@`, `-`, `+` is among its modifiers, and nothing otherwise. -/
theorem C07_inter_ref_conflicting_modifiers (i : PIngredient α) (igr : Ingredient (ScalableValue α)) (s : Col α)
    (hr : igr.modifiers.contains Modifiers.REF = true) :
    (ingrInterChecks i igr s).2 =
      (if (igr.modifiers.bits &&& (Modifiers.RECIPE ||| Modifiers.HIDDEN ||| Modifiers.NEW)) != 0 then
        { s with diags := s.diags.push ⟨.error, .analysis, "inter-ref-conflicting-modifiers", [i.modifiers.span]⟩ }
       else s) :=
  ingrInterChecks_run i igr s hr

/-! non-vacuity: `&?` against a definition without modifiers conflicts in the `?` bit -/
example : refConflictBits ⟨Modifiers.REF ||| Modifiers.OPT⟩ ⟨0⟩ = Modifiers.OPT := by decide

/-- **The checks of a resolved ingredient reference against its definition** (`ingrRefChecks`: what
    `ingredient` runs when `resolve_reference` found the definition).  They only append diagnostics, and
    * a note on the reference ⇒ `note-in-reference` (error, analysis) is among them, labelled with the
      note's span widened over its parentheses and the definition's note (or the position after the
      definition) — this closes the gap of `C07_note_in_reference_partial` for ingredients;
    * **a quantity on a reference whose definition has one** (definition not made inside a step) ⇒
      `conflicting-ref-quantity` (error, analysis) labelled with the reference's quantity and the definition;
    * **text value against numeric value** ⇒ the warning `text-value-in-ref`, the text side's span first. -/
theorem C07_reference_checks (env : Env) (input : Str) (li : Loc (PIngredient α))
    (igr : Ingredient (ScalableValue α)) (refTo : Nat) (defn : Ingredient (ScalableValue α))
    (defLoc : Loc (PIngredient α)) (s : Col α) :
    (∃ l, (ingrRefChecks env input li igr refTo defn defLoc s).2.diags.toList = s.diags.toList ++ l) ∧
    (∀ n, li.val.note = some n →
      (⟨.error, .analysis, "note-in-reference", [noteRefSpan input n.span,
        (defLoc.val.note.map (·.span)).getD (Span.pos defLoc.span.stop)]⟩ : Diag) ∈
        (ingrRefChecks env input li igr refTo defn defLoc s).2.diags.toList) ∧
    (defn.quantity.isSome = true → igr.quantity.isSome = true → ircDefinedInStep defn = false →
      (⟨.error, .analysis, "conflicting-ref-quantity",
        [(li.val.quantity.map (·.span)).getD ⟨0, 0⟩, defLoc.span]⟩ : Diag) ∈
        (ingrRefChecks env input li igr refTo defn defLoc s).2.diags.toList) ∧
    (∀ rq dq, igr.quantity = some rq → defn.quantity = some dq →
      rq.value.val.isText ≠ dq.value.val.isText →
      (⟨.warning, .analysis, "text-value-in-ref",
        if rq.value.val.isText then
          [(li.val.quantity.map (·.span)).getD ⟨0, 0⟩, (defLoc.val.quantity.map (·.span)).getD ⟨0, 0⟩]
        else [(defLoc.val.quantity.map (·.span)).getD ⟨0, 0⟩, (li.val.quantity.map (·.span)).getD ⟨0, 0⟩]⟩ : Diag) ∈
        (ingrRefChecks env input li igr refTo defn defLoc s).2.diags.toList) := by
  obtain ⟨h1, h2, h3⟩ := ingrRefChecks_reports env input li igr refTo defn defLoc s
  exact ⟨h1, h2, h3, fun rq dq hr hd hne => ingrRefChecks_text env input li igr refTo defn defLoc s rq dq hr hd hne⟩

/-- the same for a resolved cookware reference (`cwRefChecks`): only appends diagnostics; a note ⇒
    `note-in-reference`; a quantity on a reference whose definition (made outside a step) has one ⇒
    `conflicting-ref-quantity` -/
theorem C07_reference_checks_cookware (input : Str) (lc : Loc (PCookware α)) (cw : Cookware (ScalableValue α))
    (defn : Cookware (ScalableValue α)) (defLoc : Loc (PCookware α)) (s : Col α) :
    (∃ l, (cwRefChecks input lc cw defn defLoc s).2.diags.toList = s.diags.toList ++ l) ∧
    (∀ n, lc.val.note = some n →
      (⟨.error, .analysis, "note-in-reference", [noteRefSpan input n.span,
        (defLoc.val.note.map (·.span)).getD (Span.pos defLoc.span.stop)]⟩ : Diag) ∈
        (cwRefChecks input lc cw defn defLoc s).2.diags.toList) ∧
    (defn.quantity.isSome = true → cw.quantity.isSome = true → crcDefinedInStep defn = false →
      (⟨.error, .analysis, "conflicting-ref-quantity",
        [(lc.val.quantity.map (·.span)).getD ⟨0, 0⟩, defLoc.span]⟩ : Diag) ∈
        (cwRefChecks input lc cw defn defLoc s).2.diags.toList) :=
  cwRefChecks_reports input lc cw defn defLoc s

/-! non-vacuity: a definition made outside a step -/
example : ircDefinedInStep (⟨[], none, none, none, none, ⟨.definition [] false, none⟩, Modifiers.empty⟩ :
    Ingredient (ScalableValue Rat)) = false := rfl

/-! ### Analysis stage: "pushes X only when Y" -/

/-- **`resolve_reference`, exactly.**  From every collector state the function appends EXACTLY the list
    `refDiags` (a pure function of the modifiers, the existing components, the name and the two modes
    `[define]` / `[duplicate]`: at most `redundant-new`, or `redundant-ref` followed by one of
    `ref-conflicting-modifiers` / `reference-not-found`) to the diagnostics and changes nothing else.
    Consequently, for the three error entries of the catalogue the completeness theorems
    (`C07_reference_not_found`, `C07_new_and_ref_conflict`, `C07_ref_conflicting_modifiers`) become
    equivalences:
    * a diagnostic of kind `reference-not-found` is pushed IFF the component is not `+`, no earlier
      non-reference component has the name, and it is `&` or the define mode is `steps`; it is then the
      error labelled with the component's span;
    * a diagnostic of kind `ref-conflicting-modifiers` is pushed IFF the component is `+&`, or it is not
      `+`, is treated as a reference (`&`, define mode `steps`, or duplicate mode `reference`), its
      definition is found at `refTo` and it carries a modifier bit the definition lacks
      (`refConflictBits ≠ 0`); it is then the error labelled with the modifiers' span. -/
theorem C07_resolve_reference_exact (env : Env) (container : String) (inherit : Nat)
    (existing : List (Str × Modifiers)) (name : Str) (mods : Modifiers) (location modLoc : Span) (s : Col α) :
    (resolveReference env container inherit existing name mods location modLoc s).2.diags.toList =
      s.diags.toList ++ refDiags env inherit existing name mods location modLoc s.defineMode s.duplicateMode ∧
    (resolveReference env container inherit existing name mods location modLoc s).2 =
      { s with diags := (resolveReference env container inherit existing name mods location modLoc s).2.diags } ∧
    ((∃ d ∈ refDiags env inherit existing name mods location modLoc s.defineMode s.duplicateMode,
        d.kind = "reference-not-found") ↔
      (mods.contains Modifiers.NEW = false ∧ sameNameIdx env existing name = none ∧
        (mods.contains Modifiers.REF = true ∨ s.defineMode = .steps))) ∧
    ((∃ d ∈ refDiags env inherit existing name mods location modLoc s.defineMode s.duplicateMode,
        d.kind = "ref-conflicting-modifiers") ↔
      ((mods.contains Modifiers.NEW = true ∧ mods.contains Modifiers.REF = true) ∨
       (mods.contains Modifiers.NEW = false ∧
        (mods.contains Modifiers.REF = true ∨ s.defineMode = .steps ∨ s.duplicateMode = .reference) ∧
        ∃ refTo, sameNameIdx env existing name = some refTo ∧
          refConflictBits mods ⟨(((existing[refTo]?).map (·.2)).getD Modifiers.empty).bits &&& inherit⟩ ≠ 0))) ∧
    (∀ d ∈ refDiags env inherit existing name mods location modLoc s.defineMode s.duplicateMode,
      (d.kind = "reference-not-found" → d = ⟨.error, .analysis, "reference-not-found", [location]⟩) ∧
      (d.kind = "ref-conflicting-modifiers" → d = ⟨.error, .analysis, "ref-conflicting-modifiers", [modLoc]⟩)) := by
  obtain ⟨h1, h2⟩ := c07a_resolveReference_exact env container inherit existing name mods location modLoc s
  obtain ⟨k1, k2, k3⟩ := c07a_refDiags_kinds env inherit existing name mods location modLoc s.defineMode s.duplicateMode
  exact ⟨h1, h2, k1, k2, k3⟩

/-- **`resolve_intermediate_ref`, exactly** (completes `C07_intermediate_ref_errors`): for a non-negative
    value it appends EXACTLY `interRefDiags` — the one analysis error of the kind computed by
    `interRefTarget`, labelled with the data's span, when the target does not exist, and NOTHING when it
    does — changes nothing else, and returns no relation iff the target computation fails. -/
theorem C07_intermediate_ref_exact (d : Loc InterData) (s : Col α) (hv : 0 ≤ d.val.val) :
    (resolveInterRef d s).2.diags.toList = s.diags.toList ++ interRefDiags s.cur.content s.sections.length d ∧
    (resolveInterRef d s).2 = { s with diags := (resolveInterRef d s).2.diags } ∧
    ((resolveInterRef d s).1 = none ↔ ∃ kind, interRefTarget s.cur.content s.sections.length d.val = .error kind) ∧
    (∀ rel, interRefTarget s.cur.content s.sections.length d.val = .ok rel →
      interRefDiags s.cur.content s.sections.length d = []) ∧
    (∀ kind, interRefTarget s.cur.content s.sections.length d.val = .error kind →
      interRefDiags s.cur.content s.sections.length d = [⟨.error, .analysis, kind, [d.span]⟩]) := by
  obtain ⟨h1, h2, h3⟩ := c07a_resolveInterRef_exact d s hv
  refine ⟨h1, h2, h3, fun rel h => ?_, fun kind h => ?_⟩
  · unfold interRefDiags; rw [h]
  · unfold interRefDiags; rw [h]; rfl

/-! non-vacuity: a plain component in the default modes gets no diagnostic from `resolve_reference`;
    `&x` without a definition gets exactly `reference-not-found` -/
example : refDiags C01_toyEnv 0 [] ['x'] Modifiers.empty ⟨0, 2⟩ ⟨1, 1⟩ .all .new = [] := by decide
example : refDiags C01_toyEnv 0 [] ['x'] ⟨Modifiers.REF⟩ ⟨0, 3⟩ ⟨1, 2⟩ .all .new =
    [⟨.error, .analysis, "reference-not-found", [⟨0, 3⟩]⟩] := by decide

/-! ### Soundness, simplest shape -/

/-- **A plain component is quiet** (parser part).  An ingredient or cookware item cut into no
    modifier tokens, a body without quantity (`@name{}` or the single-word form), name tokens without
    alias separator (or COMPONENT_ALIAS off) and a non-blank name: the parser returns the component
    with empty modifiers, that name, no alias, no quantity, and pushes NO event at all (the queue,
    the tables and the extensions of the final state are those of the initial state).
    Partial: the analysis half (default modes push nothing for such a definition), timers, and the
    extension to `{n%unit}` are not proved here.  [Now: `C07_quiet_analysis`, `C07_quiet_component_quantity`,
    `C07_quiet_component_number`, `C07_quiet_quantity`.] -/
theorem C07_quiet_component_partial (s s1 s2 s3 s4 : BP α) (body : Body) (note : Option Text)
    (hq : body.quantity = none)
    (ha : s.ext.has Gen.EXT_COMPONENT_ALIAS = false ∨ ∀ t ∈ body.name, t.kind ≠ .or)
    (hn : (buildText (curOff s2) body.name).isTextEmpty s.cs = false) (hnote : noteP s3 = (note, s4)) :
    (Cut .at s [] body s1 s2 s3 →
      (ingredientP s).1 = some (.ingredient
        ⟨⟨⟨Modifiers.empty, Span.pos (curOff s1)⟩, none, buildText (curOff s2) body.name, none, none, note⟩,
         ⟨curOff s, curOff s4⟩⟩) ∧ (ingredientP s).2.evs = s.evs) ∧
    (Cut .hash s [] body s1 s2 s3 →
      (cookwareP s).1 = some (.cookware
        ⟨⟨⟨Modifiers.empty, Span.pos (curOff s1)⟩, buildText (curOff s2) body.name, none, none, note⟩,
         ⟨curOff s, curOff s4⟩⟩) ∧ (cookwareP s).2.evs = s.evs) := by
  constructor
  · intro hc
    have q4 : Same s s4 := hc.same.trans (noteP_same hnote)
    have ht := ingredientTail_quiet (α := α) (curOff s) (curOff s4) (curOff s1) (curOff s2) body note s4 hq
      (by rw [q4.2.1]; exact ha) (by rw [q4.1]; exact hn)
    unfold Sat at ht
    rw [← ingredientP_cut hc hnote] at ht
    exact ⟨ht.2, (q4.trans ht.1).2.2⟩
  · intro hc
    have q4 : Same s s4 := hc.same.trans (noteP_same hnote)
    have ht := cookwareTail_quiet (α := α) (curOff s) (curOff s4) (curOff s1) (curOff s2) body note s4 hq
      (by rw [q4.2.1]; exact ha) (by rw [q4.1]; exact hn)
    unfold Sat at ht
    rw [← cookwareP_cut hc hnote] at ht
    exact ⟨ht.2, (q4.trans ht.1).2.2⟩

/-- **`{value%unit}` is read quietly under every extension set.**  Quantity tokens `vt ++ [%] ++ ut`
    where the value tokens start with a token that is neither blank nor `=`, contain no `%`, and read as
    a well-formed number / range or as a non-blank text, and the unit text is not blank:
    `parse_quantity` pushes no event (whatever ADVANCED_UNITS, RANGE_VALUES, … are) and returns that unit. -/
theorem C07_quiet_quantity (vt ut : List Tok) (pct t0 : Tok) (s : BP α)
    (h0 : vt.head? = some t0) (hws : isWsComment t0.kind = false)
    (heq : t0.kind ≠ .eq) (hvp : ∀ t ∈ vt, t.kind ≠ .percent) (hp : pct.kind = .percent)
    (hval : (∃ v, numOrRange (α := α) (s.ext.has Gen.EXT_RANGE_VALUES) vt = some (.ok v)) ∨
      (numOrRange (α := α) (s.ext.has Gen.EXT_RANGE_VALUES) vt = none ∧
        (buildText t0.start vt).isTextEmpty s.cs = false))
    (hunit : (buildText pct.stop ut).isTextEmpty s.cs = false) :
    (parseQuantity (α := α) (vt ++ pct :: ut) s).2.evs = s.evs ∧
    (parseQuantity (α := α) (vt ++ pct :: ut) s).1.quantity.val.unit = some (buildText pct.stop ut) := by
  have h := parseQuantity_quiet_pct vt ut pct t0 s h0 hws heq hvp hp hval hunit
  exact ⟨h.1.2.2, h.2⟩

/-- **Empty unit, exactly.**  For quantity tokens `vt ++ [%] ++ ut` as in `C07_quiet_quantity` but with
    ANY unit tokens: `parse_quantity` pushes the warning `empty-unit` (warning, parse), labelled with the
    `%` token, and returns no unit, exactly when the unit text is blank (`{1%}`, `{1% }`); otherwise it
    pushes nothing and returns the unit. -/
theorem C07_empty_unit (vt ut : List Tok) (pct t0 : Tok) (s : BP α)
    (h0 : vt.head? = some t0) (hws : isWsComment t0.kind = false)
    (heq : t0.kind ≠ .eq) (hvp : ∀ t ∈ vt, t.kind ≠ .percent) (hp : pct.kind = .percent)
    (hval : (∃ v, numOrRange (α := α) (s.ext.has Gen.EXT_RANGE_VALUES) vt = some (.ok v)) ∨
      (numOrRange (α := α) (s.ext.has Gen.EXT_RANGE_VALUES) vt = none ∧
        (buildText t0.start vt).isTextEmpty s.cs = false)) :
    Pushed (if (buildText pct.stop ut).isTextEmpty s.cs then
        [.warning ⟨.warning, .parse, "empty-unit", [⟨pct.start, pct.stop⟩]⟩] else [])
      s (parseQuantity (α := α) (vt ++ pct :: ut) s).2 ∧
    (parseQuantity (α := α) (vt ++ pct :: ut) s).1.quantity.val.unit =
      (if (buildText pct.stop ut).isTextEmpty s.cs then none else some (buildText pct.stop ut)) :=
  parseQuantity_pct_gen vt ut pct t0 s h0 hws heq hvp hp hval

/-! non-vacuity: `1%` -/
example : (buildText 2 ([] : List Tok)).isTextEmpty toyCharSpec = true := rfl

/-- **A plain ingredient or timer with `{value%unit}` is quiet** (parser part), for every extension set.
    The component is cut into no modifier tokens, name tokens without alias separator (or
    COMPONENT_ALIAS off), a non-blank name (ingredient), and the quantity tokens of `C07_quiet_quantity`;
    the timer is not followed by `(`.  Then `ingredient` / `timer` return the component with that name and
    a quantity, and push NO event at all.
    (For cookware a unit is an error by design: `C07_cookware_unit_partial`.)
    Partial: the analysis half is `C07_quiet_analysis`; cookware with a unit-less quantity is not covered. -/
theorem C07_quiet_component_quantity (s s1 s2 s3 : BP α) (body : Body) (vt ut : List Tok) (pct t0 : Tok)
    (hq : body.quantity = some (vt ++ pct :: ut))
    (ha : s.ext.has Gen.EXT_COMPONENT_ALIAS = false ∨ ∀ t ∈ body.name, t.kind ≠ .or)
    (h0 : vt.head? = some t0) (hws : isWsComment t0.kind = false)
    (heq : t0.kind ≠ .eq) (hvp : ∀ t ∈ vt, t.kind ≠ .percent) (hp : pct.kind = .percent)
    (hval : (∃ v, numOrRange (α := α) (s.ext.has Gen.EXT_RANGE_VALUES) vt = some (.ok v)) ∨
      (numOrRange (α := α) (s.ext.has Gen.EXT_RANGE_VALUES) vt = none ∧
        (buildText t0.start vt).isTextEmpty s.cs = false))
    (hunit : (buildText pct.stop ut).isTextEmpty s.cs = false) :
    (∀ s4 note, Cut .at s [] body s1 s2 s3 → noteP s3 = (note, s4) →
      (buildText (curOff s2) body.name).isTextEmpty s.cs = false →
      (∃ q, (ingredientP s).1 = some (.ingredient
        ⟨⟨⟨Modifiers.empty, Span.pos (curOff s1)⟩, none, buildText (curOff s2) body.name, none, some q, note⟩,
         ⟨curOff s, curOff s4⟩⟩)) ∧ (ingredientP s).2.evs = s.evs) ∧
    (Cut .tilde s [] body s1 s2 s3 → (s3.toks[s3.cur]?).map (·.kind) ≠ some .openParen →
      (∃ q, (timerP s).1 = some (.timer
        ⟨⟨if (buildText (curOff s2) body.name).isTextEmpty s.cs then none
            else some (buildText (curOff s2) body.name), some q⟩, ⟨curOff s, curOff s3⟩⟩)) ∧
      (timerP s).2.evs = s.evs) := by
  have hQ : ∀ s' : BP α, Same s s' → ∀ sq, Same s' sq → Sat (parseQuantity (α := α) (vt ++ pct :: ut)) sq
      (fun r sq' => Same sq sq' ∧ r.quantity.val.unit = some (buildText pct.stop ut)) := by
    intro s' q' sq qq
    have q := q'.trans qq
    exact parseQuantity_quiet_pct vt ut pct t0 sq h0 hws heq hvp hp (by rw [q.2.1, q.1]; exact hval)
      (by rw [q.1]; exact hunit)
  constructor
  · intro s4 note hc hnote hn
    have q4 : Same s s4 := hc.same.trans (noteP_same hnote)
    have ht := ingredientTail_quiet_q (α := α) (curOff s) (curOff s4) (curOff s1) (curOff s2) body note s4 _ hq
      (by rw [q4.2.1]; exact ha) (by rw [q4.1]; exact hn)
      (fun sq qq => Sat.mono (hQ s4 q4 sq qq) (fun _ _ h => h.1))
    unfold Sat at ht
    rw [← ingredientP_cut hc hnote] at ht
    exact ⟨ht.2, (q4.trans ht.1).2.2⟩
  · intro hc hnp
    have q3 : Same s s3 := hc.same
    have ht := timerTail_quiet (α := α) (curOff s) (curOff s3) (curOff s2) body s3 _ hq
      (by rw [q3.2.1]; exact ha) hnp
      (fun sq qq => Sat.mono (hQ s3 q3 sq qq) (fun r _ h => ⟨h.1, by rw [h.2]; rfl⟩))
    unfold Sat at ht
    rw [← timerP_cut hc, q3.1] at ht
    exact ⟨ht.2, (q3.trans ht.1).2.2⟩

/-- **A plain cookware item (or ingredient) with a bare number `{n}` is quiet** (parser part), for every
    extension set.  The quantity tokens contain no blank, word or `%`, do not start with `=`, and read as
    a well-formed number or range (`#pot{2}`, `@eggs{1/2}`, `#pan{2-3}` with RANGE_VALUES): the parsers
    return the component with a unit-less quantity and push NO event at all. -/
theorem C07_quiet_component_number (s s1 s2 s3 s4 : BP α) (body : Body) (note : Option Text) (t0 : Tok)
    (tl : List Tok) (hq : body.quantity = some (t0 :: tl))
    (ha : s.ext.has Gen.EXT_COMPONENT_ALIAS = false ∨ ∀ t ∈ body.name, t.kind ≠ .or)
    (hn : (buildText (curOff s2) body.name).isTextEmpty s.cs = false) (hnote : noteP s3 = (note, s4))
    (hws : isWsComment t0.kind = false) (heq : t0.kind ≠ .eq)
    (hk : ∀ t ∈ t0 :: tl, t.kind ≠ .percent ∧ t.kind ≠ .word ∧ t.kind ≠ .ws)
    (hval : ∃ v, numOrRange (α := α) (s.ext.has Gen.EXT_RANGE_VALUES) (t0 :: tl) = some (.ok v)) :
    (Cut .hash s [] body s1 s2 s3 →
      (∃ q, (cookwareP s).1 = some (.cookware
        ⟨⟨⟨Modifiers.empty, Span.pos (curOff s1)⟩, buildText (curOff s2) body.name, none, some q, note⟩,
         ⟨curOff s, curOff s4⟩⟩)) ∧ (cookwareP s).2.evs = s.evs) ∧
    (Cut .at s [] body s1 s2 s3 →
      (∃ q, (ingredientP s).1 = some (.ingredient
        ⟨⟨⟨Modifiers.empty, Span.pos (curOff s1)⟩, none, buildText (curOff s2) body.name, none, some q, note⟩,
         ⟨curOff s, curOff s4⟩⟩)) ∧ (ingredientP s).2.evs = s.evs) := by
  have hQ : ∀ sq : BP α, Same s sq → Sat (parseQuantity (α := α) (t0 :: tl)) sq
      (fun r sq' => Same sq sq' ∧ r.quantity.val.unit = none) := by
    intro sq q
    exact parseQuantity_quiet_num t0 tl sq hws heq hk (by rw [q.2.1]; exact hval)
  constructor
  · intro hc
    have q4 : Same s s4 := hc.same.trans (noteP_same hnote)
    have ht := cookwareTail_quiet_q (α := α) (curOff s) (curOff s4) (curOff s1) (curOff s2) body note s4 _ hq
      (by rw [q4.2.1]; exact ha) (by rw [q4.1]; exact hn) (fun sq qq => hQ sq (q4.trans qq))
    unfold Sat at ht
    rw [← cookwareP_cut hc hnote] at ht
    exact ⟨ht.2, (q4.trans ht.1).2.2⟩
  · intro hc
    have q4 : Same s s4 := hc.same.trans (noteP_same hnote)
    have ht := ingredientTail_quiet_q (α := α) (curOff s) (curOff s4) (curOff s1) (curOff s2) body note s4 _ hq
      (by rw [q4.2.1]; exact ha) (by rw [q4.1]; exact hn)
      (fun sq qq => Sat.mono (hQ sq (q4.trans qq)) (fun _ _ h => h.1))
    unfold Sat at ht
    rw [← ingredientP_cut hc hnote] at ht
    exact ⟨ht.2, (q4.trans ht.1).2.2⟩

/-! non-vacuity: `#pot{2}` with ADVANCED_UNITS on -/
def C07_exPot : BP Rat :=
  ⟨[⟨.hash, ['#'], 0⟩, ⟨.word, ['p', 'o', 't'], 1⟩, ⟨.openBrace, ['{'], 4⟩, ⟨.int, ['2'], 5⟩,
    ⟨.closeBrace, ['}'], 6⟩], 0, ⟨Gen.EXT_ADVANCED_UNITS⟩, toyCharSpec, #[], none⟩
example : ∃ body note s1 s2 s3 s4, Cut .hash C07_exPot [] body s1 s2 s3 ∧ noteP s3 = (note, s4) ∧
    body.quantity = some [⟨.int, ['2'], 5⟩] ∧
    (buildText (curOff s2) body.name).isTextEmpty C07_exPot.cs = false ∧
    (∃ v, numOrRange (α := Rat) (C07_exPot.ext.has Gen.EXT_RANGE_VALUES) [⟨.int, ['2'], 5⟩] = some (.ok v)) :=
  ⟨_, _, _, _, _, _, ⟨⟨_, rfl⟩, rfl, rfl⟩, rfl, rfl, rfl, _, rfl⟩

/-! non-vacuity: `@salt{1%g}` and `~{1%min}`, every extension on or off (here: off) -/
def C07_exSaltQ : BP Rat :=
  ⟨[⟨.at, ['@'], 0⟩, ⟨.word, ['s', 'a', 'l', 't'], 1⟩, ⟨.openBrace, ['{'], 5⟩, ⟨.int, ['1'], 6⟩,
    ⟨.percent, ['%'], 7⟩, ⟨.word, ['g'], 8⟩, ⟨.closeBrace, ['}'], 9⟩], 0, ⟨0⟩, toyCharSpec, #[], none⟩
example : ∃ body note s1 s2 s3 s4, Cut .at C07_exSaltQ [] body s1 s2 s3 ∧ noteP s3 = (note, s4) ∧
    body.quantity = some ([⟨.int, ['1'], 6⟩] ++ ⟨.percent, ['%'], 7⟩ :: [⟨.word, ['g'], 8⟩]) ∧
    (buildText (curOff s2) body.name).isTextEmpty C07_exSaltQ.cs = false :=
  ⟨_, _, _, _, _, _, ⟨⟨_, rfl⟩, rfl, rfl⟩, rfl, rfl, rfl⟩
example : (∃ v, numOrRange (α := Rat) false [⟨.int, ['1'], 6⟩] = some (.ok v)) ∧
    (buildText 8 [⟨.word, ['g'], 8⟩]).isTextEmpty toyCharSpec = false := ⟨⟨_, rfl⟩, rfl⟩
def C07_exTimerQ : BP Rat :=
  ⟨[⟨.tilde, ['~'], 0⟩, ⟨.openBrace, ['{'], 1⟩, ⟨.int, ['1'], 2⟩, ⟨.percent, ['%'], 3⟩,
    ⟨.word, ['m', 'i', 'n'], 4⟩, ⟨.closeBrace, ['}'], 7⟩], 0, ⟨0⟩, toyCharSpec, #[], none⟩
example : ∃ body s1 s2 s3, Cut .tilde C07_exTimerQ [] body s1 s2 s3 ∧
    body.quantity = some ([⟨.int, ['1'], 2⟩] ++ ⟨.percent, ['%'], 3⟩ :: [⟨.word, ['m', 'i', 'n'], 4⟩]) ∧
    (s3.toks[s3.cur]?).map (·.kind) ≠ some .openParen :=
  ⟨_, _, _, _, ⟨⟨_, rfl⟩, rfl, rfl⟩, rfl, by decide⟩

/-! non-vacuity: `@salt{}` with every extension off -/
def C07_exSalt : BP Rat :=
  ⟨[⟨.at, ['@'], 0⟩, ⟨.word, ['s', 'a', 'l', 't'], 1⟩, ⟨.openBrace, ['{'], 5⟩, ⟨.closeBrace, ['}'], 6⟩],
   0, ⟨0⟩, toyCharSpec, #[], none⟩
example : ∃ body note s1 s2 s3 s4, Cut .at C07_exSalt [] body s1 s2 s3 ∧ noteP s3 = (note, s4) ∧
    body.quantity = none ∧ C07_exSalt.ext.has Gen.EXT_COMPONENT_ALIAS = false ∧
    (buildText (curOff s2) body.name).isTextEmpty C07_exSalt.cs = false :=
  ⟨_, _, _, _, _, _, ⟨⟨_, rfl⟩, rfl, rfl⟩, rfl, rfl, rfl, rfl⟩

/-- **A plain definition is quiet in the analysis, for every extension set** (the analysis half of the
    quiet theorems above).  In the default modes (`[define]` not `steps`, `[duplicate]` `new`):
    * an ingredient event without `+`/`&` and without intermediate data, whose quantity (if any) has no
      lock or a numeric value — any value, any unit, note, alias — pushes no diagnostic;
    * a cookware event without `+`/`&` whose quantity (if any) has no lock pushes no diagnostic;
    * a timer event whose quantity (if any) has no lock pushes no diagnostic when ADVANCED_UNITS is off,
      or when the value is a number and the converter knows the (trimmed) unit as a time unit.
    Together with `C07_quiet_component_partial` / `C07_quiet_component_quantity`: `@salt{}`, `@salt{1%g}`,
    `~{1%min}` yield no diagnostic at all. -/
theorem C07_quiet_analysis (env : Env) (input : Str) (s : Col α) (hd : s.defineMode ≠ .steps)
    (hdup : s.duplicateMode = .new) :
    (∀ li : Loc (PIngredient α), li.val.inter = none → li.val.modifiers.val.contains Modifiers.NEW = false →
      li.val.modifiers.val.contains Modifiers.REF = false →
      (∀ q, li.val.quantity = some q → q.val.value.lock = none ∨ q.val.value.value.val.isText = false) →
      (ingredientA env input li s).2.diags = s.diags) ∧
    (∀ lc : Loc (PCookware α), lc.val.modifiers.val.contains Modifiers.NEW = false →
      lc.val.modifiers.val.contains Modifiers.REF = false →
      (∀ q, lc.val.quantity = some q → q.val.lock = none) →
      (cookwareA env input lc s).2.diags = s.diags) ∧
    (∀ lt : Loc (PTimer α),
      (∀ q, lt.val.quantity = some q → q.val.value.lock = none ∧
        (env.ext.has Gen.EXT_ADVANCED_UNITS = false ∨
         (q.val.value.value.val.isText = false ∧ ∃ u, q.val.unit = some u ∧
            env.findUnit (u.trimmed env.cs) = some env.timeQ))) →
      (timerA env lt s).2.diags = s.diags) :=
  ⟨fun li hi hn hr hq => ingredientA_quiet env input li s hi hn hr hq hd hdup,
   fun lc hn hr hq => cookwareA_quiet env input lc s hn hr hq hd hdup,
   fun lt hq => timerA_quiet env lt s hq⟩

/-! non-vacuity: the default collector state is in the default modes; empty modifiers have no `+`/`&` -/
example : ({} : Col Rat).defineMode ≠ .steps ∧ ({} : Col Rat).duplicateMode = .new := ⟨by decide, rfl⟩
example : Modifiers.empty.contains Modifiers.NEW = false ∧ Modifiers.empty.contains Modifiers.REF = false := by decide

/-! ### Exact emission of two parse-stage warnings -/

/-- **Note after a timer, exactly.**  `check_note` of `timer`, from EVERY parser state: it pushes
    `timerNoteEvs s` and changes nothing else (cursor, tokens, panic flag, tables), where
    * if the token at the cursor is `(` and a `)` follows in the block, `timerNoteEvs s` is exactly the one
      warning `note-not-allowed:timer` (warning, parse), labelled with the span from the `(` to the first
      `)` after it, then the position of the `(`;
    * if the token at the cursor is not `(` (or there is none), nothing is pushed;
    * if it is `(` but no `)` follows, nothing is pushed. -/
theorem C07_note_not_allowed_timer (s : BP α) :
    checkNoteTimer s = ((), pushAll (timerNoteEvs s) s) ∧
    (∀ op cp n, s.toks[s.cur]? = some op → op.kind = .openParen →
      (s.toks.drop (s.cur + 1)).findIdx? (fun t => t.kind == .closeParen) = some n →
      s.toks[s.cur + 1 + n]? = some cp →
      timerNoteEvs s = [.warning ⟨.warning, .parse, "note-not-allowed:timer",
        [⟨op.start, cp.stop⟩, Span.pos op.start]⟩]) ∧
    ((∀ t, s.toks[s.cur]? = some t → t.kind ≠ .openParen) → timerNoteEvs s = []) ∧
    ((s.toks.drop (s.cur + 1)).findIdx? (fun t => t.kind == .closeParen) = none → timerNoteEvs s = []) := by
  refine ⟨checkNoteTimer_exact s, ?_, ?_, ?_⟩
  · intro op cp n h1 h2 h3 h4
    unfold timerNoteEvs
    simp only [h1, h2, if_true, h3, h4, Option.getD_some]
    rfl
  · intro h
    unfold timerNoteEvs
    cases ht : s.toks[s.cur]? with
    | none => rfl
    | some t => simp only [h t ht, if_false]
  · intro h
    unfold timerNoteEvs
    cases ht : s.toks[s.cur]? with
    | none => rfl
    | some t =>
      dsimp only
      split
      · rw [h]
      · rfl

/-- **… at the level of the timer.**  A timer cut into no modifier tokens, name tokens without alias
    separator (or COMPONENT_ALIAS off) and the quantity tokens `value % unit` of `C07_quiet_quantity`,
    followed by ANYTHING: `timer` returns the timer with its quantity and pushes EXACTLY
    `timerNoteEvs s3` (`s3` = the state after `comp_body`): the one warning `note-not-allowed:timer` when a
    parenthesised note follows, labelled with that note; nothing otherwise.  So `~{5%min}(x)` gets
    exactly one warning, `~{5%min} (x)` and `~{5%min}` none. -/
theorem C07_note_not_allowed_timer_component (s s1 s2 s3 : BP α) (body : Body) (vt ut : List Tok) (pct t0 : Tok)
    (hq : body.quantity = some (vt ++ pct :: ut))
    (ha : s.ext.has Gen.EXT_COMPONENT_ALIAS = false ∨ ∀ t ∈ body.name, t.kind ≠ .or)
    (h0 : vt.head? = some t0) (hws : isWsComment t0.kind = false)
    (heq : t0.kind ≠ .eq) (hvp : ∀ t ∈ vt, t.kind ≠ .percent) (hp : pct.kind = .percent)
    (hval : (∃ v, numOrRange (α := α) (s.ext.has Gen.EXT_RANGE_VALUES) vt = some (.ok v)) ∨
      (numOrRange (α := α) (s.ext.has Gen.EXT_RANGE_VALUES) vt = none ∧
        (buildText t0.start vt).isTextEmpty s.cs = false))
    (hunit : (buildText pct.stop ut).isTextEmpty s.cs = false)
    (hc : Cut .tilde s [] body s1 s2 s3) :
    (∃ q, (timerP s).1 = some (.timer
      ⟨⟨if (buildText (curOff s2) body.name).isTextEmpty s.cs then none
          else some (buildText (curOff s2) body.name), some q⟩, ⟨curOff s, curOff s3⟩⟩)) ∧
    Pushed (timerNoteEvs s3) s (timerP s).2 := by
  have q3 : Same s s3 := hc.same
  have ht := timerTail_noted (α := α) (curOff s) (curOff s3) (curOff s2) body s3 _ hq
    (by rw [q3.2.1]; exact ha)
    (fun sq hcs hext => Sat.mono (parseQuantity_quiet_pct vt ut pct t0 sq h0 hws heq hvp hp
      (by rw [hext, hcs, q3.2.1, q3.1]; exact hval) (by rw [hcs, q3.1]; exact hunit))
      (fun r _ h => ⟨h.1, by rw [h.2]; rfl⟩))
  unfold Sat at ht
  rw [← timerP_cut hc, q3.1] at ht
  exact ⟨ht.2, (q3.pushed.trans ht.1).cast (by simp)⟩

/-! non-vacuity: `~{1%min}(x)`: after `comp_body` the cursor is at the `(` and a `)` follows -/
def C07_exTimerNote : BP Rat :=
  ⟨[⟨.tilde, ['~'], 0⟩, ⟨.openBrace, ['{'], 1⟩, ⟨.int, ['1'], 2⟩, ⟨.percent, ['%'], 3⟩,
    ⟨.word, ['m', 'i', 'n'], 4⟩, ⟨.closeBrace, ['}'], 7⟩, ⟨.openParen, ['('], 8⟩, ⟨.word, ['x'], 9⟩,
    ⟨.closeParen, [')'], 10⟩], 0, ⟨0⟩, toyCharSpec, #[], none⟩
example : ∃ body s1 s2 s3, Cut .tilde C07_exTimerNote [] body s1 s2 s3 ∧
    body.quantity = some ([⟨.int, ['1'], 2⟩] ++ ⟨.percent, ['%'], 3⟩ :: [⟨.word, ['m', 'i', 'n'], 4⟩]) ∧
    timerNoteEvs s3 = [.warning ⟨.warning, .parse, "note-not-allowed:timer", [⟨8, 11⟩, ⟨8, 8⟩]⟩] :=
  ⟨_, _, _, _, ⟨⟨_, rfl⟩, rfl, rfl⟩, rfl, rfl⟩

/-- **Invalid single-word name, exactly.**  `comp_body`'s second attempt (the single-word form), from
    EVERY parser state at whose cursor there is no word/number token: it returns no body, restores the
    cursor and pushes `singleWordWarn s` and nothing else, where
    * if a token other than whitespace is at the cursor (`@!`, `@(`, `@,` …) this is exactly the one
      warning `invalid-single-word-name` (warning, parse) labelled with the position of the cursor
      (the end of the marker or of the modifiers);
    * if whitespace is there, or the block ends (`@ x`, `@`), nothing is pushed.
    (When a word/number token is at the cursor the attempt succeeds and pushes nothing:
    `C07_component_cut`.)  Partial: that `ingredient`/`cookware`/`timer` reach this attempt exactly
    when the long form `name{…}` is absent is not lifted to the component here.
    [Now lifted: `C07_component_declines`, `C07_invalid_single_word_name` (both directions),
    `C07_invalid_single_word_name_then_text`.] -/
theorem C07_invalid_single_word_name_partial (s : BP α)
    (hns : ∀ t, s.toks[s.cur]? = some t → isShortK t.kind = false) :
    compBodyShort s = (none, pushAll (singleWordWarn s) s) ∧
    (∀ t, s.toks[s.cur]? = some t → t.kind ≠ .ws →
      singleWordWarn s = [.warning ⟨.warning, .parse, "invalid-single-word-name", [Span.pos (curOff s)]⟩]) ∧
    ((∀ t, s.toks[s.cur]? = some t → t.kind = .ws) → singleWordWarn s = []) := by
  refine ⟨compBodyShort_exact s hns, ?_, ?_⟩
  · intro t ht hk
    unfold singleWordWarn curOff
    simp only [ht, hk, if_false]
  · intro h
    unfold singleWordWarn
    cases ht : s.toks[s.cur]? with
    | none => rfl
    | some t => simp only [h t ht, if_true]

/-! non-vacuity: `@!` with the cursor after the `@` -/
example : let s : BP Rat := ⟨[⟨.at, ['@'], 0⟩, ⟨.punct, ['!'], 1⟩], 1, ⟨0⟩, toyCharSpec, #[], none⟩
    (∀ t, s.toks[s.cur]? = some t → isShortK t.kind = false) ∧
    singleWordWarn s = [.warning ⟨.warning, .parse, "invalid-single-word-name", [⟨1, 1⟩]⟩] := by
  refine ⟨?_, rfl⟩
  intro t ht
  simp only [List.getElem?_cons_succ, List.getElem?_cons_zero, Option.some.injEq] at ht
  subst ht; rfl

/-! ### `invalid-single-word-name` at the level of the component and of the step loop

  `Head k s mtoks s1 s2`: from state `s` the marker `k` was consumed (state `s1`) and `modifiers()`
  returned `mtoks` (state `s2`; these two steps push nothing: `Head.same`).
  `longBody r`: the long form `name{…}` read from the tokens `r` — the tokens up to the first `{` with no
  marker before it, then the tokens up to the first `}` — or `none` when there is none (no `{` before the
  next marker, or no `}` after it).  `s2.rest` = the tokens from the cursor on.
  `isShortK k`: `k` is a word / number token (what a single-word name is made of). -/

/-- **When do `ingredient` / `cookware` / `timer` decline?**  After the marker and the modifiers the
    parser returns `None` EXACTLY when no long form `name{…}` lies ahead and the token at the cursor is
    not a word/number token (or the block ends); without the marker at the cursor it returns `None`
    and changes nothing. -/
theorem C07_component_declines (s s1 s2 : BP α) (mtoks : List Tok) :
    (Head .at s mtoks s1 s2 → ((ingredientP s).1 = none ↔
      (longBody s2.rest = none ∧ ∀ t, s2.toks[s2.cur]? = some t → isShortK t.kind = false))) ∧
    (Head .hash s mtoks s1 s2 → ((cookwareP s).1 = none ↔
      (longBody s2.rest = none ∧ ∀ t, s2.toks[s2.cur]? = some t → isShortK t.kind = false))) ∧
    (Head .tilde s mtoks s1 s2 → ((timerP s).1 = none ↔
      (longBody s2.rest = none ∧ ∀ t, s2.toks[s2.cur]? = some t → isShortK t.kind = false))) ∧
    ((∀ t, s.toks[s.cur]? = some t → t.kind ≠ .at) → ingredientP s = (none, s)) ∧
    ((∀ t, s.toks[s.cur]? = some t → t.kind ≠ .hash) → cookwareP s = (none, s)) ∧
    ((∀ t, s.toks[s.cur]? = some t → t.kind ≠ .tilde) → timerP s = (none, s)) := by
  obtain ⟨h1, h2, h3⟩ := c07x_comp_none_iff (α := α) (s := s) (s1 := s1) (s2 := s2) (mtoks := mtoks)
  obtain ⟨n1, n2, n3⟩ := c07x_comp_nomarker s
  exact ⟨fun hh => (h1 hh).trans (c07x_compBody_none_iff s2), fun hh => (h2 hh).trans (c07x_compBody_none_iff s2),
    fun hh => (h3 hh).trans (c07x_compBody_none_iff s2), n1, n2, n3⟩

/-- **Invalid single-word name, at the level of the component, exactly** (lifts
    `C07_invalid_single_word_name_partial`; `@!x`, `#(`, `~,`).
    (⇐) When the parser declines after the marker and the modifiers (`C07_component_declines`), the run
    is exactly: no component, the cursor after the modifiers, and the events `singleWordWarn s2` pushed —
    the one warning `invalid-single-word-name` (warning, parse, labelled with the position after the
    marker/modifiers) iff a token other than whitespace is at the cursor, nothing otherwise.
    (⇒) Conversely, for EVERY state: if the warning `invalid-single-word-name` with labels `sp` is among
    the events a run of `ingredient` (`cookware`, `timer`) pushed, then the marker was there, no long
    form `name{…}` lies ahead after the modifiers, the token at that cursor exists, is not whitespace and
    not a word/number token, `sp` is that position, the parser returned `None`, and the events pushed
    are exactly that one warning.  No other part of the three parsers (alias, modifiers, quantity,
    note, timer checks) ever pushes this warning. -/
theorem C07_invalid_single_word_name (s : BP α) :
    (∀ s1 s2 mtoks, longBody s2.rest = none → (∀ t, s2.toks[s2.cur]? = some t → isShortK t.kind = false) →
      (Head .at s mtoks s1 s2 → ingredientP s = (none, pushAll (singleWordWarn s2) s2)) ∧
      (Head .hash s mtoks s1 s2 → cookwareP s = (none, pushAll (singleWordWarn s2) s2)) ∧
      (Head .tilde s mtoks s1 s2 → timerP s = (none, pushAll (singleWordWarn s2) s2))) ∧
    (∀ (k : TK) (compP : P α (Option (Ev α))),
      ((k = .at ∧ compP = ingredientP) ∨ (k = .hash ∧ compP = cookwareP) ∨ (k = .tilde ∧ compP = timerP)) →
      ∀ l' sp, (compP s).2.evs.toList = s.evs.toList ++ l' →
        Ev.warning ⟨.warning, .parse, "invalid-single-word-name", sp⟩ ∈ l' →
        ∃ mtoks s1 s2, Head k s mtoks s1 s2 ∧ longBody s2.rest = none ∧
          (∃ t, s2.toks[s2.cur]? = some t ∧ t.kind ≠ .ws ∧ isShortK t.kind = false) ∧
          sp = [Span.pos (curOff s2)] ∧ compP s = (none, pushAll (singleWordWarn s2) s2) ∧
          l' = [.warning ⟨.warning, .parse, "invalid-single-word-name", [Span.pos (curOff s2)]⟩]) := by
  refine ⟨fun s1 s2 mtoks hl hns => ?_, ?_⟩
  · have hb := c07x_compBody_decline s2 hl hns
    exact ⟨fun hh => c07x_ingredientP_of_body_none hh hb, fun hh => c07x_cookwareP_of_body_none hh hb,
      fun hh => c07x_timerP_of_body_none hh hb⟩
  · intro k compP hk l' sp hl' hmem
    have key : ∃ mtoks s1 s2, Head k s mtoks s1 s2 ∧ longBody s2.rest = none ∧
        (∃ t, s2.toks[s2.cur]? = some t ∧ t.kind ≠ .ws ∧ isShortK t.kind = false) ∧
        sp = [Span.pos (curOff s2)] ∧ compP s = (none, pushAll (singleWordWarn s2) s2) ∧
        l' = singleWordWarn s2 := by
      rcases hk with ⟨rfl, rfl⟩ | ⟨rfl, rfl⟩ | ⟨rfl, rfl⟩
      · exact c07x_sw_only_when .at ingredientP s (c07x_comp_nomarker s).1
          (fun _ _ _ _ hh hb => c07x_ingredientP_of_body_none hh hb)
          (fun _ _ _ _ _ hc => c07x_ingredientP_succ_notSW hc) l' hl' sp hmem
      · exact c07x_sw_only_when .hash cookwareP s (c07x_comp_nomarker s).2.1
          (fun _ _ _ _ hh hb => c07x_cookwareP_of_body_none hh hb)
          (fun _ _ _ _ _ hc => c07x_cookwareP_succ_notSW hc) l' hl' sp hmem
      · exact c07x_sw_only_when .tilde timerP s (c07x_comp_nomarker s).2.2
          (fun _ _ _ _ hh hb => c07x_timerP_of_body_none hh hb)
          (fun _ _ _ _ _ hc => c07x_timerP_succ_notSW hc) l' hl' sp hmem
    obtain ⟨mtoks, s1, s2, hh, hl, ⟨t, ht, hw, hk'⟩, hsp, hrun, hl''⟩ := key
    refine ⟨mtoks, s1, s2, hh, hl, ⟨t, ht, hw, hk'⟩, hsp, hrun, ?_⟩
    rw [hl'']
    unfold singleWordWarn curOff
    simp only [ht, hw, if_false]

/-- **… and the component is then text.**  In the loop body of `parse_step` (`stepOne`), from a state
    without an earlier panic and the cursor inside the block: when the component parser declines after
    the marker and the modifiers, `with_recover` puts the cursor back on the marker, the events pushed
    are exactly `singleWordWarn s2`, and the iteration continues as the TEXT branch (`stepTail none`:
    the marker token and everything up to the next marker become a text item) from that state. -/
theorem C07_invalid_single_word_name_then_text (s s1 s2 : BP α) (mtoks : List Tok) (hp : s.panic = none)
    (hcur : s.cur ≤ s.toks.length) (hl : longBody s2.rest = none)
    (hns : ∀ t, s2.toks[s2.cur]? = some t → isShortK t.kind = false)
    (hh : Head .at s mtoks s1 s2 ∨ Head .hash s mtoks s1 s2 ∨ Head .tilde s mtoks s1 s2) :
    stepOne s = stepTail none (pushAll (singleWordWarn s2) s) :=
  c07x_stepOne_decline hp hcur hl hns hh

/-! non-vacuity: `@!x` — after the `@` no `{` follows and `!` is no word token; one warning at offset 1;
    the loop body then yields that warning and one text event -/
def C07_exBang : BP Rat :=
  ⟨[⟨.at, ['@'], 0⟩, ⟨.punct, ['!'], 1⟩, ⟨.word, ['x'], 2⟩], 0, ⟨0⟩, toyCharSpec, #[], none⟩
example : ∃ s1 s2, Head .at C07_exBang [] s1 s2 ∧ longBody s2.rest = none ∧
    (∀ t, s2.toks[s2.cur]? = some t → isShortK t.kind = false) ∧
    singleWordWarn s2 = [.warning ⟨.warning, .parse, "invalid-single-word-name", [⟨1, 1⟩]⟩] := by
  refine ⟨_, _, ⟨⟨_, rfl⟩, rfl⟩, rfl, ?_, rfl⟩
  intro t ht
  have : t = ⟨.punct, ['!'], 1⟩ := by
    have h : (some ⟨.punct, ['!'], 1⟩ : Option Tok) = some t := ht
    exact (Option.some.inj h).symm
  subst this; rfl
example : ∃ t, (stepOne C07_exBang).2.evs =
    #[.warning ⟨.warning, .parse, "invalid-single-word-name", [⟨1, 1⟩]⟩, .text t] := ⟨_, rfl⟩

/-! ### Soundness on whole recipes

  The C01 round-trip theorems already compute the full result of the analysis / of `parse` for a class
  of well-formed recipes, and that result has an EMPTY diagnostics array.  Stated here as what C07
  asks: no error, no warning, the result is valid. -/

/-- **A well-formed simple recipe is quiet (analysis pass).**  For the event list of a `SimpleRecipe`
    (steps of text, ingredient, cookware and timer events; every component a plain definition: no
    `&`, no `+`, no intermediate reference, `=` only on a numeric ingredient amount; no step empty),
    with ADVANCED_UNITS and INLINE_QUANTITIES off and every other extension arbitrary,
    `parse_events` reports NO diagnostic (no error, no warning — not even the `>>` deprecation
    notice, there is no `>>` line), has output, is valid, and no panic site is reached. -/
theorem C07_sound_simple_events (env : Env) (input : Str)
    (hadv : env.ext.has Gen.EXT_ADVANCED_UNITS = false) (hinl : env.ext.has Gen.EXT_INLINE_QUANTITIES = false)
    (r : SimpleRecipe α) (hs : ∀ st ∈ r.steps, ∀ it ∈ st, it.Simple) (hne : ∀ st ∈ r.steps, st ≠ []) :
    (parseEvents env input r.events).diags = #[] ∧ (parseEvents env input r.events).isValid = true ∧
    (parseEvents env input r.events).panic = none := by
  rw [rta_parseEvents_simple env input hadv hinl r hs hne]
  exact ⟨rfl, rfl, rfl⟩

/-- **A well-formed recipe made of steps is quiet, from the characters on.**  For every document of
    steps accepted by `C01_recipe_steps` (text runs over several lines, ingredients and cookware in
    brace or single-word form with modifiers `@ - ?`, aliases, notes, quantities with units, timers;
    every component a plain definition; the syntactic side conditions of the printer), with
    ADVANCED_UNITS and INLINE_QUANTITIES off, `CooklangParser::parse` on the printed text reports NO
    diagnostic, has output, is valid, and reaches no panic site. -/
theorem C07_sound_recipe_steps (env : Env) (pre : List Tok) (doc : List (List SegX × List Tok))
    (hadv : env.ext.has Gen.EXT_ADVANCED_UNITS = false) (hinl : env.ext.has Gen.EXT_INLINE_QUANTITIES = false)
    (hpre : blankLinesOK pre = true) (hok : ∀ d ∈ doc, (DocItem.step d.1).ok env.cs env.ext = true)
    (hsimple : ∀ d ∈ doc, d.1.all SegX.simple = true) (hseps : sepsOK (doc.map (·.2)) = true)
    (hw : WellSpelled env.cs (pre ++ docSpec (stepsDoc doc)))
    (hfm : parseFrontmatter env.cs (render (pre ++ docSpec (stepsDoc doc))) = none) :
    (parseRecipe (α := α) env (render (pre ++ docSpec (stepsDoc doc)))).diags = #[] ∧
    (parseRecipe (α := α) env (render (pre ++ docSpec (stepsDoc doc)))).isValid = true ∧
    (parseRecipe (α := α) env (render (pre ++ docSpec (stepsDoc doc)))).panic = none := by
  obtain ⟨r, h1, -⟩ := rtr_parseRecipe_steps (α := α) env pre doc hadv hinl hpre hok hsimple hseps hw hfm
  rw [h1]
  exact ⟨rfl, rfl, rfl⟩

/-- **… under EVERY extension set**, for core-syntax recipes (partial: the composition with C02 is a
    hypothesis).  If the result of `parse` on the printed text does not depend on the extension set —
    `hirr`, which is exactly the conclusion of `C02_parse_ext_irrelevant` (Props/C02.lean) for inputs
    all of whose blocks satisfy `UsesNone` and whose events satisfy `evConvCore` — then under ALL
    raw extension patterns `e`, ADVANCED_UNITS and INLINE_QUANTITIES included, `parse` reports no
    diagnostic, is valid and does not panic.  (`env` is the environment the document was checked
    against, with the two flags off.)
    Missing: discharging `hirr` here; Props/C02's lemma files (Lemmas/ExtLaws) and this file's
    (Lemmas/RoundtripComp) cannot be imported together because both declare `withRecover_run`.
    [Now: the clash is resolved and `hirr` is discharged by C02's theorem in
    `C07_sound_recipe_steps_all_extensions`.] -/
theorem C07_sound_recipe_steps_all_extensions_partial (env : Env)
    (pre : List Tok) (doc : List (List SegX × List Tok))
    (hadv : env.ext.has Gen.EXT_ADVANCED_UNITS = false) (hinl : env.ext.has Gen.EXT_INLINE_QUANTITIES = false)
    (hpre : blankLinesOK pre = true) (hok : ∀ d ∈ doc, (DocItem.step d.1).ok env.cs env.ext = true)
    (hsimple : ∀ d ∈ doc, d.1.all SegX.simple = true) (hseps : sepsOK (doc.map (·.2)) = true)
    (hw : WellSpelled env.cs (pre ++ docSpec (stepsDoc doc)))
    (hfm : parseFrontmatter env.cs (render (pre ++ docSpec (stepsDoc doc))) = none)
    (hirr : ∀ e : Ext, parseRecipe (α := α) { env with ext := e } (render (pre ++ docSpec (stepsDoc doc))) =
      parseRecipe env (render (pre ++ docSpec (stepsDoc doc)))) (e : Ext) :
    (parseRecipe (α := α) { env with ext := e } (render (pre ++ docSpec (stepsDoc doc)))).diags = #[] ∧
    (parseRecipe (α := α) { env with ext := e } (render (pre ++ docSpec (stepsDoc doc)))).isValid = true ∧
    (parseRecipe (α := α) { env with ext := e } (render (pre ++ docSpec (stepsDoc doc)))).panic = none := by
  rw [hirr e]
  exact C07_sound_recipe_steps env pre doc hadv hinl hpre hok hsimple hseps hw hfm

/-- **… under EVERY extension set, composed with C02.**  The hypothesis `hirr` of the partial theorem
    above is discharged by `C02_parse_ext_irrelevant` (Lemmas/ExtLawsEvents `parseRecipe_ext_irrelevant`):
    it is replaced by C02's own PREMISES, two decidable checks on the printed text — every block of
    its token stream is `UsesNone` (no modifier character after a marker, no `|` in a name, no `-`
    in an amount, an amount shape the advanced-units reader declines, every timer has an amount) and
    its events satisfy `evConvCore` (no step text is empty or holds an inline quantity for the
    converter; a timer's amount is numeric and its unit a time unit) — and that the character table
    classifies the ASCII space as whitespace.  Then for a well-formed document of steps (the class of
    `C07_sound_recipe_steps`, checked against `env` with ADVANCED_UNITS and INLINE_QUANTITIES off)
    `CooklangParser::parse` reports NO diagnostic, is valid and reaches no panic site under ALL raw
    extension patterns `e`, the two flags included. -/
theorem C07_sound_recipe_steps_all_extensions (env : Env) (hws : env.cs.uws ' ' = true)
    (pre : List Tok) (doc : List (List SegX × List Tok))
    (hadv : env.ext.has Gen.EXT_ADVANCED_UNITS = false) (hinl : env.ext.has Gen.EXT_INLINE_QUANTITIES = false)
    (hpre : blankLinesOK pre = true) (hok : ∀ d ∈ doc, (DocItem.step d.1).ok env.cs env.ext = true)
    (hsimple : ∀ d ∈ doc, d.1.all SegX.simple = true) (hseps : sepsOK (doc.map (·.2)) = true)
    (hw : WellSpelled env.cs (pre ++ docSpec (stepsDoc doc)))
    (hfm : parseFrontmatter env.cs (render (pre ++ docSpec (stepsDoc doc))) = none)
    (hu : UsesNoneInput env.cs (render (pre ++ docSpec (stepsDoc doc))) = true)
    (hconv : (pullEvents (α := α) env.cs env.ext (render (pre ++ docSpec (stepsDoc doc)))).1.toList.all
      (evConvCore α env) = true) (e : Ext) :
    (parseRecipe (α := α) { env with ext := e } (render (pre ++ docSpec (stepsDoc doc)))).diags = #[] ∧
    (parseRecipe (α := α) { env with ext := e } (render (pre ++ docSpec (stepsDoc doc)))).isValid = true ∧
    (parseRecipe (α := α) { env with ext := e } (render (pre ++ docSpec (stepsDoc doc)))).panic = none :=
  C07_sound_recipe_steps_all_extensions_partial env pre doc hadv hinl hpre hok hsimple hseps hw hfm
    (fun e' => parseRecipe_ext_irrelevant env (keyTestsAgree_of_space env.cs hws) e' _ hu hconv) e

/-! non-vacuity of `C07_sound_recipe_steps_all_extensions`: `Mix @salt{} for ~{10%min}.` with a converter
    that knows the time unit `min`, every extension off in `env`: all hypotheses hold -/
def C07_coreEnv : Env :=
  ⟨toyCharSpec, ⟨0⟩, fun u => if u = ['m','i','n'] then some 0 else none, fun _ _ => .ok, fun c => [c], 0⟩
def C07_coreDoc : List (List SegX × List Tok) :=
  [([.text [tk .word "Mix".toList, tk .ws [' ']], .ingredient { name := [tk .word "salt".toList] } {},
     .text [tk .ws [' '], tk .word "for".toList, tk .ws [' ']], .timer C01_exTimerAnon {},
     .text [tk .dot ['.']]], [C01_nl])]
example : render (docSpec (stepsDoc C07_coreDoc)) = "Mix @salt{} for ~{10%min}.\n".toList := by decide
example : C07_coreEnv.cs.uws ' ' = true := by decide
example : C07_coreEnv.ext.has Gen.EXT_ADVANCED_UNITS = false ∧ C07_coreEnv.ext.has Gen.EXT_INLINE_QUANTITIES = false ∧
    (∀ d ∈ C07_coreDoc, (DocItem.step d.1).ok C07_coreEnv.cs C07_coreEnv.ext = true) ∧
    (∀ d ∈ C07_coreDoc, d.1.all SegX.simple = true) ∧ sepsOK (C07_coreDoc.map (·.2)) = true := by decide
example : WellSpelled toyCharSpec (docSpec (stepsDoc C07_coreDoc)) := by decide
example : parseFrontmatter toyCharSpec (render (docSpec (stepsDoc C07_coreDoc))) = none := by decide
example : UsesNoneInput C07_coreEnv.cs (render ([] ++ docSpec (stepsDoc C07_coreDoc))) = true := by decide +kernel
example : (pullEvents (α := Rat) C07_coreEnv.cs C07_coreEnv.ext
    (render ([] ++ docSpec (stepsDoc C07_coreDoc)))).1.toList.all (evConvCore Rat C07_coreEnv) = true := by
  decide +kernel

/-! non-vacuity: the example recipe of C01 (`Add @salt{=1%tsp} to the #pot{}` / `~{10%min} wait`) and the
    example document of `C01_recipe_steps` satisfy the hypotheses (shown in Props/C01.lean); the
    validity of the result -/
example : (parseEvents C01_toyEnv [] C01_exSimple.events).isValid = true := by
  refine (C07_sound_simple_events C01_toyEnv [] (by decide) (by decide) C01_exSimple ?_ ?_).2.1
  · have h1 : IngrSimple C01_exSalt1 := ⟨rfl, by decide, by intro q hq; cases hq; intro _; exact ⟨rfl, rfl⟩⟩
    have h2 : CwSimple C01_exPot1 := ⟨by decide, by intro q hq; cases hq⟩
    have h3 : TimerSimple C01_exTimer1 := ⟨by intro q hq; cases hq; intro h; cases h⟩
    intro st hst it hit
    simp only [C01_exSimple, List.mem_cons, List.not_mem_nil, or_false] at hst
    rcases hst with rfl | rfl <;> simp only [List.mem_cons, List.not_mem_nil, or_false] at hit <;>
      rcases hit with rfl | rfl | rfl | rfl <;> first | trivial | exact h1 | exact h2 | exact h3
  · intro st hst
    simp only [C01_exSimple, List.mem_cons, List.not_mem_nil, or_false] at hst
    rcases hst with rfl | rfl <;> simp

/-! ### Soundness on whole documents: sections, `>>` lines, text paragraphs, references (wave 4)

  `event_consumer.rs` pushes the deprecation notice ("The '>>' syntax for metadata is deprecated …",
  kind `meta-deprecated`) at the end of `parse_events`, under EVERY extension set, exactly when at
  least one `>>` entry was recorded in `old_style_metadata_used` (a `[mode]`-style key under MODES is a
  switch and is not recorded), with one label per recorded entry.  It is a WARNING of the analysis
  stage — the one warning the property allows on a well-formed recipe. -/

/-- **A well-formed document is quiet apart from the `>>` notice, under every extension set.**  For every
    document accepted by `C01_recipe_doc` — steps (plain definitions), section lines, plain `>>` metadata
    lines, text paragraphs, with the syntactic side conditions of the printer; under ADVANCED_UNITS /
    INLINE_QUANTITIES the timers are numeric with a time unit and the texts show no inline quantity
    (`DocItem.extOK`) — `CooklangParser::parse` on the printed text
    * reports EXACTLY: nothing when the document has no `>>` line; otherwise the ONE diagnostic
      `meta-deprecated` (severity warning, stage analysis) carrying one label per `>>` line;
    * so every reported diagnostic is that notice, none is an error;
    * the result has output, is valid, and no panic site is reached. -/
theorem C07_sound_recipe_doc (env : Env) (pre : List Tok) (doc : List (DocItem × List Tok))
    (hpre : blankLinesOK pre = true) (hok : ∀ d ∈ doc, d.1.ok env.cs env.ext = true)
    (hsimple : ∀ d ∈ doc, d.1.simple = true) (hplain : ∀ d ∈ doc, d.1.plain env)
    (hext : ∀ d ∈ doc, d.1.extOK α env)
    (hseps : sepsOK (doc.map (·.2)) = true) (hw : WellSpelled env.cs (pre ++ docSpec doc))
    (hfm : parseFrontmatter env.cs (render (pre ++ docSpec doc)) = none) :
    ∃ spans : List Span, spans.length = ((doc.map (·.1)).filter DocItem.isMeta).length ∧
      (parseRecipe (α := α) env (render (pre ++ docSpec doc))).diags =
        (if ((doc.map (·.1)).filter DocItem.isMeta).length = 0 then #[]
         else #[⟨.warning, .analysis, "meta-deprecated", spans⟩]) ∧
      (∀ d ∈ (parseRecipe (α := α) env (render (pre ++ docSpec doc))).diags.toList,
        d = ⟨.warning, .analysis, "meta-deprecated", spans⟩ ∧ d.sev ≠ .error ∧
        ((doc.map (·.1)).filter DocItem.isMeta).length ≠ 0) ∧
      (parseRecipe (α := α) env (render (pre ++ docSpec doc))).isValid = true ∧
      (parseRecipe (α := α) env (render (pre ++ docSpec doc))).panic = none := by
  obtain ⟨c, spans, h1, -, -, -, -, -, hd, hl, -, -⟩ :=
    rtx_parseRecipe_doc (α := α) env pre doc hpre hok hsimple hplain hext hseps hw hfm
  obtain ⟨k1, k2, k3, k4, k5⟩ := c07s_notice_result _ c spans _ h1 hd hl
  refine ⟨spans, hl, k1, fun d hd' => ?_, ?_, k5⟩
  · obtain ⟨e1, e2⟩ := k2 d hd'
    exact ⟨e1, by rw [e1]; simp [metaNotice], e2⟩
  · unfold AnalysisResult.isValid
    rw [k3, k4]; rfl

/-- **… and with references.**  The same for every document accepted by `C01_recipe_doc_refs`: the
    components need not be plain definitions — an ingredient or cookware item may be a correctly
    written reference `@&name` / `#&name` (an earlier definition of the name exists, no modifier the
    definition lacks, no note, not both with an amount, same value kind: `xOK`, decidable by
    `C01_reference_conditions_check`), an ingredient may be an intermediate reference `@&(~1)name{}` whose
    target exists; `=` only on a numeric ingredient amount.  Then `parse` reports exactly the `>>` notice
    (iff there is a `>>` line; one label per line) and nothing else — in particular none of
    `reference-not-found`, `ref-conflicting-modifiers`, `note-in-reference`, `conflicting-ref-quantity`,
    `text-value-in-ref`, `inter-ref-*` — has output, is valid, and reaches no panic site. -/
theorem C07_sound_recipe_doc_refs (env : Env) (pre : List Tok) (doc : List (DocItem × List Tok))
    (hpre : blankLinesOK pre = true) (hok : ∀ d ∈ doc, d.1.ok env.cs env.ext = true)
    (hlock : ∀ d ∈ doc, d.1.lockOK = true) (hplain : ∀ d ∈ doc, d.1.plain env)
    (hext : ∀ d ∈ doc, d.1.extOK α env)
    (hrefs : xOK (α := α) env {} [] ⟨none, []⟩ 1 (doc.map (fun d => d.1.x)))
    (hseps : sepsOK (doc.map (·.2)) = true) (hw : WellSpelled env.cs (pre ++ docSpec doc))
    (hfm : parseFrontmatter env.cs (render (pre ++ docSpec doc)) = none) :
    ∃ spans : List Span, spans.length = ((doc.map (·.1)).filter DocItem.isMeta).length ∧
      (parseRecipe (α := α) env (render (pre ++ docSpec doc))).diags =
        (if ((doc.map (·.1)).filter DocItem.isMeta).length = 0 then #[]
         else #[⟨.warning, .analysis, "meta-deprecated", spans⟩]) ∧
      (∀ d ∈ (parseRecipe (α := α) env (render (pre ++ docSpec doc))).diags.toList,
        d = ⟨.warning, .analysis, "meta-deprecated", spans⟩ ∧ d.sev ≠ .error ∧
        ((doc.map (·.1)).filter DocItem.isMeta).length ≠ 0) ∧
      (parseRecipe (α := α) env (render (pre ++ docSpec doc))).isValid = true ∧
      (parseRecipe (α := α) env (render (pre ++ docSpec doc))).panic = none := by
  obtain ⟨c, spans, h1, -, -, -, -, -, hd, hl, -, -⟩ :=
    rtdr_parseRecipe_doc (α := α) env pre doc hpre hok hlock hplain hext hrefs hseps hw hfm
  obtain ⟨k1, k2, k3, k4, k5⟩ := c07s_notice_result _ c spans _ h1 hd hl
  refine ⟨spans, hl, k1, fun d hd' => ?_, ?_, k5⟩
  · obtain ⟨e1, e2⟩ := k2 d hd'
    exact ⟨e1, by rw [e1]; simp [metaNotice], e2⟩
  · unfold AnalysisResult.isValid
    rw [k3, k4]; rfl

/-! non-vacuity.  `C01_exFullDoc` (`>> source: grandma`, a step with ingredients, cookware, alias, note,
    `== Main course ==`, a step with a timer, `>> source : book`) satisfies the hypotheses of
    `C07_sound_recipe_doc` under `C01_stepsEnv` (MODIFIERS + ALIAS) and under `C01_fullEnv` (every
    extension on), and `C01_exRefsDoc` (`@&flour{50%g}`, `@&(~1)dough{}`, `#&bowl{}`, a text paragraph, a
    section, `@&( = ~ 1 )?loaf{}`) those of `C07_sound_recipe_doc_refs` under `C01_refsEnv` — each
    hypothesis is an `example` of Props/C01.lean.  Here: the decidable ones again, and the counts —
    the first document gets the notice with two labels, the second no diagnostic at all. -/
example : (∀ d ∈ C01_exFullDoc, d.1.ok C01_stepsEnv.cs C01_stepsEnv.ext = true) ∧
    (∀ d ∈ C01_exFullDoc, d.1.simple = true) ∧ sepsOK (C01_exFullDoc.map (·.2)) = true ∧
    ((C01_exFullDoc.map (·.1)).filter DocItem.isMeta).length = 2 := by decide
example : (∀ d ∈ C01_exRefsDoc, d.1.ok C01_refsEnv.cs C01_refsEnv.ext = true) ∧
    (∀ d ∈ C01_exRefsDoc, d.1.lockOK = true) ∧ sepsOK (C01_exRefsDoc.map (·.2)) = true ∧
    ((C01_exRefsDoc.map (·.1)).filter DocItem.isMeta).length = 0 := by decide
example : xOK (α := Rat) C01_refsEnv {} [] ⟨none, []⟩ 1 (C01_exRefsDoc.map (fun d => d.1.x)) :=
  rtdr_xOKB _ _ _ _ _ _ (by decide)

/-! ### Analysis stage, exact forms of the one-directional theorems (wave 4)

  Each function below appends a list of diagnostics that is a PURE function of its inputs (given by a
  definition of the lemma files, named in the statement), and each catalogued kind is in that list IFF
  its condition holds. -/

/-- **Bad mode value, exactly** (completes `C07_bad_mode_value`).  From every collector state,
    `RecipeCollector::metadata` on the entry `>> key: value` appends exactly `c07i_metaDiags` (a function
    of the entry, the extension set and — for the three time keys — the recorded locations of standard
    keys: for a `[…]` key under MODES at most one of `config-invalid-value` / `config-unknown-key`; for a
    regular entry at most one of `std-unsupported-value` / `time-overridden`), and a diagnostic of kind
    `config-invalid-value` is among them IF AND ONLY IF MODES is on, the trimmed key has the form `[…]`
    (at least two characters), and either the inner key is `define` / `mode` and the value is none of
    all / default / components / ingredients / steps / text, or the inner key is `duplicate` and the value
    is none of new / default / reference / ref.  It is then the error (analysis stage) labelled with the
    value's span, then the key's span. -/
theorem C07_bad_mode_value_exact (env : Env) (key value : Text) (s : Col α) :
    (metadataA env key value s).2.diags.toList = s.diags.toList ++ c07i_metaDiags env key value s.metaLocs ∧
    ((∃ d ∈ c07i_metaDiags env key value s.metaLocs, d.kind = "config-invalid-value") ↔
      ((env.ext.has Gen.EXT_MODES = true ∧ (key.trimmed env.cs).head? = some '[' ∧
          (key.trimmed env.cs).getLast? = some ']' ∧ (key.trimmed env.cs).length ≥ 2) ∧
       (((String.ofList (((key.trimmed env.cs).drop 1).dropLast) = "define" ∨
            String.ofList (((key.trimmed env.cs).drop 1).dropLast) = "mode") ∧
          ∀ w ∈ ["all", "default", "components", "ingredients", "steps", "text"],
            String.ofList (value.outerTrimmed env.cs) ≠ w) ∨
        (String.ofList (((key.trimmed env.cs).drop 1).dropLast) = "duplicate" ∧
          ∀ w ∈ ["new", "default", "reference", "ref"], String.ofList (value.outerTrimmed env.cs) ≠ w)))) ∧
    (∀ d ∈ c07i_metaDiags env key value s.metaLocs, d.kind = "config-invalid-value" →
      d = ⟨.error, .analysis, "config-invalid-value", [value.span, key.span]⟩) := by
  obtain ⟨k1, k2⟩ := c07i_metaDiags_invalid_iff env key value s.metaLocs
  refine ⟨c07i_metadataA_exact env key value s, ?_, k2⟩
  rw [k1]
  unfold c07i_badModeValue c07i_isConfigKey
  simp only [Bool.and_eq_true, beq_iff_eq, decide_eq_true_eq, and_assoc]

/-- **Timer unit checks, exactly** (completes `C07_timer_unit_checks`).  From every collector state the
    checks on a timer's converted quantity append exactly `c07i_timerCheckDiags` and change nothing else,
    and (one equivalence per catalogued kind)
    * `timer-value-text` is raised IFF ADVANCED_UNITS is on and the value is a text;
    * `timer-unit-unknown` IFF ADVANCED_UNITS is on, there is a unit and the converter does not know it;
    * `timer-unit-not-time` IFF ADVANCED_UNITS is on, there is a unit, the converter knows it, and its
      physical quantity is not time;
    every raised diagnostic is one of these three errors (analysis stage), the first labelled with the
    value's span, the other two with the unit's span.  (A text value WITH a bad unit gets two errors.)
    And for the timer EVENT: `timerA` appends exactly `c07i_timerEventDiags` — the scaling-lock warning iff
    the value carries `=`, then the checks above on the `Fixed` value and the trimmed unit. -/
theorem C07_timer_unit_checks_exact (env : Env) (q : Loc (PQuantity α)) (r : Quantity (ScalableValue α)) (s : Col α) :
    (timerQuantityChecks env q r s).2.diags.toList = s.diags.toList ++ c07i_timerCheckDiags env q r ∧
    (timerQuantityChecks env q r s).2 = { s with diags := (timerQuantityChecks env q r s).2.diags } ∧
    ((∃ d ∈ c07i_timerCheckDiags env q r, d.kind = "timer-value-text") ↔
      (env.ext.has Gen.EXT_ADVANCED_UNITS = true ∧ r.value.val.isText = true)) ∧
    ((∃ d ∈ c07i_timerCheckDiags env q r, d.kind = "timer-unit-unknown") ↔
      (env.ext.has Gen.EXT_ADVANCED_UNITS = true ∧ ∃ u, r.unit = some u ∧ env.findUnit u = none)) ∧
    ((∃ d ∈ c07i_timerCheckDiags env q r, d.kind = "timer-unit-not-time") ↔
      (env.ext.has Gen.EXT_ADVANCED_UNITS = true ∧
        ∃ u pq, r.unit = some u ∧ env.findUnit u = some pq ∧ pq ≠ env.timeQ)) ∧
    (∀ d ∈ c07i_timerCheckDiags env q r,
      (d = ⟨.error, .analysis, "timer-value-text", [q.val.value.value.span]⟩ ∨
       d = ⟨.error, .analysis, "timer-unit-unknown", [(q.val.unit.map (·.span)).getD ⟨0, 0⟩]⟩ ∨
       d = ⟨.error, .analysis, "timer-unit-not-time", [(q.val.unit.map (·.span)).getD ⟨0, 0⟩]⟩)) ∧
    (∀ lt : Loc (PTimer α), (timerA env lt s).2.diags.toList = s.diags.toList ++ c07i_timerEventDiags env lt) := by
  obtain ⟨h1, h2⟩ := c07i_timerQuantityChecks_exact env q r s
  obtain ⟨k1, k2, k3, k4⟩ := c07i_timerCheckDiags_kinds env q r
  exact ⟨h1, h2, k1, k2, k3, k4, fun lt => c07i_timerA_exact env lt s⟩

/-- **The checks of a resolved ingredient reference, exactly** (completes `C07_reference_checks`, which
    gave membership only).  From every collector state `ingrRefChecks` appends exactly
    `c07r_ingrRefDiags`: the `incompatible-units` warnings of the ADVANCED_UNITS loop over the definition and
    its other references (one per table entry whose unit is incompatible — a frame lemma over the `for`
    loop: the loop reads the tables of the state it started from and only pushes), then `note-in-reference`,
    then `conflicting-ref-quantity`, then `text-value-in-ref`.  And, one equivalence per kind:
    * `note-in-reference` is raised IFF the reference carries a note;
    * `conflicting-ref-quantity` IFF both the reference and the definition have an amount and the
      definition was made outside a step (components mode);
    * `text-value-in-ref` IFF both have an amount and exactly one of the two values is a text;
    * `incompatible-units` IFF ADVANCED_UNITS is on, the reference has an amount, and for the definition
      or one of the references it lists, the entry exists, has an amount and `compatible_unit` fails. -/
theorem C07_reference_checks_exact (env : Env) (input : Str) (li : Loc (PIngredient α))
    (igr : Ingredient (ScalableValue α)) (refTo : Nat) (defn : Ingredient (ScalableValue α))
    (defLoc : Loc (PIngredient α)) (s : Col α) :
    (ingrRefChecks env input li igr refTo defn defLoc s).2.diags.toList =
      s.diags.toList ++ c07r_ingrRefDiags env input li igr refTo defn defLoc s.ingredients s.locIngr ∧
    ((∃ d ∈ c07r_ingrRefDiags env input li igr refTo defn defLoc s.ingredients s.locIngr,
        d.kind = "note-in-reference") ↔ li.val.note.isSome = true) ∧
    ((∃ d ∈ c07r_ingrRefDiags env input li igr refTo defn defLoc s.ingredients s.locIngr,
        d.kind = "conflicting-ref-quantity") ↔
      (defn.quantity.isSome = true ∧ igr.quantity.isSome = true ∧ ircDefinedInStep defn = false)) ∧
    ((∃ d ∈ c07r_ingrRefDiags env input li igr refTo defn defLoc s.ingredients s.locIngr,
        d.kind = "text-value-in-ref") ↔
      ∃ rq dq, igr.quantity = some rq ∧ defn.quantity = some dq ∧ rq.value.val.isText ≠ dq.value.val.isText) ∧
    ((∃ d ∈ c07r_ingrRefDiags env input li igr refTo defn defLoc s.ingredients s.locIngr,
        d.kind = "incompatible-units") ↔
      (env.ext.has Gen.EXT_ADVANCED_UNITS = true ∧ ∃ q, igr.quantity = some q ∧
        ∃ idx ∈ refTo :: defn.relation.relation.referencedFrom, ∃ other otherLoc oq,
          s.ingredients[idx]? = some other ∧ s.locIngr[idx]? = some otherLoc ∧ other.quantity = some oq ∧
          compatibleUnit env oq.unit q.unit ≠ none)) := by
  obtain ⟨k1, k2, k3, k4⟩ := c07r_ingrRefDiags_kinds env input li igr refTo defn defLoc s.ingredients s.locIngr
  exact ⟨c07r_ingrRefChecks_exact env input li igr refTo defn defLoc s, k1, k2, k3, k4⟩

/-- **… of a resolved cookware reference, exactly** (completes `C07_reference_checks_cookware`):
    `cwRefChecks` appends exactly `c07r_cwRefDiags` — `note-in-reference` IFF the reference carries a note,
    `conflicting-ref-quantity` IFF both have an amount and the definition was made outside a step,
    `text-value-in-ref` IFF both have an amount and exactly one value is a text — in this order. -/
theorem C07_reference_checks_cookware_exact (input : Str) (lc : Loc (PCookware α)) (cw : Cookware (ScalableValue α))
    (defn : Cookware (ScalableValue α)) (defLoc : Loc (PCookware α)) (s : Col α) :
    (cwRefChecks input lc cw defn defLoc s).2.diags.toList = s.diags.toList ++ c07r_cwRefDiags input lc cw defn defLoc ∧
    ((∃ d ∈ c07r_cwRefDiags input lc cw defn defLoc, d.kind = "note-in-reference") ↔ lc.val.note.isSome = true) ∧
    ((∃ d ∈ c07r_cwRefDiags input lc cw defn defLoc, d.kind = "conflicting-ref-quantity") ↔
      (defn.quantity.isSome = true ∧ cw.quantity.isSome = true ∧ crcDefinedInStep defn = false)) ∧
    ((∃ d ∈ c07r_cwRefDiags input lc cw defn defLoc, d.kind = "text-value-in-ref") ↔
      ∃ rq dq, cw.quantity = some rq ∧ defn.quantity = some dq ∧ rq.val.isText ≠ dq.val.isText) := by
  obtain ⟨k1, k2, k3⟩ := c07r_cwRefDiags_kinds input lc cw defn defLoc
  exact ⟨c07r_cwRefChecks_exact input lc cw defn defLoc s, k1, k2, k3⟩

/-! non-vacuity: `>> [mode]: bogus` under MODES raises exactly the error; `>> [mode]: all` and a plain entry
    raise nothing; `~{=x%parsec}` under ADVANCED_UNITS with a converter that knows only `min`: lock warning,
    text value, unknown unit; a reference with a note and a text amount against a numeric definition made in
    a step: `note-in-reference` then `text-value-in-ref` -/
example : c07i_metaDiags C01_modesEnv (C01_txt "[mode]" 3) (C01_txt "bogus" 11) [] =
    [⟨.error, .analysis, "config-invalid-value", [⟨11, 16⟩, ⟨3, 9⟩]⟩] := by decide
example : c07i_metaDiags C01_modesEnv (C01_txt "[mode]" 3) (C01_txt "all" 11) [] = [] ∧
    c07i_metaDiags C01_modesEnv (C01_txt "source" 3) (C01_txt "book" 11) [] = [] := by decide
example : c07i_timerEventDiags (α := Rat) { C07_coreEnv with ext := ⟨Gen.EXT_ADVANCED_UNITS⟩ }
      ⟨⟨none, some ⟨⟨⟨⟨.text ['x'], ⟨3, 4⟩⟩, some ⟨2, 3⟩⟩, some (C01_txt "parsec" 5)⟩, ⟨2, 11⟩⟩⟩, ⟨0, 12⟩⟩ =
    [⟨.warning, .analysis, "unnecessary-scaling-lock", [⟨3, 4⟩]⟩, ⟨.error, .analysis, "timer-value-text", [⟨3, 4⟩]⟩,
     ⟨.error, .analysis, "timer-unit-unknown", [⟨5, 11⟩]⟩] := by decide

/-! ### Empty value in cookware and timers, and in quantities without `%` (wave 4) -/

/-- **Empty value in a cookware item and in a timer** (`#pot{ %x}`, `~{ %min}`, `~{=%}`; lifts
    `C07_empty_value_component`, same quantity tokens `pre ++ lk ++ vt ++ [%] ++ ut` with a blank non-numeric
    value, EVERY extension set).  What the code does: a cookware item with a unit is itself an error, so
    * `cookware` (no modifier tokens, non-blank name without alias separator) returns the item with the
      quantity's value and lock and pushes EXACTLY `empty-value` (error, parse, on the blank value text), then
      `empty-unit` (warning, on the `%`) iff the unit text is blank, then `cookware-unit` (error, labelled from
      the `%` to the end of the unit) iff the unit text is NOT blank;
    * `timer` (no modifier tokens, no alias separator; followed by anything) returns the timer with that
      quantity and pushes EXACTLY the note warning `timerNoteEvs` (iff `(…)` follows), then `empty-value`, then —
      iff the unit text is blank — `empty-unit` and `timer-missing-unit` (error, labelled with the position
      right after the value, i.e. where the `%` starts). -/
theorem C07_empty_value_cookware_timer (s s1 s2 s3 : BP α) (pre lk vt ut : List Tok) (pct : Tok) (body : Body)
    (hpre : ∀ t ∈ pre, isWsComment t.kind = true)
    (hlk : lk = [] ∨ ∃ e, lk = [e] ∧ e.kind = .eq)
    (hhead : lk = [] → ∀ t0, vt.head? = some t0 → isWsComment t0.kind = false ∧ t0.kind ≠ .eq)
    (hvp : ∀ t ∈ vt, t.kind ≠ .percent) (hp : pct.kind = .percent)
    (hnone : numOrRange (α := α) (s.ext.has Gen.EXT_RANGE_VALUES) vt = none)
    (hemp : (buildText ((vt.head?.map (·.start)).getD
          (offAt (pre ++ (lk ++ (vt ++ pct :: ut))) (pre.length + lk.length + vt.length))) vt).isTextEmpty s.cs = true)
    (hq : body.quantity = some (pre ++ (lk ++ (vt ++ pct :: ut))))
    (ha : s.ext.has Gen.EXT_COMPONENT_ALIAS = false ∨ ∀ t ∈ body.name, t.kind ≠ .or) :
    (∀ s4 note, Cut .hash s [] body s1 s2 s3 → noteP s3 = (note, s4) →
      (buildText (curOff s2) body.name).isTextEmpty s.cs = false →
      (∃ q : Loc (PQValue α), (cookwareP s).1 = some (.cookware
          ⟨⟨⟨Modifiers.empty, Span.pos (curOff s1)⟩, buildText (curOff s2) body.name, none, some q, note⟩,
           ⟨curOff s, curOff s4⟩⟩) ∧ q.val.lock = lockSpan lk) ∧
      Pushed ((emptyValueEv (buildText ((vt.head?.map (·.start)).getD
          (offAt (pre ++ (lk ++ (vt ++ pct :: ut))) (pre.length + lk.length + vt.length))) vt) :: emptyUnitEvs pct ut s.cs) ++
          (if (buildText pct.stop ut).isTextEmpty s.cs then []
           else [.error ⟨.error, .parse, "cookware-unit", [⟨pct.start, (buildText pct.stop ut).span.stop⟩]⟩]))
        s (cookwareP s).2) ∧
    (Cut .tilde s [] body s1 s2 s3 →
      (∃ q : Loc (PQuantity α), (timerP s).1 = some (.timer
          ⟨⟨if (buildText (curOff s2) body.name).isTextEmpty s.cs then none
              else some (buildText (curOff s2) body.name), some q⟩, ⟨curOff s, curOff s3⟩⟩) ∧
          q.val.value.lock = lockSpan lk) ∧
      Pushed (timerNoteEvs s3 ++ ((emptyValueEv (buildText ((vt.head?.map (·.start)).getD
          (offAt (pre ++ (lk ++ (vt ++ pct :: ut))) (pre.length + lk.length + vt.length))) vt) :: emptyUnitEvs pct ut s.cs) ++
          (if (buildText pct.stop ut).isTextEmpty s.cs then
            [.error ⟨.error, .parse, "timer-missing-unit",
              [Span.pos (offAt (pre ++ (lk ++ (vt ++ pct :: ut))) (pre.length + lk.length + vt.length))]⟩]
           else [])))
        s (timerP s).2) := by
  constructor
  · intro s4 note hc hnote hn
    have q4 : Same s s4 := hc.same.trans (noteP_same hnote)
    have ht := c07f_cookwareTail_q (α := α) (curOff s) (curOff s4) (curOff s1) (curOff s2) body note s4 _ hq
      (by rw [q4.2.1]; exact ha) (by rw [q4.1]; exact hn)
      (emptyValueEv (buildText ((vt.head?.map (·.start)).getD
          (offAt (pre ++ (lk ++ (vt ++ pct :: ut))) (pre.length + lk.length + vt.length))) vt) :: emptyUnitEvs pct ut s.cs)
      (fun r => r.quantity.val.unit =
          (if (buildText pct.stop ut).isTextEmpty s.cs then none else some (buildText pct.stop ut)) ∧
        r.quantity.val.value.lock = lockSpan lk ∧ r.unitSep = some ⟨pct.start, pct.stop⟩ ∧
        r.quantity.val.value.value.span.stop =
          offAt (pre ++ (lk ++ (vt ++ pct :: ut))) (pre.length + lk.length + vt.length))
      (fun sq qq => by
        have h := c07f_parseQuantity_empty pre lk vt ut pct sq hpre hlk hhead hvp hp
          (by rw [qq.2.1, q4.2.1]; exact hnone) (by rw [qq.1, q4.1]; exact hemp)
        rw [qq.1, q4.1] at h
        exact h)
    unfold Sat at ht
    rw [← cookwareP_cut hc hnote] at ht
    obtain ⟨q, ⟨hu, hl, hsep, -⟩, p, hr⟩ := ht
    refine ⟨⟨_, hr, hl⟩, ?_⟩
    rw [c07f_cwUnitEvs_of q pct _ _ hu hsep] at p
    exact (q4.pushed.trans p).cast (by simp)
  · intro hc
    have q3 : Same s s3 := hc.same
    have ht := c07f_timerTail_q (α := α) (curOff s) (curOff s3) (curOff s2) body s3 _ hq
      (by rw [q3.2.1]; exact ha)
      (emptyValueEv (buildText ((vt.head?.map (·.start)).getD
          (offAt (pre ++ (lk ++ (vt ++ pct :: ut))) (pre.length + lk.length + vt.length))) vt) :: emptyUnitEvs pct ut s.cs)
      (fun r => r.quantity.val.unit =
          (if (buildText pct.stop ut).isTextEmpty s.cs then none else some (buildText pct.stop ut)) ∧
        r.quantity.val.value.lock = lockSpan lk ∧ r.unitSep = some ⟨pct.start, pct.stop⟩ ∧
        r.quantity.val.value.value.span.stop =
          offAt (pre ++ (lk ++ (vt ++ pct :: ut))) (pre.length + lk.length + vt.length))
      (fun sq hcs hext => by
        have h := c07f_parseQuantity_empty pre lk vt ut pct sq hpre hlk hhead hvp hp
          (by rw [hext, q3.2.1]; exact hnone) (by rw [hcs, q3.1]; exact hemp)
        rw [hcs, q3.1] at h
        exact h)
    unfold Sat at ht
    rw [← timerP_cut hc, q3.1] at ht
    obtain ⟨q, ⟨hu, hl, -, hstop⟩, p, hr⟩ := ht
    refine ⟨⟨_, hr, hl⟩, ?_⟩
    rw [c07f_missingUnitEvs_of q _ _ _ hu hstop] at p
    exact (q3.pushed.trans p).cast (by simp)

/-- **Empty value in a quantity without `%`** (`{=}`, `{= }`, `{ = /* c */ }`): the quantity tokens are
    `pre ++ lk ++ vt` — blanks/comments, an optional lock `=`, value tokens without `%` that do not read as a
    number and whose text is blank.  Under ADVANCED_UNITS the value tokens are blanks/comments (then the
    advanced reader declines without event); without it any such tokens.  Then
    * `parse_quantity` pushes EXACTLY `empty-value` (error, parse, labelled with the blank value text: the
      position after the lock when there is no value token) — no `empty-unit`, there is no `%` — and returns
      the lock, no unit, no separator;
    * an ingredient (no modifiers, non-blank name without alias separator) pushes exactly that;
    * a cookware item likewise (no unit, so no `cookware-unit`);
    * a timer pushes the note warning (iff `(…)` follows), `empty-value`, and `timer-missing-unit` (error,
      labelled with the position at the end of the quantity tokens). -/
theorem C07_empty_value_no_percent (s : BP α) (pre lk vt : List Tok)
    (hne : pre ++ (lk ++ vt) ≠ [])
    (hpre : ∀ t ∈ pre, isWsComment t.kind = true)
    (hlk : lk = [] ∨ ∃ e, lk = [e] ∧ e.kind = .eq)
    (hhead : lk = [] → ∀ t0, vt.head? = some t0 → isWsComment t0.kind = false ∧ t0.kind ≠ .eq)
    (hvp : ∀ t ∈ vt, t.kind ≠ .percent)
    (hadv : s.ext.has Gen.EXT_ADVANCED_UNITS = false ∨ ∀ t ∈ vt, isWsComment t.kind = true)
    (hnone : numOrRange (α := α) (s.ext.has Gen.EXT_RANGE_VALUES) vt = none)
    (hemp : (buildText ((vt.head?.map (·.start)).getD
          (offAt (pre ++ (lk ++ vt)) (pre.length + lk.length + vt.length))) vt).isTextEmpty s.cs = true) :
    (Pushed [emptyValueEv (buildText ((vt.head?.map (·.start)).getD
          (offAt (pre ++ (lk ++ vt)) (pre.length + lk.length + vt.length))) vt)] s (parseQuantity (α := α) (pre ++ (lk ++ vt)) s).2 ∧
      (parseQuantity (α := α) (pre ++ (lk ++ vt)) s).1.quantity.val.unit = none ∧
      (parseQuantity (α := α) (pre ++ (lk ++ vt)) s).1.quantity.val.value.lock = lockSpan lk ∧
      (parseQuantity (α := α) (pre ++ (lk ++ vt)) s).1.unitSep = none) ∧
    (∀ s1 s2 s3 body, body.quantity = some (pre ++ (lk ++ vt)) →
      (s.ext.has Gen.EXT_COMPONENT_ALIAS = false ∨ ∀ t ∈ body.name, t.kind ≠ .or) →
      (∀ s4 note, noteP s3 = (note, s4) → (buildText (curOff s2) body.name).isTextEmpty s.cs = false →
        (Cut .at s [] body s1 s2 s3 → Pushed [emptyValueEv (buildText ((vt.head?.map (·.start)).getD
          (offAt (pre ++ (lk ++ vt)) (pre.length + lk.length + vt.length))) vt)] s (ingredientP s).2 ∧
          ∃ q : Loc (PQuantity α), (ingredientP s).1 = some (.ingredient
            ⟨⟨⟨Modifiers.empty, Span.pos (curOff s1)⟩, none, buildText (curOff s2) body.name, none, some q, note⟩,
             ⟨curOff s, curOff s4⟩⟩) ∧ q.val.unit = none ∧ q.val.value.lock = lockSpan lk) ∧
        (Cut .hash s [] body s1 s2 s3 → Pushed [emptyValueEv (buildText ((vt.head?.map (·.start)).getD
          (offAt (pre ++ (lk ++ vt)) (pre.length + lk.length + vt.length))) vt)] s (cookwareP s).2 ∧
          ∃ q : Loc (PQValue α), (cookwareP s).1 = some (.cookware
            ⟨⟨⟨Modifiers.empty, Span.pos (curOff s1)⟩, buildText (curOff s2) body.name, none, some q, note⟩,
             ⟨curOff s, curOff s4⟩⟩) ∧ q.val.lock = lockSpan lk)) ∧
      (Cut .tilde s [] body s1 s2 s3 →
        Pushed (timerNoteEvs s3 ++ [emptyValueEv (buildText ((vt.head?.map (·.start)).getD
          (offAt (pre ++ (lk ++ vt)) (pre.length + lk.length + vt.length))) vt),
            .error ⟨.error, .parse, "timer-missing-unit",
              [Span.pos (offAt (pre ++ (lk ++ vt)) (pre.length + lk.length + vt.length))]⟩]) s (timerP s).2 ∧
        ∃ q : Loc (PQuantity α), (timerP s).1 = some (.timer
          ⟨⟨if (buildText (curOff s2) body.name).isTextEmpty s.cs then none
              else some (buildText (curOff s2) body.name), some q⟩, ⟨curOff s, curOff s3⟩⟩) ∧
          q.val.unit = none ∧ q.val.value.lock = lockSpan lk)) := by
  have hPQ : ∀ sq : BP α, sq.cs = s.cs → sq.ext = s.ext →
      Sat (parseQuantity (α := α) (pre ++ (lk ++ vt))) sq (fun r s' =>
        Pushed [emptyValueEv (buildText ((vt.head?.map (·.start)).getD
          (offAt (pre ++ (lk ++ vt)) (pre.length + lk.length + vt.length))) vt)] sq s' ∧
        (r.quantity.val.unit = none ∧ r.quantity.val.value.lock = lockSpan lk ∧ r.unitSep = none ∧
          r.quantity.val.value.value.span.stop = offAt (pre ++ (lk ++ vt)) (pre.length + lk.length + vt.length))) := by
    intro sq hcs hext
    have h := c07f_parseQuantity_nopct pre lk vt sq hne hpre hlk hhead hvp (by rw [hext]; exact hadv)
      (by rw [hext]; exact hnone) (by rw [hcs]; exact hemp)
    exact h
  refine ⟨?_, ?_⟩
  · have h := hPQ s rfl rfl
    unfold Sat at h
    exact ⟨h.1, h.2.1, h.2.2.1, h.2.2.2.1⟩
  · intro s1 s2 s3 body hq ha
    refine ⟨fun s4 note hnote hn => ⟨fun hc => ?_, fun hc => ?_⟩, fun hc => ?_⟩
    · have q4 : Same s s4 := hc.same.trans (noteP_same hnote)
      have ht := c07e_ingredientTail_q (α := α) (curOff s) (curOff s4) (curOff s1) (curOff s2) body note s4 _ hq
        (by rw [q4.2.1]; exact ha) (by rw [q4.1]; exact hn) _ _
        (fun sq qq => hPQ sq (qq.1.trans q4.1) (qq.2.1.trans q4.2.1))
      unfold Sat at ht
      rw [← ingredientP_cut hc hnote] at ht
      obtain ⟨p, q, ⟨hu, hl, -, -⟩, hr⟩ := ht
      exact ⟨(q4.pushed.trans p).cast (by simp), q.quantity, hr, hu, hl⟩
    · have q4 : Same s s4 := hc.same.trans (noteP_same hnote)
      have ht := c07f_cookwareTail_q (α := α) (curOff s) (curOff s4) (curOff s1) (curOff s2) body note s4 _ hq
        (by rw [q4.2.1]; exact ha) (by rw [q4.1]; exact hn) _ _
        (fun sq qq => hPQ sq (qq.1.trans q4.1) (qq.2.1.trans q4.2.1))
      unfold Sat at ht
      rw [← cookwareP_cut hc hnote] at ht
      obtain ⟨q, ⟨hu, hl, -, -⟩, p, hr⟩ := ht
      have hcw : c07f_cwUnitEvs q = [] := by unfold c07f_cwUnitEvs; rw [hu]
      rw [hcw] at p
      exact ⟨(q4.pushed.trans p).cast (by simp), _, hr, hl⟩
    · have q3 : Same s s3 := hc.same
      have ht := c07f_timerTail_q (α := α) (curOff s) (curOff s3) (curOff s2) body s3 _ hq
        (by rw [q3.2.1]; exact ha) _ _
        (fun sq hcs hext => hPQ sq (hcs.trans q3.1) (hext.trans q3.2.1))
      unfold Sat at ht
      rw [← timerP_cut hc, q3.1] at ht
      obtain ⟨q, ⟨hu, hl, -, hstop⟩, p, hr⟩ := ht
      have hm : c07f_missingUnitEvs q = [.error ⟨.error, .parse, "timer-missing-unit",
          [Span.pos (offAt (pre ++ (lk ++ vt)) (pre.length + lk.length + vt.length))]⟩] := by
        unfold c07f_missingUnitEvs; rw [hu, hstop]; rfl
      rw [hm] at p
      exact ⟨(q3.pushed.trans p).cast (by simp), q.quantity, hr, hu, hl⟩

/-! non-vacuity: `#pot{ %x}` (empty value + unit on cookware), `~{ %}` (empty value, empty unit, missing
    unit), `@x{=}` and `~{= }` with ADVANCED_UNITS on: the cuts exist, the quantity tokens have the stated shapes,
    and the pushed events are those of the theorems -/
def C07_exPotEV : BP Rat :=
  ⟨[⟨.hash, ['#'], 0⟩, ⟨.word, ['p', 'o', 't'], 1⟩, ⟨.openBrace, ['{'], 4⟩, ⟨.ws, [' '], 5⟩, ⟨.percent, ['%'], 6⟩,
    ⟨.word, ['x'], 7⟩, ⟨.closeBrace, ['}'], 8⟩], 0, ⟨0⟩, toyCharSpec, #[], none⟩
example : ∃ body note s1 s2 s3 s4, Cut .hash C07_exPotEV [] body s1 s2 s3 ∧ noteP s3 = (note, s4) ∧
    body.quantity = some ([⟨.ws, [' '], 5⟩] ++ ([] ++ ([] ++ ⟨.percent, ['%'], 6⟩ :: [⟨.word, ['x'], 7⟩]))) ∧
    (buildText (curOff s2) body.name).isTextEmpty C07_exPotEV.cs = false :=
  ⟨_, _, _, _, _, _, ⟨⟨_, rfl⟩, rfl, rfl⟩, rfl, rfl, rfl⟩
example : (cookwareP C07_exPotEV).2.evs = #[.error ⟨.error, .parse, "empty-value", [⟨6, 6⟩]⟩,
    .error ⟨.error, .parse, "cookware-unit", [⟨6, 8⟩]⟩] := rfl
def C07_exTimerEV : BP Rat :=
  ⟨[⟨.tilde, ['~'], 0⟩, ⟨.openBrace, ['{'], 1⟩, ⟨.ws, [' '], 2⟩, ⟨.percent, ['%'], 3⟩, ⟨.closeBrace, ['}'], 4⟩],
    0, ⟨0⟩, toyCharSpec, #[], none⟩
example : ∃ body s1 s2 s3, Cut .tilde C07_exTimerEV [] body s1 s2 s3 ∧
    body.quantity = some ([⟨.ws, [' '], 2⟩] ++ ([] ++ ([] ++ ⟨.percent, ['%'], 3⟩ :: []))) :=
  ⟨_, _, _, _, ⟨⟨_, rfl⟩, rfl, rfl⟩, rfl⟩
example : (timerP C07_exTimerEV).2.evs = #[.error ⟨.error, .parse, "empty-value", [⟨3, 3⟩]⟩,
    .warning ⟨.warning, .parse, "empty-unit", [⟨3, 4⟩]⟩, .error ⟨.error, .parse, "timer-missing-unit", [⟨3, 3⟩]⟩] := rfl
def C07_exLockOnly : BP Rat :=
  ⟨[⟨.at, ['@'], 0⟩, ⟨.word, ['x'], 1⟩, ⟨.openBrace, ['{'], 2⟩, ⟨.eq, ['='], 3⟩, ⟨.closeBrace, ['}'], 4⟩],
    0, ⟨Gen.EXT_ADVANCED_UNITS⟩, toyCharSpec, #[], none⟩
example : ∃ body s1 s2 s3, Cut .at C07_exLockOnly [] body s1 s2 s3 ∧
    body.quantity = some ([] ++ ([⟨.eq, ['='], 3⟩] ++ [])) ∧
    C07_exLockOnly.ext.has Gen.EXT_ADVANCED_UNITS = true ∧
    numOrRange (α := Rat) (C07_exLockOnly.ext.has Gen.EXT_RANGE_VALUES) [] = none :=
  ⟨_, _, _, _, ⟨⟨_, rfl⟩, rfl, rfl⟩, rfl, rfl, rfl⟩
example : (ingredientP C07_exLockOnly).2.evs = #[.error ⟨.error, .parse, "empty-value", [⟨4, 4⟩]⟩] := rfl
def C07_exTimerLock : BP Rat :=
  ⟨[⟨.tilde, ['~'], 0⟩, ⟨.openBrace, ['{'], 1⟩, ⟨.eq, ['='], 2⟩, ⟨.ws, [' '], 3⟩, ⟨.closeBrace, ['}'], 4⟩],
    0, ⟨Gen.EXT_ADVANCED_UNITS⟩, toyCharSpec, #[], none⟩
example : ∃ body s1 s2 s3, Cut .tilde C07_exTimerLock [] body s1 s2 s3 ∧
    body.quantity = some ([] ++ ([⟨.eq, ['='], 2⟩] ++ [⟨.ws, [' '], 3⟩])) ∧
    numOrRange (α := Rat) (C07_exTimerLock.ext.has Gen.EXT_RANGE_VALUES) [⟨.ws, [' '], 3⟩] = none ∧
    (buildText 3 [⟨.ws, [' '], 3⟩]).isTextEmpty toyCharSpec = true :=
  ⟨_, _, _, _, ⟨⟨_, rfl⟩, rfl, rfl⟩, rfl, rfl, rfl⟩
example : (timerP C07_exTimerLock).2.evs = #[.error ⟨.error, .parse, "empty-value", [⟨3, 4⟩]⟩,
    .error ⟨.error, .parse, "timer-missing-unit", [⟨4, 4⟩]⟩] := rfl

/-! ### Soundness under every extension set: C02's premises from the abstract document (wave 4) -/

/-- **The converter premise of C02, from the abstract document.**  For a well-formed document of steps (the
    hypotheses of `C07_sound_recipe_steps`, extension flags arbitrary), if every segment satisfies the
    extension-independent predicate `SegX.convCore` — a text run shows something and `find_inline_quantity`
    finds nothing in it (in particular when it contains no ASCII digit: second part), a timer amount is
    numeric and its unit, if any, is a time unit of the converter — then every event the pull parser
    delivers for the printed text satisfies `evConvCore`: the premise `hconv` of
    `C07_sound_recipe_steps_all_extensions` / `C02_parse_ext_irrelevant` holds. -/
theorem C07_conv_premise_from_document (env : Env) (pre : List Tok) (doc : List (List SegX × List Tok))
    (hpre : blankLinesOK pre = true) (hok : ∀ d ∈ doc, (DocItem.step d.1).ok env.cs env.ext = true)
    (hsimple : ∀ d ∈ doc, d.1.all SegX.simple = true) (hseps : sepsOK (doc.map (·.2)) = true)
    (hw : WellSpelled env.cs (pre ++ docSpec (stepsDoc doc)))
    (hfm : parseFrontmatter env.cs (render (pre ++ docSpec (stepsDoc doc))) = none)
    (hx : ∀ d ∈ doc, ∀ sg ∈ d.1, sg.convCore α env) :
    (pullEvents (α := α) env.cs env.ext (render (pre ++ docSpec (stepsDoc doc)))).1.toList.all
      (evConvCore α env) = true ∧
    (∀ l : List Tok, l.flatMap vis ≠ [] → (l.flatMap vis).all (fun c => !isAsciiDigitC c) = true →
      (SegX.text l).convCore α env) :=
  ⟨c07c_steps_evConvCore env pre doc hpre hok hsimple hseps hw hfm hx,
   fun l h1 h2 => ⟨h1, rts_no_digit_no_inline env _ _ _ h2⟩⟩

/-- **… under EVERY extension set, with the converter premise on the abstract document** (partial).
    `C07_sound_recipe_steps_all_extensions` with its premise `hconv` (a check on the EVENTS of the printed
    text) replaced by `SegX.convCore` on the segments of the abstract document.
    Partial: the other C02 premise, `UsesNoneInput` (every block of the token stream is free of extension
    syntax: no modifier character after a marker, no `|` in a name, no `-` in an amount, an amount shape the
    advanced-units reader declines, every timer has an amount) is still a decidable check on the printed
    text; deriving it from a predicate on the segments needs `stepCore` / `longBody` of the spelled tokens of a
    step, segment by segment, which is not done. -/
theorem C07_sound_recipe_steps_all_extensions_abs_partial (env : Env) (hws : env.cs.uws ' ' = true)
    (pre : List Tok) (doc : List (List SegX × List Tok))
    (hadv : env.ext.has Gen.EXT_ADVANCED_UNITS = false) (hinl : env.ext.has Gen.EXT_INLINE_QUANTITIES = false)
    (hpre : blankLinesOK pre = true) (hok : ∀ d ∈ doc, (DocItem.step d.1).ok env.cs env.ext = true)
    (hsimple : ∀ d ∈ doc, d.1.all SegX.simple = true) (hseps : sepsOK (doc.map (·.2)) = true)
    (hw : WellSpelled env.cs (pre ++ docSpec (stepsDoc doc)))
    (hfm : parseFrontmatter env.cs (render (pre ++ docSpec (stepsDoc doc))) = none)
    (hu : UsesNoneInput env.cs (render (pre ++ docSpec (stepsDoc doc))) = true)
    (hx : ∀ d ∈ doc, ∀ sg ∈ d.1, sg.convCore α env) (e : Ext) :
    (parseRecipe (α := α) { env with ext := e } (render (pre ++ docSpec (stepsDoc doc)))).diags = #[] ∧
    (parseRecipe (α := α) { env with ext := e } (render (pre ++ docSpec (stepsDoc doc)))).isValid = true ∧
    (parseRecipe (α := α) { env with ext := e } (render (pre ++ docSpec (stepsDoc doc)))).panic = none :=
  C07_sound_recipe_steps_all_extensions env hws pre doc hadv hinl hpre hok hsimple hseps hw hfm hu
    (c07c_steps_evConvCore env pre doc hpre hok hsimple hseps hw hfm hx) e

/-! non-vacuity: the segments of `C07_coreDoc` (`Mix @salt{} for ~{10%min}.`) satisfy `SegX.convCore` for
    `C07_coreEnv` (the text runs have no digit; the timer amount is the number 10 in `min`, a time unit) -/
example : ∀ d ∈ C07_coreDoc, ∀ sg ∈ d.1, sg.convCore Rat C07_coreEnv := by
  intro d hd sg hsg
  simp only [C07_coreDoc, List.mem_cons, List.not_mem_nil, or_false] at hd
  subst hd
  simp only [List.mem_cons, List.not_mem_nil, or_false] at hsg
  rcases hsg with rfl | rfl | rfl | rfl | rfl
  · exact ⟨by decide, rts_no_digit_no_inline _ _ _ _ (by decide)⟩
  · trivial
  · exact ⟨by decide, rts_no_digit_no_inline _ _ _ _ (by decide)⟩
  · intro q hq
    cases hq
    exact ⟨by decide, fun u hu => by cases hu; decide⟩
  · exact ⟨by decide, rts_no_digit_no_inline _ _ _ _ (by decide)⟩
/-! ### the character table of the real lexer: `uws ' ' = true` is proved for the generated table (`tbl_uws_sp`) -/

example : ({ C07_coreEnv with cs := realCharSpec } : Env).cs = realCharSpec := rfl

/-- `C07_sound_recipe_steps_all_extensions` at the character table generated from the real lexer (any environment whose
    table is that one, as the driver's `realEnv`):
    the side condition `uws ' ' = true` is proved for that table (`Lemmas/TableFacts.lean`), not assumed -/
theorem C07_sound_recipe_steps_all_extensions_real (env : Env) (hreal : env.cs = realCharSpec) (pre : List Tok)
    (doc : List (List SegX × List Tok)) (hadv : env.ext.has Gen.EXT_ADVANCED_UNITS = false)
    (hinl : env.ext.has Gen.EXT_INLINE_QUANTITIES = false) (hpre : blankLinesOK pre = true)
    (hok : ∀ d ∈ doc, (DocItem.step d.1).ok env.cs env.ext = true) (hsimple : ∀ d ∈ doc, d.1.all SegX.simple = true)
    (hseps : sepsOK (doc.map (·.2)) = true) (hw : WellSpelled env.cs (pre ++ docSpec (stepsDoc doc)))
    (hfm : parseFrontmatter env.cs (render (pre ++ docSpec (stepsDoc doc))) = none)
    (hu : UsesNoneInput env.cs (render (pre ++ docSpec (stepsDoc doc))) = true)
    (hconv : (pullEvents (α := α) env.cs env.ext (render (pre ++ docSpec (stepsDoc doc)))).1.toList.all (evConvCore α env) = true)
    (e : Ext) :
    (parseRecipe (α := α) { env with ext := e } (render (pre ++ docSpec (stepsDoc doc)))).diags = #[] ∧
    (parseRecipe (α := α) { env with ext := e } (render (pre ++ docSpec (stepsDoc doc)))).isValid = true ∧
    (parseRecipe (α := α) { env with ext := e } (render (pre ++ docSpec (stepsDoc doc)))).panic = none :=
  C07_sound_recipe_steps_all_extensions env (hws := hreal ▸ tbl_uws_sp) pre doc hadv hinl hpre hok hsimple hseps hw hfm hu hconv e

/-! ### the diagnostics of the front-matter branch (`process_frontmatter`, Analysis/FrontMatterCore.lean) -/

/-- **"Time overriden" is emitted exactly when, after the exclusions, the mapping has `time` and a
    locatable `prep time` or `cook time`.**  For a YAML slice that decodes to the mapping `m`: let `kept`
    be the mapping `process_frontmatter` stores (`m` without the entries for which the validator cleared
    `include`; all of `m` without a validator — `C07_front_matter_kept`).  The warning is pushed iff
    `kept` has the key `time` and, for `prep time` or for `cook time`, `kept` has the key AND
    `yaml_find_key_position` finds a line of the text whose key text is that name.  (The second condition
    is the code's: a key written in a way the line scan does not recognise — quoted, in a flow mapping,
    as a `? key` entry — is in the mapping but gives no position, and then does not count; see the
    example below.)  At most one such warning is pushed, after all the per-entry diagnostics. -/
theorem C07_front_matter_time_overridden_iff (fe : FM.Env α) (yaml : Text) (m : List (SM.Y × SM.Y))
    (hd : fe.decode yaml.text = .ok m) :
    (∃ d ∈ (FM.processFrontmatter fe yaml).diags, d.kind = "time-overridden-fm") ↔
    (FM.hasKey (FM.entries fe yaml.span.start yaml.text m).kept .time = true ∧
      ((FM.hasKey (FM.entries fe yaml.span.start yaml.text m).kept .prepTime = true ∧
          (FM.yamlFindKeyPosition yaml.text (SM.StdKey.canon .prepTime)).isSome = true) ∨
       (FM.hasKey (FM.entries fe yaml.span.start yaml.text m).kept .cookTime = true ∧
          (FM.yamlFindKeyPosition yaml.text (SM.StdKey.canon .cookTime)).isSome = true))) := by
  rw [FM.fmx_process_time_iff fe yaml m hd, FM.fmx_timeLoc_isSome, FM.fmx_timeLoc_isSome]

/-- what "after the exclusions" is: the stored mapping is the decoded one without the entries whose
    validator call cleared `include` (`FM.keptBy`, the `n`-th call on the `n`-th entry), in their order -/
theorem C07_front_matter_kept (fe : FM.Env α) (yamlStart : Nat) (text : Str) (m : List (SM.Y × SM.Y)) :
    (FM.entries fe yamlStart text m).kept =
      match fe.validator with
      | none => m
      | some f => FM.keptBy f 0 m :=
  FM.fmx_entries_kept fe yamlStart text m

/-- soundness of the warning, without the position condition: it is only ever pushed when the stored
    mapping has `time` together with `prep time` or `cook time`; and a YAML error gives no such warning -/
theorem C07_front_matter_time_overridden_sound (fe : FM.Env α) (yaml : Text)
    (h : ∃ d ∈ (FM.processFrontmatter fe yaml).diags, d.kind = "time-overridden-fm") :
    ∃ m, fe.decode yaml.text = .ok m ∧
      FM.hasKey (FM.entries fe yaml.span.start yaml.text m).kept .time = true ∧
      (FM.hasKey (FM.entries fe yaml.span.start yaml.text m).kept .prepTime = true ∨
       FM.hasKey (FM.entries fe yaml.span.start yaml.text m).kept .cookTime = true) := by
  cases hd : fe.decode yaml.text with
  | err loc =>
    obtain ⟨d, hm, hk⟩ := h
    rw [FM.fmx_process_err fe yaml loc hd] at hm
    simp only [List.mem_singleton] at hm
    rw [hm] at hk
    have hk' : ("yaml-error" : String) = "time-overridden-fm" := hk
    exact absurd hk' (by decide)
  | ok m =>
    obtain ⟨h1, h2⟩ := (C07_front_matter_time_overridden_iff fe yaml m hd).mp h
    exact ⟨m, rfl, h1, h2.elim (fun x => Or.inl x.1) (fun x => Or.inr x.1)⟩

/-- **Malformed front matter** (catalogue item of the statement): when the YAML of the front matter
    does not decode, the report of `parse` STARTS with one analysis-stage ERROR (`yaml-error`, labelled
    at `yaml_offset + index` when the decoder gives a location), nothing else comes from the front
    matter, the output is kept (an analysis error keeps the output) and its metadata map is empty. -/
theorem C07_front_matter_yaml_error (env : Env) (fe : FM.Env α) (input : Str) (fm : FrontMatter)
    (h : parseFrontmatter env.cs input = some fm) (loc : Option Nat) (hd : fe.decode fm.yamlText = .err loc)
    (r1 : Col α) (h1 : (parseRecipe (α := α) env input).output = some r1) :
    FM.fullDiags fe (parseRecipe (α := α) env input) =
      #[⟨.error, .analysis, "yaml-error", FM.posLabel fm.yamlOffset loc⟩] ++ (parseRecipe (α := α) env input).diags ∧
    FM.fullMetadata fe r1 = [] := by
  obtain ⟨_, a2, a3, _⟩ := FM.fmd_full env fe input fm h r1 h1
  have hd' : fe.decode (FM.docYaml fm).text = .err loc := by rw [FM.fmd_docYaml_text]; exact hd
  rw [FM.fmx_process_err fe (FM.docYaml fm) loc hd', FM.fmd_docYaml_start] at a2 a3
  exact ⟨by rw [a2], by rw [a3]; rfl⟩

/-- **"Unsupported value for key" in a whole document with front matter** (the lift of
    `C13_metadata_warning_iff_nothing`).  Input with front matter whose YAML decodes to `m`, default
    options (no validator), `parse` has output: the metadata map of the result is `m`; the report is, in
    mapping order, the warnings of the rejected standard entries, then "Time overriden" if any, then all
    other diagnostics; and for the entry `Metadata::get k` finds under the canonical name of a standard
    key `k`, the loop contributes a warning exactly when the `Metadata` accessor for `k` over the
    result's map returns nothing. -/
theorem C07_front_matter_std_warning_iff_nothing (env : Env) (fe : FM.Env α) (hv : fe.validator = none)
    (input : Str) (fm : FrontMatter) (h : parseFrontmatter env.cs input = some fm)
    (m : List (SM.Y × SM.Y)) (hd : fe.decode fm.yamlText = .ok m)
    (r1 : Col α) (h1 : (parseRecipe (α := α) env input).output = some r1)
    (k : SM.StdKey) (v : SM.Y) (hk : SM.metaGet k m = some v) :
    FM.fullMetadata fe r1 = m ∧
    FM.fullDiags fe (parseRecipe (α := α) env input) =
      (m.flatMap (FM.entryWarning fe fm.yamlOffset fm.yamlText) ++ FM.timeWarn fm.yamlOffset fm.yamlText m).toArray ++
        (parseRecipe (α := α) env input).diags ∧
    (SM.Y.str k.canon, v) ∈ m ∧
    (FM.entryWarning fe fm.yamlOffset fm.yamlText (SM.Y.str k.canon, v) ≠ [] ↔
      SM.metaGives fe.conv fe.alpha k (FM.fullMetadata fe r1) = false) := by
  obtain ⟨e1, e2⟩ := FM.fms_doc_report env fe hv input fm h m hd r1 h1
  exact ⟨e1, e2, FM.fmx_mapGet_mem hk, by rw [e1]; exact FM.fms_entryWarning_iff fe _ _ k m v hk⟩

/-! non-vacuity and the position condition: `time` + a QUOTED `"prep time"` key — both keys are in the
    mapping, but the line scan does not recognise the quoted key, so no "Time overriden" is pushed; with
    the plain spelling it is (labels: `prep time` line, then `time` line) -/
def C07_exFm (α : Type) : FM.Env α :=
  ⟨fun _ => .ok [(.str "time".toList, .num ⟨some 60, "60".toList⟩), (.str "prep time".toList, .num ⟨some 5, "5".toList⟩)],
   none, ⟨[], fun _ => none⟩, fun _ => false⟩

example : (FM.processFrontmatter (C07_exFm Rat) (Text.fromStr "time: 60\n\"prep time\": 5\n".toList 4)).diags = [] := by decide
example : (FM.processFrontmatter (C07_exFm Rat) (Text.fromStr "time: 60\nprep time: 5\n".toList 4)).diags =
    [⟨.warning, .analysis, "time-overridden-fm", [⟨13, 13⟩, ⟨4, 4⟩]⟩] := by decide
example : FM.keptBy (fun n _ _ => ⟨.ok, n != 0, true⟩) 0 [(SM.Y.null, SM.Y.null), (SM.Y.bool, SM.Y.null)] =
    [(SM.Y.bool, SM.Y.null)] := rfl
/-! ### Arbitrary placement: a catalogued construct ANYWHERE inside a step (wave 5)

  The `while` of `parse_step` works piece by piece.  A PIECE (`PlPiece`) is a run of tokens together with a
  description of events; `PlPieceAt T cs e A p` says: from EVERY parser state on the tokens `T` (character
  tables `cs`, extensions `e`, no panic so far, ANY event queue) whose cursor stands right after `A`, one
  iteration consumes exactly the tokens of `p`, appends events as `p` describes and changes nothing else.
  `Lemmas/DiagPlace*.lean`. -/

/-- **The events of a step are the concatenation of the events of its pieces.**  If the tokens of a step
    block are cut into pieces, each of which is what one iteration of the step loop consumes at its
    position (`PlPiecesAt`), then `parse_step` delivers `Start(Step)`, then for each piece in order a list
    of events as that piece describes (`PlEvs`), then `End(Step)` — nothing else; all tokens are consumed and
    no panic site is reached.  In particular the DIAGNOSTICS of the step are the concatenation of the
    per-piece diagnostics. -/
theorem C07_step_events_concat (ps : List (PlPiece α)) (s : BP α) (ht : s.toks = ps.flatMap (·.toks))
    (hc : s.cur = 0) (hp : s.panic = none) (hps : PlPiecesAt s.toks s.cs s.ext [] ps) :
    ∃ (evss : List (List (Ev α))) (arr : Array (Ev α)),
      parseStep s = ((), { s with cur := s.toks.length, evs := arr }) ∧
      arr.toList = s.evs.toList ++ [.start .step] ++ evss.flatten ++ [.stop .step] ∧ PlEvs ps evss :=
  c07p_parseStep_pieces ps s ht hc hp hps

/-- **Every well-spelled segment of C01's `step_compose` is a piece that emits no diagnostic.**  A segment
    `seg` (text run, ingredient / cookware in braces or single-word form, timer, intermediate reference)
    that is well-formed on its own (`SegX.ok`), spelled by the tokens `tseg` standing after `A` and followed
    by tokens `rest` as its form requires (`SegX.followT`: a marker or the end after a text run, no `(` after
    a component without note, …), is a piece whose events are exactly ONE event, the text / component the
    segment denotes (`SegXEv`: never an error or warning) — whatever `A` and `rest` are otherwise (in
    particular: invalid constructs). -/
theorem C07_segment_is_piece (seg : SegX) (cs : CharSpec) (e : Ext) (T A tseg rest : List Tok)
    (hT : T = A ++ (tseg ++ rest)) (hs : Spells tseg seg.spell) (hok : seg.ok cs e = true)
    (hf : seg.followT rest = true) (hrun : RunAt (baseOff T) T) :
    PlPieceAt (α := α) T cs e A (seg.piece cs tseg) :=
  c07p_seg_pieceAt seg cs e T A tseg rest hT hs hok hf hrun

/-- **The placement schema: a construct planted anywhere in a step.**  The step block consists of
    well-spelled segments `pre` (actual tokens `tpre`), then the tokens `B` of a construct, then well-spelled
    segments `post` (`tpost`); the segments are well-formed and followed as their forms require, the
    construct's tokens counting as what follows `pre` (`segsFollowT`; for `post` this is implied by C01's
    `segsXOK`, second part); and at its position the construct is a piece with events described by `specB`.
    Then `parse_step` delivers exactly: `Start(Step)`; ONE text/component event per segment of `pre`, in
    order (`SegsXEvs`: no diagnostic); the events of the construct (`specB`); ONE text/component event per
    segment of `post`; `End(Step)`.  So the construct emits its documented diagnostics WHEREVER it stands,
    and the other segments emit nothing. -/
theorem C07_planted_step (pre post : List SegX) (B : List Tok) (specB : List (Ev α) → Prop) (s : BP α)
    (tpre tpost : List Tok) (hspre : Spells tpre (pre.flatMap SegX.spell))
    (hspost : Spells tpost (post.flatMap SegX.spell))
    (ht : s.toks = tpre ++ (B ++ tpost)) (hc : s.cur = 0) (hp : s.panic = none)
    (hrun : RunAt (baseOff s.toks) s.toks)
    (hpre : segsFollowT s.cs s.ext pre (B ++ post.flatMap SegX.spell) = true)
    (hpost : segsFollowT s.cs s.ext post [] = true)
    (hB : PlPieceAt s.toks s.cs s.ext tpre ⟨B, specB⟩) :
    (∃ (evs1 evsB evs2 : List (Ev α)) (arr : Array (Ev α)),
      parseStep s = ((), { s with cur := s.toks.length, evs := arr }) ∧
      arr.toList = s.evs.toList ++ [.start .step] ++ evs1 ++ evsB ++ evs2 ++ [.stop .step] ∧
      SegsXEvs s.cs pre evs1 ∧ specB evsB ∧ SegsXEvs s.cs post evs2) ∧
    (∀ segs : List SegX, segsXOK s.cs s.ext segs = true → segsFollowT s.cs s.ext segs [] = true) :=
  ⟨c07p_planted_step pre post B specB s tpre tpost hspre hspost ht hc hp hrun hpre hpost hB,
   c07p_segsFollowT_of_segsXOK s.cs s.ext⟩

/-- **Instances of the schema: five catalogued constructs are pieces wherever they stand.**  The construct is
    written `marker mods name { Q }` (`c07p_comp`), its token kinds make it a braces component under the
    extension set `e` and what follows is not a `(` (`PlShape`); `T = A ++ (construct ++ rest)` is a block
    (`WF`: non-empty, adjacent tokens).  Then, from every parser state at that position, one iteration of the
    step loop consumes exactly the construct and pushes EXACTLY the listed events — the documented
    diagnostic(s), then the component event, whose span is the byte range of the construct
    (`offAt T |A|` … `offAt T (|A| + length)`), so every label below lies inside the construct:
    1. **value error** `@x{1/0}`, `@x{4294967296/2}`: the number reader returns the error `d` on the value
       tokens ⇒ `d` (for `1/0`: `division-by-zero` labelled from the numerator to the denominator,
       `C07_zero_denominator`), then the ingredient;
    2. **unit on cookware** `#pot{1%kg}` ⇒ `cookware-unit` labelled from the `%` to the end of the unit;
    3. **timer without unit** `~x{5}`, `~{5}` ⇒ `timer-missing-unit` labelled with the position right after the
       value of the timer's quantity;
    4. **duplicate modifier** `@&&x{}` ⇒ one `duplicate-modifier` per repeated modifier token, labelled with
       the span of the modifier tokens (none iff the kinds are pairwise different, `C07_duplicate_modifier`);
    5. **empty name** `@{}`, `@ {}` ⇒ `empty-name:ingredient` labelled with the span of the blank name text.
    Each is then placed anywhere among well-spelled segments by `C07_planted_step`. -/
theorem C07_planted_constructs (T A rest : List Tok) (cs : CharSpec) (e : Ext) (hw : WF T) (tm : Tok)
    (nameT : List Tok) (tob tcb : Tok) :
    (∀ (t0 : Tok) (tl : List Tok) (d : Diag),
      T = A ++ (c07p_comp tm [] nameT tob (t0 :: tl) tcb ++ rest) →
      PlShape e .at tm [] nameT tob (t0 :: tl) tcb rest →
      (e.has Gen.EXT_COMPONENT_ALIAS = false ∨ ∀ t ∈ nameT, t.kind ≠ .or) →
      (buildText (offAt T (A.length + 1)) nameT).isTextEmpty cs = false →
      isWsComment t0.kind = false → t0.kind ≠ .eq →
      (∀ t ∈ t0 :: tl, t.kind ≠ .percent ∧ t.kind ≠ .word ∧ t.kind ≠ .ws) →
      numOrRange (α := α) (e.has Gen.EXT_RANGE_VALUES) (t0 :: tl) = some (.error d) →
      PlPieceAt T cs e A ⟨c07p_comp tm [] nameT tob (t0 :: tl) tcb, fun evs => ∃ q : Loc (PQuantity α),
        evs = [.error d, .ingredient ⟨⟨⟨Modifiers.empty, Span.pos (offAt T (A.length + 1))⟩, none,
          buildText (offAt T (A.length + 1)) nameT, none, some q, none⟩,
          ⟨offAt T A.length, offAt T (A.length + (c07p_comp tm [] nameT tob (t0 :: tl) tcb).length)⟩⟩] ∧
        q.val.unit = none⟩) ∧
    (∀ (vt ut : List Tok) (pct t0 : Tok),
      T = A ++ (c07p_comp tm [] nameT tob (vt ++ pct :: ut) tcb ++ rest) →
      PlShape e .hash tm [] nameT tob (vt ++ pct :: ut) tcb rest →
      (e.has Gen.EXT_COMPONENT_ALIAS = false ∨ ∀ t ∈ nameT, t.kind ≠ .or) →
      (buildText (offAt T (A.length + 1)) nameT).isTextEmpty cs = false →
      vt.head? = some t0 → isWsComment t0.kind = false → t0.kind ≠ .eq →
      (∀ t ∈ vt, t.kind ≠ .percent) → pct.kind = .percent →
      ((∃ v, numOrRange (α := α) (e.has Gen.EXT_RANGE_VALUES) vt = some (.ok v)) ∨
        (numOrRange (α := α) (e.has Gen.EXT_RANGE_VALUES) vt = none ∧
          (buildText t0.start vt).isTextEmpty cs = false)) →
      (buildText pct.stop ut).isTextEmpty cs = false →
      PlPieceAt T cs e A ⟨c07p_comp tm [] nameT tob (vt ++ pct :: ut) tcb, fun evs => ∃ qv : Loc (PQValue α),
        evs = [.error ⟨.error, .parse, "cookware-unit", [⟨pct.start, (buildText pct.stop ut).span.stop⟩]⟩,
          .cookware ⟨⟨⟨Modifiers.empty, Span.pos (offAt T (A.length + 1))⟩,
            buildText (offAt T (A.length + 1)) nameT, none, some qv, none⟩,
          ⟨offAt T A.length, offAt T (A.length + (c07p_comp tm [] nameT tob (vt ++ pct :: ut) tcb).length)⟩⟩]⟩) ∧
    (∀ (t0 : Tok) (tl : List Tok),
      T = A ++ (c07p_comp tm [] nameT tob (t0 :: tl) tcb ++ rest) →
      PlShape e .tilde tm [] nameT tob (t0 :: tl) tcb rest →
      (e.has Gen.EXT_COMPONENT_ALIAS = false ∨ ∀ t ∈ nameT, t.kind ≠ .or) →
      isWsComment t0.kind = false → t0.kind ≠ .eq →
      (∀ t ∈ t0 :: tl, t.kind ≠ .percent ∧ t.kind ≠ .word ∧ t.kind ≠ .ws) →
      (∃ v, numOrRange (α := α) (e.has Gen.EXT_RANGE_VALUES) (t0 :: tl) = some (.ok v)) →
      PlPieceAt T cs e A ⟨c07p_comp tm [] nameT tob (t0 :: tl) tcb, fun evs => ∃ q : Loc (PQuantity α),
        evs = [.error ⟨.error, .parse, "timer-missing-unit", [Span.pos q.val.value.value.span.stop]⟩,
          .timer ⟨⟨if (buildText (offAt T (A.length + 1)) nameT).isTextEmpty cs then none
              else some (buildText (offAt T (A.length + 1)) nameT), some q⟩,
            ⟨offAt T A.length, offAt T (A.length + (c07p_comp tm [] nameT tob (t0 :: tl) tcb).length)⟩⟩] ∧
        q.val.unit = none⟩) ∧
    (∀ (ms Q : List Tok),
      T = A ++ (c07p_comp tm ms nameT tob Q tcb ++ rest) →
      PlShape e .at tm ms nameT tob Q tcb rest → SimpleMods ms → (∀ t ∈ Q, isPadK t = true) →
      (e.has Gen.EXT_COMPONENT_ALIAS = false ∨ ∀ t ∈ nameT, t.kind ≠ .or) →
      (buildText (offAt T (A.length + 1 + ms.length)) nameT).isTextEmpty cs = false →
      PlPieceAt (α := α) T cs e A ⟨c07p_comp tm ms nameT tob Q tcb, fun evs =>
        evs = List.replicate (foldMods Modifiers.empty ms).2
            (.error ⟨.error, .parse, "duplicate-modifier", [tokensSpan ms]⟩) ++
          [.ingredient ⟨⟨simpleFlags ms (offAt T (A.length + 1)), none,
            buildText (offAt T (A.length + 1 + ms.length)) nameT, none, none, none⟩,
          ⟨offAt T A.length, offAt T (A.length + (c07p_comp tm ms nameT tob Q tcb).length)⟩⟩]⟩) ∧
    (∀ (Q : List Tok),
      T = A ++ (c07p_comp tm [] nameT tob Q tcb ++ rest) →
      PlShape e .at tm [] nameT tob Q tcb rest → (∀ t ∈ Q, isPadK t = true) →
      (e.has Gen.EXT_COMPONENT_ALIAS = false ∨ ∀ t ∈ nameT, t.kind ≠ .or) →
      (buildText (offAt T (A.length + 1)) nameT).isTextEmpty cs = true →
      PlPieceAt (α := α) T cs e A ⟨c07p_comp tm [] nameT tob Q tcb, fun evs =>
        evs = [.error ⟨.error, .parse, "empty-name:ingredient",
            [(buildText (offAt T (A.length + 1)) nameT).span]⟩,
          .ingredient ⟨⟨⟨Modifiers.empty, Span.pos (offAt T (A.length + 1))⟩, none,
            buildText (offAt T (A.length + 1)) nameT, none, none, none⟩,
          ⟨offAt T A.length, offAt T (A.length + (c07p_comp tm [] nameT tob Q tcb).length)⟩⟩]⟩) :=
  ⟨fun t0 tl d hT sh ha hn hws heq hk hv =>
     c07p_value_error_piece T A rest cs e tm nameT tob t0 tl tcb d hT hw sh ha hn hws heq hk hv,
   fun vt ut pct t0 hT sh ha hn h0 hws heq hvp hp hv hu =>
     c07p_cookware_unit_piece T A rest cs e tm nameT tob vt ut pct t0 tcb hT hw sh ha hn h0 hws heq hvp hp hv hu,
   fun t0 tl hT sh ha hws heq hk hv =>
     c07p_timer_missing_unit_piece T A rest cs e tm nameT tob t0 tl tcb hT hw sh ha hws heq hk hv,
   fun ms Q hT sh hs hQ ha hn =>
     c07p_duplicate_modifier_piece T A rest cs e tm ms nameT tob Q tcb hT hw sh hs hQ ha hn,
   fun Q hT sh hQ ha hn => c07p_empty_name_piece T A rest cs e tm nameT tob Q tcb hT hw sh hQ ha hn⟩

/-- **Zero denominator anywhere in a step, fully composed** (schema + instance 1 + `C07_zero_denominator`).
    A step block: well-spelled segments `pre`, the ingredient `@name{a/b}` (`b` spells zero, `a` fits `u32`;
    no modifiers, no alias separator, a non-blank name), well-spelled segments `post`, with the side
    conditions of the schema.  Then `parse_step` delivers `Start(Step)`, one text/component event per segment
    of `pre`, the error `division-by-zero` (error, parse) labelled EXACTLY from the start of `a` to the end of
    `b` — inside the construct —, the ingredient, one text/component event per segment of `post`,
    `End(Step)`: the diagnostic is emitted wherever the construct stands and nothing else is. -/
theorem C07_planted_zero_denominator (pre post : List SegX) (s : BP α) (tpre tpost : List Tok) (tm : Tok)
    (nameT : List Tok) (tob a sl b tcb : Tok)
    (hspre : Spells tpre (pre.flatMap SegX.spell)) (hspost : Spells tpost (post.flatMap SegX.spell))
    (ht : s.toks = tpre ++ (c07p_comp tm [] nameT tob [a, sl, b] tcb ++ tpost)) (hc : s.cur = 0)
    (hp : s.panic = none) (hw : WF s.toks)
    (hpre : segsFollowT s.cs s.ext pre (c07p_comp tm [] nameT tob [a, sl, b] tcb ++ post.flatMap SegX.spell) = true)
    (hpost : segsFollowT s.cs s.ext post [] = true)
    (sh : PlShape s.ext .at tm [] nameT tob [a, sl, b] tcb tpost)
    (halias : s.ext.has Gen.EXT_COMPONENT_ALIAS = false ∨ ∀ t ∈ nameT, t.kind ≠ .or)
    (hname : (buildText (offAt s.toks (tpre.length + 1)) nameT).isTextEmpty s.cs = false)
    (ha : a.kind = .int) (hsl : sl.kind = .slash) (hb : b.kind = .int)
    (hau : digitsToNat a.text ≤ u32Max) (hb0 : digitsToNat b.text = 0) :
    ∃ (evs1 evs2 : List (Ev α)) (q : Loc (PQuantity α)) (arr : Array (Ev α)),
      parseStep s = ((), { s with cur := s.toks.length, evs := arr }) ∧
      arr.toList = s.evs.toList ++ [.start .step] ++ evs1 ++
        [.error ⟨.error, .parse, "division-by-zero", [⟨a.start, b.stop⟩]⟩,
         .ingredient ⟨⟨⟨Modifiers.empty, Span.pos (offAt s.toks (tpre.length + 1))⟩, none,
           buildText (offAt s.toks (tpre.length + 1)) nameT, none, some q, none⟩,
           ⟨offAt s.toks tpre.length,
            offAt s.toks (tpre.length + (c07p_comp tm [] nameT tob [a, sl, b] tcb).length)⟩⟩] ++
        evs2 ++ [.stop .step] ∧
      SegsXEvs s.cs pre evs1 ∧ SegsXEvs s.cs post evs2 := by
  have hz := (C07_zero_denominator (α := α) a sl b ha hsl hb hau hb0 [] [a, sl, b] [] (by simp) (by simp) rfl rfl
    (by simp [notWsComment, isWsComment, ha, hsl, hb]) (s.ext.has Gen.EXT_RANGE_VALUES)
    (Or.inr (by intro t ht'; simp at ht'; rcases ht' with rfl | rfl | rfl <;> simp [ha, hsl, hb]))).2.2
  simp only [List.nil_append, List.append_nil] at hz
  have hB := c07p_value_error_piece (α := α) s.toks tpre tpost s.cs s.ext tm nameT tob a [sl, b] tcb _ ht hw sh halias hname
    (by simp [isWsComment, ha]) (by simp [ha])
    (by intro t ht'; simp at ht'; rcases ht' with rfl | rfl | rfl <;> simp [ha, hsl, hb]) hz
  obtain ⟨evs1, evsB, evs2, arr, h1, h2, h3, ⟨q, hq, -⟩, h5⟩ :=
    c07p_planted_step pre post _ _ s tpre tpost hspre hspost ht hc hp hw.run hpre hpost hB
  subst hq
  exact ⟨evs1, evs2, q, arr, h1, h2, h3, h5⟩

/-- **From the events to the report.**  A parse-stage error EVENT anywhere in the event stream of an input
    (e.g. the diagnostic of a planted construct, by the theorems above) is in the report of `parse_events`,
    and the result has no output (`C07_parse_error_suppresses`). -/
theorem C07_planted_error_reported (env : Env) (input : Str) (evs : List (Ev α)) (s : Col α) (d : Diag)
    (h : Ev.error d ∈ evs) (hst : d.stage = .parse) :
    d ∈ (parseEventsLoop env input evs s).diags.toList ∧ (parseEventsLoop env input evs s).output = none :=
  c07p_error_event_reported env input evs s d h hst

/-! non-vacuity of the placement theorems: the step `Mix @x{1/0} now` (every extension off) -/
def C07_plToks : List Tok :=
  [⟨.word, "Mix".toList, 0⟩, ⟨.ws, [' '], 3⟩, ⟨.at, ['@'], 4⟩, ⟨.word, ['x'], 5⟩, ⟨.openBrace, ['{'], 6⟩,
   ⟨.int, ['1'], 7⟩, ⟨.slash, ['/'], 8⟩, ⟨.int, ['0'], 9⟩, ⟨.closeBrace, ['}'], 10⟩, ⟨.ws, [' '], 11⟩,
   ⟨.word, "now".toList, 12⟩]
def C07_plState : BP Rat := ⟨C07_plToks, 0, ⟨0⟩, toyCharSpec, #[], none⟩
def C07_plPre : List SegX := [.text [tk .word "Mix".toList, tk .ws [' ']]]
def C07_plPost : List SegX := [.text [tk .ws [' '], tk .word "now".toList]]
theorem C07_plWF : WF C07_plToks :=
  WF.of_chain (off := 0) (by simp [C07_plToks, Chain, Tok.stop, utf8Len]; decide)
    (by intro t ht; simp [C07_plToks] at ht; rcases ht with rfl | rfl | rfl | rfl | rfl | rfl | rfl | rfl | rfl | rfl | rfl <;> simp)
    (by simp [C07_plToks])
theorem C07_plShape : PlShape C07_plState.ext .at ⟨.at, ['@'], 4⟩ [] [⟨.word, ['x'], 5⟩] ⟨.openBrace, ['{'], 6⟩
    [⟨.int, ['1'], 7⟩, ⟨.slash, ['/'], 8⟩, ⟨.int, ['0'], 9⟩] ⟨.closeBrace, ['}'], 10⟩
    [⟨.ws, [' '], 11⟩, ⟨.word, "now".toList, 12⟩] :=
  ⟨rfl, Or.inl ⟨rfl, rfl⟩, by decide, rfl, by decide, rfl, by intro t h; cases h; decide⟩
example : ∃ (evs1 evs2 : List (Ev Rat)) (q : Loc (PQuantity Rat)) (arr : Array (Ev Rat)),
    parseStep C07_plState = ((), { C07_plState with cur := 11, evs := arr }) ∧
    arr.toList = [.start .step] ++ evs1 ++
      [.error ⟨.error, .parse, "division-by-zero", [⟨7, 10⟩]⟩,
       .ingredient ⟨⟨⟨Modifiers.empty, Span.pos 5⟩, none, buildText 5 [⟨.word, ['x'], 5⟩], none, some q, none⟩,
         ⟨4, 11⟩⟩] ++ evs2 ++ [.stop .step] ∧
    SegsXEvs toyCharSpec C07_plPre evs1 ∧ SegsXEvs toyCharSpec C07_plPost evs2 :=
  C07_planted_zero_denominator C07_plPre C07_plPost C07_plState
    [⟨.word, "Mix".toList, 0⟩, ⟨.ws, [' '], 3⟩] [⟨.ws, [' '], 11⟩, ⟨.word, "now".toList, 12⟩]
    ⟨.at, ['@'], 4⟩ [⟨.word, ['x'], 5⟩] ⟨.openBrace, ['{'], 6⟩ ⟨.int, ['1'], 7⟩ ⟨.slash, ['/'], 8⟩ ⟨.int, ['0'], 9⟩
    ⟨.closeBrace, ['}'], 10⟩ (by decide) (by decide) rfl rfl rfl C07_plWF (by decide) (by decide) C07_plShape
    (Or.inl rfl) (by decide) rfl rfl rfl (by decide) (by decide)
/-! the error event reaches the report, wherever it stands among the events, and there is no output -/
example : (⟨.error, .parse, "division-by-zero", [⟨7, 10⟩]⟩ : Diag) ∈
      (parseEventsLoop (α := Rat) C07_coreEnv [] [.start .step, .text (buildText 0 [⟨.word, "Mix".toList, 0⟩]),
        .error ⟨.error, .parse, "division-by-zero", [⟨7, 10⟩]⟩, .stop .step] {}).diags.toList ∧
    (parseEventsLoop (α := Rat) C07_coreEnv [] [.start .step, .text (buildText 0 [⟨.word, "Mix".toList, 0⟩]),
        .error ⟨.error, .parse, "division-by-zero", [⟨7, 10⟩]⟩, .stop .step] {}).output = none :=
  C07_planted_error_reported C07_coreEnv [] _ {} _ (by simp) rfl

/-! the other four constructs, each after the text `Use ` and before `.`:
    `Use #pot{1%kg}.`, `Use ~{5}.`, `Use @&&x{}.` (COMPONENT_MODIFIERS), `Use @{}.` — shapes and side conditions -/
def C07_plUse : List Tok := [⟨.word, "Use".toList, 0⟩, ⟨.ws, [' '], 3⟩]
example : PlShape ⟨0⟩ .hash ⟨.hash, ['#'], 4⟩ [] [⟨.word, "pot".toList, 5⟩] ⟨.openBrace, ['{'], 8⟩
    ([⟨.int, ['1'], 9⟩] ++ ⟨.percent, ['%'], 10⟩ :: [⟨.word, "kg".toList, 11⟩]) ⟨.closeBrace, ['}'], 13⟩
    [⟨.dot, ['.'], 14⟩] :=
  ⟨rfl, Or.inl ⟨rfl, rfl⟩, by decide, rfl, by decide, rfl, by intro t h; cases h; decide⟩
example : (∃ v, numOrRange (α := Rat) ((⟨0⟩ : Ext).has Gen.EXT_RANGE_VALUES) [⟨.int, ['1'], 9⟩] = some (.ok v)) ∧
    (buildText 11 [⟨.word, "kg".toList, 11⟩]).isTextEmpty toyCharSpec = false ∧
    (buildText (offAt (C07_plUse ++ [⟨.hash, ['#'], 4⟩, ⟨.word, "pot".toList, 5⟩]) (C07_plUse.length + 1))
      [⟨.word, "pot".toList, 5⟩]).isTextEmpty toyCharSpec = false := ⟨⟨_, rfl⟩, by decide, by decide⟩
example : PlShape ⟨0⟩ .tilde ⟨.tilde, ['~'], 4⟩ [] [] ⟨.openBrace, ['{'], 5⟩ [⟨.int, ['5'], 6⟩]
    ⟨.closeBrace, ['}'], 7⟩ [⟨.dot, ['.'], 8⟩] :=
  ⟨rfl, Or.inl ⟨rfl, rfl⟩, by decide, rfl, by decide, rfl, by intro t h; cases h; decide⟩
example : ∃ v, numOrRange (α := Rat) ((⟨0⟩ : Ext).has Gen.EXT_RANGE_VALUES) [⟨.int, ['5'], 6⟩] = some (.ok v) := ⟨_, rfl⟩
example : PlShape ⟨Gen.EXT_COMPONENT_MODIFIERS⟩ .at ⟨.at, ['@'], 4⟩ [⟨.and, ['&'], 5⟩, ⟨.and, ['&'], 6⟩]
    [⟨.word, ['x'], 7⟩] ⟨.openBrace, ['{'], 8⟩ [] ⟨.closeBrace, ['}'], 9⟩ [⟨.dot, ['.'], 10⟩] :=
  ⟨rfl, Or.inr ⟨rfl, by decide, by intro x h; cases h; decide⟩, by decide, rfl, by decide, rfl,
    by intro t h; cases h; decide⟩
example : SimpleMods [⟨.and, ['&'], 5⟩, ⟨.and, ['&'], 6⟩] ∧
    (foldMods Modifiers.empty [⟨.and, ['&'], 5⟩, ⟨.and, ['&'], 6⟩]).2 = 1 := ⟨by unfold SimpleMods; decide, rfl⟩
example : PlShape ⟨0⟩ .at ⟨.at, ['@'], 4⟩ [] [] ⟨.openBrace, ['{'], 5⟩ [] ⟨.closeBrace, ['}'], 6⟩ [⟨.dot, ['.'], 7⟩] :=
  ⟨rfl, Or.inl ⟨rfl, rfl⟩, by decide, rfl, by decide, rfl, by intro t h; cases h; decide⟩
example : (buildText 5 []).isTextEmpty toyCharSpec = true := rfl

/-! ### Soundness under every extension set: C02's `UsesNone` premise from the abstract document (wave 5) -/

/-- **The syntactic premise of C02, from the abstract document (token form).**  For a well-formed document of
    steps (the hypotheses of `C07_sound_recipe_steps`, extension flags arbitrary), if for every step the list of
    SPEC tokens it is printed from (`d.1.flatMap SegX.spell`: the abstract step, no lexing and no printing
    involved) satisfies the decidable check `stepCore` — every marker token `@ # ~` in it starts a component
    without modifier character, without `|` in the name, whose amount has no `-` and a shape the advanced-units
    reader declines, and every timer has an amount — then every block of the token stream of the PRINTED TEXT
    satisfies `UsesNone`: the premise `hu` of `C07_sound_recipe_steps_all_extensions` / `C02_parse_ext_irrelevant`
    holds.  (`stepCore` reads token kinds only, so it has the same value on the lexer's tokens of a block and on
    the spec tokens the block spells; a step block does not start with `>>`, which settles the `>>` clause of
    `UsesNone`.) -/
theorem C07_uses_none_from_document (env : Env) (pre : List Tok) (doc : List (List SegX × List Tok))
    (hpre : blankLinesOK pre = true) (hok : ∀ d ∈ doc, (DocItem.step d.1).ok env.cs env.ext = true)
    (hseps : sepsOK (doc.map (·.2)) = true)
    (hw : WellSpelled env.cs (pre ++ docSpec (stepsDoc doc)))
    (hfm : parseFrontmatter env.cs (render (pre ++ docSpec (stepsDoc doc))) = none)
    (hc : ∀ d ∈ doc, stepCore (d.1.flatMap SegX.spell) = true) :
    UsesNoneInput env.cs (render (pre ++ docSpec (stepsDoc doc))) = true :=
  c07u_usesNoneInput_of_spec env.cs env.ext pre doc hpre hok hseps hw hfm hc

/-- **… from a structural predicate on the segments.**  For a well-formed list of segments (`segsXOK`), if every
    segment satisfies `SegX.coreSyntax` — a text run: nothing to ask; an ingredient / cookware item, with braces
    or as a single word: no modifier, no alias, a name that does not start with a modifier character
    (`@ & ? + -`) and has no `|`, no marker (`@ # ~`) inside the note, and the amount, if any, is not a range, has
    no `-` in its unit and, when it has no unit, has a shape the advanced-units reader declines (`advNone` of the
    amount's own tokens); a timer: the same for its name, and it HAS an amount; an intermediate reference
    `@&(~1)x{}` is not core — then the spec tokens of the step satisfy `stepCore`.  Second and third part:
    structural sufficient conditions for the unit-less clause — a text amount that starts with a word
    (`{a pinch}`), a number with nothing between it and the `}` (`{2}`, `{=1/2}`). -/
theorem C07_uses_none_from_segments (cs : CharSpec) (ext : Ext) (segs : List SegX)
    (hok : segsXOK cs ext segs = true) (hc : ∀ sg ∈ segs, sg.coreSyntax = true) :
    stepCore (segs.flatMap SegX.spell) = true ∧
    (∀ (q : AQty) (p : QPad) (l : List Tok), q.ok cs = true → p.ok cs = true → q.unit = none → q.val = .text l →
      l.head?.any (fun t => t.kind == .word) = true → q.coreSyntax p = true) ∧
    (∀ (q : AQty) (p : QPad) (n : ANum), q.ok cs = true → p.ok cs = true → q.unit = none → q.val = .num n →
      p.v.post = [] → q.coreSyntax p = true) := by
  refine ⟨c07u_stepCore_of_segments cs ext segs hok hc, ?_, ?_⟩
  · intro q p l hq hp hu hv hw
    simp only [AQty.coreSyntax, hu, hv, AVal.isRange, Bool.not_false, Bool.true_and]
    exact c07u_advNone_text_word q p hq hp hu l hv hw
  · intro q p n hq hp hu hv hpost
    simp only [AQty.coreSyntax, hu, hv, AVal.isRange, Bool.not_false, Bool.true_and]
    exact c07u_advNone_num q p hq hp hu n hv hpost

/-- **… under EVERY extension set, all hypotheses on the abstract document.**
    `C07_sound_recipe_steps_all_extensions` with BOTH premises of C02 replaced by predicates on the segments of
    the abstract document: `hu` (a check on the token stream of the printed text) by `SegX.coreSyntax`, `hconv` (a
    check on the events of the printed text) by `SegX.convCore`.  For a well-formed document of steps (checked
    against `env`, ADVANCED_UNITS and INLINE_QUANTITIES off) whose segments use none of the extension syntaxes
    and whose text runs / timer amounts are as `SegX.convCore` says, `CooklangParser::parse` of the printed text
    reports NO diagnostic, is valid and reaches no panic site under ALL raw extension patterns `e`. -/
theorem C07_sound_recipe_steps_all_extensions_abs (env : Env) (hws : env.cs.uws ' ' = true)
    (pre : List Tok) (doc : List (List SegX × List Tok))
    (hadv : env.ext.has Gen.EXT_ADVANCED_UNITS = false) (hinl : env.ext.has Gen.EXT_INLINE_QUANTITIES = false)
    (hpre : blankLinesOK pre = true) (hok : ∀ d ∈ doc, (DocItem.step d.1).ok env.cs env.ext = true)
    (hsimple : ∀ d ∈ doc, d.1.all SegX.simple = true) (hseps : sepsOK (doc.map (·.2)) = true)
    (hw : WellSpelled env.cs (pre ++ docSpec (stepsDoc doc)))
    (hfm : parseFrontmatter env.cs (render (pre ++ docSpec (stepsDoc doc))) = none)
    (hc : ∀ d ∈ doc, ∀ sg ∈ d.1, sg.coreSyntax = true)
    (hx : ∀ d ∈ doc, ∀ sg ∈ d.1, sg.convCore α env) (e : Ext) :
    (parseRecipe (α := α) { env with ext := e } (render (pre ++ docSpec (stepsDoc doc)))).diags = #[] ∧
    (parseRecipe (α := α) { env with ext := e } (render (pre ++ docSpec (stepsDoc doc)))).isValid = true ∧
    (parseRecipe (α := α) { env with ext := e } (render (pre ++ docSpec (stepsDoc doc)))).panic = none :=
  C07_sound_recipe_steps_all_extensions_abs_partial env hws pre doc hadv hinl hpre hok hsimple hseps hw hfm
    (c07u_usesNoneInput_of_segments env.cs env.ext pre doc hpre hok hseps hw hfm hc) hx e

/-- the same with the more general token form of the syntactic premise (`stepCore` of the spec tokens of each
    step, e.g. for a note that mentions `@` in a harmless way, which `SegX.coreSyntax` refuses) -/
theorem C07_sound_recipe_steps_all_extensions_abs_tokens (env : Env) (hws : env.cs.uws ' ' = true)
    (pre : List Tok) (doc : List (List SegX × List Tok))
    (hadv : env.ext.has Gen.EXT_ADVANCED_UNITS = false) (hinl : env.ext.has Gen.EXT_INLINE_QUANTITIES = false)
    (hpre : blankLinesOK pre = true) (hok : ∀ d ∈ doc, (DocItem.step d.1).ok env.cs env.ext = true)
    (hsimple : ∀ d ∈ doc, d.1.all SegX.simple = true) (hseps : sepsOK (doc.map (·.2)) = true)
    (hw : WellSpelled env.cs (pre ++ docSpec (stepsDoc doc)))
    (hfm : parseFrontmatter env.cs (render (pre ++ docSpec (stepsDoc doc))) = none)
    (hc : ∀ d ∈ doc, stepCore (d.1.flatMap SegX.spell) = true)
    (hx : ∀ d ∈ doc, ∀ sg ∈ d.1, sg.convCore α env) (e : Ext) :
    (parseRecipe (α := α) { env with ext := e } (render (pre ++ docSpec (stepsDoc doc)))).diags = #[] ∧
    (parseRecipe (α := α) { env with ext := e } (render (pre ++ docSpec (stepsDoc doc)))).isValid = true ∧
    (parseRecipe (α := α) { env with ext := e } (render (pre ++ docSpec (stepsDoc doc)))).panic = none :=
  C07_sound_recipe_steps_all_extensions_abs_partial env hws pre doc hadv hinl hpre hok hsimple hseps hw hfm
    (C07_uses_none_from_document env pre doc hpre hok hseps hw hfm hc) hx e

/-! non-vacuity: the segments of `C07_coreDoc` (`Mix @salt{} for ~{10%min}.`) satisfy both forms of the
    predicate; the whole theorem applies to it: no diagnostic under EVERY extension set -/
example : ∀ d ∈ C07_coreDoc, ∀ sg ∈ d.1, sg.coreSyntax = true := by decide
example : ∀ d ∈ C07_coreDoc, stepCore (d.1.flatMap SegX.spell) = true := by decide
example (e : Ext) :
    (parseRecipe (α := Rat) { C07_coreEnv with ext := e } "Mix @salt{} for ~{10%min}.\n".toList).diags = #[] := by
  have hx : ∀ d ∈ C07_coreDoc, ∀ sg ∈ d.1, sg.convCore Rat C07_coreEnv := by
    intro d hd sg hsg
    simp only [C07_coreDoc, List.mem_cons, List.not_mem_nil, or_false] at hd
    subst hd
    simp only [List.mem_cons, List.not_mem_nil, or_false] at hsg
    rcases hsg with rfl | rfl | rfl | rfl | rfl
    · exact ⟨by decide, rts_no_digit_no_inline _ _ _ _ (by decide)⟩
    · trivial
    · exact ⟨by decide, rts_no_digit_no_inline _ _ _ _ (by decide)⟩
    · intro q hq
      cases hq
      exact ⟨by decide, fun u hu => by cases hu; decide⟩
    · exact ⟨by decide, rts_no_digit_no_inline _ _ _ _ (by decide)⟩
  have h := (C07_sound_recipe_steps_all_extensions_abs (α := Rat) C07_coreEnv (by decide) [] C07_coreDoc (by decide)
    (by decide) (by decide) (by decide) (by decide) (by decide) (by decide) (by decide) (by decide) hx e).1
  have hr : render ([] ++ docSpec (stepsDoc C07_coreDoc)) = "Mix @salt{} for ~{10%min}.\n".toList := by decide
  rw [hr] at h
  exact h

/-! more shapes that are core syntax: `Add @flour{2%cups}(sifted), @salt{a pinch}, @eggs{2} to #pot` — a unit, a
    note, a unit-less text amount starting with a word, a unit-less number, the single-word form; and shapes that
    are not: a modifier, `{2 cups}` (a unit for ADVANCED_UNITS), a timer without amount, a `-` in the unit -/
def C07_coreSegs2 : List SegX :=
  [.text [tk .word "Add".toList, tk .ws [' ']],
   .ingredient { name := [tk .word "flour".toList],
                 qty := some { val := .num (.int ['2']), unit := some [tk .word "cups".toList] },
                 note := some [tk .word "sifted".toList] } {},
   .text [tk .punct [','], tk .ws [' ']],
   .ingredient { name := [tk .word "salt".toList],
                 qty := some { val := .text [tk .word ['a'], tk .ws [' '], tk .word "pinch".toList] } } {},
   .text [tk .punct [','], tk .ws [' ']],
   .ingredient { name := [tk .word "eggs".toList], qty := some { val := .num (.int ['2']) } } {},
   .text [tk .ws [' '], tk .word "to".toList, tk .ws [' ']],
   .cookware1 { name := [tk .word "pot".toList] }]
example : render (C07_coreSegs2.flatMap SegX.spell) =
    "Add @flour{2%cups}(sifted), @salt{a pinch}, @eggs{2} to #pot".toList := by decide
example : segsXOK toyCharSpec ⟨0⟩ C07_coreSegs2 = true ∧ (∀ sg ∈ C07_coreSegs2, sg.coreSyntax = true) := by decide
def C07_twoCups : AQty := { val := .text [tk .int ['2'], tk .ws [' '], tk .word "cups".toList] }
def C07_minIsh : AQty :=
  { val := .num (.int ['5']), unit := some [tk .word "min".toList, tk .minus ['-'], tk .word "ish".toList] }
example : (SegX.ingredient { mods := [.plus], name := [tk .word "salt".toList] } {}).coreSyntax = false ∧
    (SegX.ingredient { name := [tk .word "salt".toList], qty := some C07_twoCups } {}).coreSyntax = false ∧
    (SegX.timer C01_exTimerRest {}).coreSyntax = false ∧
    (SegX.timer { qty := some C07_minIsh } {}).coreSyntax = false := by
  decide

/-! ### The `>>` deprecation notice: where its labels are (wave 5) -/

/-- **The `>>` notice is placed on the offending lines** (completes `C07_sound_recipe_doc`, which only COUNTS
    the labels).  Same hypotheses: a well-formed document of steps, section lines, plain `>>` lines and text
    paragraphs, printed after the blank lines `pre`.  Then the diagnostics of `parse` are exactly: nothing when
    the document has no `>>` line, otherwise the ONE warning `meta-deprecated` (analysis stage) whose labels
    are `c07n_labels (byte length of pre) doc` — a list computed from the ABSTRACT document, one label per
    `>>` line, in document order — and for EVERY `>>` line of the document, i.e. every way of writing
    `doc = A ++ (>> p.a key p.b : p.c value p.d, sep) :: B`, the label whose index is the number of `>>` lines
    in `A` is, in BYTE OFFSETS OF THE PRINTED TEXT,
    * start = byte length of the text printed up to and including that line's `>>` token and the block
      comments `[- … -]` that follow the `>>` immediately (none in the usual case);
    * stop = byte length of the text printed up to the end of that line, without the block comments the line
      ends with (none in the usual case);
    so it begins at or after the end of the `>>` token, is not reversed, ends at or before the end of the line
    (before the newline that separates it from what follows) and within the input: the label lies ON the line
    of the offending entry.  When no block comment directly follows `>>` and none ends the line (padding is
    whitespace or absent) the label is exactly the line without its `>>` token: from `offset of the line + 2`
    to the end of the line, leading and trailing whitespace included.
    (This is `⟨key.span().start(), value.span().end()⟩` of `RecipeCollector::metadata`: `Text::span` runs
    from the first to the last text fragment, whitespace is part of a fragment, a block comment is not and
    splits fragments — checked against the real parser on `>>[- c -] k [- m -] : [- n -] v [- d -]`, label
    ` k [- m -] : [- n -] v `.) -/
theorem C07_meta_deprecated_spans (env : Env) (pre : List Tok) (doc : List (DocItem × List Tok))
    (hpre : blankLinesOK pre = true) (hok : ∀ d ∈ doc, d.1.ok env.cs env.ext = true)
    (hsimple : ∀ d ∈ doc, d.1.simple = true) (hplain : ∀ d ∈ doc, d.1.plain env)
    (hext : ∀ d ∈ doc, d.1.extOK α env)
    (hseps : sepsOK (doc.map (·.2)) = true) (hw : WellSpelled env.cs (pre ++ docSpec doc))
    (hfm : parseFrontmatter env.cs (render (pre ++ docSpec doc)) = none) :
    (parseRecipe (α := α) env (render (pre ++ docSpec doc))).diags =
      (if ((doc.map (·.1)).filter DocItem.isMeta).length = 0 then #[]
       else #[⟨.warning, .analysis, "meta-deprecated", c07n_labels (utf8Len (render pre)) doc⟩]) ∧
    (c07n_labels (utf8Len (render pre)) doc).length = ((doc.map (·.1)).filter DocItem.isMeta).length ∧
    ∀ (A B : List (DocItem × List Tok)) (k v : List Tok) (p : MPad) (sep : List Tok),
      doc = A ++ (DocItem.metaLine k v p, sep) :: B →
      ∃ l : Span,
        (c07n_labels (utf8Len (render pre)) doc)[((A.map (·.1)).filter DocItem.isMeta).length]? = some l ∧
        l.start = utf8Len (render (pre ++ docSpec A ++ ([tk .metaStart ['>', '>']] ++ p.a.takeWhile c07n_isBC))) ∧
        l.stop = utf8Len (render (pre ++ docSpec A ++ ([tk .metaStart ['>', '>']] ++ p.a ++ k ++ p.b ++
          [tk .colon [':']] ++ p.c ++ v ++ c07n_dropTrailBC p.d))) ∧
        utf8Len (render (pre ++ docSpec A)) + 2 ≤ l.start ∧ l.start ≤ l.stop ∧
        l.stop ≤ utf8Len (render (pre ++ docSpec A ++ spellMeta k v p)) ∧
        utf8Len (render (pre ++ docSpec A ++ spellMeta k v p)) ≤ utf8Len (render (pre ++ docSpec doc)) ∧
        (p.a.head?.all (fun t => !c07n_isBC t) = true → p.d.getLast?.all (fun t => !c07n_isBC t) = true →
          l = ⟨utf8Len (render (pre ++ docSpec A)) + 2, utf8Len (render (pre ++ docSpec A ++ spellMeta k v p))⟩) := by
  have hl := c07n_labels_length doc (utf8Len (render pre))
  refine ⟨?_, hl, ?_⟩
  · rw [c07n_parseRecipe_doc (α := α) env pre doc hpre hok hsimple hplain hext hseps hw hfm, deprecation, ← hl]
    cases c07n_labels (utf8Len (render pre)) doc <;> simp
  · intro A B k v p sep hdoc
    subst hdoc
    exact c07n_labels_line pre A B k v p sep

/-- **… and with references**: the same for every document accepted by `C07_sound_recipe_doc_refs`
    (components may be correctly written references `@&name` / `#&name` / `@&(~1)name{}`). -/
theorem C07_meta_deprecated_spans_refs (env : Env) (pre : List Tok) (doc : List (DocItem × List Tok))
    (hpre : blankLinesOK pre = true) (hok : ∀ d ∈ doc, d.1.ok env.cs env.ext = true)
    (hlock : ∀ d ∈ doc, d.1.lockOK = true) (hplain : ∀ d ∈ doc, d.1.plain env)
    (hext : ∀ d ∈ doc, d.1.extOK α env)
    (hrefs : xOK (α := α) env {} [] ⟨none, []⟩ 1 (doc.map (fun d => d.1.x)))
    (hseps : sepsOK (doc.map (·.2)) = true) (hw : WellSpelled env.cs (pre ++ docSpec doc))
    (hfm : parseFrontmatter env.cs (render (pre ++ docSpec doc)) = none) :
    (parseRecipe (α := α) env (render (pre ++ docSpec doc))).diags =
      (if ((doc.map (·.1)).filter DocItem.isMeta).length = 0 then #[]
       else #[⟨.warning, .analysis, "meta-deprecated", c07n_labels (utf8Len (render pre)) doc⟩]) ∧
    (c07n_labels (utf8Len (render pre)) doc).length = ((doc.map (·.1)).filter DocItem.isMeta).length ∧
    ∀ (A B : List (DocItem × List Tok)) (k v : List Tok) (p : MPad) (sep : List Tok),
      doc = A ++ (DocItem.metaLine k v p, sep) :: B →
      ∃ l : Span,
        (c07n_labels (utf8Len (render pre)) doc)[((A.map (·.1)).filter DocItem.isMeta).length]? = some l ∧
        l.start = utf8Len (render (pre ++ docSpec A ++ ([tk .metaStart ['>', '>']] ++ p.a.takeWhile c07n_isBC))) ∧
        l.stop = utf8Len (render (pre ++ docSpec A ++ ([tk .metaStart ['>', '>']] ++ p.a ++ k ++ p.b ++
          [tk .colon [':']] ++ p.c ++ v ++ c07n_dropTrailBC p.d))) ∧
        utf8Len (render (pre ++ docSpec A)) + 2 ≤ l.start ∧ l.start ≤ l.stop ∧
        l.stop ≤ utf8Len (render (pre ++ docSpec A ++ spellMeta k v p)) ∧
        utf8Len (render (pre ++ docSpec A ++ spellMeta k v p)) ≤ utf8Len (render (pre ++ docSpec doc)) ∧
        (p.a.head?.all (fun t => !c07n_isBC t) = true → p.d.getLast?.all (fun t => !c07n_isBC t) = true →
          l = ⟨utf8Len (render (pre ++ docSpec A)) + 2, utf8Len (render (pre ++ docSpec A ++ spellMeta k v p))⟩) := by
  have hl := c07n_labels_length doc (utf8Len (render pre))
  refine ⟨?_, hl, ?_⟩
  · rw [c07n_parseRecipe_doc_refs (α := α) env pre doc hpre hok hlock hplain hext hrefs hseps hw hfm, deprecation, ← hl]
    cases c07n_labels (utf8Len (render pre)) doc <;> simp
  · intro A B k v p sep hdoc
    subst hdoc
    exact c07n_labels_line pre A B k v p sep

/-! non-vacuity, and the concrete labels.  `C01_exFullDoc` is `>>source: grandma` (17 bytes, offset 0), a step,
    `== Main course ==`, a step, `>> source: book` (its hypotheses under `C01_stepsEnv`: the `example`s after
    `C07_sound_recipe_doc`, and of Props/C01.lean, repeated here).  The labels computed from the abstract
    document are `[2, 17)` = `source: grandma` and `[146, 159)` = ` source: book` (the blank after `>>` is
    inside the label, the newline after the line is not); `parse` reports exactly the notice with these two. -/
set_option maxRecDepth 4000 in
example : c07n_labels 0 C01_exFullDoc = [⟨2, 17⟩, ⟨146, 159⟩] ∧
    utf8Len (render (docSpec C01_exFullDoc)) = 160 := ⟨by decide, by decide⟩
example : (parseRecipe (α := Rat) C01_stepsEnv (render (docSpec C01_exFullDoc))).diags =
    #[⟨.warning, .analysis, "meta-deprecated", [⟨2, 17⟩, ⟨146, 159⟩]⟩] := by
  have hplain : ∀ d ∈ C01_exFullDoc, d.1.plain C01_stepsEnv := by
    have hk : StdKey.ofStr (String.ofList (leafText [tk .word "source".toList])) = some .source := by decide
    intro d hd
    simp only [C01_exFullDoc, List.mem_cons, List.not_mem_nil, or_false] at hd
    rcases hd with rfl | rfl | rfl | rfl | rfl <;>
      first
      | trivial
      | (refine ⟨by decide, fun sk h => ?_⟩
         rw [hk] at h
         cases h
         exact ⟨by simp [C01_stepsEnv], by decide⟩)
  have hext : ∀ d ∈ C01_exFullDoc, d.1.extOK Rat C01_stepsEnv := by
    intro d hd
    simp only [C01_exFullDoc, List.mem_cons, List.not_mem_nil, or_false] at hd
    rcases hd with rfl | rfl | rfl | rfl | rfl <;> try trivial
    all_goals
      intro sg _
      cases sg <;> first | trivial | (intro h; exact absurd h (by decide))
  have h := (C07_meta_deprecated_spans (α := Rat) C01_stepsEnv [] C01_exFullDoc (by decide) (by decide) (by decide)
    hplain hext (by decide) (by decide) (by decide)).1
  simp only [List.nil_append] at h
  rw [h]
  decide
/-! (`C07_meta_deprecated_spans_refs` has the hypotheses of `C07_sound_recipe_doc_refs`, shown satisfiable by
    `C01_exRefsDoc` in the examples after that theorem; that document has no `>>` line, so its label list is
    empty.) -/
example : c07n_labels 0 C01_exRefsDoc = [] := by decide
/-- the label formula on a line with block comments, as checked against the real parser:
    `>>[- c -] k [- m -] : [- n -] v [- d -]` at offset 0 gets the label `[9, 32)` = ` k [- m -] : [- n -] v ` -/
example : c07n_metaSpan 0 [tk .word ['k']] [tk .word ['v']]
    { a := [tk .blockComment "[- c -]".toList, tk .ws [' ']], b := [tk .ws [' '], tk .blockComment "[- m -]".toList, tk .ws [' ']],
      c := [tk .ws [' '], tk .blockComment "[- n -]".toList, tk .ws [' ']], d := [tk .ws [' '], tk .blockComment "[- d -]".toList] } =
    ⟨9, 32⟩ := by decide

/-! ### Arbitrary placement, a sixth construct: modifiers on a cookware item (wave 5) -/

/-- **Recipe modifier / duplicate modifiers on a cookware item, anywhere in a step** (a further instance of the
    schema `C07_planted_step`; COMPONENT_MODIFIERS).  `#@x{}`, `#&&x{}`: plain modifier tokens `ms`, a non-blank
    name without alias separator, blank braces, standing after `A` and before `rest` (not a `(`) in a block `T`.
    From every parser state at that position one iteration of the step loop consumes exactly the construct and
    pushes EXACTLY: one `duplicate-modifier` (labelled with the span of the modifier tokens) per token that
    repeats an earlier one; then `cookware-recipe-modifier` labelled with the first `@` among the modifiers
    iff there is one (`recipeModEvs`, `C07_cookware_recipe_modifier`); then the cookware item, whose span is
    the byte range of the construct. -/
theorem C07_planted_cookware_modifiers (T A rest : List Tok) (cs : CharSpec) (e : Ext) (tm : Tok)
    (ms nameT : List Tok) (tob : Tok) (Q : List Tok) (tcb : Tok)
    (hT : T = A ++ (c07p_comp tm ms nameT tob Q tcb ++ rest)) (hw : WF T)
    (sh : PlShape e .hash tm ms nameT tob Q tcb rest) (hs : SimpleMods ms)
    (hQ : ∀ t ∈ Q, isPadK t = true)
    (ha : e.has Gen.EXT_COMPONENT_ALIAS = false ∨ ∀ t ∈ nameT, t.kind ≠ .or)
    (hname : (buildText (offAt T (A.length + 1 + ms.length)) nameT).isTextEmpty cs = false) :
    PlPieceAt (α := α) T cs e A ⟨c07p_comp tm ms nameT tob Q tcb, fun evs =>
      evs = List.replicate (foldMods Modifiers.empty ms).2
          (.error ⟨.error, .parse, "duplicate-modifier", [tokensSpan ms]⟩) ++ recipeModEvs ms ++
        [.cookware ⟨⟨simpleFlags ms (offAt T (A.length + 1)),
          buildText (offAt T (A.length + 1 + ms.length)) nameT, none, none, none⟩,
        ⟨offAt T A.length, offAt T (A.length + (c07p_comp tm ms nameT tob Q tcb).length)⟩⟩]⟩ :=
  c07p_cookware_modifiers_piece T A rest cs e tm ms nameT tob Q tcb hT hw sh hs hQ ha hname

/-! non-vacuity: `Use #@x{}.` under COMPONENT_MODIFIERS — the shape, the side conditions, the expected error -/
example : PlShape ⟨Gen.EXT_COMPONENT_MODIFIERS⟩ .hash ⟨.hash, ['#'], 4⟩ [⟨.at, ['@'], 5⟩]
    [⟨.word, ['x'], 6⟩] ⟨.openBrace, ['{'], 7⟩ [] ⟨.closeBrace, ['}'], 8⟩ [⟨.dot, ['.'], 9⟩] :=
  ⟨rfl, Or.inr ⟨rfl, by decide, by intro x h; cases h; decide⟩, by decide, rfl, by decide, rfl,
    by intro t h; cases h; decide⟩
example : SimpleMods [⟨.at, ['@'], 5⟩] ∧ (foldMods Modifiers.empty [⟨.at, ['@'], 5⟩]).2 = 0 ∧
    recipeModEvs (α := Rat) [⟨.at, ['@'], 5⟩] =
      [.error ⟨.error, .parse, "cookware-recipe-modifier", [⟨5, 6⟩]⟩] ∧
    (buildText 6 [⟨.word, ['x'], 6⟩]).isTextEmpty toyCharSpec = false :=
  ⟨by unfold SimpleMods; decide, rfl, rfl, by decide⟩

/-! ### Event-level composition and placement (wave 5, item 3) -/

/-- **An ingredient event, exactly.**  From EVERY collector state the whole ingredient event (`ingredient` of
    the analysis pass: quantity conversion, then either the intermediate-reference branch or `resolve_reference`
    followed by the reference checks, then the push) appends EXACTLY the list `c07v_ingredientEventDiags` — a
    function of the event, the extension set / converter, and of the ingredient table, its location table, the
    two modes and the current section of that state (not of its diagnostics): the scaling-lock warning; then,
    with intermediate data `&(…)`, `inter-ref-conflicting-modifiers` and the intermediate-reference error
    (`interRefDiags`); otherwise `refDiags` of `resolve_reference` and — when it resolved to a table entry — the
    reference checks `c07r_ingrRefDiags` against that entry.  Consequently (for every predicate `p` on
    diagnostics) the event raises a `p`-diagnostic iff the part that runs raises one, and in particular
    * `reference-not-found` is raised IFF the ingredient has no intermediate data, is not `+`, is `&` or the
      define mode is `steps`, and no earlier non-reference ingredient has the same folded name; it is then the
      error (analysis) labelled with the component's span;
    * `unnecessary-scaling-lock` is raised IFF the quantity carries `=` on a text value. -/
theorem C07_ingredient_event_exact (env : Env) (input : Str) (li : Loc (PIngredient α)) (s : Col α) :
    (ingredientA env input li s).2.diags.toList = s.diags.toList ++
      c07v_ingredientEventDiags env input li s.ingredients s.locIngr s.defineMode s.duplicateMode
        s.cur.content s.sections.length ∧
    (∀ p : Diag → Prop,
      (∃ d ∈ c07v_ingredientEventDiags env input li s.ingredients s.locIngr s.defineMode s.duplicateMode
          s.cur.content s.sections.length, p d) ↔
      ((∃ d ∈ c07v_ingrLockDiags li.val.quantity, p d) ∨
       (∃ dd, li.val.inter = some dd ∧
          ((∃ d ∈ c07v_interCheckDiags li.val li.val.modifiers.val, p d) ∨
           (∃ d ∈ interRefDiags s.cur.content s.sections.length dd, p d))) ∨
       (li.val.inter = none ∧
          ((∃ d ∈ refDiags env c07v_ingrInherit (s.ingredients.toList.map (fun x => (x.name, x.modifiers)))
              (c07v_igr0 env li s.defineMode).name li.val.modifiers.val li.span li.val.modifiers.span
              s.defineMode s.duplicateMode, p d) ∨
           (∃ d ∈ c07v_ingrRefCheckDiags env input li (c07v_igr0 env li s.defineMode) s.ingredients s.locIngr
              (c07v_refResult env c07v_ingrInherit (s.ingredients.toList.map (fun x => (x.name, x.modifiers)))
                (c07v_igr0 env li s.defineMode).name li.val.modifiers.val s.defineMode s.duplicateMode), p d))))) ∧
    ((∃ d ∈ c07v_ingredientEventDiags env input li s.ingredients s.locIngr s.defineMode s.duplicateMode
        s.cur.content s.sections.length, d.kind = "reference-not-found") ↔
      (li.val.inter = none ∧ li.val.modifiers.val.contains Modifiers.NEW = false ∧
       sameNameIdx env (s.ingredients.toList.map (fun x => (x.name, x.modifiers)))
         (c07v_igr0 env li s.defineMode).name = none ∧
       (li.val.modifiers.val.contains Modifiers.REF = true ∨ s.defineMode = .steps))) ∧
    (∀ d ∈ c07v_ingredientEventDiags env input li s.ingredients s.locIngr s.defineMode s.duplicateMode
        s.cur.content s.sections.length, d.kind = "reference-not-found" →
      d = ⟨.error, .analysis, "reference-not-found", [li.span]⟩) ∧
    ((∃ d ∈ c07v_ingredientEventDiags env input li s.ingredients s.locIngr s.defineMode s.duplicateMode
        s.cur.content s.sections.length, d.kind = "unnecessary-scaling-lock") ↔
      ∃ q, li.val.quantity = some q ∧ q.val.value.lock.isSome = true ∧ q.val.value.value.val.isText = true) := by
  obtain ⟨k1, k2⟩ := c07v_ingredientEvent_notfound_iff env input li s.ingredients s.locIngr s.defineMode
    s.duplicateMode s.cur.content s.sections.length
  exact ⟨c07v_ingredientA_exact env input li s,
    fun p => c07v_ingredientEvent_split env input li _ _ _ _ _ _ p, k1, k2,
    (c07v_event_lock_iff env input).1 li _ _ _ _ _ _⟩

/-- **A cookware event, exactly.**  From every collector state the whole cookware event appends EXACTLY
    `c07v_cookwareEventDiags`: the scaling-lock warning (raised IFF the amount carries `=`: a lock never has an
    effect on cookware), then `refDiags` of `resolve_reference` (container "cookware item", inheriting `-` and `?`),
    then — when it resolved to a table entry — the reference checks `c07r_cwRefDiags` against that entry; and
    `reference-not-found` is raised IFF the item is not `+`, is `&` or the define mode is `steps`, and no earlier
    non-reference cookware item has the same folded name (then: error, analysis, labelled with the item's span). -/
theorem C07_cookware_event_exact (env : Env) (input : Str) (lc : Loc (PCookware α)) (s : Col α) :
    (cookwareA env input lc s).2.diags.toList = s.diags.toList ++
      c07v_cookwareEventDiags env input lc s.cookware s.locCw s.defineMode s.duplicateMode ∧
    (∀ p : Diag → Prop,
      (∃ d ∈ c07v_cookwareEventDiags env input lc s.cookware s.locCw s.defineMode s.duplicateMode, p d) ↔
      ((∃ d ∈ c07v_cwLockDiags lc.val.quantity, p d) ∨
       (∃ d ∈ refDiags env c07v_cwInherit (s.cookware.toList.map (fun x => (x.name, x.modifiers)))
          (lc.val.name.trimmed env.cs) lc.val.modifiers.val lc.span lc.val.modifiers.span
          s.defineMode s.duplicateMode, p d) ∨
       (∃ d ∈ c07v_cwRefCheckDiags input lc (c07v_cw0 env lc s.defineMode) s.cookware s.locCw
          (c07v_refResult env c07v_cwInherit (s.cookware.toList.map (fun x => (x.name, x.modifiers)))
            (lc.val.name.trimmed env.cs) lc.val.modifiers.val s.defineMode s.duplicateMode), p d))) ∧
    ((∃ d ∈ c07v_cookwareEventDiags env input lc s.cookware s.locCw s.defineMode s.duplicateMode,
        d.kind = "reference-not-found") ↔
      (lc.val.modifiers.val.contains Modifiers.NEW = false ∧
       sameNameIdx env (s.cookware.toList.map (fun x => (x.name, x.modifiers))) (lc.val.name.trimmed env.cs) = none ∧
       (lc.val.modifiers.val.contains Modifiers.REF = true ∨ s.defineMode = .steps))) ∧
    (∀ d ∈ c07v_cookwareEventDiags env input lc s.cookware s.locCw s.defineMode s.duplicateMode,
      d.kind = "reference-not-found" → d = ⟨.error, .analysis, "reference-not-found", [lc.span]⟩) ∧
    ((∃ d ∈ c07v_cookwareEventDiags env input lc s.cookware s.locCw s.defineMode s.duplicateMode,
        d.kind = "unnecessary-scaling-lock") ↔ ∃ q, lc.val.quantity = some q ∧ q.val.lock.isSome = true) := by
  obtain ⟨k1, k2⟩ := c07v_cookwareEvent_notfound_iff env input lc s.cookware s.locCw s.defineMode s.duplicateMode
  exact ⟨c07v_cookwareA_exact env input lc s, fun p => c07v_cookwareEvent_split env input lc _ _ _ _ p, k1, k2,
    (c07v_event_lock_iff env input).2 lc _ _ _ _⟩

/-- **Placement of an event's diagnostics in the final report.**  Every event (all eleven kinds) only APPENDS to
    the diagnostics.  Hence, in an event list `evs1 ++ ev :: evs2` without `Error` events, processed from any
    state `s`: if `ev`, at the state reached after `evs1` (`c07v_runEvents`: the fold of `processEvent`), appends
    the list `l`, then the final diagnostics are `s`'s, then what `evs1` added (`pre`), then `l` as a contiguous
    block in order, then what `evs2` and the end of the loop (`meta-deprecated`) add (`post`).  And inside a step
    block the list `l` of an ingredient / cookware / timer event is the exact event list
    (`c07v_ingredientEventDiags`, `c07v_cookwareEventDiags`, `c07i_timerEventDiags`) read at that state. -/
theorem C07_event_placement (env : Env) (input : Str) (evs1 evs2 : List (Ev α)) (ev : Ev α) (s : Col α) :
    (∀ (ev' : Ev α) (s' : Col α), ∃ l, (processEvent env input ev' s').2.diags.toList = s'.diags.toList ++ l) ∧
    (∀ l : List Diag, (∀ d, Ev.error d ∉ evs1 ++ ev :: evs2) →
      (processEvent env input ev (c07v_runEvents env input evs1 s)).2.diags.toList =
        (c07v_runEvents env input evs1 s).diags.toList ++ l →
      ∃ pre post, (c07v_runEvents env input evs1 s).diags.toList = s.diags.toList ++ pre ∧
        (parseEventsLoop env input (evs1 ++ ev :: evs2) s).diags.toList = s.diags.toList ++ pre ++ l ++ post) ∧
    (∀ (s' : Col α) (items : List Item), s'.block = some (.step items) →
      (∀ li, (processEvent env input (.ingredient li) s').2.diags.toList = s'.diags.toList ++
        c07v_ingredientEventDiags env input li s'.ingredients s'.locIngr s'.defineMode s'.duplicateMode
          s'.cur.content s'.sections.length) ∧
      (∀ lc, (processEvent env input (.cookware lc) s').2.diags.toList = s'.diags.toList ++
        c07v_cookwareEventDiags env input lc s'.cookware s'.locCw s'.defineMode s'.duplicateMode) ∧
      (∀ lt, (processEvent env input (.timer lt) s').2.diags.toList = s'.diags.toList ++
        c07i_timerEventDiags env lt)) :=
  ⟨fun ev' s' => (c07v_DG_processEvent env input ev').out s',
   fun l hne hl => c07v_event_placement env input evs1 evs2 ev s l hne hl,
   fun s' items hb => ⟨fun li => c07v_processEvent_ingredient_step env input li s' items hb,
     fun lc => c07v_processEvent_cookware_step env input lc s' items hb,
     fun lt => c07v_processEvent_timer_step env input lt s' items hb⟩⟩

/-- **A dangling ingredient reference placed anywhere in a step.**  The event list `evs1 ++ ingredient :: evs2`
    contains no `Error` event (so the analysis runs to the end) and is processed from any state `s`; after `evs1`
    the collector is inside a step block; the ingredient has no intermediate data, is not `+`, is `&` (or the define
    mode reached is `steps`), and no non-reference ingredient collected so far has the same name under case
    folding.  Then the final diagnostics are: those of `s`, what `evs1` added, then EXACTLY the event's list
    `c07v_ingredientEventDiags` (read at the state after `evs1`), then what `evs2` and the end of the loop add; and
    `reference-not-found` (error, analysis stage) labelled with the span of the whole component is in the final
    report — whatever precedes and follows the component. -/
theorem C07_reference_not_found_anywhere (env : Env) (input : Str) (evs1 evs2 : List (Ev α))
    (li : Loc (PIngredient α)) (s : Col α) (items : List Item)
    (hne : ∀ d, Ev.error d ∉ evs1 ++ Ev.ingredient li :: evs2)
    (hb : (c07v_runEvents env input evs1 s).block = some (.step items))
    (hi : li.val.inter = none) (hnew : li.val.modifiers.val.contains Modifiers.NEW = false)
    (href : li.val.modifiers.val.contains Modifiers.REF = true ∨
      (c07v_runEvents env input evs1 s).defineMode = .steps)
    (hnone : ∀ (k : Nat) (ig : Ingredient (ScalableValue α)),
      (c07v_runEvents env input evs1 s).ingredients[k]? = some ig →
      ig.modifiers.contains Modifiers.REF = false → nameEq env (c07v_ingrName env li) ig.name = false) :
    (∃ pre post, (parseEventsLoop env input (evs1 ++ Ev.ingredient li :: evs2) s).diags.toList =
      s.diags.toList ++ pre ++
        c07v_ingredientEventDiags env input li (c07v_runEvents env input evs1 s).ingredients
          (c07v_runEvents env input evs1 s).locIngr (c07v_runEvents env input evs1 s).defineMode
          (c07v_runEvents env input evs1 s).duplicateMode (c07v_runEvents env input evs1 s).cur.content
          (c07v_runEvents env input evs1 s).sections.length ++ post) ∧
    (⟨.error, .analysis, "reference-not-found", [li.span]⟩ : Diag) ∈
      (parseEventsLoop env input (evs1 ++ Ev.ingredient li :: evs2) s).diags.toList :=
  c07v_reference_not_found_anywhere env input evs1 evs2 li s items hne hb hi hnew href hnone

/-- **Being inside a step** (discharges the block hypothesis of `C07_reference_not_found_anywhere` from the shape of
    the event list): after any events `pre` that leave the define mode other than `text`, a `Start(Step)` event
    and then any text / ingredient / cookware / timer events (`c07v_isStepInner`), the collector is inside a step
    block — each such event keeps it there. -/
theorem C07_inside_step (env : Env) (input : Str) (pre inner : List (Ev α)) (s : Col α)
    (hdm : (c07v_runEvents env input pre s).defineMode ≠ .text)
    (hall : ∀ ev ∈ inner, c07v_isStepInner ev = true) :
    ∃ items, (c07v_runEvents env input (pre ++ Ev.start .step :: inner) s).block = some (.step items) :=
  c07v_inside_step env input pre inner s hdm hall

/-! non-vacuity.  `C07_evState`: a collector inside a step whose table holds the definition `@salt{1}` (made in a
    step).  `C07_evRefSalt` = `@&salt{=x}(n)`: lock on a text value, a note, text against the numeric definition —
    the event list is lock warning, `note-in-reference`, `text-value-in-ref`.  `C07_evRefPepper` = `@&pepper{}`: no
    definition — exactly `reference-not-found` on the component's span.  `C07_evRefPan` = `#&pan{=2}`: lock warning
    then `reference-not-found`.  And `Mix @salt{} … @&pepper{} … .` as an event list: the hypotheses of the placement
    theorems hold. -/
def C07_evSaltLoc : Loc (PIngredient Rat) :=
  ⟨⟨⟨⟨0⟩, ⟨1, 1⟩⟩, none, C01_txt "salt" 1, none,
    some ⟨⟨⟨⟨.number (.regular 1), ⟨6, 7⟩⟩, none⟩, none⟩, ⟨5, 8⟩⟩, none⟩, ⟨0, 8⟩⟩
def C07_evState : Col Rat :=
  { ingredients := #[⟨"salt".toList, none, some ⟨.linear (.number (.regular 1)), none⟩, none, none,
      ⟨.definition [] true, none⟩, ⟨0⟩⟩],
    locIngr := #[C07_evSaltLoc], block := some (.step [.ingredient 0]) }
def C07_evRefSalt : Loc (PIngredient Rat) :=
  ⟨⟨⟨⟨Modifiers.REF⟩, ⟨11, 12⟩⟩, none, C01_txt "salt" 12, none,
    some ⟨⟨⟨⟨.text ['x'], ⟨18, 19⟩⟩, some ⟨17, 18⟩⟩, none⟩, ⟨16, 20⟩⟩, some (C01_txt "n" 21)⟩, ⟨10, 23⟩⟩
def C07_evRefPepper : Loc (PIngredient Rat) :=
  ⟨⟨⟨⟨Modifiers.REF⟩, ⟨31, 32⟩⟩, none, C01_txt "pepper" 32, none, none, none⟩, ⟨30, 40⟩⟩
def C07_evRefPan : Loc (PCookware Rat) :=
  ⟨⟨⟨⟨Modifiers.REF⟩, ⟨51, 52⟩⟩, C01_txt "pan" 52, none,
    some ⟨⟨⟨.number (.regular 2), ⟨57, 58⟩⟩, some ⟨56, 57⟩⟩, ⟨56, 58⟩⟩, none⟩, ⟨50, 59⟩⟩

example : c07v_ingredientEventDiags C01_toyEnv [] C07_evRefSalt C07_evState.ingredients C07_evState.locIngr
      C07_evState.defineMode C07_evState.duplicateMode C07_evState.cur.content C07_evState.sections.length =
    [⟨.warning, .analysis, "unnecessary-scaling-lock", [⟨18, 19⟩]⟩,
     ⟨.error, .analysis, "note-in-reference", [⟨21, 22⟩, ⟨8, 8⟩]⟩,
     ⟨.warning, .analysis, "text-value-in-ref", [⟨16, 20⟩, ⟨5, 8⟩]⟩] := by decide
example : c07v_ingredientEventDiags C01_toyEnv [] C07_evRefPepper C07_evState.ingredients C07_evState.locIngr
      C07_evState.defineMode C07_evState.duplicateMode C07_evState.cur.content C07_evState.sections.length =
    [⟨.error, .analysis, "reference-not-found", [⟨30, 40⟩]⟩] := by decide
example : c07v_cookwareEventDiags C01_toyEnv [] C07_evRefPan C07_evState.cookware C07_evState.locCw
      C07_evState.defineMode C07_evState.duplicateMode =
    [⟨.warning, .analysis, "unnecessary-scaling-lock", [⟨57, 58⟩]⟩,
     ⟨.error, .analysis, "reference-not-found", [⟨50, 59⟩]⟩] := by decide

/-- `Mix @salt{1}` … -/
def C07_evBefore : List (Ev Rat) := [.start .step, .text (C01_txt "Mix " 0), .ingredient C07_evSaltLoc]
/-- … ` well.` and the end of the step -/
def C07_evAfter : List (Ev Rat) := [.text (C01_txt " well." 40), .stop .step]

example : (∀ d, Ev.error d ∉ C07_evBefore ++ Ev.ingredient C07_evRefPepper :: C07_evAfter) ∧
    (∃ items, (c07v_runEvents C01_toyEnv [] C07_evBefore {}).block = some (.step items)) ∧
    C07_evRefPepper.val.inter = none ∧ C07_evRefPepper.val.modifiers.val.contains Modifiers.NEW = false ∧
    C07_evRefPepper.val.modifiers.val.contains Modifiers.REF = true ∧
    (∀ (k : Nat) (ig : Ingredient (ScalableValue Rat)),
      (c07v_runEvents C01_toyEnv [] C07_evBefore {}).ingredients[k]? = some ig →
      ig.modifiers.contains Modifiers.REF = false →
      nameEq C01_toyEnv (c07v_ingrName C01_toyEnv C07_evRefPepper) ig.name = false) ∧
    (processEvent C01_toyEnv [] (.ingredient C07_evRefPepper) (c07v_runEvents C01_toyEnv [] C07_evBefore {})).2.diags.toList =
      (c07v_runEvents C01_toyEnv [] C07_evBefore {}).diags.toList ++
        [⟨.error, .analysis, "reference-not-found", [⟨30, 40⟩]⟩] := by
  have hI : (c07v_runEvents C01_toyEnv [] C07_evBefore {}).ingredients.toList.map (fun x => x.name) = ["salt".toList] := by
    decide
  refine ⟨?_, ⟨_, rfl⟩, rfl, by decide, by decide, ?_, by decide⟩
  · intro d hd
    simp [C07_evBefore, C07_evAfter] at hd
  · intro k ig hk _
    have hm : ig.name ∈ (c07v_runEvents C01_toyEnv [] C07_evBefore {}).ingredients.toList.map (fun x => x.name) :=
      List.mem_map.2 ⟨ig, Array.mem_toList_iff.2 (Array.mem_of_getElem? hk), rfl⟩
    rw [hI] at hm
    simp only [List.mem_singleton] at hm
    rw [hm]
    decide

/-! and the model run on that event list: the final report is exactly the one error, on the span of `@&pepper{}` -/
example : (parseEvents C01_toyEnv [] (C07_evBefore ++ Ev.ingredient C07_evRefPepper :: C07_evAfter)).diags.toList =
    [⟨.error, .analysis, "reference-not-found", [⟨30, 40⟩]⟩] := by decide
example : (c07v_runEvents C01_toyEnv [] ([] : List (Ev Rat)) {}).defineMode ≠ .text ∧
    (∀ ev ∈ [Ev.text (C01_txt "Mix " 0), Ev.ingredient C07_evSaltLoc], c07v_isStepInner ev = true) ∧
    C07_evBefore = [] ++ Ev.start .step :: [Ev.text (C01_txt "Mix " 0), Ev.ingredient C07_evSaltLoc] := by
  refine ⟨by decide, ?_, rfl⟩
  intro ev hev
  simp only [List.mem_cons, List.not_mem_nil, or_false] at hev
  rcases hev with rfl | rfl <;> rfl

-- ===== w6c07rest =====
/-! ### Placement of the remaining catalogued families (wave 6)

  One GENERIC piece per component parser and tail shape, parameterised by the exact reading of the part that
  raises the diagnostic; each is placed anywhere among well-spelled segments by `C07_planted_step`.
  Catalogue entries (`CATALOGUE` in harness/src/props/c07.rs) → piece:

  | catalogue entry | piece |
  |---|---|
  | empty ingredient name `@{1%g}` (also NBSP name) | `C07_planted_constructs` (5) covers blank braces; with a quantity: open (see notes/audit-C07.md) |
  | empty cookware name `#{}` | open |
  | zero denominator (all six spellings), int overflow | `C07_planted_constructs` (1) for `@x{1/0}`; with `%unit`, mixed, range, cookware: `C07_planted_quantity_family` with the reading of `C07_zero_denominator(_mixed)` |
  | empty value `@x{%g}`, `@x{= %g}` | `C07_planted_empty_value` |
  | unit on cookware (three spellings) | `C07_planted_constructs` (2); spaced / no separator: `C07_planted_quantity_family` (cookware clause) |
  | empty / multiple aliases, ingredient and cookware | `C07_planted_alias_errors` |
  | duplicate modifier, recipe modifier on cookware | `C07_planted_constructs` (4), `C07_planted_cookware_modifiers` |
  | timer without unit (five spellings) | `C07_planted_constructs` (3); `~x{5%}`, `~{5% }`: `C07_planted_timer_family` (quantity clause) with the reading of `C07_empty_unit` |
  | timer without duration, neither name nor quantity, modifier on timer, alias on timer, note on timer | `C07_planted_timer_family`, composed: `C07_planted_timer_no_quantity` |
  | empty unit warning `@x{5%}` | `C07_planted_empty_unit` |
  | intermediate-reference syntax (five kinds), on cookware | open: the cut of `&( … )` modifiers in context (`rti_modifiersP`) is not yet a `PlShape` |
  | analysis-stage kinds (reference, modes, metadata, timer unit checks) | event level: `C07_event_placement`, `C07_ingredient_event_exact`, `C07_cookware_event_exact`, `C07_timer_unit_checks_exact` | -/

/-- **Timers: every parse-stage timer diagnostic, wherever the timer stands and whatever follows it.**
    The timer is written `~ mods name { Q }` (`c07p_comp`; `PlShapeN`: the token kinds make it a braces component,
    NO condition on what follows — a note may follow).  From every parser state at that position one iteration of the
    step loop consumes exactly the timer and pushes EXACTLY, in this order:
    * `modifiers-not-allowed:timer` (span of all modifier tokens) iff there are modifier tokens;
    * `alias-not-allowed:timer` (from the first `|` to the end of the name) iff COMPONENT_ALIAS is on and the name has a `|`;
    * `note-not-allowed:timer` (warning; the parenthesised note, then the position of its `(`) iff `(` … `)` follows
      (`c07w_noteEvs`: computed from the tokens after the timer);
    * without quantity tokens (first clause): `timer-missing-quantity` (on the braces) under TIMER_REQUIRES_TIME, otherwise
      `timer-neither-name-nor-quantity` (from the name offset to the `}`) iff the name is blank, otherwise nothing;
      with quantity tokens (second clause): what `parse_quantity` pushes on them (`l`, any exact reading), then
      `timer-missing-unit` iff the quantity read has no unit;
    * the timer event, whose span is the byte range of the construct (all labels above except the note's lie inside it). -/
theorem C07_planted_timer_family (T A rest : List Tok) (cs : CharSpec) (e : Ext) (hw : WF T) (tm : Tok)
    (ms nameT : List Tok) (tob : Tok) (Q : List Tok) (tcb : Tok)
    (hT : T = A ++ (c07p_comp tm ms nameT tob Q tcb ++ rest))
    (sh : PlShapeN e .tilde tm ms nameT tob Q tcb) :
    ((∀ t ∈ Q, isPadK t = true) →
      PlPieceAt (α := α) T cs e A ⟨c07p_comp tm ms nameT tob Q tcb, fun evs =>
        evs = c07w_timerHeadEvs ms nameT e ++ c07w_noteEvs T (A.length + (c07p_comp tm ms nameT tob Q tcb).length) ++
          c07w_timerFinishEvs (offAt T (A.length + 1 + ms.length)) (c07p_body nameT tob Q tcb)
            (buildText (offAt T (A.length + 1 + ms.length)) nameT) cs e ++
          [.timer ⟨⟨if (buildText (offAt T (A.length + 1 + ms.length)) nameT).isTextEmpty cs then none
              else some (buildText (offAt T (A.length + 1 + ms.length)) nameT),
            c07w_timerFinishQty (buildText (offAt T (A.length + 1 + ms.length)) nameT) cs e⟩,
            ⟨offAt T A.length, offAt T (A.length + (c07p_comp tm ms nameT tob Q tcb).length)⟩⟩]⟩) ∧
    (∀ (l : List (Ev α)) (R : ParsedQuantity α → Prop), (∃ t ∈ Q, isPadK t = false) →
      (∀ sq : BP α, sq.cs = cs → sq.ext = e →
        Sat (parseQuantity (α := α) Q) sq (fun r s' => Pushed l sq s' ∧ R r)) →
      PlPieceAt (α := α) T cs e A ⟨c07p_comp tm ms nameT tob Q tcb, fun evs => ∃ q : ParsedQuantity α, R q ∧
        evs = c07w_timerHeadEvs ms nameT e ++ c07w_noteEvs T (A.length + (c07p_comp tm ms nameT tob Q tcb).length) ++
          (l ++ c07f_missingUnitEvs q) ++
          [.timer ⟨⟨if (buildText (offAt T (A.length + 1 + ms.length)) nameT).isTextEmpty cs then none
              else some (buildText (offAt T (A.length + 1 + ms.length)) nameT), some q.quantity⟩,
            ⟨offAt T A.length, offAt T (A.length + (c07p_comp tm ms nameT tob Q tcb).length)⟩⟩]⟩) :=
  ⟨fun hQ => c07w_timer_noqty_piece T A rest cs e tm ms nameT tob Q tcb hT hw sh hQ,
   fun l R hne hQ => c07w_timer_qty_piece T A rest cs e tm ms nameT tob Q tcb hT hw sh hne l R hQ⟩

/-- **Ingredients and cookware whose quantity raises diagnostics, wherever they stand.**  `@name{Q}` / `#name{Q}`
    (no modifiers, no alias separator, a non-blank name, not followed by `(`), for ANY exact reading of the quantity
    tokens by `parse_quantity` (it pushes exactly `l` from every state with these tables and extensions; `R`
    describes the result): the ingredient pushes exactly `l`, then the ingredient event carrying the quantity read;
    the cookware item pushes `l`, then `cookware-unit` iff the quantity read has a unit (labelled from the separator,
    if any, to the end of the unit: `c07f_cwUnitEvs`), then the cookware event.  Readings available:
    `C07_zero_denominator(_mixed)`, `C07_int_overflow` (value errors), `C07_empty_value_component` (empty value),
    `C07_empty_unit`, `C07_quiet_quantity`. -/
theorem C07_planted_quantity_family (T A rest : List Tok) (cs : CharSpec) (e : Ext) (hw : WF T) (tm : Tok)
    (nameT : List Tok) (tob : Tok) (Q : List Tok) (tcb : Tok)
    (hT : T = A ++ (c07p_comp tm [] nameT tob Q tcb ++ rest))
    (ha : e.has Gen.EXT_COMPONENT_ALIAS = false ∨ ∀ t ∈ nameT, t.kind ≠ .or)
    (hname : (buildText (offAt T (A.length + 1)) nameT).isTextEmpty cs = false)
    (hne : ∃ t ∈ Q, isPadK t = false) (l : List (Ev α)) (R : ParsedQuantity α → Prop)
    (hQ : ∀ sq : BP α, sq.cs = cs → sq.ext = e → Sat (parseQuantity (α := α) Q) sq (fun r s' => Pushed l sq s' ∧ R r)) :
    (PlShape e .at tm [] nameT tob Q tcb rest →
      PlPieceAt T cs e A ⟨c07p_comp tm [] nameT tob Q tcb, fun evs => ∃ q : ParsedQuantity α, R q ∧
        evs = l ++ [.ingredient ⟨⟨⟨Modifiers.empty, Span.pos (offAt T (A.length + 1))⟩, none,
          buildText (offAt T (A.length + 1)) nameT, none, some q.quantity, none⟩,
          ⟨offAt T A.length, offAt T (A.length + (c07p_comp tm [] nameT tob Q tcb).length)⟩⟩]⟩) ∧
    (PlShape e .hash tm [] nameT tob Q tcb rest →
      PlPieceAt T cs e A ⟨c07p_comp tm [] nameT tob Q tcb, fun evs => ∃ q : ParsedQuantity α, R q ∧
        evs = l ++ c07f_cwUnitEvs q ++ [.cookware ⟨⟨⟨Modifiers.empty, Span.pos (offAt T (A.length + 1))⟩,
          buildText (offAt T (A.length + 1)) nameT, none, some ⟨q.quantity.val.value, q.quantity.span⟩, none⟩,
          ⟨offAt T A.length, offAt T (A.length + (c07p_comp tm [] nameT tob Q tcb).length)⟩⟩]⟩) :=
  ⟨fun sh => c07w_ingredient_qty_piece T A rest cs e tm nameT tob Q tcb hT hw sh ha hname hne l R hQ,
   fun sh => c07w_cookware_qty_piece T A rest cs e tm nameT tob Q tcb hT hw sh ha hname hne l R hQ⟩

/-- **Empty value, wherever the ingredient stands** (`@x{%g}`, `@x{ %g}`, `@x{= %g}`).  Quantity tokens
    `blanks (=)? value % unit` with a blank non-numeric value: one iteration pushes EXACTLY `empty-value` (error, parse;
    labelled with the blank value text — the position after the blanks / lock when there is no value token), then
    the warning `empty-unit` on the `%` iff the unit is blank too, then the ingredient.  Every extension set. -/
theorem C07_planted_empty_value (T A rest : List Tok) (cs : CharSpec) (e : Ext) (hw : WF T) (tm : Tok)
    (nameT : List Tok) (tob : Tok) (pre lk vt ut : List Tok) (pct tcb : Tok)
    (hT : T = A ++ (c07p_comp tm [] nameT tob (pre ++ (lk ++ (vt ++ pct :: ut))) tcb ++ rest))
    (sh : PlShape e .at tm [] nameT tob (pre ++ (lk ++ (vt ++ pct :: ut))) tcb rest)
    (ha : e.has Gen.EXT_COMPONENT_ALIAS = false ∨ ∀ t ∈ nameT, t.kind ≠ .or)
    (hname : (buildText (offAt T (A.length + 1)) nameT).isTextEmpty cs = false)
    (hpre : ∀ t ∈ pre, isWsComment t.kind = true)
    (hlk : lk = [] ∨ ∃ e, lk = [e] ∧ e.kind = .eq)
    (hhead : lk = [] → ∀ t0, vt.head? = some t0 → isWsComment t0.kind = false ∧ t0.kind ≠ .eq)
    (hvp : ∀ t ∈ vt, t.kind ≠ .percent) (hp : pct.kind = .percent)
    (hnone : numOrRange (α := α) (e.has Gen.EXT_RANGE_VALUES) vt = none)
    (hemp : (buildText ((vt.head?.map (·.start)).getD
      (offAt (pre ++ (lk ++ (vt ++ pct :: ut))) (pre.length + lk.length + vt.length))) vt).isTextEmpty cs = true) :
    PlPieceAt T cs e A ⟨c07p_comp tm [] nameT tob (pre ++ (lk ++ (vt ++ pct :: ut))) tcb, fun evs =>
      ∃ q : ParsedQuantity α,
        (q.quantity.val.unit = (if (buildText pct.stop ut).isTextEmpty cs then none else some (buildText pct.stop ut)) ∧
          q.quantity.val.value.lock = lockSpan lk) ∧
        evs = (emptyValueEv (buildText ((vt.head?.map (·.start)).getD
              (offAt (pre ++ (lk ++ (vt ++ pct :: ut))) (pre.length + lk.length + vt.length))) vt) ::
            emptyUnitEvs pct ut cs) ++
          [.ingredient ⟨⟨⟨Modifiers.empty, Span.pos (offAt T (A.length + 1))⟩, none,
            buildText (offAt T (A.length + 1)) nameT, none, some q.quantity, none⟩,
            ⟨offAt T A.length,
             offAt T (A.length + (c07p_comp tm [] nameT tob (pre ++ (lk ++ (vt ++ pct :: ut))) tcb).length)⟩⟩]⟩ :=
  c07w_ingredient_qty_piece T A rest cs e tm nameT tob _ tcb hT hw sh ha hname
    ⟨pct, by simp, by simp [isPadK, hp]⟩ _ _
    (fun sq h1 h2 => by
      have := c07e_parseQuantity_empty (α := α) pre lk vt ut pct sq hpre hlk hhead hvp hp (by rw [h2]; exact hnone)
        (by rw [h1]; exact hemp)
      rw [h1] at this
      exact this)

/-- **Empty unit, wherever the component stands** (`@x{5%}`, `@x{5% }`; the same quantity in a timer gives
    `timer-missing-unit` after it by `C07_planted_timer_family`).  Quantity tokens `value % unit` with a well-formed
    number / range or non-blank text as value: one iteration pushes EXACTLY the warning `empty-unit` (labelled with
    the `%`) iff the unit text is blank — nothing otherwise —, then the ingredient. -/
theorem C07_planted_empty_unit (T A rest : List Tok) (cs : CharSpec) (e : Ext) (hw : WF T) (tm : Tok)
    (nameT : List Tok) (tob : Tok) (vt ut : List Tok) (pct t0 tcb : Tok)
    (hT : T = A ++ (c07p_comp tm [] nameT tob (vt ++ pct :: ut) tcb ++ rest))
    (sh : PlShape e .at tm [] nameT tob (vt ++ pct :: ut) tcb rest)
    (ha : e.has Gen.EXT_COMPONENT_ALIAS = false ∨ ∀ t ∈ nameT, t.kind ≠ .or)
    (hname : (buildText (offAt T (A.length + 1)) nameT).isTextEmpty cs = false)
    (h0 : vt.head? = some t0) (hws : isWsComment t0.kind = false)
    (heq : t0.kind ≠ .eq) (hvp : ∀ t ∈ vt, t.kind ≠ .percent) (hp : pct.kind = .percent)
    (hval : (∃ v, numOrRange (α := α) (e.has Gen.EXT_RANGE_VALUES) vt = some (.ok v)) ∨
      (numOrRange (α := α) (e.has Gen.EXT_RANGE_VALUES) vt = none ∧
        (buildText t0.start vt).isTextEmpty cs = false)) :
    PlPieceAt T cs e A ⟨c07p_comp tm [] nameT tob (vt ++ pct :: ut) tcb, fun evs => ∃ q : ParsedQuantity α,
      q.quantity.val.unit = (if (buildText pct.stop ut).isTextEmpty cs then none else some (buildText pct.stop ut)) ∧
      evs = (if (buildText pct.stop ut).isTextEmpty cs then
            [.warning ⟨.warning, .parse, "empty-unit", [⟨pct.start, pct.stop⟩]⟩] else []) ++
        [.ingredient ⟨⟨⟨Modifiers.empty, Span.pos (offAt T (A.length + 1))⟩, none,
          buildText (offAt T (A.length + 1)) nameT, none, some q.quantity, none⟩,
          ⟨offAt T A.length, offAt T (A.length + (c07p_comp tm [] nameT tob (vt ++ pct :: ut) tcb).length)⟩⟩]⟩ :=
  c07w_ingredient_qty_piece T A rest cs e tm nameT tob _ tcb hT hw sh ha hname
    ⟨pct, by simp, by simp [isPadK, hp]⟩ _ _
    (fun sq h1 h2 => by
      have := C07_empty_unit (α := α) vt ut pct t0 sq h0 hws heq hvp hp (by rw [h1, h2]; exact hval)
      rw [h1] at this
      exact this)

/-- **Alias errors, wherever the component stands** (`@a|b|c{}`, `@a|{}`, `#a|b|c{}`, `#a|{}`; COMPONENT_ALIAS on).
    Name tokens whose first `|` is at index `i`, a non-blank name before it, plain modifier tokens `ms`, blank braces,
    not followed by `(`.  One iteration pushes EXACTLY `aliasEvs`: `multiple-aliases:<component>` (error, parse; from the
    first `|` to the end of the name tokens) iff another `|` follows, otherwise `empty-alias:<component>` (the `|` itself)
    iff the alias text is blank, otherwise nothing; then one `duplicate-modifier` per repeated modifier token (and for
    cookware `cookware-recipe-modifier` iff `@` is among them); then the component, named by the tokens before the `|`. -/
theorem C07_planted_alias_errors (T A rest : List Tok) (cs : CharSpec) (e : Ext) (hw : WF T) (tm : Tok)
    (ms nameT : List Tok) (tob : Tok) (Q : List Tok) (tcb : Tok) (i : Nat)
    (hT : T = A ++ (c07p_comp tm ms nameT tob Q tcb ++ rest)) (hs : SimpleMods ms)
    (hQ : ∀ t ∈ Q, isPadK t = true)
    (he : e.has Gen.EXT_COMPONENT_ALIAS = true) (hi : nameT.findIdx? (fun t => t.kind == .or) = some i)
    (hname : (buildText (offAt T (A.length + 1 + ms.length)) (nameT.take i)).isTextEmpty cs = false) :
    (PlShape e .at tm ms nameT tob Q tcb rest →
      PlPieceAt (α := α) T cs e A ⟨c07p_comp tm ms nameT tob Q tcb, fun evs =>
        evs = aliasEvs "ingredient" nameT i cs ++ dupEvs ms ++
          [.ingredient ⟨⟨simpleFlags ms (offAt T (A.length + 1)), none,
            buildText (offAt T (A.length + 1 + ms.length)) (nameT.take i), aliasRes nameT i cs, none, none⟩,
          ⟨offAt T A.length, offAt T (A.length + (c07p_comp tm ms nameT tob Q tcb).length)⟩⟩]⟩) ∧
    (PlShape e .hash tm ms nameT tob Q tcb rest →
      PlPieceAt (α := α) T cs e A ⟨c07p_comp tm ms nameT tob Q tcb, fun evs =>
        evs = aliasEvs "cookware" nameT i cs ++ dupEvs ms ++ recipeModEvs ms ++
          [.cookware ⟨⟨simpleFlags ms (offAt T (A.length + 1)),
            buildText (offAt T (A.length + 1 + ms.length)) (nameT.take i), aliasRes nameT i cs, none, none⟩,
          ⟨offAt T A.length, offAt T (A.length + (c07p_comp tm ms nameT tob Q tcb).length)⟩⟩]⟩) :=
  ⟨fun sh => c07w_ingredient_alias_piece T A rest cs e tm ms nameT tob Q tcb i hT hw sh hs hQ he hi hname,
   fun sh => c07w_cookware_alias_piece T A rest cs e tm ms nameT tob Q tcb i hT hw sh hs hQ he hi hname⟩

/-- **A timer without quantity anywhere in a step, fully composed** (schema + first clause of
    `C07_planted_timer_family`).  A step block: well-spelled segments `pre`, the timer `~ mods name {}`, well-spelled
    segments `post`, with the side conditions of the schema.  Then `parse_step` delivers `Start(Step)`, one
    text/component event per segment of `pre`, EXACTLY the timer's diagnostics in the order of
    `C07_planted_timer_family` (modifiers, alias, note, then missing-quantity / neither-name-nor-quantity), the timer
    event on the byte range of the construct, one event per segment of `post`, `End(Step)` — nothing else, no panic. -/
theorem C07_planted_timer_no_quantity (pre post : List SegX) (s : BP α) (tpre tpost : List Tok) (tm : Tok)
    (ms nameT : List Tok) (tob : Tok) (Q : List Tok) (tcb : Tok)
    (hspre : Spells tpre (pre.flatMap SegX.spell)) (hspost : Spells tpost (post.flatMap SegX.spell))
    (ht : s.toks = tpre ++ (c07p_comp tm ms nameT tob Q tcb ++ tpost)) (hc : s.cur = 0)
    (hp : s.panic = none) (hw : WF s.toks)
    (hpre : segsFollowT s.cs s.ext pre (c07p_comp tm ms nameT tob Q tcb ++ post.flatMap SegX.spell) = true)
    (hpost : segsFollowT s.cs s.ext post [] = true)
    (sh : PlShapeN s.ext .tilde tm ms nameT tob Q tcb) (hQ : ∀ t ∈ Q, isPadK t = true) :
    ∃ (evs1 evs2 : List (Ev α)) (arr : Array (Ev α)),
      parseStep s = ((), { s with cur := s.toks.length, evs := arr }) ∧
      arr.toList = s.evs.toList ++ [.start .step] ++ evs1 ++
        (c07w_timerHeadEvs ms nameT s.ext ++
          c07w_noteEvs s.toks (tpre.length + (c07p_comp tm ms nameT tob Q tcb).length) ++
          c07w_timerFinishEvs (offAt s.toks (tpre.length + 1 + ms.length)) (c07p_body nameT tob Q tcb)
            (buildText (offAt s.toks (tpre.length + 1 + ms.length)) nameT) s.cs s.ext ++
          [.timer ⟨⟨if (buildText (offAt s.toks (tpre.length + 1 + ms.length)) nameT).isTextEmpty s.cs then none
              else some (buildText (offAt s.toks (tpre.length + 1 + ms.length)) nameT),
            c07w_timerFinishQty (buildText (offAt s.toks (tpre.length + 1 + ms.length)) nameT) s.cs s.ext⟩,
            ⟨offAt s.toks tpre.length,
             offAt s.toks (tpre.length + (c07p_comp tm ms nameT tob Q tcb).length)⟩⟩]) ++
        evs2 ++ [.stop .step] ∧
      SegsXEvs s.cs pre evs1 ∧ SegsXEvs s.cs post evs2 := by
  have hB := c07w_timer_noqty_piece (α := α) s.toks tpre tpost s.cs s.ext tm ms nameT tob Q tcb ht hw sh hQ
  obtain ⟨evs1, evsB, evs2, arr, h1, h2, h3, hq, h5⟩ :=
    c07p_planted_step pre post _ _ s tpre tpost hspre hspost ht hc hp hw.run hpre hpost hB
  subst hq
  exact ⟨evs1, evs2, arr, h1, h2, h3, h5⟩

/-! non-vacuity: the step `Use ~{} now` (every extension off): exactly `timer-neither-name-nor-quantity`, labelled
    5..7 (from the name offset to the `}`), inside the construct 4..7; with TIMER_REQUIRES_TIME it is
    `timer-missing-quantity` on the braces; `~?a|b{}(x)` under the extensions gets three head/note diagnostics -/
def C07_plPre' : List SegX := [.text [tk .word "Use".toList, tk .ws [' ']]]
def C07_w6Toks : List Tok :=
  [⟨.word, "Use".toList, 0⟩, ⟨.ws, [' '], 3⟩, ⟨.tilde, ['~'], 4⟩, ⟨.openBrace, ['{'], 5⟩, ⟨.closeBrace, ['}'], 6⟩,
   ⟨.ws, [' '], 7⟩, ⟨.word, "now".toList, 8⟩]
def C07_w6State : BP Rat := ⟨C07_w6Toks, 0, ⟨0⟩, toyCharSpec, #[], none⟩
theorem C07_w6WF : WF C07_w6Toks :=
  WF.of_chain (off := 0) (by simp [C07_w6Toks, Chain, Tok.stop, utf8Len]; decide)
    (by intro t ht; simp [C07_w6Toks] at ht; rcases ht with rfl | rfl | rfl | rfl | rfl | rfl | rfl <;> simp)
    (by simp [C07_w6Toks])
theorem C07_w6Shape : PlShapeN C07_w6State.ext .tilde ⟨.tilde, ['~'], 4⟩ [] [] ⟨.openBrace, ['{'], 5⟩ []
    ⟨.closeBrace, ['}'], 6⟩ :=
  ⟨rfl, Or.inl ⟨rfl, rfl⟩, by decide, rfl, by decide, rfl⟩
example : ∃ (evs1 evs2 : List (Ev Rat)) (arr : Array (Ev Rat)),
    parseStep C07_w6State = ((), { C07_w6State with cur := 7, evs := arr }) ∧
    arr.toList = [.start .step] ++ evs1 ++
      [.error ⟨.error, .parse, "timer-neither-name-nor-quantity", [⟨5, 7⟩]⟩,
       .timer ⟨⟨none, some recoverPQuantity⟩, ⟨4, 7⟩⟩] ++ evs2 ++ [.stop .step] ∧
    SegsXEvs toyCharSpec C07_plPre' evs1 ∧ SegsXEvs toyCharSpec C07_plPost evs2 :=
  C07_planted_timer_no_quantity C07_plPre' C07_plPost C07_w6State
    [⟨.word, "Use".toList, 0⟩, ⟨.ws, [' '], 3⟩] [⟨.ws, [' '], 7⟩, ⟨.word, "now".toList, 8⟩]
    ⟨.tilde, ['~'], 4⟩ [] [] ⟨.openBrace, ['{'], 5⟩ [] ⟨.closeBrace, ['}'], 6⟩ (by decide) (by decide) rfl rfl rfl
    C07_w6WF (by decide) (by decide) C07_w6Shape (by intro t h; cases h)
-- ===== w6fmrest =====
/-! ## `>>` entries under a `metadata_validator` (Analysis/MetaValidator.lean)

  The lift of C13's "warning iff the accessor gives nothing" to `>>` entries under a validator lives here, as
  `C07_front_matter_std_warning_iff_nothing` does: Props/C13.lean cannot see the collector (its `open Cook.SM` would
  make the collector's own `StdKey` ambiguous). -/

/-- **"A value outside the documented forms gives a warning at parse time and nothing from the accessor" for a
    `>>` entry under a validator.**  Let the entry `>> key: value` not be a `[config]` entry, `v` the verdict the
    validator leaves on it (`CheckResult` kind, `include`, `run_std_checks`), `s` the collector before and `s'`
    after it.  The report grows by the validator's own diagnostic (none for `Ok`; "Invalid metadata entry", warning
    or error, labelled with the key span and the value span), and then:
    (a) `include(false)`: the entry is ABSENT — map and servings are as before — and there is no "Unsupported value"
        warning, whatever the value;
    (b) included, `run_std_checks(false)`: the entry is inserted (`key_t: value_t`, replacing in place), the servings
        are as before, and there is no "Unsupported value" warning, whatever the value;
    (c) included, std checks on: what the code without a validator reports (`c07i_entryDiags`: the std warning or
        the time-override warning), and the "Unsupported value for key" warning is among it exactly when the key is
        the name of a standard key `sk` and the check refuses the value — which, with the check instantiated by the
        C13 model (`FM.stdCheckOfSM`, what the driver runs), is: exactly when the accessor of `sk` gives nothing for
        the text (`SM.accessorGives … = false`; by `C13_warning_iff_outside_forms` / the Spec equalities: the text is
        outside the documented forms). -/
theorem C07_old_style_entry_under_validator (env : Env) (v : FM.Verdict) (key value : Text)
    (s : Col α) (hc : MV.isCfg env key = false) :
    (v.incl = false →
      (MV.metadataV env v key value s).2.metaMap = s.metaMap ∧ (MV.metadataV env v key value s).2.servings = s.servings ∧
      (MV.metadataV env v key value s).2.diags.toList = s.diags.toList ++ MV.validatorDiags v key value) ∧
    (v.incl = true → v.runStd = false →
      (MV.metadataV env v key value s).2.metaMap =
        metaInsert s.metaMap (key.trimmed env.cs) (value.outerTrimmed env.cs) ∧
      (MV.metadataV env v key value s).2.servings = s.servings ∧
      (MV.metadataV env v key value s).2.diags.toList = s.diags.toList ++ MV.validatorDiags v key value) ∧
    (v.incl = true → v.runStd = true →
      (MV.metadataV env v key value s).2.diags.toList =
        s.diags.toList ++ MV.validatorDiags v key value ++ c07i_entryDiags env key value s.metaLocs ∧
      ((∃ d ∈ c07i_entryDiags env key value s.metaLocs, d.kind = "std-unsupported-value") ↔
        ∃ sk, StdKey.ofStr (String.ofList (key.trimmed env.cs)) = some sk ∧
          env.stdCheck sk (value.outerTrimmed env.cs) = .rejected) ∧
      ∀ (c : SM.Conv α) (alpha : Char → Bool), env.stdCheck = FM.stdCheckOfSM c alpha →
        ((∃ d ∈ c07i_entryDiags env key value s.metaLocs, d.kind = "std-unsupported-value") ↔
          ∃ sk, StdKey.ofStr (String.ofList (key.trimmed env.cs)) = some sk ∧
            SM.accessorGives c alpha (FM.toSMKey sk) (.str (value.outerTrimmed env.cs)) = false)) := by
  obtain ⟨h1, h2, h3⟩ := MV.mvl_entry_report env v key value s hc
  refine ⟨h1, h2, fun hi hr => ⟨h3 hi hr, MV.mvl_entryDiags_warns env key value s.metaLocs, fun c alpha he => ?_⟩⟩
  rw [MV.mvl_entryDiags_warns env key value s.metaLocs, he]
  simp only [MV.mvl_stdCheckOfSM_rejected]

/-- the validator's own diagnostic never is the std warning: "no warning" in (a) and (b) above means no
    "Unsupported value for key" in what the entry adds to the report -/
theorem C07_validator_diag_is_not_std_warning (v : FM.Verdict) (key value : Text) :
    ∀ d ∈ MV.validatorDiags v key value, d.kind = "metadata-validator" ∧ d.labels = [key.span, value.span] := by
  intro d hd
  unfold MV.validatorDiags FM.validatorDiag at hd
  cases hr : v.res <;> rw [hr] at hd <;> simp at hd <;> subst hd <;> exact ⟨rfl, rfl⟩

/-! non-vacuity: `servings: muchas` (the C13 model refuses it under the empty converter) — excluded: nothing but the
    validator's error; unchecked: inserted, no warning; checked: inserted and warned -/
def C07_exCsV : CharSpec :=
  ⟨fun c => c == ' ', fun _ => false, fun c => c.isAlpha, fun c => c == ' ' || c == '\n', fun c => c.isAlpha⟩
def C07_exEnvV : Env := ⟨C07_exCsV, ⟨0⟩, fun _ => none, FM.stdCheckOfSM (α := Rat) SM.emptyConv (fun _ => false), fun c => [c], 0⟩
def C07_exKeyV : Text := Text.fromStr " servings".toList 2
def C07_exValueV : Text := Text.fromStr " muchas".toList 12

example : MV.isCfg C07_exEnvV C07_exKeyV = false := by decide
example : ((MV.metadataV (α := Rat) C07_exEnvV ⟨.error, false, true⟩ C07_exKeyV C07_exValueV {}).2.metaMap,
      (MV.metadataV (α := Rat) C07_exEnvV ⟨.error, false, true⟩ C07_exKeyV C07_exValueV {}).2.diags.toList.map (·.kind)) =
    ([], ["metadata-validator"]) := by decide +kernel
example : ((MV.metadataV (α := Rat) C07_exEnvV ⟨.ok, true, false⟩ C07_exKeyV C07_exValueV {}).2.metaMap,
      (MV.metadataV (α := Rat) C07_exEnvV ⟨.ok, true, false⟩ C07_exKeyV C07_exValueV {}).2.diags.toList.map (·.kind)) =
    ([("servings".toList, "muchas".toList)], []) := by decide +kernel
example : ((MV.metadataV (α := Rat) C07_exEnvV ⟨.warning, true, true⟩ C07_exKeyV C07_exValueV {}).2.metaMap,
      (MV.metadataV (α := Rat) C07_exEnvV ⟨.warning, true, true⟩ C07_exKeyV C07_exValueV {}).2.diags.toList.map (·.kind)) =
    ([("servings".toList, "muchas".toList)], ["metadata-validator", "std-unsupported-value"]) := by decide +kernel

-- ===== w7c07doc =====
/-! ## A planted construct in a whole DOCUMENT (wave 7)

  `C07_planted_step` works on a step block; here the composition with the lexer and the block splitter, and from
  the events to the report of `CooklangParser::parse`.  A block of a document is abstract (`PlBlock`: specification
  tokens + description of its events on the actual tokens, `PlBlock.Runs`: `parse_block` delivers them on every
  lexer run spelling the block); the items of C01's grammar (`PlBlock.ofItem`) and a step with a planted
  construct (`PlBlock.planted`) are such blocks.  `Lemmas/DiagPlaceDoc.lean`, `DiagPlaceDocReport.lean`,
  `DiagPlaceDocInst.lean`.

  What `event_consumer.rs` does with an `Error` event: `parse_events` STOPS, keeps the parse-stage diagnostics
  (those collected so far, the error, the error / warning events still in the stream) and returns no output — the
  analysis-stage diagnostics, the `>>` deprecation notice included, are dropped.  So with an error in the
  construct the report is exactly the construct's diagnostics WITHOUT the notice; the notice (and the analysis of
  the construct's component) appears only when the construct raises warnings only. -/

/-- **Documents of abstract blocks.**  The characters of `lead ++ plDocSpec doc` (leading blank lines, then blocks
    each followed by its separator; well spelled; no front matter fence), every block running as it describes: the
    splitter cuts the lexer's tokens into exactly one block per item, each a contiguous part of the lexer's token
    list (so its token offsets are byte offsets of the document) spelling its item; `pullEvents` returns the
    concatenation of the blocks' events, each as its block describes; the parser reaches no panic site.  The two
    further clauses: a well-formed item of C01's grammar is such a block, and so is a step with a planted construct
    (side conditions `plantedOK` on the specification tokens; the construct a piece at its position on every actual
    block — the `C07_planted_*` instances). -/
theorem C07_planted_blocks_document (cs : CharSpec) (ext : Ext) :
    (∀ (lead : List Tok) (doc : List (PlBlock α × List Tok)),
      blankLinesOK lead = true → (∀ d ∈ doc, d.1.Runs cs ext) → sepsOK (doc.map (·.2)) = true →
      WellSpelled cs (lead ++ plDocSpec doc) → parseFrontmatter cs (render (lead ++ plDocSpec doc)) = none →
      ∃ (res : List (List Tok × List (Ev α))) (arr : Array (Ev α)),
        allBlocks ((lex cs (render (lead ++ plDocSpec doc))).length + 1) (lex cs (render (lead ++ plDocSpec doc))) =
          res.map (·.1) ∧
        (∀ r ∈ res, r.1 <:+: lex cs (render (lead ++ plDocSpec doc))) ∧
        pullEvents (α := α) cs ext (render (lead ++ plDocSpec doc)) = (arr, none) ∧
        arr.toList = (res.map (·.2)).flatten ∧ All2 PlBlock.Res doc res) ∧
    (∀ d : DocItem, d.ok cs ext = true → (PlBlock.ofItem (α := α) cs d).Runs cs ext) ∧
    (∀ (pre post : List SegX) (B : List Tok) (specB : List Tok → List Tok → List Tok → List (Ev α) → Prop),
      plantedOK cs ext pre post B = true →
      (∀ (T tpre tB tpost : List Tok), T = tpre ++ (tB ++ tpost) → Spells tpre (pre.flatMap SegX.spell) →
        Spells tB B → Spells tpost (post.flatMap SegX.spell) → RunAt (baseOff T) T →
        PlPieceAt T cs ext tpre ⟨tB, specB T tpre tB⟩) →
      (PlBlock.planted cs pre post B specB).Runs cs ext) :=
  ⟨fun lead doc h1 h2 h3 h4 h5 => c07d_pullEvents_blocks cs ext lead doc h1 h2 h3 h4 h5,
   fun d h => c07d_item_runs cs ext d h,
   fun pre post B specB h1 h2 => c07d_planted_runs cs ext pre post B specB h1 h2⟩

/-- **A catalogued construct planted in a whole document: from the printed characters to the report.**  The
    document is `docA` (well-formed items of C01's grammar: steps, section lines, `>>` lines, text paragraphs), then
    ONE step `pre ++ B ++ post` with the construct `B` (specification tokens) planted between well-spelled segments,
    then `docB`; each block followed by its separator; well spelled, no front matter fence.  The construct is a piece
    at its position on every actual block (`hB`).  Then on the printed characters:
    * the lexer and the splitter produce a block `T = tpre ++ tB ++ tpost`, a contiguous part of the lexer's token
      list (token offsets = byte offsets of the document), `tB` spelling `B`, and the construct's events `evsB` are
      as `specB T tpre tB` says — in the instances: the documented diagnostics with labels inside the byte range
      of `tB`, then the component whose span is that range;
    * the PARSE-STAGE part of the report of `parse` is EXACTLY the parse-stage diagnostics carried by `evsB`, in
      order: no other block and no other segment contributes one;
    * if `evsB` has an `Error` event: the report is exactly that list (no analysis-stage diagnostic, no `>>` notice:
      `parse_events` stops at the error), there is no output and the result is invalid;
    * if it has none: there is output (whether the result is valid then depends on what the analysis says about
      the construct's component: `C07_ingredient_event_exact` …);
    * so: no output ⇔ the construct raises an error; the parser reaches no panic site (the collector: `C03_holds`). -/
theorem C07_planted_document (env : Env) (lead : List Tok) (docA docB : List (DocItem × List Tok))
    (pre post : List SegX) (B sep : List Tok) (specB : List Tok → List Tok → List Tok → List (Ev α) → Prop)
    (hlead : blankLinesOK lead = true) (hokA : ∀ d ∈ docA, d.1.ok env.cs env.ext = true)
    (hokB : ∀ d ∈ docB, d.1.ok env.cs env.ext = true) (hpl : plantedOK env.cs env.ext pre post B = true)
    (hB : ∀ (T tpre tB tpost : List Tok), T = tpre ++ (tB ++ tpost) → Spells tpre (pre.flatMap SegX.spell) →
      Spells tB B → Spells tpost (post.flatMap SegX.spell) → RunAt (baseOff T) T →
      PlPieceAt T env.cs env.ext tpre ⟨tB, specB T tpre tB⟩)
    (hseps : sepsOK (docA.map (·.2) ++ sep :: docB.map (·.2)) = true)
    (hw : WellSpelled env.cs (lead ++ plDocSpec (plantedDoc env.cs docA docB pre post B sep specB)))
    (hfm : parseFrontmatter env.cs
      (render (lead ++ plDocSpec (plantedDoc env.cs docA docB pre post B sep specB))) = none) :
    ∃ (T tpre tB tpost : List Tok) (evsB : List (Ev α)),
      T <:+: lex env.cs (render (lead ++ plDocSpec (plantedDoc env.cs docA docB pre post B sep specB))) ∧
      T = tpre ++ (tB ++ tpost) ∧ Spells tpre (pre.flatMap SegX.spell) ∧ Spells tB B ∧
      Spells tpost (post.flatMap SegX.spell) ∧ specB T tpre tB evsB ∧
      (parseRecipe (α := α) env (render (lead ++ plDocSpec (plantedDoc env.cs docA docB pre post B sep specB)))).diags.toList.filter
        (fun d => d.stage == .parse) = evDiags evsB ∧
      ((∃ d, Ev.error d ∈ evsB) →
        (parseRecipe (α := α) env
          (render (lead ++ plDocSpec (plantedDoc env.cs docA docB pre post B sep specB)))).diags.toList = evDiags evsB ∧
        (parseRecipe (α := α) env
          (render (lead ++ plDocSpec (plantedDoc env.cs docA docB pre post B sep specB)))).output = none ∧
        (parseRecipe (α := α) env
          (render (lead ++ plDocSpec (plantedDoc env.cs docA docB pre post B sep specB)))).isValid = false) ∧
      ((∀ d, Ev.error d ∉ evsB) →
        (parseRecipe (α := α) env
          (render (lead ++ plDocSpec (plantedDoc env.cs docA docB pre post B sep specB)))).output.isSome = true) ∧
      ((parseRecipe (α := α) env
          (render (lead ++ plDocSpec (plantedDoc env.cs docA docB pre post B sep specB)))).output = none ↔
        ∃ d, Ev.error d ∈ evsB) ∧
      (pullEvents (α := α) env.cs env.ext
        (render (lead ++ plDocSpec (plantedDoc env.cs docA docB pre post B sep specB)))).2 = none := by
  obtain ⟨T, tpre, tB, tpost, evsB, arr, h1, h2, h3, h4, h5, h6, hpe, hd, he⟩ :=
    c07d_planted_doc_events (α := α) env.cs env.ext lead docA docB pre post B sep specB hlead hokA hokB hpl hB hseps hw hfm
  obtain ⟨r1, r2, r3, r4⟩ := c07d_report_of_events env _ arr evsB hpe hd he
  refine ⟨T, tpre, tB, tpost, evsB, h1, h2, h3, h4, h5, h6, r1, fun hex => ⟨(r2 hex).1, (r2 hex).2, ?_⟩, r3, r4,
    by rw [hpe]⟩
  unfold AnalysisResult.isValid
  rw [(r2 hex).2]; rfl

/-- **Instance: a timer without quantity `~ mods name { }` planted in a document** (catalogue entries: timer without
    duration, timer with neither name nor quantity, modifier on a timer, alias on a timer, note on a timer).  The
    construct is given by its specification tokens (`PlShapeN`: the kinds make it a braces timer; the braces hold
    blanks / comments only); it may be followed by anything, a `(note)` included.  Then `C07_planted_document`
    applies with `specB := c07d_timerNoQtySpec`: the construct's events are EXACTLY
    `modifiers-not-allowed:timer`? ++ `alias-not-allowed:timer`? ++ `note-not-allowed:timer`? ++
    (`timer-missing-quantity` under TIMER_REQUIRES_TIME, else `timer-neither-name-nor-quantity` iff the name is
    blank) ++ the timer on the byte range `offAt T |tpre|` … `offAt T (|tpre| + |tB|)` of the construct. -/
theorem C07_planted_document_timer_no_quantity (env : Env) (pre post : List SegX) (tmS : Tok) (msS nameS : List Tok)
    (tobS : Tok) (QS : List Tok) (tcbS : Tok) (sh : PlShapeN env.ext .tilde tmS msS nameS tobS QS tcbS)
    (hQ : ∀ t ∈ QS, isPadK t = true) :
    ∀ (T tpre tB tpost : List Tok), T = tpre ++ (tB ++ tpost) → Spells tpre (pre.flatMap SegX.spell) →
      Spells tB (c07p_comp tmS msS nameS tobS QS tcbS) → Spells tpost (post.flatMap SegX.spell) →
      RunAt (baseOff T) T →
      PlPieceAt (α := α) T env.cs env.ext tpre ⟨tB, c07d_timerNoQtySpec env.cs env.ext msS nameS QS T tpre tB⟩ :=
  fun T tpre tB tpost hT _ hsB _ hrun =>
    c07d_timer_noqty_pieceAt env.cs env.ext tmS msS nameS tobS QS tcbS sh hQ T tpre tB tpost hT hsB hrun

/-! non-vacuity: the document `>> source: grandma` / blank line / `Use ~{} now` (every extension off).  The
    hypotheses of `C07_planted_document` with the instance above are decided; the conclusion, evaluated: the
    report is exactly `timer-neither-name-nor-quantity` labelled 25..27 inside the construct 24..27 — and NOT the
    deprecation notice of the `>>` line —, no output. -/
def C07_dDocA : List (DocItem × List Tok) :=
  [(.metaLine [tk .word "source".toList] [tk .word "grandma".toList] { a := [tk .ws [' ']], c := [tk .ws [' ']] },
    [C01_nl, C01_nl])]
def C07_dB : List Tok := c07p_comp (tk .tilde ['~']) [] [] (tk .openBrace ['{']) [] (tk .closeBrace ['}'])
def C07_dSpec : List Tok → List Tok → List Tok → List (Ev Rat) → Prop :=
  c07d_timerNoQtySpec toyCharSpec ⟨0⟩ [] [] []
def C07_dDoc : List (PlBlock Rat × List Tok) :=
  plantedDoc toyCharSpec C07_dDocA [] C07_plPre' C07_plPost C07_dB [C01_nl] C07_dSpec
example : render ([] ++ plDocSpec C07_dDoc) = ">> source: grandma\n\nUse ~{} now\n".toList := by decide
example : (∀ d ∈ C07_dDocA, d.1.ok C07_coreEnv.cs C07_coreEnv.ext = true) ∧
    plantedOK C07_coreEnv.cs C07_coreEnv.ext C07_plPre' C07_plPost C07_dB = true ∧
    sepsOK (C07_dDocA.map (·.2) ++ [C01_nl] :: ([] : List (DocItem × List Tok)).map (·.2)) = true := by decide
example : WellSpelled toyCharSpec ([] ++ plDocSpec C07_dDoc) := by decide
example : parseFrontmatter toyCharSpec (render ([] ++ plDocSpec C07_dDoc)) = none := by decide
theorem C07_dShape : PlShapeN C07_coreEnv.ext .tilde (tk .tilde ['~']) [] [] (tk .openBrace ['{']) []
    (tk .closeBrace ['}']) :=
  ⟨rfl, Or.inl ⟨rfl, rfl⟩, (by intro t h; cases h), rfl, (by intro t h; cases h), rfl⟩
example : ((parseRecipe (α := Rat) C07_coreEnv (render ([] ++ plDocSpec C07_dDoc))).diags.toList,
      (parseRecipe (α := Rat) C07_coreEnv (render ([] ++ plDocSpec C07_dDoc))).output.isSome) =
    ([⟨.error, .parse, "timer-neither-name-nor-quantity", [⟨25, 27⟩]⟩], false) := by decide +kernel
example : ∃ (T tpre tB tpost : List Tok) (evsB : List (Ev Rat)),
    T <:+: lex toyCharSpec (render ([] ++ plDocSpec C07_dDoc)) ∧ T = tpre ++ (tB ++ tpost) ∧
    Spells tB C07_dB ∧ C07_dSpec T tpre tB evsB ∧
    (parseRecipe (α := Rat) C07_coreEnv (render ([] ++ plDocSpec C07_dDoc))).diags.toList.filter
      (fun d => d.stage == .parse) = evDiags evsB := by
  obtain ⟨T, tpre, tB, tpost, evsB, h1, h2, -, h4, -, h6, h7, -⟩ :=
    C07_planted_document (α := Rat) C07_coreEnv [] C07_dDocA [] C07_plPre' C07_plPost C07_dB [C01_nl] C07_dSpec
      (by decide) (by decide) (by intro d h; cases h) (by decide)
      (C07_planted_document_timer_no_quantity C07_coreEnv C07_plPre' C07_plPost _ [] [] _ [] _ C07_dShape
        (by intro t h; cases h))
      (by decide) (by decide) (by decide)
  exact ⟨T, tpre, tB, tpost, evsB, h1, h2, h4, h6, h7⟩

/-! ### Event level, every catalogued kind (wave 7, item 3)

  `C07_ingredient_event_exact` / `C07_cookware_event_exact` restate the iff for `reference-not-found` and
  `unnecessary-scaling-lock` only.  The kind lists of the parts of an event are pairwise disjoint
  (`c07v_*_kinds`), so EVERY catalogued kind is raised by the event iff the one part that owns it runs and raises it;
  the parts have their own exact iffs (`C07_resolve_reference_exact`: `ref-conflicting-modifiers`,
  `reference-not-found`; `C07_reference_checks_exact(_cookware)`: `incompatible-units`, `note-in-reference`,
  `conflicting-ref-quantity`, `text-value-in-ref`; below: the intermediate-reference kinds). -/

/-- **An ingredient event, kind by kind.**  With the event's exact list `c07v_ingredientEventDiags` (what
    `ingredient` of the analysis pass appends, `C07_ingredient_event_exact`): a diagnostic of kind `k` is in it
    * `unnecessary-scaling-lock`: iff the lock part raises it;
    * `inter-ref-conflicting-modifiers`: iff there is intermediate data `&(…)` and one of `@`, `-`, `+` is set;
    * `inter-ref-self` / `-zero` / `-bounds`: iff there is intermediate data and the target computation
      (`interRefTarget` on the content of the current section and the number of sections) fails with `k`;
    * `ref-conflicting-modifiers`, `redundant-new`, `redundant-ref`, `reference-not-found`: iff there is NO
      intermediate data and `resolve_reference` (`refDiags`) raises it;
    * `incompatible-units`, `note-in-reference`, `conflicting-ref-quantity`, `text-value-in-ref`: iff there is no
      intermediate data and the reference checks against the resolved entry (`c07v_ingrRefCheckDiags`: empty unless
      `resolve_reference` resolved to a table entry) raise it. -/
theorem C07_ingredient_event_kinds (env : Env) (input : Str) (li : Loc (PIngredient α))
    (ings : Array (Ingredient (ScalableValue α))) (locs : Array (Loc (PIngredient α)))
    (dm : DefineMode) (dup : DuplicateMode) (content : List Content) (n : Nat) (k : String) :
    (k = "unnecessary-scaling-lock" →
      ((∃ d ∈ c07v_ingredientEventDiags env input li ings locs dm dup content n, d.kind = k) ↔
        ∃ d ∈ c07v_ingrLockDiags li.val.quantity, d.kind = k)) ∧
    (k = "inter-ref-conflicting-modifiers" →
      ((∃ d ∈ c07v_ingredientEventDiags env input li ings locs dm dup content n, d.kind = k) ↔
        ∃ dd, li.val.inter = some dd ∧
          (li.val.modifiers.val.bits &&& (Modifiers.RECIPE ||| Modifiers.HIDDEN ||| Modifiers.NEW)) ≠ 0)) ∧
    (k ∈ c07k_interKinds →
      ((∃ d ∈ c07v_ingredientEventDiags env input li ings locs dm dup content n, d.kind = k) ↔
        ∃ dd, li.val.inter = some dd ∧ interRefTarget content n dd.val = .error k)) ∧
    (k ∈ c07k_refKinds →
      ((∃ d ∈ c07v_ingredientEventDiags env input li ings locs dm dup content n, d.kind = k) ↔
        (li.val.inter = none ∧
          ∃ d ∈ refDiags env c07v_ingrInherit (ings.toList.map (fun x => (x.name, x.modifiers)))
            (c07v_igr0 env li dm).name li.val.modifiers.val li.span li.val.modifiers.span dm dup, d.kind = k))) ∧
    (k ∈ c07k_checkKinds →
      ((∃ d ∈ c07v_ingredientEventDiags env input li ings locs dm dup content n, d.kind = k) ↔
        (li.val.inter = none ∧
          ∃ d ∈ c07v_ingrRefCheckDiags env input li (c07v_igr0 env li dm) ings locs
            (c07v_refResult env c07v_ingrInherit (ings.toList.map (fun x => (x.name, x.modifiers)))
              (c07v_igr0 env li dm).name li.val.modifiers.val dm dup), d.kind = k))) := by
  obtain ⟨h1, h2, h3, h4, h5⟩ := c07k_ingredientEvent_kind env input li ings locs dm dup content n k
  refine ⟨h1, fun hk => ?_, fun hk => ?_, h4, h5⟩
  · rw [h2 hk]; subst hk
    simp only [c07k_interCheck_iff]
  · rw [h3 hk]
    simp only [c07k_interRef_iff]

/-- **A cookware event, kind by kind**: `unnecessary-scaling-lock` iff the lock part raises it (iff the amount
    carries `=`); the four kinds of `resolve_reference` iff `refDiags` (container "cookware item") raises them; the
    check kinds iff the checks against the resolved entry raise them. -/
theorem C07_cookware_event_kinds (env : Env) (input : Str) (lc : Loc (PCookware α))
    (cws : Array (Cookware (ScalableValue α))) (locs : Array (Loc (PCookware α)))
    (dm : DefineMode) (dup : DuplicateMode) (k : String) :
    (k = "unnecessary-scaling-lock" →
      ((∃ d ∈ c07v_cookwareEventDiags env input lc cws locs dm dup, d.kind = k) ↔
        ∃ d ∈ c07v_cwLockDiags lc.val.quantity, d.kind = k)) ∧
    (k ∈ c07k_refKinds →
      ((∃ d ∈ c07v_cookwareEventDiags env input lc cws locs dm dup, d.kind = k) ↔
        ∃ d ∈ refDiags env c07v_cwInherit (cws.toList.map (fun x => (x.name, x.modifiers)))
          (lc.val.name.trimmed env.cs) lc.val.modifiers.val lc.span lc.val.modifiers.span dm dup, d.kind = k)) ∧
    (k ∈ c07k_checkKinds →
      ((∃ d ∈ c07v_cookwareEventDiags env input lc cws locs dm dup, d.kind = k) ↔
        ∃ d ∈ c07v_cwRefCheckDiags input lc (c07v_cw0 env lc dm) cws locs
          (c07v_refResult env c07v_cwInherit (cws.toList.map (fun x => (x.name, x.modifiers)))
            (lc.val.name.trimmed env.cs) lc.val.modifiers.val dm dup), d.kind = k)) :=
  c07k_cookwareEvent_kind env input lc cws locs dm dup k

/-! non-vacuity: the kind lists; on `C07_evRefSalt` (`@&salt{=x}(n)` against the definition `@salt{1}`) the check
    kinds `note-in-reference` and `text-value-in-ref` are raised, `reference-not-found` is not; an ingredient with
    intermediate data and `+` raises `inter-ref-conflicting-modifiers` -/
example : "note-in-reference" ∈ c07k_checkKinds ∧ "reference-not-found" ∈ c07k_refKinds ∧
    "inter-ref-zero" ∈ c07k_interKinds := by decide
example : (∃ d ∈ c07v_ingredientEventDiags C01_toyEnv [] C07_evRefSalt C07_evState.ingredients C07_evState.locIngr
      C07_evState.defineMode C07_evState.duplicateMode C07_evState.cur.content C07_evState.sections.length,
      d.kind = "note-in-reference") ∧ C07_evRefSalt.val.inter = none :=
  ⟨⟨⟨.error, .analysis, "note-in-reference", [⟨21, 22⟩, ⟨8, 8⟩]⟩, by decide, rfl⟩, rfl⟩
example : ((⟨Modifiers.REF ||| Modifiers.NEW⟩ : Modifiers).bits &&&
    (Modifiers.RECIPE ||| Modifiers.HIDDEN ||| Modifiers.NEW)) ≠ 0 := by decide

-- ===== w8c07pieces =====
/-! ## The quantity family planted in a whole DOCUMENT (wave 8)

  `C07_planted_document` takes the construct as a piece on every actual block spelling its specification
  tokens (`hB`).  Wave 7 supplied that for the timer without quantity; here for every braces component whose
  QUANTITY raises the diagnostic — generic in the reading of the quantity tokens by `parse_quantity`
  (`C07_planted_document_quantity_family`), then the three catalogued families: zero denominator `@x{1/0}`,
  unit on cookware `#pot{1%kg}`, timer without unit `~{5}` (followed by anything, a note included).  The conditions
  are on the SPECIFICATION tokens (kinds and texts); labels are positions of the actual tokens, which are byte
  offsets of the document (`C07_planted_document`: the block is a contiguous part of the lexer's token list).
  `Lemmas/DiagPlaceDocQty.lean`. -/

/-- **A component whose quantity raises diagnostics, planted in a document: generic in the reading.**  The reading:
    on EVERY token list `Q` spelling the specified quantity tokens `QS`, from every state with these tables and
    extensions, `parse_quantity` pushes exactly `l Q` and returns a quantity satisfying `R Q`.  Then on every actual
    block `tpre ++ tB ++ tpost` spelling the step, the construct is a piece at its position:
    * ingredient `@name{Q}` (no modifiers, no alias separator, the name shows a non-blank character in a plain
      token, not followed by `(`): exactly `l Q`, then the ingredient carrying the quantity read (`c07x_ingrQtySpec`);
    * cookware `#name{Q}` likewise, with `cookware-unit` after `l Q` iff the quantity read has a unit (`c07x_cwQtySpec`);
    * timer `~ mods name {Q}` followed by ANYTHING: the head diagnostics, the note warning iff `(` … `)` follows,
      `l Q`, then `timer-missing-unit` iff the quantity read has no unit, then the timer (`c07x_timerQtySpec`).
    Each conclusion is the hypothesis `hB` of `C07_planted_document`. -/
theorem C07_planted_document_quantity_family (env : Env) (pre post : List SegX) (tmS : Tok) (nameS : List Tok)
    (tobS : Tok) (QS : List Tok) (tcbS : Tok) (hne : ∃ t ∈ QS, isPadK t = false)
    (l : List Tok → List (Ev α)) (R : List Tok → ParsedQuantity α → Prop)
    (hQ : ∀ Q, Spells Q QS → ∀ sq : BP α, sq.cs = env.cs → sq.ext = env.ext →
      Sat (parseQuantity (α := α) Q) sq (fun r s' => Pushed (l Q) sq s' ∧ R Q r)) :
    (PlShape env.ext .at tmS [] nameS tobS QS tcbS (post.flatMap SegX.spell) →
      (env.ext.has Gen.EXT_COMPONENT_ALIAS = false ∨ ∀ t ∈ nameS, t.kind ≠ .or) →
      (∃ t ∈ nameS, plainKind t.kind = true ∧ NBs env.cs t.text) →
      ∀ (T tpre tB tpost : List Tok), T = tpre ++ (tB ++ tpost) → Spells tpre (pre.flatMap SegX.spell) →
        Spells tB (c07p_comp tmS [] nameS tobS QS tcbS) → Spells tpost (post.flatMap SegX.spell) →
        RunAt (baseOff T) T →
        PlPieceAt (α := α) T env.cs env.ext tpre ⟨tB, c07x_ingrQtySpec nameS QS l R T tpre tB⟩) ∧
    (PlShape env.ext .hash tmS [] nameS tobS QS tcbS (post.flatMap SegX.spell) →
      (env.ext.has Gen.EXT_COMPONENT_ALIAS = false ∨ ∀ t ∈ nameS, t.kind ≠ .or) →
      (∃ t ∈ nameS, plainKind t.kind = true ∧ NBs env.cs t.text) →
      ∀ (T tpre tB tpost : List Tok), T = tpre ++ (tB ++ tpost) → Spells tpre (pre.flatMap SegX.spell) →
        Spells tB (c07p_comp tmS [] nameS tobS QS tcbS) → Spells tpost (post.flatMap SegX.spell) →
        RunAt (baseOff T) T →
        PlPieceAt (α := α) T env.cs env.ext tpre ⟨tB, c07x_cwQtySpec nameS QS l R T tpre tB⟩) ∧
    (∀ msS : List Tok, PlShapeN env.ext .tilde tmS msS nameS tobS QS tcbS →
      ∀ (T tpre tB tpost : List Tok), T = tpre ++ (tB ++ tpost) → Spells tpre (pre.flatMap SegX.spell) →
        Spells tB (c07p_comp tmS msS nameS tobS QS tcbS) → Spells tpost (post.flatMap SegX.spell) →
        RunAt (baseOff T) T →
        PlPieceAt (α := α) T env.cs env.ext tpre
          ⟨tB, c07x_timerQtySpec env.cs env.ext msS nameS QS l R T tpre tB⟩) :=
  ⟨fun sh ha hname T tpre tB tpost hT _ hsB hpost hrun =>
      c07x_ingredient_qty_pieceAt env.cs env.ext tmS nameS tobS QS tcbS _ sh ha hname hne l R hQ T tpre tB tpost hT hsB
        hpost hrun,
   fun sh ha hname T tpre tB tpost hT _ hsB hpost hrun =>
      c07x_cookware_qty_pieceAt env.cs env.ext tmS nameS tobS QS tcbS _ sh ha hname hne l R hQ T tpre tB tpost hT hsB
        hpost hrun,
   fun msS sh T tpre tB tpost hT _ hsB _ hrun =>
      c07x_timer_qty_pieceAt env.cs env.ext tmS msS nameS tobS QS tcbS sh hne l R hQ T tpre tB tpost hT hsB hrun⟩

/-- the `division-by-zero` event of actual quantity tokens `a / b`: labelled from the start of the first token to
    the end of the last -/
def C07_zeroDenEvs (Q : List Tok) : List (Ev α) :=
  [.error ⟨.error, .parse, "division-by-zero",
    [⟨(Q.head?.getD dummyTok).start, (Q.getLast?.getD dummyTok).stop⟩]⟩]

/-- the reading of `a/b` with `b` spelling zero, on every token list spelling it -/
theorem C07_zero_denominator_reading (cs : CharSpec) (e : Ext) (aS slS bS : Tok) (ha : aS.kind = .int)
    (hsl : slS.kind = .slash) (hb : bS.kind = .int) (hau : digitsToNat aS.text ≤ u32Max)
    (hb0 : digitsToNat bS.text = 0) :
    ∀ Q, Spells Q [aS, slS, bS] → ∀ sq : BP α, sq.cs = cs → sq.ext = e →
      Sat (parseQuantity (α := α) Q) sq (fun r s' => Pushed (C07_zeroDenEvs Q) sq s' ∧
        (r.quantity.val.unit = none ∧ r.unitSep = none)) := by
  intro Q hs sq _ _
  obtain ⟨a, r1, rfl, ka, ta, h1⟩ := hs.cons_inv
  obtain ⟨sl, r2, rfl, ks, -, h2⟩ := h1.cons_inv
  obtain ⟨b, rfl, kb, tb⟩ := h2.single_inv
  have ha' : a.kind = .int := ka.trans ha
  have hsl' : sl.kind = .slash := ks.trans hsl
  have hb' : b.kind = .int := kb.trans hb
  have hz := (C07_zero_denominator (α := α) a sl b ha' hsl' hb' (by rw [ta]; exact hau) (by rw [tb]; exact hb0)
    [] [a, sl, b] [] (by simp) (by simp) rfl rfl
    (by simp [notWsComment, isWsComment, ha', hsl', hb']) (sq.ext.has Gen.EXT_RANGE_VALUES)
    (Or.inr (by intro t ht'; simp at ht'; rcases ht' with rfl | rfl | rfl <;> simp [ha', hsl', hb']))).2.2
  simp only [List.nil_append, List.append_nil] at hz
  exact c07p_parseQuantity_err_num a [sl, b] sq _ (by simp [isWsComment, ha']) (by simp [ha'])
    (by intro t ht'; simp at ht'; rcases ht' with rfl | rfl | rfl <;> simp [ha', hsl', hb']) hz

/-- **Instance: zero denominator `@name{a/b}` planted in a document** (`b` spells zero, `a` fits `u32`; no
    modifiers, no alias separator, a name showing a non-blank character, not followed by `(`).  On every actual block
    the construct's events are EXACTLY `division-by-zero` (error, parse) labelled from the start of the actual `a` to
    the end of the actual `b` — byte offsets of the document, inside the construct —, then the ingredient (quantity
    without unit) on the byte range of the construct.  With `C07_planted_document`: the report of `parse` is exactly
    that error, no output, invalid. -/
theorem C07_planted_document_zero_denominator (env : Env) (pre post : List SegX) (tmS : Tok) (nameS : List Tok)
    (tobS aS slS bS tcbS : Tok)
    (sh : PlShape env.ext .at tmS [] nameS tobS [aS, slS, bS] tcbS (post.flatMap SegX.spell))
    (halias : env.ext.has Gen.EXT_COMPONENT_ALIAS = false ∨ ∀ t ∈ nameS, t.kind ≠ .or)
    (hname : ∃ t ∈ nameS, plainKind t.kind = true ∧ NBs env.cs t.text)
    (ha : aS.kind = .int) (hsl : slS.kind = .slash) (hb : bS.kind = .int)
    (hau : digitsToNat aS.text ≤ u32Max) (hb0 : digitsToNat bS.text = 0) :
    ∀ (T tpre tB tpost : List Tok), T = tpre ++ (tB ++ tpost) → Spells tpre (pre.flatMap SegX.spell) →
      Spells tB (c07p_comp tmS [] nameS tobS [aS, slS, bS] tcbS) → Spells tpost (post.flatMap SegX.spell) →
      RunAt (baseOff T) T →
      PlPieceAt (α := α) T env.cs env.ext tpre ⟨tB, c07x_ingrQtySpec nameS [aS, slS, bS] C07_zeroDenEvs
        (fun _ q => q.quantity.val.unit = none ∧ q.unitSep = none) T tpre tB⟩ :=
  (C07_planted_document_quantity_family (α := α) env pre post tmS nameS tobS [aS, slS, bS] tcbS
    ⟨aS, by simp, by simp [isPadK, ha]⟩ _ _
    (C07_zero_denominator_reading env.cs env.ext aS slS bS ha hsl hb hau hb0)).1 sh halias hname

/-- what a quantity `value % unit` read quietly looks like on actual tokens `Q` spelling `vtS ++ % :: utS`: the
    unit text is assembled from the actual unit tokens right after the actual `%`, and the separator is that `%` -/
def C07_pctUnitRead (vtS utS : List Tok) (Q : List Tok) (q : ParsedQuantity α) : Prop :=
  ∃ (vt : List Tok) (pct : Tok) (ut : List Tok), Q = vt ++ pct :: ut ∧ Spells vt vtS ∧ Spells ut utS ∧
    q.quantity.val.unit = some (buildText pct.stop ut) ∧ q.unitSep = some ⟨pct.start, pct.stop⟩

/-- the reading of `number % unit` (a well-formed number or range, a unit showing a non-blank character) -/
theorem C07_pct_unit_reading (cs : CharSpec) (e : Ext) (v : AVal) (p : VPad) (pctS t0S : Tok) (utS : List Tok)
    (hv : v.ok cs = true) (hp : p.ok cs = true) (hnt : v.isText = false)
    (hext : v.isRange = true → e.has Gen.EXT_RANGE_VALUES = true)
    (h0 : (spellVal v p).head? = some t0S) (hws : isWsComment t0S.kind = false) (heq : t0S.kind ≠ .eq)
    (hvp : ∀ t ∈ spellVal v p, t.kind ≠ .percent) (hpct : pctS.kind = .percent)
    (hunit : ∃ t ∈ utS, plainKind t.kind = true ∧ NBs cs t.text) :
    ∀ Q, Spells Q (spellVal v p ++ pctS :: utS) → ∀ sq : BP α, sq.cs = cs → sq.ext = e →
      Sat (parseQuantity (α := α) Q) sq (fun r s' => Pushed [] sq s' ∧ C07_pctUnitRead (spellVal v p) utS Q r) := by
  intro Q hs sq h1 h2
  subst h1 h2
  obtain ⟨vt, pct, ut, rfl, kv, kp, ku⟩ := c07x_pct_spells_inv hs
  obtain ⟨t0, h0', k0⟩ := c07x_head_transfer kv h0
  refine Sat.mono (c07p_parseQuantity_pct_sep vt ut pct t0 sq h0' (by rw [k0]; exact hws) (by rw [k0]; exact heq)
    (c07d_kind_of_spells kv (fun k => k ≠ .percent) hvp) (kp.trans hpct)
    (Or.inl ⟨_, rt_numOrRange v p hv hp hnt _ hext vt kv⟩) (c07x_name_transfer ku hunit _)) ?_
  intro r s' h
  exact ⟨h.1.pushed, vt, pct, ut, rfl, kv, ku, h.2.1, h.2.2⟩

/-- **Instance: a unit on a cookware item `#name{number%unit}` planted in a document** (the value a well-formed
    number, or a range under RANGE_VALUES; a unit showing a non-blank character; no modifiers, no alias separator,
    a name showing a non-blank character, not followed by `(`).  On every actual block the construct's events are
    EXACTLY `cookware-unit` (error, parse), labelled from the start of the actual `%` to the end of the unit text —
    second clause: that is what `c07f_cwUnitEvs` of the spec is for every quantity read so —, then the cookware item
    on the byte range of the construct. -/
theorem C07_planted_document_cookware_unit (env : Env) (pre post : List SegX) (tmS : Tok) (nameS : List Tok)
    (tobS tcbS : Tok) (v : AVal) (p : VPad) (pctS t0S : Tok) (utS : List Tok)
    (sh : PlShape env.ext .hash tmS [] nameS tobS (spellVal v p ++ pctS :: utS) tcbS (post.flatMap SegX.spell))
    (halias : env.ext.has Gen.EXT_COMPONENT_ALIAS = false ∨ ∀ t ∈ nameS, t.kind ≠ .or)
    (hname : ∃ t ∈ nameS, plainKind t.kind = true ∧ NBs env.cs t.text)
    (hv : v.ok env.cs = true) (hp : p.ok env.cs = true) (hnt : v.isText = false)
    (hext : v.isRange = true → env.ext.has Gen.EXT_RANGE_VALUES = true)
    (h0 : (spellVal v p).head? = some t0S) (hws : isWsComment t0S.kind = false) (heq : t0S.kind ≠ .eq)
    (hvp : ∀ t ∈ spellVal v p, t.kind ≠ .percent) (hpct : pctS.kind = .percent)
    (hunit : ∃ t ∈ utS, plainKind t.kind = true ∧ NBs env.cs t.text) :
    (∀ (T tpre tB tpost : List Tok), T = tpre ++ (tB ++ tpost) → Spells tpre (pre.flatMap SegX.spell) →
      Spells tB (c07p_comp tmS [] nameS tobS (spellVal v p ++ pctS :: utS) tcbS) →
      Spells tpost (post.flatMap SegX.spell) → RunAt (baseOff T) T →
      PlPieceAt (α := α) T env.cs env.ext tpre ⟨tB, c07x_cwQtySpec nameS (spellVal v p ++ pctS :: utS)
        (fun _ => []) (C07_pctUnitRead (spellVal v p) utS) T tpre tB⟩) ∧
    (∀ (Q : List Tok) (q : ParsedQuantity α), C07_pctUnitRead (spellVal v p) utS Q q →
      ∃ (vt : List Tok) (pct : Tok) (ut : List Tok), Q = vt ++ pct :: ut ∧
        c07f_cwUnitEvs q =
          [.error ⟨.error, .parse, "cookware-unit", [⟨pct.start, (buildText pct.stop ut).span.stop⟩]⟩]) := by
  refine ⟨(C07_planted_document_quantity_family (α := α) env pre post tmS nameS tobS _ tcbS
    ⟨pctS, by simp, by simp [isPadK, hpct]⟩ _ _
    (C07_pct_unit_reading env.cs env.ext v p pctS t0S utS hv hp hnt hext h0 hws heq hvp hpct hunit)).2.1
      sh halias hname, ?_⟩
  rintro Q q ⟨vt, pct, ut, rfl, -, -, hu, hsep⟩
  refine ⟨vt, pct, ut, rfl, ?_⟩
  have := c07f_cwUnitEvs_of q pct (buildText pct.stop ut) false (by simpa using hu) hsep
  simpa using this

/-- the reading of a well-formed number (or range) without `%`: nothing is pushed, no unit -/
theorem C07_no_unit_reading (cs : CharSpec) (e : Ext) (v : AVal) (p : VPad) (t0S : Tok) (tlS : List Tok)
    (hv : v.ok cs = true) (hp : p.ok cs = true) (hnt : v.isText = false)
    (hext : v.isRange = true → e.has Gen.EXT_RANGE_VALUES = true)
    (hsp : spellVal v p = t0S :: tlS) (hws : isWsComment t0S.kind = false) (heq : t0S.kind ≠ .eq)
    (hk : ∀ t ∈ t0S :: tlS, t.kind ≠ .percent ∧ t.kind ≠ .word ∧ t.kind ≠ .ws) :
    ∀ Q, Spells Q (t0S :: tlS) → ∀ sq : BP α, sq.cs = cs → sq.ext = e →
      Sat (parseQuantity (α := α) Q) sq (fun r s' => Pushed [] sq s' ∧ r.quantity.val.unit = none) := by
  intro Q hs sq h1 h2
  subst h1 h2
  have hk' := c07d_kind_of_spells hs (fun k => k ≠ .percent ∧ k ≠ .word ∧ k ≠ .ws) hk
  have hnum := rt_numOrRange (α := α) v p hv hp hnt _ hext Q (by rw [hsp]; exact hs)
  obtain ⟨t0, tl, rfl, k0, -, -⟩ := hs.cons_inv
  exact Sat.mono (parseQuantity_quiet_num t0 tl sq (by rw [k0]; exact hws) (by rw [k0]; exact heq) hk' ⟨_, hnum⟩)
    (fun r s' h => ⟨h.1.pushed, h.2⟩)

/-- **Instance: a timer without unit `~ mods name {number}` planted in a document** (the braces hold a well-formed
    number, or a range under RANGE_VALUES, without blank, word or `%`; ANY modifiers / name; followed by ANYTHING, a
    `(note)` included).  On every actual block the construct's events are EXACTLY `modifiers-not-allowed:timer`? ++
    `alias-not-allowed:timer`? ++ `note-not-allowed:timer`? ++ `timer-missing-unit` (error, parse; labelled with the
    position right after the value — second clause) ++ the timer on the byte range of the construct. -/
theorem C07_planted_document_timer_no_unit (env : Env) (pre post : List SegX) (tmS : Tok) (msS nameS : List Tok)
    (tobS tcbS : Tok) (v : AVal) (p : VPad) (t0S : Tok) (tlS : List Tok)
    (sh : PlShapeN env.ext .tilde tmS msS nameS tobS (t0S :: tlS) tcbS)
    (hv : v.ok env.cs = true) (hp : p.ok env.cs = true) (hnt : v.isText = false)
    (hext : v.isRange = true → env.ext.has Gen.EXT_RANGE_VALUES = true)
    (hsp : spellVal v p = t0S :: tlS) (hws : isWsComment t0S.kind = false) (heq : t0S.kind ≠ .eq)
    (hk : ∀ t ∈ t0S :: tlS, t.kind ≠ .percent ∧ t.kind ≠ .word ∧ t.kind ≠ .ws) :
    (∀ (T tpre tB tpost : List Tok), T = tpre ++ (tB ++ tpost) → Spells tpre (pre.flatMap SegX.spell) →
      Spells tB (c07p_comp tmS msS nameS tobS (t0S :: tlS) tcbS) → Spells tpost (post.flatMap SegX.spell) →
      RunAt (baseOff T) T →
      PlPieceAt (α := α) T env.cs env.ext tpre ⟨tB, c07x_timerQtySpec env.cs env.ext msS nameS (t0S :: tlS)
        (fun _ => []) (fun _ q => q.quantity.val.unit = none) T tpre tB⟩) ∧
    (∀ q : ParsedQuantity α, q.quantity.val.unit = none → c07f_missingUnitEvs q =
      [.error ⟨.error, .parse, "timer-missing-unit", [Span.pos q.quantity.val.value.value.span.stop]⟩]) := by
  refine ⟨(C07_planted_document_quantity_family (α := α) env pre post tmS nameS tobS _ tcbS
    ⟨t0S, by simp, c07p_not_pad_of_not_blank hws⟩ _ _
    (C07_no_unit_reading env.cs env.ext v p t0S tlS hv hp hnt hext hsp hws heq hk)).2.2 msS sh, ?_⟩
  intro q hu
  simp only [c07f_missingUnitEvs, hu, Option.isNone_none, if_true]

/-! non-vacuity: the document `>> source: grandma` / blank line / `Use @x{1/0} now` (every extension off).  The
    hypotheses of `C07_planted_document` with the zero-denominator instance are decided; the conclusion, evaluated:
    the report is exactly `division-by-zero` labelled 27..30 (the bytes of `1/0`), no output.  The same step with
    `#pot{1%kg}` (`cookware-unit` on `%kg`, 30..33) and `~{5}` (`timer-missing-unit` at 27): the instances apply. -/
def C07_xName : List Tok := [tk .word ['x']]
def C07_xQ1 : List Tok := [tk .int ['1'], tk .slash ['/'], tk .int ['0']]
def C07_xB1 : List Tok := c07p_comp (tk .at ['@']) [] C07_xName (tk .openBrace ['{']) C07_xQ1 (tk .closeBrace ['}'])
def C07_xSpec1 : List Tok → List Tok → List Tok → List (Ev Rat) → Prop :=
  c07x_ingrQtySpec C07_xName C07_xQ1 C07_zeroDenEvs (fun _ q => q.quantity.val.unit = none ∧ q.unitSep = none)
def C07_xDoc1 : List (PlBlock Rat × List Tok) :=
  plantedDoc toyCharSpec C07_dDocA [] C07_plPre' C07_plPost C07_xB1 [C01_nl] C07_xSpec1
example : render ([] ++ plDocSpec C07_xDoc1) = ">> source: grandma\n\nUse @x{1/0} now\n".toList := by decide
example : plantedOK C07_coreEnv.cs C07_coreEnv.ext C07_plPre' C07_plPost C07_xB1 = true := by decide
example : WellSpelled toyCharSpec ([] ++ plDocSpec C07_xDoc1) := by decide
example : parseFrontmatter toyCharSpec (render ([] ++ plDocSpec C07_xDoc1)) = none := by decide
theorem C07_xShape1 : PlShape C07_coreEnv.ext .at (tk .at ['@']) [] C07_xName (tk .openBrace ['{']) C07_xQ1
    (tk .closeBrace ['}']) (C07_plPost.flatMap SegX.spell) :=
  ⟨rfl, Or.inl ⟨rfl, rfl⟩, by decide, rfl, by decide, rfl,
   by intro t h; simp [C07_plPost, SegX.spell] at h; subst h; decide⟩
theorem C07_xNameNB : ∃ t ∈ C07_xName, plainKind t.kind = true ∧ NBs toyCharSpec t.text :=
  ⟨tk .word ['x'], by simp [C07_xName], rfl, 'x', by simp [tk], by decide⟩
example : ((parseRecipe (α := Rat) C07_coreEnv (render ([] ++ plDocSpec C07_xDoc1))).diags.toList,
      (parseRecipe (α := Rat) C07_coreEnv (render ([] ++ plDocSpec C07_xDoc1))).output.isSome) =
    ([⟨.error, .parse, "division-by-zero", [⟨27, 30⟩]⟩], false) := by decide +kernel
example : ∃ (T tpre tB tpost : List Tok) (evsB : List (Ev Rat)),
    T <:+: lex toyCharSpec (render ([] ++ plDocSpec C07_xDoc1)) ∧ T = tpre ++ (tB ++ tpost) ∧
    Spells tB C07_xB1 ∧ C07_xSpec1 T tpre tB evsB ∧
    (parseRecipe (α := Rat) C07_coreEnv (render ([] ++ plDocSpec C07_xDoc1))).diags.toList.filter
      (fun d => d.stage == .parse) = evDiags evsB := by
  obtain ⟨T, tpre, tB, tpost, evsB, h1, h2, -, h4, -, h6, h7, -⟩ :=
    C07_planted_document (α := Rat) C07_coreEnv [] C07_dDocA [] C07_plPre' C07_plPost C07_xB1 [C01_nl] C07_xSpec1
      (by decide) (by decide) (by intro d h; cases h) (by decide)
      (C07_planted_document_zero_denominator C07_coreEnv C07_plPre' C07_plPost _ C07_xName _ _ _ _ _ C07_xShape1
        (Or.inl rfl) C07_xNameNB rfl rfl rfl (by decide) (by decide))
      (by decide) (by decide) (by decide)
  exact ⟨T, tpre, tB, tpost, evsB, h1, h2, h4, h6, h7⟩

/-! `Use #pot{1%kg} now`, `Use ~{5} now` -/
def C07_xPot : List Tok := [tk .word "pot".toList]
def C07_xV1 : AVal := .num (.int ['1'])
def C07_xV5 : AVal := .num (.int ['5'])
def C07_xB2 : List Tok := c07p_comp (tk .hash ['#']) [] C07_xPot (tk .openBrace ['{'])
  (spellVal C07_xV1 {} ++ tk .percent ['%'] :: [tk .word "kg".toList]) (tk .closeBrace ['}'])
def C07_xB3 : List Tok := c07p_comp (tk .tilde ['~']) [] [] (tk .openBrace ['{']) [tk .int ['5']] (tk .closeBrace ['}'])
example : plantedOK C07_coreEnv.cs C07_coreEnv.ext C07_plPre' C07_plPost C07_xB2 = true ∧
    plantedOK C07_coreEnv.cs C07_coreEnv.ext C07_plPre' C07_plPost C07_xB3 = true := by decide
theorem C07_xShape2 : PlShape C07_coreEnv.ext .hash (tk .hash ['#']) [] C07_xPot (tk .openBrace ['{'])
    (spellVal C07_xV1 {} ++ tk .percent ['%'] :: [tk .word "kg".toList])
    (tk .closeBrace ['}']) (C07_plPost.flatMap SegX.spell) :=
  ⟨rfl, Or.inl ⟨rfl, rfl⟩, by decide, rfl, by decide, rfl,
   by intro t h; simp [C07_plPost, SegX.spell] at h; subst h; decide⟩
example := (C07_planted_document_cookware_unit (α := Rat) C07_coreEnv C07_plPre' C07_plPost _ C07_xPot _ _ C07_xV1 {}
  (tk .percent ['%']) (tk .int ['1']) [tk .word "kg".toList] C07_xShape2 (Or.inl rfl)
  ⟨tk .word "pot".toList, by simp [C07_xPot], rfl, 'p', by simp [tk], by decide⟩ (by decide) (by decide) rfl
  (by intro h; cases h) (by decide) (by decide) (by decide) (by decide) rfl
  ⟨tk .word "kg".toList, by simp, rfl, 'k', by simp [tk], by decide⟩).1
theorem C07_xShape3 : PlShapeN C07_coreEnv.ext .tilde (tk .tilde ['~']) [] [] (tk .openBrace ['{']) [tk .int ['5']]
    (tk .closeBrace ['}']) :=
  ⟨rfl, Or.inl ⟨rfl, rfl⟩, (by intro t h; cases h), rfl, (by decide), rfl⟩
example := (C07_planted_document_timer_no_unit (α := Rat) C07_coreEnv C07_plPre' C07_plPost _ [] [] _ _ C07_xV5 {}
  (tk .int ['5']) [] C07_xShape3 (by decide) (by decide) rfl (by intro h; cases h) (by decide) (by decide)
  (by decide) (by decide)).1
example : (parseRecipe (α := Rat) C07_coreEnv ">> source: grandma\n\nUse #pot{1%kg} now\n".toList).diags.toList =
    [⟨.error, .parse, "cookware-unit", [⟨30, 33⟩]⟩] := by decide +kernel
example : (parseRecipe (α := Rat) C07_coreEnv ">> source: grandma\n\nUse ~{5} now\n".toList).diags.toList =
    [⟨.error, .parse, "timer-missing-unit", [⟨27, 27⟩]⟩] := by decide +kernel

/-! ### Components without name (wave 8): `#{}`, `@{1%g}`, `#{2}`

  `check_empty_name` runs right after `parse_alias`, before the modifiers and the quantity are read, so
  `empty-name:*` is the FIRST diagnostic of the component.  `Lemmas/DiagPlaceName.lean`. -/

/-- **Empty name, the remaining forms, wherever the component stands** (not followed by `(`; blank name tokens:
    `isTextEmpty` of the name text assembled at the name offset).
    * cookware without quantity `# mods {}` (plain modifier tokens): EXACTLY `empty-name:cookware` (error, parse;
      labelled with the span of the blank name text), then one `duplicate-modifier` per repeated modifier token and
      `cookware-recipe-modifier` iff `@` is among them, then the item;
    * ingredient with a quantity `@{Q}` (no modifiers), for any exact reading `l` / `R` of the quantity tokens:
      EXACTLY `empty-name:ingredient`, then `l`, then the ingredient carrying the quantity read (`@{1%g}`: `l = []`);
    * cookware with a quantity `#{Q}`: `empty-name:cookware`, `l`, `cookware-unit` iff the quantity read has a
      unit, then the item.
    (`@{}` is `C07_planted_constructs` (5).)  All labels lie inside the construct. -/
theorem C07_planted_empty_name_family (T A rest : List Tok) (cs : CharSpec) (e : Ext) (hw : WF T) (tm : Tok)
    (nameT : List Tok) (tob : Tok) (Q : List Tok) (tcb : Tok)
    (ha : e.has Gen.EXT_COMPONENT_ALIAS = false ∨ ∀ t ∈ nameT, t.kind ≠ .or) :
    (∀ ms : List Tok, T = A ++ (c07p_comp tm ms nameT tob Q tcb ++ rest) →
      PlShape e .hash tm ms nameT tob Q tcb rest → SimpleMods ms → (∀ t ∈ Q, isPadK t = true) →
      (buildText (offAt T (A.length + 1 + ms.length)) nameT).isTextEmpty cs = true →
      PlPieceAt (α := α) T cs e A ⟨c07p_comp tm ms nameT tob Q tcb, fun evs =>
        evs = [.error ⟨.error, .parse, "empty-name:cookware",
            [(buildText (offAt T (A.length + 1 + ms.length)) nameT).span]⟩] ++ dupEvs ms ++ recipeModEvs ms ++
          [.cookware ⟨⟨simpleFlags ms (offAt T (A.length + 1)),
            buildText (offAt T (A.length + 1 + ms.length)) nameT, none, none, none⟩,
          ⟨offAt T A.length, offAt T (A.length + (c07p_comp tm ms nameT tob Q tcb).length)⟩⟩]⟩) ∧
    (∀ (l : List (Ev α)) (R : ParsedQuantity α → Prop), T = A ++ (c07p_comp tm [] nameT tob Q tcb ++ rest) →
      (buildText (offAt T (A.length + 1)) nameT).isTextEmpty cs = true → (∃ t ∈ Q, isPadK t = false) →
      (∀ sq : BP α, sq.cs = cs → sq.ext = e →
        Sat (parseQuantity (α := α) Q) sq (fun r s' => Pushed l sq s' ∧ R r)) →
      (PlShape e .at tm [] nameT tob Q tcb rest →
        PlPieceAt T cs e A ⟨c07p_comp tm [] nameT tob Q tcb, fun evs => ∃ q : ParsedQuantity α, R q ∧
          evs = .error ⟨.error, .parse, "empty-name:ingredient",
              [(buildText (offAt T (A.length + 1)) nameT).span]⟩ ::
            l ++ [.ingredient ⟨⟨⟨Modifiers.empty, Span.pos (offAt T (A.length + 1))⟩, none,
            buildText (offAt T (A.length + 1)) nameT, none, some q.quantity, none⟩,
            ⟨offAt T A.length, offAt T (A.length + (c07p_comp tm [] nameT tob Q tcb).length)⟩⟩]⟩) ∧
      (PlShape e .hash tm [] nameT tob Q tcb rest →
        PlPieceAt T cs e A ⟨c07p_comp tm [] nameT tob Q tcb, fun evs => ∃ q : ParsedQuantity α, R q ∧
          evs = .error ⟨.error, .parse, "empty-name:cookware",
              [(buildText (offAt T (A.length + 1)) nameT).span]⟩ ::
            (l ++ c07f_cwUnitEvs q) ++ [.cookware ⟨⟨⟨Modifiers.empty, Span.pos (offAt T (A.length + 1))⟩,
            buildText (offAt T (A.length + 1)) nameT, none, some ⟨q.quantity.val.value, q.quantity.span⟩, none⟩,
            ⟨offAt T A.length, offAt T (A.length + (c07p_comp tm [] nameT tob Q tcb).length)⟩⟩]⟩)) :=
  ⟨fun ms hT sh hs hQ hname => c07y_cookware_empty_name_piece T A rest cs e tm ms nameT tob Q tcb hT hw sh hs hQ ha hname,
   fun l R hT hname hne hQ =>
    ⟨fun sh => c07y_ingredient_empty_name_qty_piece T A rest cs e tm nameT tob Q tcb hT hw sh ha hname hne l R hQ,
     fun sh => c07y_cookware_empty_name_qty_piece T A rest cs e tm nameT tob Q tcb hT hw sh ha hname hne l R hQ⟩⟩

/-! non-vacuity: `Use #{} now` (every extension off): the hypotheses of the first clause hold on the tokens of
    the step, and the real run (model evaluated on the document) reports exactly `empty-name:cookware` labelled
    with the empty name position 5..5, inside the construct 4..7; `@{1%g}` gives `empty-name:ingredient` only. -/
def C07_yToks : List Tok :=
  [⟨.word, "Use".toList, 0⟩, ⟨.ws, [' '], 3⟩, ⟨.hash, ['#'], 4⟩, ⟨.openBrace, ['{'], 5⟩, ⟨.closeBrace, ['}'], 6⟩,
   ⟨.ws, [' '], 7⟩, ⟨.word, "now".toList, 8⟩]
theorem C07_yWF : WF C07_yToks :=
  WF.of_chain (off := 0) (by simp [C07_yToks, Chain, Tok.stop, utf8Len]; decide)
    (by intro t ht; simp [C07_yToks] at ht; rcases ht with rfl | rfl | rfl | rfl | rfl | rfl | rfl <;> simp)
    (by simp [C07_yToks])
example : PlPieceAt (α := Rat) C07_yToks toyCharSpec ⟨0⟩ [⟨.word, "Use".toList, 0⟩, ⟨.ws, [' '], 3⟩]
    ⟨c07p_comp ⟨.hash, ['#'], 4⟩ [] [] ⟨.openBrace, ['{'], 5⟩ [] ⟨.closeBrace, ['}'], 6⟩, fun evs =>
      evs = [.error ⟨.error, .parse, "empty-name:cookware", [⟨5, 5⟩]⟩,
        .cookware ⟨⟨⟨Modifiers.empty, Span.pos 5⟩, buildText 5 [], none, none, none⟩, ⟨4, 7⟩⟩]⟩ :=
  (C07_planted_empty_name_family (α := Rat) C07_yToks [⟨.word, "Use".toList, 0⟩, ⟨.ws, [' '], 3⟩]
    [⟨.ws, [' '], 7⟩, ⟨.word, "now".toList, 8⟩] toyCharSpec ⟨0⟩ C07_yWF ⟨.hash, ['#'], 4⟩ [] ⟨.openBrace, ['{'], 5⟩ []
    ⟨.closeBrace, ['}'], 6⟩ (Or.inl rfl)).1 [] rfl
    ⟨rfl, Or.inl ⟨rfl, rfl⟩, (by intro t h; cases h), rfl, (by intro t h; cases h), rfl,
      (by intro t h; simp at h; subst h; decide)⟩
    (by intro t h; cases h) (by intro t h; cases h) (by decide)
example : (parseRecipe (α := Rat) C07_coreEnv "Use #{} now\n".toList).diags.toList =
    [⟨.error, .parse, "empty-name:cookware", [⟨5, 5⟩]⟩] := by decide +kernel
example : (parseRecipe (α := Rat) C07_coreEnv "Use @{1%g} now\n".toList).diags.toList =
    [⟨.error, .parse, "empty-name:ingredient", [⟨5, 5⟩]⟩] := by decide +kernel

/-- **Empty name WITH an alias, wherever the component stands** (`@|x{}`, `#|x{}`, `@ |x|y{}`; COMPONENT_ALIAS on).
    Name tokens whose first `|` is at index `i`, the tokens BEFORE it blank (the name `parse_alias` returns), plain
    modifier tokens, blank braces, not followed by `(`.  One iteration pushes EXACTLY the alias errors `aliasEvs`
    (`multiple-aliases:*` iff another `|` follows, else `empty-alias:*` iff the alias text is blank), then
    `empty-name:<component>` (error, parse; the span of the blank text before the `|`), then one `duplicate-modifier`
    per repeated modifier token (cookware: `cookware-recipe-modifier` iff `@` is among them), then the component. -/
theorem C07_planted_empty_name_alias (T A rest : List Tok) (cs : CharSpec) (e : Ext) (hw : WF T) (tm : Tok)
    (ms nameT : List Tok) (tob : Tok) (Q : List Tok) (tcb : Tok) (i : Nat)
    (hT : T = A ++ (c07p_comp tm ms nameT tob Q tcb ++ rest)) (hs : SimpleMods ms)
    (hQ : ∀ t ∈ Q, isPadK t = true)
    (he : e.has Gen.EXT_COMPONENT_ALIAS = true) (hi : nameT.findIdx? (fun t => t.kind == .or) = some i)
    (hname : (buildText (offAt T (A.length + 1 + ms.length)) (nameT.take i)).isTextEmpty cs = true) :
    (PlShape e .at tm ms nameT tob Q tcb rest →
      PlPieceAt (α := α) T cs e A ⟨c07p_comp tm ms nameT tob Q tcb, fun evs =>
        evs = aliasEvs "ingredient" nameT i cs ++
          [.error ⟨.error, .parse, "empty-name:ingredient",
            [(buildText (offAt T (A.length + 1 + ms.length)) (nameT.take i)).span]⟩] ++ dupEvs ms ++
          [.ingredient ⟨⟨simpleFlags ms (offAt T (A.length + 1)), none,
            buildText (offAt T (A.length + 1 + ms.length)) (nameT.take i), aliasRes nameT i cs, none, none⟩,
          ⟨offAt T A.length, offAt T (A.length + (c07p_comp tm ms nameT tob Q tcb).length)⟩⟩]⟩) ∧
    (PlShape e .hash tm ms nameT tob Q tcb rest →
      PlPieceAt (α := α) T cs e A ⟨c07p_comp tm ms nameT tob Q tcb, fun evs =>
        evs = aliasEvs "cookware" nameT i cs ++
          [.error ⟨.error, .parse, "empty-name:cookware",
            [(buildText (offAt T (A.length + 1 + ms.length)) (nameT.take i)).span]⟩] ++ dupEvs ms ++
          recipeModEvs ms ++
          [.cookware ⟨⟨simpleFlags ms (offAt T (A.length + 1)),
            buildText (offAt T (A.length + 1 + ms.length)) (nameT.take i), aliasRes nameT i cs, none, none⟩,
          ⟨offAt T A.length, offAt T (A.length + (c07p_comp tm ms nameT tob Q tcb).length)⟩⟩]⟩) :=
  ⟨fun sh => c07y_ingredient_empty_name_alias_piece T A rest cs e tm ms nameT tob Q tcb i hT hw sh hs hQ he hi hname,
   fun sh => c07y_cookware_empty_name_alias_piece T A rest cs e tm ms nameT tob Q tcb i hT hw sh hs hQ he hi hname⟩

/-! non-vacuity: `Use @|x{} now` under COMPONENT_ALIAS: the hypotheses hold on the step's tokens (first `|` at index 0,
    nothing before it); the real run reports exactly `empty-name:ingredient` at 5..5 (the alias `x` is fine). -/
def C07_yToks2 : List Tok :=
  [⟨.word, "Use".toList, 0⟩, ⟨.ws, [' '], 3⟩, ⟨.at, ['@'], 4⟩, ⟨.or, ['|'], 5⟩, ⟨.word, ['x'], 6⟩,
   ⟨.openBrace, ['{'], 7⟩, ⟨.closeBrace, ['}'], 8⟩, ⟨.ws, [' '], 9⟩, ⟨.word, "now".toList, 10⟩]
theorem C07_yWF2 : WF C07_yToks2 :=
  WF.of_chain (off := 0) (by simp [C07_yToks2, Chain, Tok.stop, utf8Len]; decide)
    (by intro t ht; simp [C07_yToks2] at ht; rcases ht with rfl | rfl | rfl | rfl | rfl | rfl | rfl | rfl | rfl <;> simp)
    (by simp [C07_yToks2])
example := (C07_planted_empty_name_alias (α := Rat) C07_yToks2 [⟨.word, "Use".toList, 0⟩, ⟨.ws, [' '], 3⟩]
    [⟨.ws, [' '], 9⟩, ⟨.word, "now".toList, 10⟩] toyCharSpec ⟨Gen.EXT_COMPONENT_ALIAS⟩ C07_yWF2 ⟨.at, ['@'], 4⟩ []
    [⟨.or, ['|'], 5⟩, ⟨.word, ['x'], 6⟩] ⟨.openBrace, ['{'], 7⟩ [] ⟨.closeBrace, ['}'], 8⟩ 0 rfl
    (by intro t h; cases h) (by intro t h; cases h) (by decide) (by decide) (by decide)).1
    ⟨rfl, Or.inl ⟨by decide, rfl⟩, by decide, rfl, (by intro t h; cases h), rfl,
      (by intro t h; simp at h; subst h; decide)⟩
example : (parseRecipe (α := Rat) { C07_coreEnv with ext := ⟨Gen.EXT_COMPONENT_ALIAS⟩ }
      "Use @|x{} now\n".toList).diags.toList =
    [⟨.error, .parse, "empty-name:ingredient", [⟨5, 5⟩]⟩] := by decide +kernel

-- ===== w9c07inter =====
/-! ## More document-level instances of the quantity family (wave 9): empty value, empty unit

  The readings (`Lemmas/DiagPlaceDocMore.lean`) hold on every token list spelling the specified quantity tokens;
  the expected events take the `%`, the unit tokens and the `=` from the ACTUAL tokens by position, so the labels
  are byte offsets of the document. -/

/-- **Instance: an empty value `@name{ (=)? %unit }` planted in a document** (quantity tokens: blanks, an optional
    `=`, the `%`, then any unit tokens; no value token at all — `@x{%g}`, `@x{ %g}`, `@x{=%}`; no modifiers, no alias
    separator, a name showing a non-blank character, not followed by `(`).  On every actual block the construct's
    events are EXACTLY `empty-value` (error, parse; labelled with the empty text at the byte offset of the actual `%`),
    then the warning `empty-unit` on the actual `%` iff the unit text is blank, then the ingredient (unit: the unit text
    unless blank; lock: the span of the actual `=`) on the byte range of the construct.  Every extension set.  With
    `C07_planted_document`: the report of `parse` has exactly these parse-stage diagnostics, no output, invalid. -/
theorem C07_planted_document_empty_value (env : Env) (pre post : List SegX) (tmS : Tok) (nameS : List Tok)
    (tobS tcbS : Tok) (preS lkS : List Tok) (pctS : Tok) (utS : List Tok)
    (sh : PlShape env.ext .at tmS [] nameS tobS (preS ++ (lkS ++ pctS :: utS)) tcbS (post.flatMap SegX.spell))
    (halias : env.ext.has Gen.EXT_COMPONENT_ALIAS = false ∨ ∀ t ∈ nameS, t.kind ≠ .or)
    (hname : ∃ t ∈ nameS, plainKind t.kind = true ∧ NBs env.cs t.text)
    (hpre : ∀ t ∈ preS, isWsComment t.kind = true)
    (hlk : lkS = [] ∨ ∃ u, lkS = [u] ∧ u.kind = .eq) (hpct : pctS.kind = .percent) :
    ∀ (T tpre tB tpost : List Tok), T = tpre ++ (tB ++ tpost) → Spells tpre (pre.flatMap SegX.spell) →
      Spells tB (c07p_comp tmS [] nameS tobS (preS ++ (lkS ++ pctS :: utS)) tcbS) →
      Spells tpost (post.flatMap SegX.spell) → RunAt (baseOff T) T →
      PlPieceAt (α := α) T env.cs env.ext tpre ⟨tB, c07x_ingrQtySpec nameS (preS ++ (lkS ++ pctS :: utS))
        (c07z_emptyValueEvs env.cs (preS.length + lkS.length))
        (c07z_emptyValueRead env.cs preS.length lkS.length) T tpre tB⟩ :=
  (C07_planted_document_quantity_family (α := α) env pre post tmS nameS tobS _ tcbS
    ⟨pctS, by simp, by simp [isPadK, hpct]⟩ _ _
    (c07z_empty_value_reading env.cs env.ext preS lkS pctS utS hpre hlk hpct)).1 sh halias hname

/-- **Instance: an empty unit `@name{number% blanks}` planted in a document** (the value a well-formed number, or a
    range under RANGE_VALUES; the unit tokens are padding only — none, spaces, block comments; no modifiers, no alias
    separator, a name showing a non-blank character, not followed by `(`).  On every actual block the construct's
    events are EXACTLY the warning `empty-unit` (warning, parse) labelled with the bytes of the actual `%`
    (`n` = number of value tokens), then the ingredient, its quantity without unit, on the byte range of the
    construct.  No error event: by `C07_planted_document` the document HAS output. -/
theorem C07_planted_document_empty_unit (env : Env) (pre post : List SegX) (tmS : Tok) (nameS : List Tok)
    (tobS tcbS : Tok) (v : AVal) (p : VPad) (pctS t0S : Tok) (utS : List Tok)
    (sh : PlShape env.ext .at tmS [] nameS tobS (spellVal v p ++ pctS :: utS) tcbS (post.flatMap SegX.spell))
    (halias : env.ext.has Gen.EXT_COMPONENT_ALIAS = false ∨ ∀ t ∈ nameS, t.kind ≠ .or)
    (hname : ∃ t ∈ nameS, plainKind t.kind = true ∧ NBs env.cs t.text)
    (hv : v.ok env.cs = true) (hp : p.ok env.cs = true) (hnt : v.isText = false)
    (hext : v.isRange = true → env.ext.has Gen.EXT_RANGE_VALUES = true)
    (h0 : (spellVal v p).head? = some t0S) (hws : isWsComment t0S.kind = false) (heq : t0S.kind ≠ .eq)
    (hvp : ∀ t ∈ spellVal v p, t.kind ≠ .percent) (hpct : pctS.kind = .percent)
    (hunit : padOK env.cs utS = true) :
    ∀ (T tpre tB tpost : List Tok), T = tpre ++ (tB ++ tpost) → Spells tpre (pre.flatMap SegX.spell) →
      Spells tB (c07p_comp tmS [] nameS tobS (spellVal v p ++ pctS :: utS) tcbS) →
      Spells tpost (post.flatMap SegX.spell) → RunAt (baseOff T) T →
      PlPieceAt (α := α) T env.cs env.ext tpre ⟨tB, c07x_ingrQtySpec nameS (spellVal v p ++ pctS :: utS)
        (c07z_emptyUnitEvs (spellVal v p).length) (fun _ q => q.quantity.val.unit = none) T tpre tB⟩ :=
  (C07_planted_document_quantity_family (α := α) env pre post tmS nameS tobS _ tcbS
    ⟨pctS, by simp, by simp [isPadK, hpct]⟩ _ _
    (c07z_empty_unit_reading env.cs env.ext v p pctS t0S utS hv hp hnt hext h0 hws heq hvp hpct hunit)).1
      sh halias hname

/-! non-vacuity: the documents `>> source: grandma` / blank / `Use @x{%g} now` and `… Use @x{5%} now`. -/
def C07_zQ1 : List Tok := [] ++ ([] ++ tk .percent ['%'] :: [tk .word ['g']])
def C07_zQ2 : List Tok := spellVal C07_xV5 {} ++ tk .percent ['%'] :: []
def C07_zB1 : List Tok := c07p_comp (tk .at ['@']) [] C07_xName (tk .openBrace ['{']) C07_zQ1 (tk .closeBrace ['}'])
def C07_zB2 : List Tok := c07p_comp (tk .at ['@']) [] C07_xName (tk .openBrace ['{']) C07_zQ2 (tk .closeBrace ['}'])
example : plantedOK C07_coreEnv.cs C07_coreEnv.ext C07_plPre' C07_plPost C07_zB1 = true ∧
    plantedOK C07_coreEnv.cs C07_coreEnv.ext C07_plPre' C07_plPost C07_zB2 = true := by decide
theorem C07_zShape1 : PlShape C07_coreEnv.ext .at (tk .at ['@']) [] C07_xName (tk .openBrace ['{']) C07_zQ1
    (tk .closeBrace ['}']) (C07_plPost.flatMap SegX.spell) :=
  ⟨rfl, Or.inl ⟨rfl, rfl⟩, by decide, rfl, by decide, rfl,
   by intro t h; simp [C07_plPost, SegX.spell] at h; subst h; decide⟩
theorem C07_zShape2 : PlShape C07_coreEnv.ext .at (tk .at ['@']) [] C07_xName (tk .openBrace ['{']) C07_zQ2
    (tk .closeBrace ['}']) (C07_plPost.flatMap SegX.spell) :=
  ⟨rfl, Or.inl ⟨rfl, rfl⟩, by decide, rfl, by decide, rfl,
   by intro t h; simp [C07_plPost, SegX.spell] at h; subst h; decide⟩
example := C07_planted_document_empty_value (α := Rat) C07_coreEnv C07_plPre' C07_plPost _ C07_xName _ _ [] []
  (tk .percent ['%']) [tk .word ['g']] C07_zShape1 (Or.inl rfl) C07_xNameNB (by intro t h; cases h) (Or.inl rfl) rfl
example := C07_planted_document_empty_unit (α := Rat) C07_coreEnv C07_plPre' C07_plPost _ C07_xName _ _ C07_xV5 {}
  (tk .percent ['%']) (tk .int ['5']) [] C07_zShape2 (Or.inl rfl) C07_xNameNB (by decide) (by decide) rfl
  (by intro h; cases h) (by decide) (by decide) (by decide) (by decide) rfl (by decide)
example : (parseRecipe (α := Rat) C07_coreEnv ">> source: grandma\n\nUse @x{%g} now\n".toList).diags.toList =
    [⟨.error, .parse, "empty-value", [⟨27, 27⟩]⟩] := by decide +kernel
example : ((parseRecipe (α := Rat) C07_coreEnv ">> source: grandma\n\nUse @x{5%} now\n".toList).diags.toList.filter
      (fun d => d.stage == .parse),
    (parseRecipe (α := Rat) C07_coreEnv ">> source: grandma\n\nUse @x{5%} now\n".toList).output.isSome) =
    ([⟨.warning, .parse, "empty-unit", [⟨28, 29⟩]⟩], true) := by decide +kernel

/-! ### Intermediate-reference syntax errors as placement pieces (wave 9)

  `PlShapeI` (Lemmas/DiagPlaceInter.lean): the shape of a braces component whose modifier tokens are
  `pre & ( inner ) post`, with its own cut lemma `c07i_cut` (from `rti_modifiersP`). -/

/-- the ingredient event of `@&( inner )name{}` planted after `A` in `T`: `&` flag, no intermediate data -/
def C07_interIngr (T A : List Tok) (tm tand top : Tok) (inner : List Tok) (tcp : Tok) (nameT : List Tok) (tob : Tok)
    (Q : List Tok) (tcb : Tok) : Ev α :=
  .ingredient ⟨⟨⟨Modifiers.empty.insert Modifiers.REF, tokensSpan (tand :: top :: (inner ++ [tcp]))⟩, none,
      buildText (offAt T (A.length + 1 + (c07i_mods [] tand top inner tcp []).length)) nameT, none, none, none⟩,
    ⟨offAt T A.length,
     offAt T (A.length + (c07p_comp tm (c07i_mods [] tand top inner tcp []) nameT tob Q tcb).length)⟩⟩

/-- **The intermediate-reference syntax errors, wherever the ingredient stands** (`@&()x{}`, `@&(~=1)x{}`,
    `@&(99999)x{}`, `@&(-1)x{}`, `@&(x)y{}`; COMPONENT_MODIFIERS and INTERMEDIATE_PREPARATIONS on).  An ingredient
    with modifier tokens exactly `&` `(` inner `)` (`inner` without `)`), a non-blank name without alias separator,
    blank braces, not followed by `(`, anywhere in a step block (`PlPieceAt`: from every state at its position, one
    iteration of the step loop).  `f` = the non-blank tokens of `inner`.  The iteration pushes EXACTLY one error
    (error, parse) and then the ingredient with the `&` flag and no intermediate data on the byte range of the
    construct:
    * generic: whatever event `ev` the data reader pushes on rejecting the group;
    * `f = []` ⇒ `inter-ref-empty` (the group); `f = [~, =, int]` ⇒ `inter-ref-wrong-order` (the `~` and the `=`);
      `f = [int]` above 32767 ⇒ `int-parse` (the number); `f = [±, int]` ⇒ `inter-ref-sign` (the sign);
      `f = [x]`, `x` not an integer ⇒ `inter-ref-invalid` (the span of `inner`).
    PARTIAL: ingredient with the group ALONE and no quantity only (the exact tail `ingredientTail_interref_err`);
    missing: plain modifiers around the group (the cut `c07i_cut` covers them, the tail does not), a quantity, and
    `inter-ref-not-allowed:cookware` (the cookware tail lemma `cookwareTail_inter` is membership only). -/
theorem C07_planted_inter_ref_family_partial (T A rest : List Tok) (cs : CharSpec) (e : Ext) (hw : WF T)
    (tm tand top : Tok) (inner : List Tok) (tcp : Tok) (nameT : List Tok) (tob : Tok) (Q : List Tok) (tcb : Tok)
    (hT : T = A ++ (c07p_comp tm (c07i_mods [] tand top inner tcp []) nameT tob Q tcb ++ rest))
    (sh : PlShapeI e .at tm [] tand top inner tcp [] nameT tob Q tcb rest)
    (hQ : ∀ t ∈ Q, isPadK t = true)
    (ha : e.has Gen.EXT_COMPONENT_ALIAS = false ∨ ∀ t ∈ nameT, t.kind ≠ .or)
    (hname : (buildText (offAt T (A.length + 1 + (c07i_mods [] tand top inner tcp []).length)) nameT).isTextEmpty cs
      = false) :
    (∀ ev : Ev α, (∀ s0 : BP α, parseInterRef (α := α) (top :: (inner ++ tcp :: [])) s0 =
        ((none, []), { s0 with evs := s0.evs.push ev })) →
      PlPieceAt (α := α) T cs e A ⟨c07p_comp tm (c07i_mods [] tand top inner tcp []) nameT tob Q tcb, fun evs =>
        evs = [ev, C07_interIngr T A tm tand top inner tcp nameT tob Q tcb]⟩) ∧
    (inner.filter nonBlankTok = [] →
      PlPieceAt (α := α) T cs e A ⟨c07p_comp tm (c07i_mods [] tand top inner tcp []) nameT tob Q tcb, fun evs =>
        evs = [.error ⟨.error, .parse, "inter-ref-empty", [tokensSpan (top :: (inner ++ [tcp]))]⟩,
          C07_interIngr T A tm tand top inner tcp nameT tob Q tcb]⟩) ∧
    (∀ a b i, inner.filter nonBlankTok = [a, b, i] → a.kind = .tilde → b.kind = .eq → i.kind = .int →
      PlPieceAt (α := α) T cs e A ⟨c07p_comp tm (c07i_mods [] tand top inner tcp []) nameT tob Q tcb, fun evs =>
        evs = [.error ⟨.error, .parse, "inter-ref-wrong-order", [⟨a.start, a.stop⟩, ⟨b.start, b.stop⟩]⟩,
          C07_interIngr T A tm tand top inner tcp nameT tob Q tcb]⟩) ∧
    (∀ i, inner.filter nonBlankTok = [i] → i.kind = .int → 32767 < digitsToNat i.text →
      PlPieceAt (α := α) T cs e A ⟨c07p_comp tm (c07i_mods [] tand top inner tcp []) nameT tob Q tcb, fun evs =>
        evs = [.error ⟨.error, .parse, "int-parse", [⟨i.start, i.stop⟩]⟩,
          C07_interIngr T A tm tand top inner tcp nameT tob Q tcb]⟩) ∧
    (∀ sg i, inner.filter nonBlankTok = [sg, i] → (sg.kind = .minus ∨ sg.kind = .plus) → i.kind = .int →
      PlPieceAt (α := α) T cs e A ⟨c07p_comp tm (c07i_mods [] tand top inner tcp []) nameT tob Q tcb, fun evs =>
        evs = [.error ⟨.error, .parse, "inter-ref-sign", [⟨sg.start, sg.stop⟩]⟩,
          C07_interIngr T A tm tand top inner tcp nameT tob Q tcb]⟩) ∧
    (∀ x, inner.filter nonBlankTok = [x] → x.kind ≠ .int →
      PlPieceAt (α := α) T cs e A ⟨c07p_comp tm (c07i_mods [] tand top inner tcp []) nameT tob Q tcb, fun evs =>
        evs = [.error ⟨.error, .parse, "inter-ref-invalid", [tokensSpan inner]⟩,
          C07_interIngr T A tm tand top inner tcp nameT tob Q tcb]⟩) := by
  have g := c07i_ingredient_inter_piece (α := α) T A rest cs e tm tand top inner tcp nameT tob Q tcb hT hw sh hQ ha
    hname
  exact ⟨g,
    fun h => g _ (fun s0 => parseInterRef_empty top tcp inner [] s0 sh.hop sh.hcp sh.hin h),
    fun a b i h h1 h2 h3 => g _ (fun s0 => parseInterRef_wrong_order top tcp inner [] s0 sh.hop sh.hcp sh.hin a b i h
      h1 h2 h3),
    fun i h h1 h2 => g _ (fun s0 => parseInterRef_too_large top tcp inner [] s0 sh.hop sh.hcp sh.hin i h h1 h2),
    fun sg i h h1 h2 => g _ (fun s0 => parseInterRef_signed top tcp inner [] s0 sh.hop sh.hcp sh.hin sg i h h1 h2),
    fun x h h1 => g _ (fun s0 => parseInterRef_invalid top tcp inner [] s0 sh.hop sh.hcp sh.hin x h h1)⟩

/-! non-vacuity: `Use @&(x)y{} now` under COMPONENT_MODIFIERS + INTERMEDIATE_PREPARATIONS: the hypotheses hold on the
    step's tokens (last clause: `inner = [x]`, a word); the real run reports exactly `inter-ref-invalid` at 7..8. -/
def C07_iToks : List Tok :=
  [⟨.word, "Use".toList, 0⟩, ⟨.ws, [' '], 3⟩, ⟨.at, ['@'], 4⟩, ⟨.and, ['&'], 5⟩, ⟨.openParen, ['('], 6⟩,
   ⟨.word, ['x'], 7⟩, ⟨.closeParen, [')'], 8⟩, ⟨.word, ['y'], 9⟩, ⟨.openBrace, ['{'], 10⟩, ⟨.closeBrace, ['}'], 11⟩,
   ⟨.ws, [' '], 12⟩, ⟨.word, "now".toList, 13⟩]
theorem C07_iWF : WF C07_iToks :=
  WF.of_chain (off := 0) (by simp [C07_iToks, Chain, Tok.stop, utf8Len]; decide)
    (by intro t ht; simp [C07_iToks] at ht
        rcases ht with rfl | rfl | rfl | rfl | rfl | rfl | rfl | rfl | rfl | rfl | rfl | rfl <;> simp)
    (by simp [C07_iToks])
theorem C07_iShape : PlShapeI ⟨Gen.EXT_COMPONENT_MODIFIERS ||| Gen.EXT_INTERMEDIATE_PREPARATIONS⟩ .at ⟨.at, ['@'], 4⟩ []
    ⟨.and, ['&'], 5⟩ ⟨.openParen, ['('], 6⟩ [⟨.word, ['x'], 7⟩] ⟨.closeParen, [')'], 8⟩ [] [⟨.word, ['y'], 9⟩]
    ⟨.openBrace, ['{'], 10⟩ [] ⟨.closeBrace, ['}'], 11⟩ [⟨.ws, [' '], 12⟩, ⟨.word, "now".toList, 13⟩] :=
  ⟨rfl, by decide, by decide, (by intro t h; cases h), rfl, rfl, (by intro t h; simp at h; subst h; decide), rfl,
   (by intro t h; cases h), (by intro t h; simp at h; subst h; decide), (by intro t h; simp at h; subst h; decide),
   rfl, (by intro t h; cases h), rfl, (by intro t h; simp at h; subst h; decide)⟩
example := (C07_planted_inter_ref_family_partial (α := Rat) C07_iToks [⟨.word, "Use".toList, 0⟩, ⟨.ws, [' '], 3⟩]
    [⟨.ws, [' '], 12⟩, ⟨.word, "now".toList, 13⟩] toyCharSpec
    ⟨Gen.EXT_COMPONENT_MODIFIERS ||| Gen.EXT_INTERMEDIATE_PREPARATIONS⟩ C07_iWF ⟨.at, ['@'], 4⟩ ⟨.and, ['&'], 5⟩
    ⟨.openParen, ['('], 6⟩ [⟨.word, ['x'], 7⟩] ⟨.closeParen, [')'], 8⟩ [⟨.word, ['y'], 9⟩] ⟨.openBrace, ['{'], 10⟩ []
    ⟨.closeBrace, ['}'], 11⟩ rfl C07_iShape (by intro t h; cases h) (Or.inl (by decide)) (by decide)).2.2.2.2.2
    ⟨.word, ['x'], 7⟩ (by decide) (by decide)
example : (parseRecipe (α := Rat)
      { C07_coreEnv with ext := ⟨Gen.EXT_COMPONENT_MODIFIERS ||| Gen.EXT_INTERMEDIATE_PREPARATIONS⟩ }
      "Use @&(x)y{} now\n".toList).diags.toList =
    [⟨.error, .parse, "inter-ref-invalid", [⟨7, 8⟩]⟩] := by decide +kernel

-- ===== w10c07doc =====
/-! ## Document-level instances for the pieces WITHOUT a quantity diagnostic (wave 10)

  Duplicate modifiers, modifiers on cookware, the empty-name family (`@{}`, `#{}`, `@{Q}`, `#{Q}`, `@|x{}`), alias
  errors: the step-level pieces (`C07_planted_constructs`, `C07_planted_cookware_modifiers`,
  `C07_planted_empty_name_family`, `C07_planted_empty_name_alias`, `C07_planted_alias_errors`) are stated on ACTUAL
  tokens.  Here the construct is given by SPECIFICATION tokens, every condition is on them (kinds and texts: they
  transfer along `Spells`), and the expected events are a function of the actual parts of the block
  (`c07v_compSpec … F`: the actual block is `marker ms name { Q }`, its parts spell the specified ones, the events are
  `F` of the actual parts — labels are byte offsets of the document).  Each conclusion is the hypothesis `hB` of
  `C07_planted_document`.  `Lemmas/DiagPlaceDocName.lean`. -/

/-- **Instance: modifiers planted in a document** (`@&&x{}`, `#@x{}`, `#&&x{}`; plain modifier tokens, a name showing
    a non-blank character in a plain token, no alias separator, blank braces, not followed by `(`).
    * ingredient: EXACTLY one `duplicate-modifier` (error, parse; the span of all the actual modifier tokens) per
      modifier token repeating an earlier one, then the ingredient with the accumulated flags (`c07v_dupIngrF`);
    * cookware: the same, then `cookware-recipe-modifier` on the first `@` iff there is one, then the item
      (`c07v_cwModsF`). -/
theorem C07_planted_document_modifiers (env : Env) (pre post : List SegX) (tmS : Tok) (msS nameS : List Tok)
    (tobS : Tok) (QS : List Tok) (tcbS : Tok) (hs : SimpleMods msS) (hQ : ∀ t ∈ QS, isPadK t = true)
    (halias : env.ext.has Gen.EXT_COMPONENT_ALIAS = false ∨ ∀ t ∈ nameS, t.kind ≠ .or)
    (hname : ∃ t ∈ nameS, plainKind t.kind = true ∧ NBs env.cs t.text) :
    (PlShape env.ext .at tmS msS nameS tobS QS tcbS (post.flatMap SegX.spell) →
      ∀ (T tpre tB tpost : List Tok), T = tpre ++ (tB ++ tpost) → Spells tpre (pre.flatMap SegX.spell) →
        Spells tB (c07p_comp tmS msS nameS tobS QS tcbS) → Spells tpost (post.flatMap SegX.spell) →
        RunAt (baseOff T) T →
        PlPieceAt (α := α) T env.cs env.ext tpre ⟨tB, c07v_compSpec msS nameS QS tB (c07v_dupIngrF T tpre)⟩) ∧
    (PlShape env.ext .hash tmS msS nameS tobS QS tcbS (post.flatMap SegX.spell) →
      ∀ (T tpre tB tpost : List Tok), T = tpre ++ (tB ++ tpost) → Spells tpre (pre.flatMap SegX.spell) →
        Spells tB (c07p_comp tmS msS nameS tobS QS tcbS) → Spells tpost (post.flatMap SegX.spell) →
        RunAt (baseOff T) T →
        PlPieceAt (α := α) T env.cs env.ext tpre ⟨tB, c07v_compSpec msS nameS QS tB (c07v_cwModsF T tpre)⟩) :=
  ⟨fun sh T tpre tB tpost hT _ hsB hpost hrun =>
      c07v_dup_ingr_pieceAt env.cs env.ext tmS msS nameS tobS QS tcbS _ T tpre tB tpost sh hs hQ halias hname hT hsB
        hpost hrun,
   fun sh T tpre tB tpost hT _ hsB hpost hrun =>
      c07v_cw_mods_pieceAt env.cs env.ext tmS msS nameS tobS QS tcbS _ T tpre tB tpost sh hs hQ halias hname hT hsB
        hpost hrun⟩

/-- **Instance: the empty-name family planted in a document** (name tokens that are padding only — none, spaces, block
    comments —, no alias separator, not followed by `(`).
    * `@{}` (no modifiers, blank braces): EXACTLY `empty-name:ingredient` (error, parse; the span of the blank name
      text at the byte offset after the actual `@`), then the ingredient (`c07v_emptyNameIngrF`);
    * `# ms {}` (plain modifier tokens, blank braces): `empty-name:cookware`, one `duplicate-modifier` per repeated
      modifier token, `cookware-recipe-modifier` iff `@` is among them, then the item (`c07v_emptyNameCwF`);
    * `@{Q}` / `#{Q}` (no modifiers), for ANY reading `l` / `R` of the quantity tokens that holds on every token list
      spelling them: `empty-name:*` FIRST, then `l Q` (cookware: then `cookware-unit` iff the quantity read has a
      unit), then the component carrying the quantity read (`c07v_emptyNameIngrQF`, `c07v_emptyNameCwQF`). -/
theorem C07_planted_document_empty_name_family (env : Env) (pre post : List SegX) (tmS : Tok) (nameS : List Tok)
    (tobS : Tok) (QS : List Tok) (tcbS : Tok)
    (halias : env.ext.has Gen.EXT_COMPONENT_ALIAS = false ∨ ∀ t ∈ nameS, t.kind ≠ .or)
    (hname : padOK env.cs nameS = true) :
    ((∀ t ∈ QS, isPadK t = true) →
      (PlShape env.ext .at tmS [] nameS tobS QS tcbS (post.flatMap SegX.spell) →
        ∀ (T tpre tB tpost : List Tok), T = tpre ++ (tB ++ tpost) → Spells tpre (pre.flatMap SegX.spell) →
          Spells tB (c07p_comp tmS [] nameS tobS QS tcbS) → Spells tpost (post.flatMap SegX.spell) →
          RunAt (baseOff T) T →
          PlPieceAt (α := α) T env.cs env.ext tpre ⟨tB, c07v_compSpec [] nameS QS tB (c07v_emptyNameIngrF T tpre)⟩) ∧
      (∀ msS : List Tok, SimpleMods msS →
        PlShape env.ext .hash tmS msS nameS tobS QS tcbS (post.flatMap SegX.spell) →
        ∀ (T tpre tB tpost : List Tok), T = tpre ++ (tB ++ tpost) → Spells tpre (pre.flatMap SegX.spell) →
          Spells tB (c07p_comp tmS msS nameS tobS QS tcbS) → Spells tpost (post.flatMap SegX.spell) →
          RunAt (baseOff T) T →
          PlPieceAt (α := α) T env.cs env.ext tpre ⟨tB, c07v_compSpec msS nameS QS tB (c07v_emptyNameCwF T tpre)⟩)) ∧
    (∀ (l : List Tok → List (Ev α)) (R : List Tok → ParsedQuantity α → Prop), (∃ t ∈ QS, isPadK t = false) →
      (∀ Q, Spells Q QS → ∀ sq : BP α, sq.cs = env.cs → sq.ext = env.ext →
        Sat (parseQuantity (α := α) Q) sq (fun r s' => Pushed (l Q) sq s' ∧ R Q r)) →
      (PlShape env.ext .at tmS [] nameS tobS QS tcbS (post.flatMap SegX.spell) →
        ∀ (T tpre tB tpost : List Tok), T = tpre ++ (tB ++ tpost) → Spells tpre (pre.flatMap SegX.spell) →
          Spells tB (c07p_comp tmS [] nameS tobS QS tcbS) → Spells tpost (post.flatMap SegX.spell) →
          RunAt (baseOff T) T →
          PlPieceAt (α := α) T env.cs env.ext tpre
            ⟨tB, c07v_compSpec [] nameS QS tB (c07v_emptyNameIngrQF T tpre l R)⟩) ∧
      (PlShape env.ext .hash tmS [] nameS tobS QS tcbS (post.flatMap SegX.spell) →
        ∀ (T tpre tB tpost : List Tok), T = tpre ++ (tB ++ tpost) → Spells tpre (pre.flatMap SegX.spell) →
          Spells tB (c07p_comp tmS [] nameS tobS QS tcbS) → Spells tpost (post.flatMap SegX.spell) →
          RunAt (baseOff T) T →
          PlPieceAt (α := α) T env.cs env.ext tpre
            ⟨tB, c07v_compSpec [] nameS QS tB (c07v_emptyNameCwQF T tpre l R)⟩)) :=
  ⟨fun hQ =>
    ⟨fun sh T tpre tB tpost hT _ hsB hpost hrun =>
        c07v_empty_name_ingr_pieceAt env.cs env.ext tmS nameS tobS QS tcbS _ T tpre tB tpost sh hQ halias hname hT hsB
          hpost hrun,
     fun msS hs sh T tpre tB tpost hT _ hsB hpost hrun =>
        c07v_empty_name_cw_pieceAt env.cs env.ext tmS msS nameS tobS QS tcbS _ T tpre tB tpost sh hs hQ halias hname hT
          hsB hpost hrun⟩,
   fun l R hne hQ =>
    ⟨fun sh T tpre tB tpost hT _ hsB hpost hrun =>
        c07v_empty_name_ingr_qty_pieceAt env.cs env.ext tmS nameS tobS QS tcbS _ T tpre tB tpost sh halias hname hne l R
          hQ hT hsB hpost hrun,
     fun sh T tpre tB tpost hT _ hsB hpost hrun =>
        c07v_empty_name_cw_qty_pieceAt env.cs env.ext tmS nameS tobS QS tcbS _ T tpre tB tpost sh halias hname hne l R
          hQ hT hsB hpost hrun⟩⟩

/-- **Instance: alias errors planted in a document** (`@a|b|c{}`, `@a|{}`, `#a|b|c{}`, `@|x{}`, `#|x{}`; COMPONENT_ALIAS
    on; the first `|` of the SPECIFIED name tokens at index `i`; plain modifier tokens, blank braces, not followed by
    `(`).  `nameT` = the actual name tokens:
    * a name showing a non-blank character in a plain token before the `|`: EXACTLY `aliasEvs` (`multiple-aliases:*`
      from the first `|` to the end of the name tokens iff another `|` follows, else `empty-alias:*` on the `|` iff the
      alias text is blank), one `duplicate-modifier` per repeated modifier token (cookware:
      `cookware-recipe-modifier` iff `@` is among them), then the component named by the tokens before the `|`
      (`c07v_aliasIngrF`, `c07v_aliasCwF`);
    * padding only before the `|`: `aliasEvs`, then `empty-name:*` on the blank text before the `|`, then the modifier
      errors, then the component (`c07v_enAliasIngrF`, `c07v_enAliasCwF`). -/
theorem C07_planted_document_alias_errors (env : Env) (pre post : List SegX) (tmS : Tok) (msS nameS : List Tok)
    (tobS : Tok) (QS : List Tok) (tcbS : Tok) (i : Nat) (hs : SimpleMods msS) (hQ : ∀ t ∈ QS, isPadK t = true)
    (he : env.ext.has Gen.EXT_COMPONENT_ALIAS = true) (hi : nameS.findIdx? (fun t => t.kind == .or) = some i)
    (T tpre tB tpost : List Tok) (hT : T = tpre ++ (tB ++ tpost))
    (hsB : Spells tB (c07p_comp tmS msS nameS tobS QS tcbS)) (hpost : Spells tpost (post.flatMap SegX.spell))
    (hrun : RunAt (baseOff T) T) :
    ((∃ t ∈ nameS.take i, plainKind t.kind = true ∧ NBs env.cs t.text) →
      (PlShape env.ext .at tmS msS nameS tobS QS tcbS (post.flatMap SegX.spell) →
        PlPieceAt (α := α) T env.cs env.ext tpre
          ⟨tB, c07v_compSpec msS nameS QS tB (c07v_aliasIngrF env.cs i T tpre)⟩) ∧
      (PlShape env.ext .hash tmS msS nameS tobS QS tcbS (post.flatMap SegX.spell) →
        PlPieceAt (α := α) T env.cs env.ext tpre
          ⟨tB, c07v_compSpec msS nameS QS tB (c07v_aliasCwF env.cs i T tpre)⟩)) ∧
    (padOK env.cs (nameS.take i) = true →
      (PlShape env.ext .at tmS msS nameS tobS QS tcbS (post.flatMap SegX.spell) →
        PlPieceAt (α := α) T env.cs env.ext tpre
          ⟨tB, c07v_compSpec msS nameS QS tB (c07v_enAliasIngrF env.cs i T tpre)⟩) ∧
      (PlShape env.ext .hash tmS msS nameS tobS QS tcbS (post.flatMap SegX.spell) →
        PlPieceAt (α := α) T env.cs env.ext tpre
          ⟨tB, c07v_compSpec msS nameS QS tB (c07v_enAliasCwF env.cs i T tpre)⟩)) :=
  c07v_alias_pieceAt env.cs env.ext tmS msS nameS tobS QS tcbS _ T tpre tB tpost i hs hQ he hi hT hsB hpost hrun

/-! non-vacuity.  (a) the document `>> source: grandma` / blank / `Use @{} now` (every extension off): all hypotheses of
    `C07_planted_document` decided, `hB` from the first clause of `C07_planted_document_empty_name_family`; the
    evaluated report is exactly `empty-name:ingredient` ⟨25,25⟩, no output.  (b) `Use @&&x{} now`, `Use #@&&x{} now`
    under COMPONENT_MODIFIERS, (c) `Use @a|b|c{} now` under COMPONENT_ALIAS, (d) `Use @{1/0} now` (the reading of
    `C07_zero_denominator_reading`: `empty-name:ingredient` FIRST, then `division-by-zero`): instances applied to the
    specification tokens, reports evaluated. -/
def C07_vB1 : List Tok := c07p_comp (tk .at ['@']) [] [] (tk .openBrace ['{']) [] (tk .closeBrace ['}'])
def C07_vSpec1 : List Tok → List Tok → List Tok → List (Ev Rat) → Prop :=
  fun T tpre tB => c07v_compSpec [] [] [] tB (c07v_emptyNameIngrF T tpre)
def C07_vDoc1 : List (PlBlock Rat × List Tok) :=
  plantedDoc toyCharSpec C07_dDocA [] C07_plPre' C07_plPost C07_vB1 [C01_nl] C07_vSpec1
example : render ([] ++ plDocSpec C07_vDoc1) = ">> source: grandma\n\nUse @{} now\n".toList := by decide
example : ∃ (T tpre tB tpost : List Tok) (evsB : List (Ev Rat)),
    T <:+: lex toyCharSpec (render ([] ++ plDocSpec C07_vDoc1)) ∧ T = tpre ++ (tB ++ tpost) ∧
    Spells tB C07_vB1 ∧ C07_vSpec1 T tpre tB evsB ∧
    (parseRecipe (α := Rat) C07_coreEnv (render ([] ++ plDocSpec C07_vDoc1))).diags.toList.filter
      (fun d => d.stage == .parse) = evDiags evsB := by
  obtain ⟨T, tpre, tB, tpost, evsB, h1, h2, -, h4, -, h6, h7, -⟩ :=
    C07_planted_document (α := Rat) C07_coreEnv [] C07_dDocA [] C07_plPre' C07_plPost C07_vB1 [C01_nl] C07_vSpec1
      (by decide) (by decide) (by intro d h; cases h) (by decide)
      (((C07_planted_document_empty_name_family (α := Rat) C07_coreEnv C07_plPre' C07_plPost (tk .at ['@']) []
        (tk .openBrace ['{']) [] (tk .closeBrace ['}']) (Or.inl rfl) rfl).1 (by intro t h; cases h)).1
        ⟨rfl, Or.inl ⟨rfl, rfl⟩, by decide, rfl, by decide, rfl,
          by intro t h; simp [C07_plPost, SegX.spell] at h; subst h; decide⟩)
      (by decide) (by decide) (by decide)
  exact ⟨T, tpre, tB, tpost, evsB, h1, h2, h4, h6, h7⟩
example : ((parseRecipe (α := Rat) C07_coreEnv (render ([] ++ plDocSpec C07_vDoc1))).diags.toList,
      (parseRecipe (α := Rat) C07_coreEnv (render ([] ++ plDocSpec C07_vDoc1))).output.isSome) =
    ([⟨.error, .parse, "empty-name:ingredient", [⟨25, 25⟩]⟩], false) := by decide +kernel
def C07_vEnvM : Env := { C07_coreEnv with ext := ⟨Gen.EXT_COMPONENT_MODIFIERS⟩ }
def C07_vEnvA : Env := { C07_coreEnv with ext := ⟨Gen.EXT_COMPONENT_ALIAS⟩ }
example := (C07_planted_document_modifiers (α := Rat) C07_vEnvM C07_plPre' C07_plPost (tk .at ['@'])
    [tk .and ['&'], tk .and ['&']] C07_xName (tk .openBrace ['{']) [] (tk .closeBrace ['}'])
    (by intro t h; simp at h; subst h; decide) (by intro t h; cases h) (Or.inl rfl) C07_xNameNB).1
    ⟨rfl, Or.inr ⟨rfl, by intro t h; simp at h; subst h; decide, by intro x h; simp [C07_xName] at h; subst h; decide⟩,
      by decide, rfl, by decide, rfl, by intro t h; simp [C07_plPost, SegX.spell] at h; subst h; decide⟩
example := (C07_planted_document_modifiers (α := Rat) C07_vEnvM C07_plPre' C07_plPost (tk .hash ['#'])
    [tk .at ['@'], tk .and ['&'], tk .and ['&']] C07_xName (tk .openBrace ['{']) [] (tk .closeBrace ['}'])
    (by intro t h; simp at h; rcases h with rfl | rfl <;> decide) (by intro t h; cases h) (Or.inl rfl) C07_xNameNB).2
    ⟨rfl, Or.inr ⟨rfl, by intro t h; simp at h; rcases h with rfl | rfl <;> decide,
        by intro x h; simp [C07_xName] at h; subst h; decide⟩,
      by decide, rfl, by decide, rfl, by intro t h; simp [C07_plPost, SegX.spell] at h; subst h; decide⟩
example : (parseRecipe (α := Rat) C07_vEnvM ">> source: grandma\n\nUse @&&x{} now\n".toList).diags.toList =
    [⟨.error, .parse, "duplicate-modifier", [⟨25, 27⟩]⟩] := by decide +kernel
example : (parseRecipe (α := Rat) C07_vEnvM ">> source: grandma\n\nUse #@&&x{} now\n".toList).diags.toList =
    [⟨.error, .parse, "duplicate-modifier", [⟨25, 28⟩]⟩, ⟨.error, .parse, "cookware-recipe-modifier", [⟨25, 26⟩]⟩] := by
  decide +kernel
def C07_vNameA : List Tok := [tk .word ['a'], tk .or ['|'], tk .word ['b'], tk .or ['|'], tk .word ['c']]
example (T tpre tB tpost : List Tok) (hT : T = tpre ++ (tB ++ tpost))
    (hsB : Spells tB (c07p_comp (tk .at ['@']) [] C07_vNameA (tk .openBrace ['{']) [] (tk .closeBrace ['}'])))
    (hpost : Spells tpost (C07_plPost.flatMap SegX.spell)) (hrun : RunAt (baseOff T) T) :=
  ((C07_planted_document_alias_errors (α := Rat) C07_vEnvA C07_plPre' C07_plPost (tk .at ['@']) [] C07_vNameA
    (tk .openBrace ['{']) [] (tk .closeBrace ['}']) 1 (by intro t h; cases h) (by intro t h; cases h) rfl (by decide)
    T tpre tB tpost hT hsB hpost hrun).1 ⟨tk .word ['a'], by decide, rfl, 'a', by simp [tk], by decide⟩).1
    ⟨rfl, Or.inl ⟨rfl, rfl⟩, by decide, rfl, by decide, rfl,
      by intro t h; simp [C07_plPost, SegX.spell] at h; subst h; decide⟩
example : (parseRecipe (α := Rat) C07_vEnvA ">> source: grandma\n\nUse @a|b|c{} now\n".toList).diags.toList =
    [⟨.error, .parse, "multiple-aliases:ingredient", [⟨26, 30⟩]⟩] := by decide +kernel
example := ((C07_planted_document_empty_name_family (α := Rat) C07_coreEnv C07_plPre' C07_plPost (tk .at ['@']) []
    (tk .openBrace ['{']) C07_xQ1 (tk .closeBrace ['}']) (Or.inl rfl) rfl).2 C07_zeroDenEvs
    (fun _ q => q.quantity.val.unit = none ∧ q.unitSep = none) ⟨tk .int ['1'], by decide, rfl⟩
    (C07_zero_denominator_reading toyCharSpec ⟨0⟩ _ _ _ rfl rfl rfl (by decide) (by decide))).1
    ⟨rfl, Or.inl ⟨rfl, rfl⟩, by decide, rfl, by decide, rfl,
      by intro t h; simp [C07_plPost, SegX.spell] at h; subst h; decide⟩
example : (parseRecipe (α := Rat) C07_coreEnv ">> source: grandma\n\nUse @{1/0} now\n".toList).diags.toList =
    [⟨.error, .parse, "empty-name:ingredient", [⟨25, 25⟩]⟩, ⟨.error, .parse, "division-by-zero", [⟨26, 29⟩]⟩] := by
  decide +kernel


/-! ### The intermediate-reference syntax errors planted in a document (wave 10) -/

/-- the events of `@&( inner )name{}` whose group is rejected with `ev` (a function of the ACTUAL `(`, inner tokens,
    `)`): exactly that event, then the ingredient with the `&` flag and no intermediate data -/
def C07_interF (T A : List Tok) (ev : Tok → List Tok → Tok → Ev α) :
    Tok → Tok → Tok → List Tok → Tok → List Tok → Tok → List Tok → Tok → List (Ev α) → Prop :=
  fun tm tand top inner tcp nameT tob Q tcb evs =>
    evs = [ev top inner tcp, C07_interIngr T A tm tand top inner tcp nameT tob Q tcb]

/-- the first / second non-blank token of the actual group -/
def C07_nb0 (inner : List Tok) : Tok := (inner.filter nonBlankTok).head?.getD dummyTok
def C07_nb1 (inner : List Tok) : Tok := ((inner.filter nonBlankTok).drop 1).head?.getD dummyTok

/-- **Instance: the intermediate-reference syntax errors planted in a document** (`@&()x{}`, `@&(~=1)x{}`,
    `@&(99999)x{}`, `@&(-1)x{}`, `@&(x)y{}`; COMPONENT_MODIFIERS and INTERMEDIATE_PREPARATIONS on).  The construct is
    given by SPECIFICATION tokens `@ & ( innerS ) nameS { QS }` (`PlShapeI` on them; a name showing a non-blank
    character in a plain token, no alias separator, blank braces, not followed by `(`).  On every actual block
    spelling the step the construct is a piece whose events are EXACTLY one error (error, parse), then the ingredient
    with the `&` flag and no intermediate data on the byte range of the construct (`c07v_interSpec … C07_interF`):
    * generic: whatever event `ev top inner tcp` the data reader pushes on rejecting EVERY group spelling the
      specified one;
    * `fS` = the non-blank tokens of `innerS`: `fS = []` ⇒ `inter-ref-empty` (the actual group `( … )`);
      `fS = [~, =, int]` ⇒ `inter-ref-wrong-order` (the actual `~` and `=`); `fS = [int]` above 32767 ⇒ `int-parse`
      (the actual number); `fS = [±, int]` ⇒ `inter-ref-sign` (the actual sign); `fS = [x]`, `x` not an integer ⇒
      `inter-ref-invalid` (the span of the actual inner tokens).  Labels are byte offsets of the document.
    PARTIAL exactly as `C07_planted_inter_ref_family_partial`: the group ALONE, no quantity, ingredient only; missing:
    plain modifiers around the group, a quantity, `inter-ref-not-allowed:cookware`. -/
theorem C07_planted_document_inter_ref_family_partial (env : Env) (pre post : List SegX) (tmS tandS topS : Tok)
    (innerS : List Tok) (tcpS : Tok) (nameS : List Tok) (tobS : Tok) (QS : List Tok) (tcbS : Tok)
    (sh : PlShapeI env.ext .at tmS [] tandS topS innerS tcpS [] nameS tobS QS tcbS (post.flatMap SegX.spell))
    (hQ : ∀ t ∈ QS, isPadK t = true)
    (halias : env.ext.has Gen.EXT_COMPONENT_ALIAS = false ∨ ∀ t ∈ nameS, t.kind ≠ .or)
    (hname : ∃ t ∈ nameS, plainKind t.kind = true ∧ NBs env.cs t.text)
    (T tpre tB tpost : List Tok) (hT : T = tpre ++ (tB ++ tpost))
    (hsB : Spells tB (c07p_comp tmS (c07i_mods [] tandS topS innerS tcpS []) nameS tobS QS tcbS))
    (hpost : Spells tpost (post.flatMap SegX.spell)) (hrun : RunAt (baseOff T) T) :
    (∀ ev : Tok → List Tok → Tok → Ev α,
      (∀ (top : Tok) (inner : List Tok) (tcp : Tok), top.kind = .openParen → tcp.kind = .closeParen →
        (∀ t ∈ inner, t.kind ≠ .closeParen) → Spells inner innerS → ∀ s0 : BP α,
        parseInterRef (α := α) (top :: (inner ++ tcp :: [])) s0 =
          ((none, []), { s0 with evs := s0.evs.push (ev top inner tcp) })) →
      PlPieceAt (α := α) T env.cs env.ext tpre ⟨tB, c07v_interSpec innerS nameS QS tB (C07_interF T tpre ev)⟩) ∧
    (innerS.filter nonBlankTok = [] →
      PlPieceAt (α := α) T env.cs env.ext tpre ⟨tB, c07v_interSpec innerS nameS QS tB (C07_interF T tpre
        (fun top inner tcp => .error ⟨.error, .parse, "inter-ref-empty", [tokensSpan (top :: (inner ++ [tcp]))]⟩))⟩) ∧
    (∀ a b i, innerS.filter nonBlankTok = [a, b, i] → a.kind = .tilde → b.kind = .eq → i.kind = .int →
      PlPieceAt (α := α) T env.cs env.ext tpre ⟨tB, c07v_interSpec innerS nameS QS tB (C07_interF T tpre
        (fun _ inner _ => .error ⟨.error, .parse, "inter-ref-wrong-order",
          [⟨(C07_nb0 inner).start, (C07_nb0 inner).stop⟩, ⟨(C07_nb1 inner).start, (C07_nb1 inner).stop⟩]⟩))⟩) ∧
    (∀ i, innerS.filter nonBlankTok = [i] → i.kind = .int → 32767 < digitsToNat i.text →
      PlPieceAt (α := α) T env.cs env.ext tpre ⟨tB, c07v_interSpec innerS nameS QS tB (C07_interF T tpre
        (fun _ inner _ => .error ⟨.error, .parse, "int-parse", [⟨(C07_nb0 inner).start, (C07_nb0 inner).stop⟩]⟩))⟩) ∧
    (∀ sg i, innerS.filter nonBlankTok = [sg, i] → (sg.kind = .minus ∨ sg.kind = .plus) → i.kind = .int →
      PlPieceAt (α := α) T env.cs env.ext tpre ⟨tB, c07v_interSpec innerS nameS QS tB (C07_interF T tpre
        (fun _ inner _ => .error ⟨.error, .parse, "inter-ref-sign",
          [⟨(C07_nb0 inner).start, (C07_nb0 inner).stop⟩]⟩))⟩) ∧
    (∀ x, innerS.filter nonBlankTok = [x] → x.kind ≠ .int →
      PlPieceAt (α := α) T env.cs env.ext tpre ⟨tB, c07v_interSpec innerS nameS QS tB (C07_interF T tpre
        (fun _ inner _ => .error ⟨.error, .parse, "inter-ref-invalid", [tokensSpan inner]⟩))⟩) := by
  obtain ⟨tm, tand, top, inner, tcp, nameT, tob, Q, tcb, rfl, ki, k3, k5, sh'⟩ := c07v_inter_spells_inv sh hsB hpost
  have hw : WF T := ⟨by rw [hT]; simp [c07p_comp], hrun⟩
  have hf := c07v_filter_transfer ki
  have g : ∀ ev : Tok → List Tok → Tok → Ev α,
      (∀ s0 : BP α, parseInterRef (α := α) (top :: (inner ++ tcp :: [])) s0 =
        ((none, []), { s0 with evs := s0.evs.push (ev top inner tcp) })) →
      PlPieceAt (α := α) T env.cs env.ext tpre ⟨c07p_comp tm (c07i_mods [] tand top inner tcp []) nameT tob Q tcb,
        c07v_interSpec innerS nameS QS (c07p_comp tm (c07i_mods [] tand top inner tcp []) nameT tob Q tcb)
          (C07_interF T tpre ev)⟩ := fun ev hev =>
    ((C07_planted_inter_ref_family_partial (α := α) T tpre tpost env.cs env.ext hw tm tand top inner tcp nameT tob Q
      tcb hT sh' (c07v_pad_transfer k5 hQ) (c07x_alias_transfer k3 halias) (c07x_name_transfer k3 hname _)).1
      (ev top inner tcp) hev).mono
      (fun evs he => ⟨tm, tand, top, inner, tcp, nameT, tob, Q, tcb, rfl, sh'.hop, sh'.hcp, ki, k3, k5, he⟩)
  refine ⟨fun ev hev => g ev (hev top inner tcp sh'.hop sh'.hcp sh'.hin ki), fun h => ?_, fun a b i h h1 h2 h3 => ?_,
    fun i h h1 h2 => ?_, fun sg i h h1 h2 => ?_, fun x h h1 => ?_⟩
  · rw [h] at hf
    exact g _ (fun s0 => parseInterRef_empty top tcp inner [] s0 sh'.hop sh'.hcp sh'.hin hf.nil_inv)
  · rw [h] at hf
    obtain ⟨a', r1, e1, ka, -, hf1⟩ := hf.cons_inv
    obtain ⟨b', r2, rfl, kb, -, hf2⟩ := hf1.cons_inv
    obtain ⟨i', rfl, ki', -⟩ := hf2.single_inv
    refine g _ (fun s0 => ?_)
    simp only [C07_nb0, C07_nb1, e1, List.head?_cons, Option.getD_some, List.drop_succ_cons, List.drop_zero]
    exact parseInterRef_wrong_order (α := α) top tcp inner [] s0 sh'.hop sh'.hcp sh'.hin a' b' i' e1 (ka.trans h1)
      (kb.trans h2) (ki'.trans h3)
  · rw [h] at hf
    obtain ⟨i', e1, ki', ti⟩ := hf.single_inv
    refine g _ (fun s0 => ?_)
    simp only [C07_nb0, e1, List.head?_cons, Option.getD_some]
    exact parseInterRef_too_large top tcp inner [] s0 sh'.hop sh'.hcp sh'.hin i' e1 (ki'.trans h1) (by rw [ti]; exact h2)
  · rw [h] at hf
    obtain ⟨sg', r1, e1, ks, -, hf1⟩ := hf.cons_inv
    obtain ⟨i', rfl, ki', -⟩ := hf1.single_inv
    refine g _ (fun s0 => ?_)
    simp only [C07_nb0, e1, List.head?_cons, Option.getD_some]
    exact parseInterRef_signed top tcp inner [] s0 sh'.hop sh'.hcp sh'.hin sg' i' e1 (by rw [ks]; exact h1)
      (ki'.trans h2)
  · rw [h] at hf
    obtain ⟨x', e1, kx, -⟩ := hf.single_inv
    exact g _ (fun s0 => parseInterRef_invalid top tcp inner [] s0 sh'.hop sh'.hcp sh'.hin x' e1 (by rw [kx]; exact h1))

/-! non-vacuity: `Use @&(x)y{} now` under COMPONENT_MODIFIERS + INTERMEDIATE_PREPARATIONS given by specification tokens:
    the hypotheses hold (last clause: the group holds one word); in the document `>> source: grandma` / blank / that
    step the evaluated report is exactly `inter-ref-invalid` ⟨27,28⟩. -/
def C07_vEnvI : Env := { C07_coreEnv with ext := ⟨Gen.EXT_COMPONENT_MODIFIERS ||| Gen.EXT_INTERMEDIATE_PREPARATIONS⟩ }
theorem C07_vShapeI : PlShapeI C07_vEnvI.ext .at (tk .at ['@']) [] (tk .and ['&']) (tk .openParen ['('])
    [tk .word ['x']] (tk .closeParen [')']) [] [tk .word ['y']] (tk .openBrace ['{']) [] (tk .closeBrace ['}'])
    (C07_plPost.flatMap SegX.spell) :=
  ⟨rfl, by decide, by decide, (by intro t h; cases h), rfl, rfl, (by intro t h; simp at h; subst h; decide), rfl,
   (by intro t h; cases h), (by intro t h; simp at h; subst h; decide), (by intro t h; simp at h; subst h; decide),
   rfl, (by intro t h; cases h), rfl, (by intro t h; simp [C07_plPost, SegX.spell] at h; subst h; decide)⟩
example (T tpre tB tpost : List Tok) (hT : T = tpre ++ (tB ++ tpost))
    (hsB : Spells tB (c07p_comp (tk .at ['@']) (c07i_mods [] (tk .and ['&']) (tk .openParen ['(']) [tk .word ['x']]
      (tk .closeParen [')']) []) [tk .word ['y']] (tk .openBrace ['{']) [] (tk .closeBrace ['}'])))
    (hpost : Spells tpost (C07_plPost.flatMap SegX.spell)) (hrun : RunAt (baseOff T) T) :=
  (C07_planted_document_inter_ref_family_partial (α := Rat) C07_vEnvI C07_plPre' C07_plPost _ _ _ _ _ _ _ _ _
    C07_vShapeI (by intro t h; cases h) (Or.inl (by decide))
    ⟨tk .word ['y'], by simp, rfl, 'y', by simp [tk], by decide⟩ T tpre tB tpost hT hsB hpost hrun).2.2.2.2.2
    (tk .word ['x']) (by decide) (by decide)
example : (parseRecipe (α := Rat) C07_vEnvI ">> source: grandma\n\nUse @&(x)y{} now\n".toList).diags.toList =
    [⟨.error, .parse, "inter-ref-invalid", [⟨27, 28⟩]⟩] := by decide +kernel

/-! ### `invalid-single-word-name` as a placement piece, step and document level (wave 10) -/

/-- **A marker that starts no component, wherever it stands** (`@!x`, `#(`, `~,`, `@ x`; completes
    `C07_invalid_single_word_name_then_text` by running the text branch).  `tm` is `@` / `#` / `~`; the tokens `tl`
    after it hold no `{` and no marker; a marker or the end of the block follows them; the token after `tm` (if any)
    is neither a word / number token nor a modifier character.  From every state at that position ONE iteration of
    the step loop pushes EXACTLY: the warning `invalid-single-word-name` (warning, parse; labelled with the position
    right after the marker — inside the construct) iff a token other than whitespace follows the marker; then ONE
    text event made of the marker and `tl` (everything up to the next marker).  Every extension set. -/
theorem C07_planted_single_word (T A rest : List Tok) (cs : CharSpec) (e : Ext) (hw : WF T) (tm : Tok)
    (tl : List Tok) (hT : T = A ++ ((tm :: tl) ++ rest))
    (hk : tm.kind = .at ∨ tm.kind = .hash ∨ tm.kind = .tilde)
    (hl : ∀ t ∈ tl, (t.kind == .openBrace || isMarker t.kind) = false)
    (hrest : ∀ t, rest.head? = some t → isMarker t.kind = true)
    (h0 : ∀ t, (tl ++ rest).head? = some t → isModStart t.kind = false ∧ isShortK t.kind = false)
    (hvis : (tm :: tl).flatMap vis ≠ []) :
    PlPieceAt (α := α) T cs e A ⟨tm :: tl, fun evs =>
      evs = c07s_swEvs T A (tl ++ rest) ++ [.text (buildText (offAt T A.length) (tm :: tl))]⟩ :=
  c07s_single_word_piece T A rest cs e tm tl hT hw hk hl hrest h0 hvis

/-- **Instance: a marker that starts no component, planted in a document.**  The construct is given by SPECIFICATION
    tokens `tmS :: tlS` (conditions as in `C07_planted_single_word`, on them and on the specified tokens after the
    construct).  On every actual block spelling the step the construct is a piece: EXACTLY the warning
    `invalid-single-word-name` at the byte offset after the actual marker iff the specified token after the marker is
    not whitespace, then one text event made of the construct's actual tokens.  This is the hypothesis `hB` of
    `C07_planted_document`; no error event, so the document HAS output. -/
theorem C07_planted_document_single_word (env : Env) (pre post : List SegX) (tmS : Tok) (tlS : List Tok)
    (hk : tmS.kind = .at ∨ tmS.kind = .hash ∨ tmS.kind = .tilde)
    (hl : ∀ t ∈ tlS, (t.kind == .openBrace || isMarker t.kind) = false)
    (hrest : ∀ t, (post.flatMap SegX.spell).head? = some t → isMarker t.kind = true)
    (h0 : ∀ t, (tlS ++ post.flatMap SegX.spell).head? = some t → isModStart t.kind = false ∧ isShortK t.kind = false)
    (hvis : (tmS :: tlS).flatMap vis ≠ []) :
    ∀ (T tpre tB tpost : List Tok), T = tpre ++ (tB ++ tpost) → Spells tpre (pre.flatMap SegX.spell) →
      Spells tB (tmS :: tlS) → Spells tpost (post.flatMap SegX.spell) → RunAt (baseOff T) T →
      PlPieceAt (α := α) T env.cs env.ext tpre ⟨tB, fun evs =>
        evs = c07s_swEvs T tpre (tlS ++ post.flatMap SegX.spell) ++
          [.text (buildText (offAt T tpre.length) tB)]⟩ :=
  fun T tpre tB tpost hT _ hsB hpost hrun =>
    c07s_single_word_pieceAt env.cs env.ext tmS tlS _ hk hl hrest h0 hvis T tpre tB tpost hT hsB hpost hrun

/-! non-vacuity: the document `>> source: grandma` / blank / `Use @!x now` (every extension off; the construct is
    `@!x now`, nothing after it): all hypotheses of `C07_planted_document` decided, `hB` from the instance; the
    evaluated report has exactly the parse-stage warning `invalid-single-word-name` ⟨25,25⟩ and there is output. -/
def C07_sB : List Tok := [tk .at ['@'], tk .punct ['!'], tk .word ['x'], tk .ws [' '], tk .word "now".toList]
def C07_sSpec : List Tok → List Tok → List Tok → List (Ev Rat) → Prop :=
  fun T tpre tB evs => evs = c07s_swEvs T tpre ([tk .punct ['!'], tk .word ['x'], tk .ws [' '], tk .word "now".toList]
    ++ ([] : List SegX).flatMap SegX.spell) ++ [.text (buildText (offAt T tpre.length) tB)]
def C07_sDoc : List (PlBlock Rat × List Tok) :=
  plantedDoc toyCharSpec C07_dDocA [] C07_plPre' [] C07_sB [C01_nl] C07_sSpec
example : render ([] ++ plDocSpec C07_sDoc) = ">> source: grandma\n\nUse @!x now\n".toList := by decide
example : ∃ (T tpre tB tpost : List Tok) (evsB : List (Ev Rat)),
    T <:+: lex toyCharSpec (render ([] ++ plDocSpec C07_sDoc)) ∧ T = tpre ++ (tB ++ tpost) ∧
    Spells tB C07_sB ∧ C07_sSpec T tpre tB evsB ∧
    (parseRecipe (α := Rat) C07_coreEnv (render ([] ++ plDocSpec C07_sDoc))).diags.toList.filter
      (fun d => d.stage == .parse) = evDiags evsB ∧
    (parseRecipe (α := Rat) C07_coreEnv (render ([] ++ plDocSpec C07_sDoc))).output.isSome = true := by
  obtain ⟨T, tpre, tB, tpost, evsB, h1, h2, -, h4, -, h6, h7, -, h9, -⟩ :=
    C07_planted_document (α := Rat) C07_coreEnv [] C07_dDocA [] C07_plPre' [] C07_sB [C01_nl] C07_sSpec
      (by decide) (by decide) (by intro d h; cases h) (by decide)
      (C07_planted_document_single_word C07_coreEnv C07_plPre' [] (tk .at ['@'])
        [tk .punct ['!'], tk .word ['x'], tk .ws [' '], tk .word "now".toList] (Or.inl rfl) (by decide)
        (by intro t h; cases h) (by intro t h; simp at h; subst h; decide) (by decide))
      (by decide) (by decide) (by decide)
  refine ⟨T, tpre, tB, tpost, evsB, h1, h2, h4, h6, h7, h9 ?_⟩
  intro d hd
  rw [h6] at hd
  simp [c07s_swEvs] at hd
example : ((parseRecipe (α := Rat) C07_coreEnv (render ([] ++ plDocSpec C07_sDoc))).diags.toList.filter
      (fun d => d.stage == .parse)) = [⟨.warning, .parse, "invalid-single-word-name", [⟨25, 25⟩]⟩] := by
  decide +kernel

/-- **A single-word timer `~name`, wherever it stands and whatever follows it** (`~zt`, `~zt(note)`; the single-word
    FORM of the timer entries of the catalogue: timer without duration, note on a timer).  `W` are word / number
    tokens, the token after them is none of these, no `{` lies before the next marker.  From every state at that
    position ONE iteration of the step loop consumes exactly `~ W` and pushes EXACTLY: the warning
    `note-not-allowed:timer` iff `(` … `)` follows; then `timer-missing-quantity` (error, parse; the position at the end
    of the name — there are no braces to point at) under TIMER_REQUIRES_TIME, otherwise
    `timer-neither-name-nor-quantity` iff the name text is blank; then the timer named `W` on the byte range of `~ W`
    (quantity: the recovery value iff an error was raised).  No modifier / alias diagnostic is possible in this form. -/
theorem C07_planted_single_word_timer (T A rest : List Tok) (cs : CharSpec) (e : Ext) (hw : WF T) (tm : Tok)
    (W : List Tok) (hT : T = A ++ ((tm :: W) ++ rest)) (hk : tm.kind = .tilde)
    (hW : ∀ t ∈ W, wordKind t.kind = true) (hne : W ≠ [])
    (hR : ∀ t, rest.head? = some t → wordKind t.kind = false) (hnb : noBraceFirst rest = true) :
    PlPieceAt (α := α) T cs e A ⟨tm :: W, fun evs =>
      evs = c07w_noteEvs T (A.length + (tm :: W).length) ++
        c07w_timerFinishEvs (offAt T (A.length + 1)) ⟨W, none, none⟩ (buildText (offAt T (A.length + 1)) W) cs e ++
        [.timer ⟨⟨if (buildText (offAt T (A.length + 1)) W).isTextEmpty cs then none
            else some (buildText (offAt T (A.length + 1)) W),
          c07w_timerFinishQty (buildText (offAt T (A.length + 1)) W) cs e⟩,
          ⟨offAt T A.length, offAt T (A.length + (tm :: W).length)⟩⟩]⟩ :=
  c07s_timer_short_piece T A rest cs e tm W hT hw hk hW hne hR hnb

/-- **Instance: a single-word timer planted in a document.**  The construct is given by SPECIFICATION tokens
    `~ WS`; the conditions are on them and on the specified tokens after the construct.  On every actual block the
    construct is a piece with the events of `C07_planted_single_word_timer` on the actual tokens
    (`c07s_timerShortSpec`): the hypothesis `hB` of `C07_planted_document`. -/
theorem C07_planted_document_single_word_timer (env : Env) (pre post : List SegX) (tmS : Tok) (WS : List Tok)
    (hk : tmS.kind = .tilde) (hW : ∀ t ∈ WS, wordKind t.kind = true) (hne : WS ≠ [])
    (hR : ∀ t, (post.flatMap SegX.spell).head? = some t → wordKind t.kind = false)
    (hnb : noBraceFirst (post.flatMap SegX.spell) = true) :
    ∀ (T tpre tB tpost : List Tok), T = tpre ++ (tB ++ tpost) → Spells tpre (pre.flatMap SegX.spell) →
      Spells tB (tmS :: WS) → Spells tpost (post.flatMap SegX.spell) → RunAt (baseOff T) T →
      PlPieceAt (α := α) T env.cs env.ext tpre ⟨tB, c07s_timerShortSpec env.cs env.ext WS T tpre tB⟩ :=
  fun T tpre tB tpost hT _ hsB hpost hrun =>
    c07s_timer_short_pieceAt env.cs env.ext tmS WS _ hk hW hne hR hnb T tpre tB tpost hT hsB hpost hrun

/-! non-vacuity: the document `>> source: grandma` / blank / `Use ~zt now` under TIMER_REQUIRES_TIME: all hypotheses of
    `C07_planted_document` decided, `hB` from the instance; evaluated report: exactly `timer-missing-quantity` ⟨27,27⟩
    (the end of the name), no output; `Use ~zt(a) now`: the note warning first. -/
def C07_sEnvT : Env := { C07_coreEnv with ext := ⟨Gen.EXT_TIMER_REQUIRES_TIME⟩ }
def C07_sB2 : List Tok := [tk .tilde ['~'], tk .word "zt".toList]
def C07_sSpec2 : List Tok → List Tok → List Tok → List (Ev Rat) → Prop :=
  c07s_timerShortSpec C07_sEnvT.cs C07_sEnvT.ext [tk .word "zt".toList]
def C07_sDoc2 : List (PlBlock Rat × List Tok) :=
  plantedDoc toyCharSpec C07_dDocA [] C07_plPre' C07_plPost C07_sB2 [C01_nl] C07_sSpec2
example : render ([] ++ plDocSpec C07_sDoc2) = ">> source: grandma\n\nUse ~zt now\n".toList := by decide
example : ∃ (T tpre tB tpost : List Tok) (evsB : List (Ev Rat)),
    T <:+: lex toyCharSpec (render ([] ++ plDocSpec C07_sDoc2)) ∧ T = tpre ++ (tB ++ tpost) ∧
    Spells tB C07_sB2 ∧ C07_sSpec2 T tpre tB evsB ∧
    (parseRecipe (α := Rat) C07_sEnvT (render ([] ++ plDocSpec C07_sDoc2))).diags.toList.filter
      (fun d => d.stage == .parse) = evDiags evsB := by
  obtain ⟨T, tpre, tB, tpost, evsB, h1, h2, -, h4, -, h6, h7, -⟩ :=
    C07_planted_document (α := Rat) C07_sEnvT [] C07_dDocA [] C07_plPre' C07_plPost C07_sB2 [C01_nl] C07_sSpec2
      (by decide) (by decide) (by intro d h; cases h) (by decide)
      (C07_planted_document_single_word_timer C07_sEnvT C07_plPre' C07_plPost (tk .tilde ['~'])
        [tk .word "zt".toList] rfl (by decide) (by decide)
        (by intro t h; simp [C07_plPost, SegX.spell] at h; subst h; decide) (by decide))
      (by decide) (by decide) (by decide)
  exact ⟨T, tpre, tB, tpost, evsB, h1, h2, h4, h6, h7⟩
example : ((parseRecipe (α := Rat) C07_sEnvT (render ([] ++ plDocSpec C07_sDoc2))).diags.toList,
      (parseRecipe (α := Rat) C07_sEnvT (render ([] ++ plDocSpec C07_sDoc2))).output.isSome) =
    ([⟨.error, .parse, "timer-missing-quantity", [⟨27, 27⟩]⟩], false) := by decide +kernel
example : (parseRecipe (α := Rat) C07_sEnvT ">> source: grandma\n\nUse ~zt(a) now\n".toList).diags.toList =
    [⟨.warning, .parse, "note-not-allowed:timer", [⟨27, 30⟩, ⟨27, 27⟩]⟩,
     ⟨.error, .parse, "timer-missing-quantity", [⟨27, 27⟩]⟩] := by decide +kernel

/-- **Single-word ingredient / cookware with modifier tokens, wherever it stands** (`@&&salt`, `#@pot`, `#&&pot`; the
    single-word FORM of the entries duplicate modifier / recipe modifier on cookware).  Marker, plain modifier tokens
    `ms` (none when COMPONENT_MODIFIERS is off), word / number tokens `W` showing a non-blank character; the token after
    them is no word / number token and no `(`; no `{` before the next marker.  One iteration of the step loop consumes
    exactly `marker ms W` and pushes EXACTLY one `duplicate-modifier` (error, parse; the span of the modifier tokens)
    per modifier token repeating an earlier one, for cookware then `cookware-recipe-modifier` on the first `@` iff
    there is one, then the component named `W` with the accumulated flags on the byte range of the construct. -/
theorem C07_planted_single_word_modifiers (T A rest : List Tok) (cs : CharSpec) (e : Ext) (hw : WF T) (tm : Tok)
    (ms W : List Tok) (hT : T = A ++ ((tm :: (ms ++ W)) ++ rest))
    (hm : (e.has Gen.EXT_COMPONENT_MODIFIERS = false ∧ ms = []) ∨
      (e.has Gen.EXT_COMPONENT_MODIFIERS = true ∧ ∀ m ∈ ms, modKind m.kind = true)) (hs : SimpleMods ms)
    (hW : ∀ t ∈ W, wordKind t.kind = true) (hne : W ≠ [])
    (hR : ∀ t, rest.head? = some t → wordKind t.kind = false) (hnb : noBraceFirst rest = true)
    (hnp : ∀ t, rest.head? = some t → t.kind ≠ .openParen)
    (hname : (buildText (offAt T (A.length + 1 + ms.length)) W).isTextEmpty cs = false) :
    (tm.kind = .at → PlPieceAt (α := α) T cs e A ⟨tm :: (ms ++ W), c07s_ingrShortF T A tm ms W⟩) ∧
    (tm.kind = .hash → PlPieceAt (α := α) T cs e A ⟨tm :: (ms ++ W), c07s_cwShortF T A tm ms W⟩) :=
  ⟨fun hk => c07s_ingredient_short_piece T A rest cs e tm ms W hT hw hk hm hs hW hne hR hnb hnp hname,
   fun hk => c07s_cookware_short_piece T A rest cs e tm ms W hT hw hk hm hs hW hne hR hnb hnp hname⟩

/-- **Instance: single-word ingredient / cookware with modifier tokens planted in a document.**  The construct is given
    by SPECIFICATION tokens `marker msS WS` (conditions on them and on the specified tokens after the construct; the
    name shows a non-blank character in a plain token).  On every actual block the construct is a piece with the events
    of `C07_planted_single_word_modifiers` on the actual parts (`c07s_shortSpec`): the hypothesis `hB` of
    `C07_planted_document`. -/
theorem C07_planted_document_single_word_modifiers (env : Env) (pre post : List SegX) (tmS : Tok) (msS WS : List Tok)
    (hm : (env.ext.has Gen.EXT_COMPONENT_MODIFIERS = false ∧ msS = []) ∨
      (env.ext.has Gen.EXT_COMPONENT_MODIFIERS = true ∧ ∀ m ∈ msS, modKind m.kind = true)) (hs : SimpleMods msS)
    (hW : ∀ t ∈ WS, wordKind t.kind = true) (hne : WS ≠ [])
    (hR : ∀ t, (post.flatMap SegX.spell).head? = some t → wordKind t.kind = false)
    (hnb : noBraceFirst (post.flatMap SegX.spell) = true)
    (hnp : ∀ t, (post.flatMap SegX.spell).head? = some t → t.kind ≠ .openParen)
    (hname : ∃ t ∈ WS, plainKind t.kind = true ∧ NBs env.cs t.text) :
    (tmS.kind = .at →
      ∀ (T tpre tB tpost : List Tok), T = tpre ++ (tB ++ tpost) → Spells tpre (pre.flatMap SegX.spell) →
        Spells tB (tmS :: (msS ++ WS)) → Spells tpost (post.flatMap SegX.spell) → RunAt (baseOff T) T →
        PlPieceAt (α := α) T env.cs env.ext tpre ⟨tB, c07s_shortSpec msS WS tB (c07s_ingrShortF T tpre)⟩) ∧
    (tmS.kind = .hash →
      ∀ (T tpre tB tpost : List Tok), T = tpre ++ (tB ++ tpost) → Spells tpre (pre.flatMap SegX.spell) →
        Spells tB (tmS :: (msS ++ WS)) → Spells tpost (post.flatMap SegX.spell) → RunAt (baseOff T) T →
        PlPieceAt (α := α) T env.cs env.ext tpre ⟨tB, c07s_shortSpec msS WS tB (c07s_cwShortF T tpre)⟩) :=
  ⟨fun hk T tpre tB tpost hT _ hsB hpost hrun =>
      (c07s_short_mods_pieceAt env.cs env.ext tmS msS WS _ hm hs hW hne hR hnb hnp hname T tpre tB tpost hT hsB hpost
        hrun).1 hk,
   fun hk T tpre tB tpost hT _ hsB hpost hrun =>
      (c07s_short_mods_pieceAt env.cs env.ext tmS msS WS _ hm hs hW hne hR hnb hnp hname T tpre tB tpost hT hsB hpost
        hrun).2 hk⟩

/-! non-vacuity: the document `>> source: grandma` / blank / `Use #@pot now` under COMPONENT_MODIFIERS: all hypotheses
    of `C07_planted_document` decided, `hB` from the instance; evaluated report: exactly `cookware-recipe-modifier`
    ⟨25,26⟩, no output; `Use @&&salt now`: `duplicate-modifier` ⟨25,27⟩. -/
def C07_sB3 : List Tok := tk .hash ['#'] :: ([tk .at ['@']] ++ [tk .word "pot".toList])
def C07_sSpec3 : List Tok → List Tok → List Tok → List (Ev Rat) → Prop :=
  fun T tpre tB => c07s_shortSpec [tk .at ['@']] [tk .word "pot".toList] tB (c07s_cwShortF T tpre)
def C07_sDoc3 : List (PlBlock Rat × List Tok) :=
  plantedDoc toyCharSpec C07_dDocA [] C07_plPre' C07_plPost C07_sB3 [C01_nl] C07_sSpec3
example : render ([] ++ plDocSpec C07_sDoc3) = ">> source: grandma\n\nUse #@pot now\n".toList := by decide
example : ∃ (T tpre tB tpost : List Tok) (evsB : List (Ev Rat)),
    T <:+: lex toyCharSpec (render ([] ++ plDocSpec C07_sDoc3)) ∧ T = tpre ++ (tB ++ tpost) ∧
    Spells tB C07_sB3 ∧ C07_sSpec3 T tpre tB evsB ∧
    (parseRecipe (α := Rat) C07_vEnvM (render ([] ++ plDocSpec C07_sDoc3))).diags.toList.filter
      (fun d => d.stage == .parse) = evDiags evsB := by
  obtain ⟨T, tpre, tB, tpost, evsB, h1, h2, -, h4, -, h6, h7, -⟩ :=
    C07_planted_document (α := Rat) C07_vEnvM [] C07_dDocA [] C07_plPre' C07_plPost C07_sB3 [C01_nl] C07_sSpec3
      (by decide) (by decide) (by intro d h; cases h) (by decide)
      ((C07_planted_document_single_word_modifiers C07_vEnvM C07_plPre' C07_plPost (tk .hash ['#']) [tk .at ['@']]
        [tk .word "pot".toList] (Or.inr ⟨rfl, by decide⟩) (by intro t h; simp at h; subst h; decide) (by decide) (by decide)
        (by intro t h; simp [C07_plPost, SegX.spell] at h; subst h; decide) (by decide)
        (by intro t h; simp [C07_plPost, SegX.spell] at h; subst h; decide)
        ⟨tk .word "pot".toList, by simp, rfl, 'p', by simp [tk], by decide⟩).2 rfl)
      (by decide) (by decide) (by decide)
  exact ⟨T, tpre, tB, tpost, evsB, h1, h2, h4, h6, h7⟩
example : ((parseRecipe (α := Rat) C07_vEnvM (render ([] ++ plDocSpec C07_sDoc3))).diags.toList,
      (parseRecipe (α := Rat) C07_vEnvM (render ([] ++ plDocSpec C07_sDoc3))).output.isSome) =
    ([⟨.error, .parse, "cookware-recipe-modifier", [⟨25, 26⟩]⟩], false) := by decide +kernel
example : (parseRecipe (α := Rat) C07_vEnvM ">> source: grandma\n\nUse @&&salt now\n".toList).diags.toList =
    [⟨.error, .parse, "duplicate-modifier", [⟨25, 27⟩]⟩] := by decide +kernel

/-! ### `inter-ref-not-allowed:cookware` as a placement piece, step and document level (wave 10) -/

/-- the cookware event of `#&( inner )name{}` planted after `A` in `T`: `&` flag -/
def C07_interCw (T A : List Tok) (tm tand top : Tok) (inner : List Tok) (tcp : Tok) (nameT : List Tok) (tob : Tok)
    (Q : List Tok) (tcb : Tok) : Ev α :=
  .cookware ⟨⟨⟨Modifiers.empty.insert Modifiers.REF, tokensSpan (tand :: top :: (inner ++ [tcp]))⟩,
      buildText (offAt T (A.length + 1 + (c07i_mods [] tand top inner tcp []).length)) nameT, none, none, none⟩,
    ⟨offAt T A.length,
     offAt T (A.length + (c07p_comp tm (c07i_mods [] tand top inner tcp []) nameT tob Q tcb).length)⟩⟩

/-- **An intermediate reference on a cookware item, wherever it stands** (`#&(1)pot{}`; COMPONENT_MODIFIERS and
    INTERMEDIATE_PREPARATIONS on; closes the cookware part left open by `C07_planted_inter_ref_family_partial`).  A
    cookware item with modifier tokens exactly `&` `(` inner `)`, a non-blank name without alias separator, blank
    braces, not followed by `(`.  One iteration of the step loop pushes EXACTLY `inter-ref-not-allowed:cookware` (error,
    parse; labelled with the span of the data = the group `( … )`, inside the construct), then the item with the `&`
    flag on the byte range of the construct:
    * generic: whenever the data reader ACCEPTS the group with data `dd` without pushing anything;
    * the group holds one integer `i ≤ 32767` (and blanks): the label is the span of `( … )`.
    (A REJECTED group on cookware pushes the rejection only: no data, so no `inter-ref-not-allowed` — not stated here.) -/
theorem C07_planted_inter_ref_cookware (T A rest : List Tok) (cs : CharSpec) (e : Ext) (hw : WF T)
    (tm tand top : Tok) (inner : List Tok) (tcp : Tok) (nameT : List Tok) (tob : Tok) (Q : List Tok) (tcb : Tok)
    (hT : T = A ++ (c07p_comp tm (c07i_mods [] tand top inner tcp []) nameT tob Q tcb ++ rest))
    (sh : PlShapeI e .hash tm [] tand top inner tcp [] nameT tob Q tcb rest)
    (hQ : ∀ t ∈ Q, isPadK t = true)
    (ha : e.has Gen.EXT_COMPONENT_ALIAS = false ∨ ∀ t ∈ nameT, t.kind ≠ .or)
    (hname : (buildText (offAt T (A.length + 1 + (c07i_mods [] tand top inner tcp []).length)) nameT).isTextEmpty cs
      = false) :
    (∀ dd : Loc InterData,
      (∀ s0 : BP α, parseInterRef (α := α) (top :: (inner ++ tcp :: [])) s0 = ((some dd, []), s0)) →
      PlPieceAt (α := α) T cs e A ⟨c07p_comp tm (c07i_mods [] tand top inner tcp []) nameT tob Q tcb, fun evs =>
        evs = [.error ⟨.error, .parse, "inter-ref-not-allowed:cookware", [dd.span]⟩,
          C07_interCw T A tm tand top inner tcp nameT tob Q tcb]⟩) ∧
    (∀ i, inner.filter nonBlankTok = [i] → i.kind = .int → digitsToNat i.text ≤ 32767 →
      PlPieceAt (α := α) T cs e A ⟨c07p_comp tm (c07i_mods [] tand top inner tcp []) nameT tob Q tcb, fun evs =>
        evs = [.error ⟨.error, .parse, "inter-ref-not-allowed:cookware", [tokensSpan (top :: (inner ++ [tcp]))]⟩,
          C07_interCw T A tm tand top inner tcp nameT tob Q tcb]⟩) := by
  have g := c07j_cookware_inter_piece (α := α) T A rest cs e tm tand top inner tcp nameT tob Q tcb hT hw sh hQ ha hname
  exact ⟨g, fun i h h1 h2 => g _ (fun s0 => parseInterRef_good top tcp inner [] s0 sh.hop sh.hcp sh.hin i h h1 h2)⟩

/-- **Instance: an intermediate reference on a cookware item planted in a document.**  The construct is given by
    SPECIFICATION tokens `# & ( innerS ) nameS { QS }` (`PlShapeI` on them; the group holds one integer `≤ 32767` and
    blanks; a name showing a non-blank character in a plain token, no alias separator, blank braces).  On every actual
    block the construct is a piece: EXACTLY `inter-ref-not-allowed:cookware` labelled with the byte range of the
    ACTUAL group `( … )`, then the item (`c07v_interSpec`): the hypothesis `hB` of `C07_planted_document`. -/
theorem C07_planted_document_inter_ref_cookware (env : Env) (pre post : List SegX) (tmS tandS topS : Tok)
    (innerS : List Tok) (tcpS : Tok) (nameS : List Tok) (tobS : Tok) (QS : List Tok) (tcbS : Tok)
    (sh : PlShapeI env.ext .hash tmS [] tandS topS innerS tcpS [] nameS tobS QS tcbS (post.flatMap SegX.spell))
    (hQ : ∀ t ∈ QS, isPadK t = true)
    (halias : env.ext.has Gen.EXT_COMPONENT_ALIAS = false ∨ ∀ t ∈ nameS, t.kind ≠ .or)
    (hname : ∃ t ∈ nameS, plainKind t.kind = true ∧ NBs env.cs t.text)
    (iS : Tok) (hf : innerS.filter nonBlankTok = [iS]) (hi : iS.kind = .int) (hfit : digitsToNat iS.text ≤ 32767) :
    ∀ (T tpre tB tpost : List Tok), T = tpre ++ (tB ++ tpost) → Spells tpre (pre.flatMap SegX.spell) →
      Spells tB (c07p_comp tmS (c07i_mods [] tandS topS innerS tcpS []) nameS tobS QS tcbS) →
      Spells tpost (post.flatMap SegX.spell) → RunAt (baseOff T) T →
      PlPieceAt (α := α) T env.cs env.ext tpre ⟨tB, c07v_interSpec innerS nameS QS tB
        (fun tm tand top inner tcp nameT tob Q tcb evs =>
          evs = [.error ⟨.error, .parse, "inter-ref-not-allowed:cookware", [tokensSpan (top :: (inner ++ [tcp]))]⟩,
            C07_interCw T tpre tm tand top inner tcp nameT tob Q tcb])⟩ := by
  intro T tpre tB tpost hT _ hsB hpost hrun
  obtain ⟨tm, tand, top, inner, tcp, nameT, tob, Q, tcb, rfl, ki, k3, k5, sh'⟩ := c07v_inter_spells_inv sh hsB hpost
  have hw : WF T := ⟨by rw [hT]; simp [c07p_comp], hrun⟩
  have hf' := c07v_filter_transfer ki
  rw [hf] at hf'
  obtain ⟨i', e1, ki', ti⟩ := hf'.single_inv
  exact ((C07_planted_inter_ref_cookware (α := α) T tpre tpost env.cs env.ext hw tm tand top inner tcp nameT tob Q tcb
    hT sh' (c07v_pad_transfer k5 hQ) (c07x_alias_transfer k3 halias) (c07x_name_transfer k3 hname _)).2 i' e1
    (ki'.trans hi) (by rw [ti]; exact hfit)).mono
    (fun evs he => ⟨tm, tand, top, inner, tcp, nameT, tob, Q, tcb, rfl, sh'.hop, sh'.hcp, ki, k3, k5, he⟩)

/-! non-vacuity: `Use #&(1)pot{} now` under COMPONENT_MODIFIERS + INTERMEDIATE_PREPARATIONS given by specification tokens:
    the hypotheses hold; in the document `>> source: grandma` / blank / that step the evaluated report is exactly
    `inter-ref-not-allowed:cookware` on the group ⟨26,29⟩. -/
theorem C07_vShapeICw : PlShapeI C07_vEnvI.ext .hash (tk .hash ['#']) [] (tk .and ['&']) (tk .openParen ['('])
    [tk .int ['1']] (tk .closeParen [')']) [] C07_xPot (tk .openBrace ['{']) [] (tk .closeBrace ['}'])
    (C07_plPost.flatMap SegX.spell) :=
  ⟨rfl, by decide, by decide, (by intro t h; cases h), rfl, rfl, (by intro t h; simp at h; subst h; decide), rfl,
   (by intro t h; cases h), (by intro t h; simp [C07_xPot] at h; subst h; decide),
   (by intro t h; simp [C07_xPot] at h; subst h; decide),
   rfl, (by intro t h; cases h), rfl, (by intro t h; simp [C07_plPost, SegX.spell] at h; subst h; decide)⟩
example := C07_planted_document_inter_ref_cookware (α := Rat) C07_vEnvI C07_plPre' C07_plPost _ _ _ _ _ _ _ _ _
    C07_vShapeICw (by intro t h; cases h) (Or.inl (by decide))
    ⟨tk .word "pot".toList, by simp [C07_xPot], rfl, 'p', by simp [tk], by decide⟩ (tk .int ['1']) (by decide) rfl
    (by decide)
example : (parseRecipe (α := Rat) C07_vEnvI ">> source: grandma\n\nUse #&(1)pot{} now\n".toList).diags.toList =
    [⟨.error, .parse, "inter-ref-not-allowed:cookware", [⟨26, 29⟩]⟩] := by decide +kernel

/-- **Instance: an empty value with a blank value TOKEN after the lock, `@name{ = padding %unit }`, planted in a
    document** (`@x{= %g}`, `@x{ =  %}`; left open by wave 9).  Quantity tokens: blanks, the `=`, at least one padding
    token (spaces, block comments — these ARE the value tokens), the `%`, any unit tokens; no modifiers, no alias
    separator, a name showing a non-blank character, not followed by `(`.  On every actual block the construct's events
    are EXACTLY `empty-value` (error, parse) labelled with the span of the actual padding text (not the empty span at
    the `%` of `@x{=%g}`), then the warning `empty-unit` on the actual `%` iff the unit text is blank, then the
    ingredient (unit from the actual unit tokens; lock = the span of the actual `=`) on the byte range of the construct.
    Every extension set. -/
theorem C07_planted_document_empty_value_locked (env : Env) (pre post : List SegX) (tmS : Tok) (nameS : List Tok)
    (tobS tcbS : Tok) (preS : List Tok) (eqS : Tok) (vtS : List Tok) (pctS : Tok) (utS : List Tok)
    (sh : PlShape env.ext .at tmS [] nameS tobS (preS ++ ([eqS] ++ (vtS ++ pctS :: utS))) tcbS
      (post.flatMap SegX.spell))
    (halias : env.ext.has Gen.EXT_COMPONENT_ALIAS = false ∨ ∀ t ∈ nameS, t.kind ≠ .or)
    (hname : ∃ t ∈ nameS, plainKind t.kind = true ∧ NBs env.cs t.text)
    (hpre : ∀ t ∈ preS, isWsComment t.kind = true) (heq : eqS.kind = .eq)
    (hvt : padOK env.cs vtS = true) (hne : vtS ≠ []) (hpct : pctS.kind = .percent) :
    ∀ (T tpre tB tpost : List Tok), T = tpre ++ (tB ++ tpost) → Spells tpre (pre.flatMap SegX.spell) →
      Spells tB (c07p_comp tmS [] nameS tobS (preS ++ ([eqS] ++ (vtS ++ pctS :: utS))) tcbS) →
      Spells tpost (post.flatMap SegX.spell) → RunAt (baseOff T) T →
      PlPieceAt (α := α) T env.cs env.ext tpre ⟨tB, c07x_ingrQtySpec nameS (preS ++ ([eqS] ++ (vtS ++ pctS :: utS)))
        (c07u_emptyValueEvs env.cs preS.length vtS.length)
        (c07u_emptyValueRead env.cs preS.length vtS.length) T tpre tB⟩ :=
  (C07_planted_document_quantity_family (α := α) env pre post tmS nameS tobS _ tcbS
    ⟨pctS, by simp, by simp [isPadK, hpct]⟩ _ _
    (c07u_empty_value_locked_reading env.cs env.ext preS eqS vtS pctS utS hpre heq hvt hne hpct)).1 sh halias hname

/-! non-vacuity: `Use @x{= %g} now`: instance applied to the specification tokens; in the document
    `>> source: grandma` / blank / that step the evaluated report is exactly `empty-value` on the blank ⟨28,29⟩. -/
def C07_uQ : List Tok := [] ++ ([tk .eq ['=']] ++ ([tk .ws [' ']] ++ tk .percent ['%'] :: [tk .word ['g']]))
theorem C07_uShape : PlShape C07_coreEnv.ext .at (tk .at ['@']) [] C07_xName (tk .openBrace ['{']) C07_uQ
    (tk .closeBrace ['}']) (C07_plPost.flatMap SegX.spell) :=
  ⟨rfl, Or.inl ⟨rfl, rfl⟩, by decide, rfl, by decide, rfl,
   by intro t h; simp [C07_plPost, SegX.spell] at h; subst h; decide⟩
example := C07_planted_document_empty_value_locked (α := Rat) C07_coreEnv C07_plPre' C07_plPost _ C07_xName _ _ []
  (tk .eq ['=']) [tk .ws [' ']] (tk .percent ['%']) [tk .word ['g']] C07_uShape (Or.inl rfl) C07_xNameNB
  (by intro t h; cases h) rfl (by decide) (by decide) rfl
example : (parseRecipe (α := Rat) C07_coreEnv ">> source: grandma\n\nUse @x{= %g} now\n".toList).diags.toList =
    [⟨.error, .parse, "empty-value", [⟨28, 29⟩]⟩] := by decide +kernel

/-! ### Ingredient / cookware in braces form FOLLOWED BY A NOTE (wave 10; outside `PlShape`) -/

/-- **An ingredient / cookware item `marker ms name {}` followed by a note `( N )`, wherever it stands** (`@&&x{}(hi)`,
    `#@x{}(hi)`; plain modifier tokens, a non-blank name without alias separator, blank braces, `N` without `)`).  For
    these two components the note IS consumed: one iteration of the step loop consumes component and note and pushes
    EXACTLY the diagnostics of the component without note — one `duplicate-modifier` per repeated modifier token, for
    cookware then `cookware-recipe-modifier` iff `@` is among the modifiers — then the component CARRYING THE NOTE
    (the text of `N`) on the byte range of component and note.  (Timers: `C07_planted_timer_family`, the note is
    refused.) -/
theorem C07_planted_component_with_note (T A rest : List Tok) (cs : CharSpec) (e : Ext) (hw : WF T) (tm : Tok)
    (ms nameT : List Tok) (tob : Tok) (Q : List Tok) (tcb top : Tok) (N : List Tok) (tcp : Tok)
    (hT : T = A ++ (c07n_toks tm ms nameT tob Q tcb top N tcp ++ rest))
    (hop : top.kind = .openParen) (hN : ∀ t ∈ N, t.kind ≠ .closeParen) (hcp : tcp.kind = .closeParen)
    (hs : SimpleMods ms) (hQ : ∀ t ∈ Q, isPadK t = true)
    (ha : e.has Gen.EXT_COMPONENT_ALIAS = false ∨ ∀ t ∈ nameT, t.kind ≠ .or)
    (hname : (buildText (offAt T (A.length + 1 + ms.length)) nameT).isTextEmpty cs = false) :
    (PlShapeN e .at tm ms nameT tob Q tcb →
      PlPieceAt (α := α) T cs e A ⟨c07n_toks tm ms nameT tob Q tcb top N tcp, fun evs =>
        evs = List.replicate (foldMods Modifiers.empty ms).2
            (.error ⟨.error, .parse, "duplicate-modifier", [tokensSpan ms]⟩) ++
          [.ingredient ⟨⟨simpleFlags ms (offAt T (A.length + 1)), none,
            buildText (offAt T (A.length + 1 + ms.length)) nameT, none, none, some (buildText top.stop N)⟩,
          ⟨offAt T A.length, offAt T (A.length + (c07n_toks tm ms nameT tob Q tcb top N tcp).length)⟩⟩]⟩) ∧
    (PlShapeN e .hash tm ms nameT tob Q tcb →
      PlPieceAt (α := α) T cs e A ⟨c07n_toks tm ms nameT tob Q tcb top N tcp, fun evs =>
        evs = List.replicate (foldMods Modifiers.empty ms).2
            (.error ⟨.error, .parse, "duplicate-modifier", [tokensSpan ms]⟩) ++ recipeModEvs ms ++
          [.cookware ⟨⟨simpleFlags ms (offAt T (A.length + 1)),
            buildText (offAt T (A.length + 1 + ms.length)) nameT, none, none, some (buildText top.stop N)⟩,
          ⟨offAt T A.length, offAt T (A.length + (c07n_toks tm ms nameT tob Q tcb top N tcp).length)⟩⟩]⟩) :=
  ⟨fun sh => c07n_ingredient_note_piece T A rest cs e tm ms nameT tob Q tcb top N tcp hT hw sh hop hN hcp hs hQ ha hname,
   fun sh => c07n_cookware_note_piece T A rest cs e tm ms nameT tob Q tcb top N tcp hT hw sh hop hN hcp hs hQ ha hname⟩

/-! non-vacuity: `Use @&&x{}(a) now` under COMPONENT_MODIFIERS: the hypotheses hold on the step's tokens; the real run
    reports exactly `duplicate-modifier` ⟨5,7⟩. -/
def C07_nToks : List Tok :=
  [⟨.word, "Use".toList, 0⟩, ⟨.ws, [' '], 3⟩, ⟨.at, ['@'], 4⟩, ⟨.and, ['&'], 5⟩, ⟨.and, ['&'], 6⟩, ⟨.word, ['x'], 7⟩,
   ⟨.openBrace, ['{'], 8⟩, ⟨.closeBrace, ['}'], 9⟩, ⟨.openParen, ['('], 10⟩, ⟨.word, ['a'], 11⟩,
   ⟨.closeParen, [')'], 12⟩, ⟨.ws, [' '], 13⟩, ⟨.word, "now".toList, 14⟩]
theorem C07_nWF : WF C07_nToks :=
  WF.of_chain (off := 0) (by simp [C07_nToks, Chain, Tok.stop, utf8Len]; decide)
    (by intro t ht; simp [C07_nToks] at ht
        rcases ht with rfl | rfl | rfl | rfl | rfl | rfl | rfl | rfl | rfl | rfl | rfl | rfl | rfl <;> simp)
    (by simp [C07_nToks])
example := (C07_planted_component_with_note (α := Rat) C07_nToks [⟨.word, "Use".toList, 0⟩, ⟨.ws, [' '], 3⟩]
    [⟨.ws, [' '], 13⟩, ⟨.word, "now".toList, 14⟩] toyCharSpec ⟨Gen.EXT_COMPONENT_MODIFIERS⟩ C07_nWF ⟨.at, ['@'], 4⟩
    [⟨.and, ['&'], 5⟩, ⟨.and, ['&'], 6⟩] [⟨.word, ['x'], 7⟩] ⟨.openBrace, ['{'], 8⟩ [] ⟨.closeBrace, ['}'], 9⟩
    ⟨.openParen, ['('], 10⟩ [⟨.word, ['a'], 11⟩] ⟨.closeParen, [')'], 12⟩ rfl rfl
    (by intro t h; simp at h; subst h; decide) rfl (by intro t h; simp at h; rcases h with rfl | rfl <;> decide)
    (by intro t h; cases h) (Or.inl (by decide)) (by decide)).1
    ⟨rfl, Or.inr ⟨by decide, by intro t h; simp at h; rcases h with rfl | rfl <;> decide,
        by intro x h; simp at h; subst h; decide⟩,
      (by intro t h; simp at h; subst h; decide), rfl, (by intro t h; cases h), rfl⟩
example : (parseRecipe (α := Rat) C07_vEnvM "Use @&&x{}(a) now\n".toList).diags.toList =
    [⟨.error, .parse, "duplicate-modifier", [⟨5, 7⟩]⟩] := by decide +kernel

end Cook
