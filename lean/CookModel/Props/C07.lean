import CookModel.Lemmas.Collector
/-
  C07  Diagnostics are sound, complete and placed on the offending construct.

  Proved here for every event sequence (so for every input, extension set and converter):
  the validity definition, the parse-error short-circuit (no output, only parse-stage
  diagnostics) and that without a parse-stage error event there always is output.
  Soundness on well-formed recipes and completeness/placement for each catalogued invalid
  construct are decided on every run by planted-construct generators: the diagnostic (kind,
  severity, stage, every label) is compared with the model and the oracle checks that the primary
  label touches the planted span.
-/
namespace Cook
variable {α : Type} [Arith α]

/-- `PassResult::is_valid`: output present and no error diagnostic -/
def AnalysisResult.isValid (r : AnalysisResult α) : Bool :=
  r.output.isSome && !(r.diags.toList.any (fun d => d.sev == .error))

omit [Arith α] in
theorem C07_validity_def (r : AnalysisResult α) :
    r.isValid = true ↔ (r.output.isSome = true ∧ ∀ d ∈ r.diags.toList, d.sev ≠ .error) := by
  unfold AnalysisResult.isValid
  simp only [Bool.and_eq_true, Bool.not_eq_true', List.any_eq_false, beq_iff_eq]

/-- a parse-stage error event suppresses the output and every analysis-stage diagnostic -/
theorem C07_parse_error_suppresses (env : Env) (input : Str) (evs : List (Ev α)) (s : Col α)
    (h : ∃ d, Ev.error d ∈ evs) :
    (parseEventsLoop env input evs s).output = none ∧
    ∀ d ∈ (parseEventsLoop env input evs s).diags.toList, d.stage = .parse :=
  parseEventsLoop_error_suppresses env input evs s h

/-- without a parse-stage error event there is output (analysis errors keep the output) -/
theorem C07_analysis_error_keeps_output (env : Env) (input : Str) (evs : List (Ev α)) (s : Col α)
    (h : ∀ d, Ev.error d ∉ evs) : (parseEventsLoop env input evs s).output.isSome :=
  parseEventsLoop_no_error_output env input evs s h

end Cook
