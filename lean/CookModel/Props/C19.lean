import CookModel.Side.BindingsSpec
import CookModel.Lemmas.BindingsCombine
import CookModel.Lemmas.BindingsMerge
import CookModel.Lemmas.ParsedScaled
/-
  C19  The FFI view mirrors the core recipe and combines amounts faithfully.

  Model: Side/Bindings.lean (bindings/src/model.rs, bindings/src/lib.rs); vocabulary of the
  statements: Side/BindingsSpec.lean.

  * Mirror clauses: for EVERY scaled core recipe whose item indices are in range (C06's
    invariant, which the canonical parser establishes) and that has at most 2^32 components of
    each kind (a `u32` index cannot address more; `into_item` casts `usize as u32`).
  * Combination clauses: proved over exact rationals (`α := Rat`); the f64 instance of the same
    definitions is what the driver runs against the Rust code.  `combine_ingredients` numbers the
    inputs with `i as u32`, so the list has at most 2^32 entries.
  * Text amounts are concatenated in input order; the property does not speak about them and the
    permutation theorem excludes their value (their presence is still order independent).
  * An out-of-range index given to `combine_ingredients_selected` makes it panic (`unwrap`);
    "combining a selection" is stated for in-range selections (`C19_selected_out_of_range`
    records the other case).
-/
namespace Cook
open Ffi

/-! ## The view mirrors the core recipe -/

/-- Same sections in order: same title, one block per content element, same step items (inline
    quantities as empty text); the step's reference lists are the indices of its items and each
    section's three reference lists are the concatenation of its steps' lists. -/
theorem C19_mirror_sections {α} [Arith α] (r : ScaledRecipe α) (hfit : FitsU32 r) (hin : IndicesInRange r) :
    Forall₂ SectionMirrors r.sections (intoSimpleRecipe r).sections := by
  rw [intoSimpleRecipe_sections]
  exact forall₂_map_of_forall (fun sec hsec => sectionMirrors_intoSection r hfit sec (hin sec hsec))

/-- Same components in order: names, amounts (numbers by `Number::value`), units, notes;
    cookware amounts carry no unit; a nameless timer has the empty name. -/
theorem C19_mirror_components {α} [Arith α] (r : ScaledRecipe α) :
    Forall₂ IngredientMirrors r.ingredients (intoSimpleRecipe r).ingredients ∧
    Forall₂ CookwareMirrors r.cookware (intoSimpleRecipe r).cookware ∧
    Forall₂ TimerMirrors r.timers (intoSimpleRecipe r).timers :=
  ⟨forall₂_map_of_forall (fun c _ => ingredientMirrors_from c),
   forall₂_map_of_forall (fun c _ => cookwareMirrors_from c),
   forall₂_map_of_forall (fun c _ => timerMirrors_from c)⟩

/-- Every item of every step of the view resolves (`deref_component`, `deref_ingredient`,
    `deref_cookware`, `deref_timer` do not panic) to the image of the core component with the same
    index, i.e. of the component the mirrored core item denotes. -/
theorem C19_mirror_resolves {α} [Arith α] (r : ScaledRecipe α) (hfit : FitsU32 r) (hin : IndicesInRange r) :
    ∀ fsec ∈ (intoSimpleRecipe r).sections, ∀ fs, Block.stepBlock fs ∈ fsec.blocks →
      ∀ fit ∈ fs.items, ItemResolves r (intoSimpleRecipe r) fit :=
  items_resolve r hfit hin

/-- Each section's three reference lists equal the concatenation of its steps' lists
    (no hypothesis on the recipe). -/
theorem C19_mirror_section_refs {α} [Arith α] (r : ScaledRecipe α) :
    ∀ fsec ∈ (intoSimpleRecipe r).sections,
      fsec.ingredientRefs = fsec.blocks.flatMap Block.ingredientRefs ∧
      fsec.cookwareRefs = fsec.blocks.flatMap Block.cookwareRefs ∧
      fsec.timerRefs = fsec.blocks.flatMap Block.timerRefs := by
  intro fsec h
  rw [intoSimpleRecipe_sections] at h
  obtain ⟨sec, _, rfl⟩ := List.mem_map.mp h
  rw [intoSection_eq]
  exact ⟨rfl, rfl, rfl⟩

/-- The index-wise reading of `Forall₂` used above: same length and related element by element. -/
theorem C19_mirror_pointwise {β γ : Type} {R : β → γ → Prop} {l₁ : List β} {l₂ : List γ}
    (h : Forall₂ R l₁ l₂) :
    l₁.length = l₂.length ∧ ∀ (i : Nat) (h1 : i < l₁.length) (h2 : i < l₂.length), R l₁[i] l₂[i] :=
  ⟨h.length_eq, h.get⟩

/-! ## Combining ingredients -/

/-- `combine_ingredients` does not panic, the result is a map (every name once, every
    (unit, kind) key once per name), and under (name, unit, Number) it holds exactly the sum of the
    numeric inputs with that name and unit — each input once —, under (name, unit, Range) the
    end-wise sums of the ranges, and the key is absent iff there is no such input. -/
theorem C19_combine_sums (ings : List (FIngredient Rat)) (hlen : ings.length ≤ 4294967296) :
    ∃ m, combineIngredients ings = .ok m ∧ IngredientList.IsMap m ∧
      ∀ name unit,
        IngredientList.value m name ⟨unit, .number⟩ =
          (if numbersOf ings name unit = [] then none
           else some (.number (numbersOf ings name unit).sum)) ∧
        IngredientList.value m name ⟨unit, .range⟩ =
          (if rangesOf ings name unit = [] then none
           else some (.range ((rangesOf ings name unit).map Prod.fst).sum
                             ((rangesOf ings name unit).map Prod.snd).sum)) := by
  obtain ⟨m, h1, h2, h3⟩ := addAll_nil_spec ings
  refine ⟨m, by rw [combineIngredients_eq_addAll ings hlen]; exact h1, h2, fun name unit => ⟨?_, ?_⟩⟩
  · rw [h3, matching_number, foldl_accum_number_none]
  · rw [h3, matching_range, foldl_accum_range_none]

/-- The remaining kinds, for completeness: ingredients without amount leave one `Empty` entry,
    text amounts are concatenated in input order (over any arithmetic). -/
theorem C19_combine_other_kinds {α} [Arith α] (ings : List (FIngredient α)) (hlen : ings.length ≤ 4294967296) :
    ∃ m, combineIngredients ings = .ok m ∧
      ∀ name unit,
        IngredientList.value m name ⟨unit, .empty⟩ =
          (if emptiesOf ings name unit = [] then none else some .empty) ∧
        IngredientList.value m name ⟨unit, .text⟩ =
          (if textsOf ings name unit = [] then none else some (.text (textsOf ings name unit).flatten)) := by
  obtain ⟨m, h1, _, h3⟩ := addAll_nil_spec ings
  refine ⟨m, by rw [combineIngredients_eq_addAll ings hlen]; exact h1, fun name unit => ⟨?_, ?_⟩⟩
  · rw [h3, matching_empty, foldl_accum_empty_none]
  · rw [h3, matching_text, foldl_accum_text_none]

/-- Order of the inputs: for a permutation of the input the combined map holds the same value
    under every key of a numeric kind (Number, Range) and of kind Empty, and a Text key is
    present in one iff it is present in the other. -/
theorem C19_combine_perm (ings ings' : List (FIngredient Rat)) (hp : ings.Perm ings')
    (hlen : ings.length ≤ 4294967296) :
    ∃ m m', combineIngredients ings = .ok m ∧ combineIngredients ings' = .ok m' ∧
      ∀ name key, (key.unitType ≠ .text → IngredientList.value m' name key = IngredientList.value m name key) ∧
        ((IngredientList.value m' name key).isSome = (IngredientList.value m name key).isSome) := by
  have hlen' : ings'.length ≤ 4294967296 := hp.length_eq ▸ hlen
  obtain ⟨m, h1, _, h3⟩ := C19_combine_sums ings hlen
  obtain ⟨m', h1', _, h3'⟩ := C19_combine_sums ings' hlen'
  obtain ⟨m2, g1, g3⟩ := C19_combine_other_kinds ings hlen
  obtain ⟨m2', g1', g3'⟩ := C19_combine_other_kinds ings' hlen'
  have e : m2 = m := by rw [h1] at g1; exact (Except.ok.inj g1).symm
  have e' : m2' = m' := by rw [h1'] at g1'; exact (Except.ok.inj g1').symm
  subst e e'
  refine ⟨m2, m2', h1, h1', ?_⟩
  intro name key
  obtain ⟨unit, ty⟩ := key
  have pn : (numbersOf ings name unit).Perm (numbersOf ings' name unit) := hp.filterMap _
  have pr : (rangesOf ings name unit).Perm (rangesOf ings' name unit) := hp.filterMap _
  have pe : (emptiesOf ings name unit).Perm (emptiesOf ings' name unit) := hp.filterMap _
  have pt : (textsOf ings name unit).Perm (textsOf ings' name unit) := hp.filterMap _
  cases ty with
  | number =>
    have : IngredientList.value m2' name ⟨unit, .number⟩ = IngredientList.value m2 name ⟨unit, .number⟩ := by
      rw [(h3 name unit).1, (h3' name unit).1, perm_sum pn]
      simp only [perm_nil_iff pn]
    exact ⟨fun _ => this, by rw [this]⟩
  | range =>
    have : IngredientList.value m2' name ⟨unit, .range⟩ = IngredientList.value m2 name ⟨unit, .range⟩ := by
      rw [(h3 name unit).2, (h3' name unit).2, perm_sum (pr.map Prod.fst), perm_sum (pr.map Prod.snd)]
      simp only [perm_nil_iff pr]
    exact ⟨fun _ => this, by rw [this]⟩
  | empty =>
    have : IngredientList.value m2' name ⟨unit, .empty⟩ = IngredientList.value m2 name ⟨unit, .empty⟩ := by
      rw [(g3 name unit).1, (g3' name unit).1]
      simp only [perm_nil_iff pe]
    exact ⟨fun _ => this, by rw [this]⟩
  | text =>
    refine ⟨fun h => absurd rfl h, ?_⟩
    rw [(g3 name unit).2, (g3' name unit).2]
    by_cases hn : textsOf ings name unit = []
    · have := (perm_nil_iff pt).mp hn; simp [hn, this]
    · have : ¬ textsOf ings' name unit = [] := fun e => hn ((perm_nil_iff pt).mpr e)
      simp [hn, this]

/-- Iteration order of a hash map: `merge_grouped_quantities left right` gives the same map
    (the same value under every key, of every kind), or panics all the same, for every order in
    which `right` — a map, i.e. distinct keys — is iterated.  (In `combine_ingredients` `right`
    has a single entry, so no order is involved there at all.) -/
theorem C19_merge_iteration_order {α} [Arith α] (left right right' : GroupedQuantity α)
    (h : right.Perm right') (hnd : (AList.keys right).Nodup) :
    (mergeGroupedQuantities left right).map (fun g => (fun k => AList.get g k)) =
      (mergeGroupedQuantities left right').map (fun g => (fun k => AList.get g k)) :=
  merge_order left right right' h hnd

/-- Combining a selection equals combining the selected sub-list (`sel` is the list of the
    ingredients at the given in-range indices, in the given order, repetitions included). -/
theorem C19_combine_selected_is_subset {α} [Arith α] (ings : List (FIngredient α)) (indices : List Nat)
    (sel : List (FIngredient α)) (hsel : indices.map (fun i => ings[i]?) = sel.map some)
    (hlen : indices.length ≤ 4294967296) :
    combineIngredientsSelected ings indices = combineIngredients sel := by
  have : sel.length = indices.length := by
    have := congrArg List.length hsel; simpa using this.symm
  rw [combineSelected_eq_addAll ings indices sel hsel, combineIngredients_eq_addAll sel (this ▸ hlen)]

/-- and combining everything is combining the selection of all indices -/
theorem C19_combine_is_selected_all {α} [Arith α] (ings : List (FIngredient α)) (hlen : ings.length ≤ 4294967296) :
    combineIngredients ings = combineIngredientsSelected ings (List.range ings.length) := by
  unfold combineIngredients; rw [map_toU32_range hlen]

/-- an index outside the list makes `combine_ingredients_selected` panic (the `unwrap` in
    `expand_with_ingredients`); the property is silent about it, C03 is not -/
theorem C19_selected_out_of_range {α} [Arith α] (ings : List (FIngredient α)) (i : Nat) (rest : List Nat)
    (h : ings.length ≤ i) :
    combineIngredientsSelected ings (i :: rest) = .error (.unwrapNone "expand_with_ingredients") :=
  expand_oob ings [] i rest h

/-! ## audit additions (notes/audit-C19.md) -/

/-- the selected sub-list exists as soon as the indices are in range -/
theorem C19_selection_exists {α} (ings : List (FIngredient α)) (indices : List Nat)
    (hin : ∀ i ∈ indices, i < ings.length) :
    indices.map (fun i => ings[i]?) = (indices.filterMap (fun i => ings[i]?)).map some := by
  induction indices with
  | nil => rfl
  | cons i rest ih =>
    have hi : i < ings.length := hin i List.mem_cons_self
    simp only [List.map_cons, List.filterMap_cons, List.getElem?_eq_getElem hi]
    rw [ih (fun j hj => hin j (List.mem_cons_of_mem _ hj))]

/-- "for all selections and orders": the order in which the indices of a selection are given does not
    matter — for a permutation of the (in-range) indices the combined map holds the same value under
    every key of a numeric kind and of kind Empty, and a Text key is present in one iff in the other. -/
theorem C19_combine_selected_perm (ings : List (FIngredient Rat)) (indices indices' : List Nat)
    (hp : indices.Perm indices') (hin : ∀ i ∈ indices, i < ings.length)
    (hlen : indices.length ≤ 4294967296) :
    ∃ m m', combineIngredientsSelected ings indices = .ok m ∧
      combineIngredientsSelected ings indices' = .ok m' ∧
      ∀ name key, (key.unitType ≠ .text → IngredientList.value m' name key = IngredientList.value m name key) ∧
        ((IngredientList.value m' name key).isSome = (IngredientList.value m name key).isSome) := by
  have hin' : ∀ i ∈ indices', i < ings.length := fun i hi => hin i (hp.mem_iff.mpr hi)
  have hlen' : indices'.length ≤ 4294967296 := hp.length_eq ▸ hlen
  rw [C19_combine_selected_is_subset ings indices _ (C19_selection_exists ings indices hin) hlen,
    C19_combine_selected_is_subset ings indices' _ (C19_selection_exists ings indices' hin') hlen']
  apply C19_combine_perm _ _ (hp.filterMap _)
  have : (indices.filterMap (fun i => ings[i]?)).length ≤ indices.length := List.length_filterMap_le _ _
  omega

/-- `merge_ingredient_lists` (bindings/src/model.rs; public, not exported over the FFI), over any
    arithmetic: for kind-consistent lists (`AllKindOK`: every stored value has the kind its key says —
    true of everything `combine_ingredients` returns, `C19_combined_is_mergeable`) and `right` a map, it
    does not panic, the result is kind-consistent again, and under every (name, key) it holds the value of
    `left` alone, the value of `right` alone, or — when both have one — the stored value with the added
    one (`plus`: numbers added, ranges end-wise, texts concatenated, Empty kept).  Nothing is lost, nothing
    invented, whatever the iteration order of `right`'s outer map (the statement is per key). -/
theorem C19_merge_lists_values {α} [Arith α] (left right : Ffi.IngredientList α)
    (hl : AllKindOK left) (hr : AllKindOK right) (hmap : IngredientList.IsMap right) :
    ∃ m, mergeIngredientLists left right = .ok m ∧ AllKindOK m ∧
      ∀ name key, IngredientList.value m name key =
        mergedValue (IngredientList.value left name key) (IngredientList.value right name key) :=
  bmerge_lists_map left right hl hr hmap

/-- … in particular numeric amounts under the same name and unit are summed, ranges end-wise -/
theorem C19_merge_lists_sums (left right : Ffi.IngredientList Rat)
    (hl : AllKindOK left) (hr : AllKindOK right) (hmap : IngredientList.IsMap right) :
    ∃ m, mergeIngredientLists left right = .ok m ∧
      ∀ name key,
        (∀ a b, IngredientList.value left name key = some (.number a) →
          IngredientList.value right name key = some (.number b) →
          IngredientList.value m name key = some (.number (a + b))) ∧
        (∀ a a' b b', IngredientList.value left name key = some (.range a a') →
          IngredientList.value right name key = some (.range b b') →
          IngredientList.value m name key = some (.range (a + b) (a' + b'))) ∧
        (IngredientList.value right name key = none →
          IngredientList.value m name key = IngredientList.value left name key) ∧
        (IngredientList.value left name key = none →
          IngredientList.value m name key = IngredientList.value right name key) := by
  obtain ⟨m, h1, _, h3⟩ := bmerge_lists_map left right hl hr hmap
  refine ⟨m, h1, fun name key => ⟨?_, ?_, ?_, ?_⟩⟩
  · intro a b ha hb; rw [h3, ha, hb]; rfl
  · intro a a' b b' ha hb; rw [h3, ha, hb]; rfl
  · intro hb; rw [h3, hb]; cases IngredientList.value left name key <;> rfl
  · intro ha; rw [h3, ha]; cases IngredientList.value right name key <;> rfl

/-- what `combine_ingredients` returns can be merged: it is a map and kind-consistent -/
theorem C19_combined_is_mergeable {α} [Arith α] (ings : List (FIngredient α)) (hlen : ings.length ≤ 4294967296)
    (m : Ffi.IngredientList α) (h : combineIngredients ings = .ok m) :
    AllKindOK m ∧ IngredientList.IsMap m := by
  rw [combineIngredients_eq_addAll ings hlen] at h
  obtain ⟨m', h1, h2, h3, h4, _⟩ := addAll_spec ings ([] : Ffi.IngredientList α) (fun p hp => by simp at hp)
  rw [h1] at h
  cases h
  exact ⟨h2, h3 (by simp [AList.keys]), h4 (fun p hp => by simp at hp)⟩

/-! ### every recipe the parser returns (link to C06, Lemmas/ParsedScaled.lean)

  `ParsedScaled r`: `r` is what `parse` returns for some environment and input (valid or alongside
  diagnostics), scaled by any factor with any converter or by `default_scale`.  For these the hypothesis
  `IndicesInRange` of the mirror theorems is a theorem (C06, carried through scaling); what remains is
  `FitsU32` (at most 2^32 components of a kind — a `u32` index cannot say more). -/

/-- the item indices of every parsed and scaled recipe are in range -/
theorem C19_parsed_indices_in_range {r : ScaledRecipe Rat} (h : ParsedScaled r) : IndicesInRange r :=
  h.indicesInRange

/-- The mirror clauses for every input and every scaling: same sections, blocks and step items, same
    components, every item reference resolves to the image of the component it denotes. -/
theorem C19_mirror_parsed {r : ScaledRecipe Rat} (h : ParsedScaled r) (hfit : FitsU32 r) :
    Forall₂ SectionMirrors r.sections (intoSimpleRecipe r).sections ∧
    (Forall₂ IngredientMirrors r.ingredients (intoSimpleRecipe r).ingredients ∧
      Forall₂ CookwareMirrors r.cookware (intoSimpleRecipe r).cookware ∧
      Forall₂ TimerMirrors r.timers (intoSimpleRecipe r).timers) ∧
    (∀ fsec ∈ (intoSimpleRecipe r).sections, ∀ fs, Block.stepBlock fs ∈ fsec.blocks →
      ∀ fit ∈ fs.items, ItemResolves r (intoSimpleRecipe r) fit) :=
  ⟨C19_mirror_sections r hfit h.indicesInRange, C19_mirror_components r,
   C19_mirror_resolves r hfit h.indicesInRange⟩

/-! ## Non-vacuity -/

namespace Ffi
def exRecipe : ScaledRecipe Rat :=
  { sections := [⟨some "Dough".toList, [.step ⟨[.text "Mix ".toList, .ingredient 0, .cookware 0, .timer 0, .inlineQuantity 0], 1⟩,
                                       .text "rest".toList]⟩,
                 ⟨none, [.step ⟨[.ingredient 1], 1⟩]⟩],
    ingredients := [⟨"flour".toList, none, some ⟨.number (.fraction 1 1 2 0), some "cup".toList⟩, some "sifted".toList, none,
                      ⟨.definition [] true, none⟩, ⟨0⟩⟩,
                    ⟨"salt".toList, none, some ⟨.range (.regular 1) (.regular 2), none⟩, none, none, ⟨.definition [] true, none⟩, ⟨0⟩⟩],
    cookware := [⟨"bowl".toList, none, some (.text "big".toList), some "x".toList, .definition [] true, ⟨0⟩⟩],
    timers := [⟨none, some ⟨.number (.regular 5), some "min".toList⟩⟩],
    inlineQuantities := [⟨.number (.regular 3), some "g".toList⟩] }

example : FitsU32 exRecipe := by simp [FitsU32, exRecipe]
example : IndicesInRange exRecipe := by
  intro sec hsec s hs it hit
  simp [exRecipe] at hsec
  rcases hsec with rfl | rfl <;> simp at hs <;> subst hs <;> simp at hit <;>
    rcases hit with h | h | h | h | h <;> simp_all [ItemInRange, exRecipe]
example : (intoSimpleRecipe exRecipe).ingredients =
    [⟨"flour".toList, some ⟨.number (3/2), some "cup".toList⟩, some "sifted".toList⟩,
     ⟨"salt".toList, some ⟨.range 1 2, none⟩, none⟩] := by decide +kernel
example : ((intoSimpleRecipe exRecipe).sections.map (·.ingredientRefs)) = [[0], [1]] := by decide +kernel
example : (intoSimpleRecipe exRecipe).timers = [⟨some [], some ⟨.number 5, some "min".toList⟩⟩] := by decide +kernel

def exIngs : List (FIngredient Rat) :=
  [⟨"salt".toList, some ⟨.number 5, some "g".toList⟩, none⟩,
   ⟨"pepper".toList, some ⟨.range 1 2, none⟩, none⟩,
   ⟨"salt".toList, some ⟨.number (1/2), some "g".toList⟩, none⟩,
   ⟨"salt".toList, some ⟨.text "a pinch".toList, none⟩, none⟩,
   ⟨"pepper".toList, some ⟨.range 3 5, some [], ⟩, none⟩,
   ⟨"salt".toList, none, none⟩]

example : combineIngredients exIngs = .ok
    [("salt".toList, [(⟨"g".toList, .number⟩, .number (11/2)), (⟨[], .text⟩, .text "a pinch".toList), (⟨[], .empty⟩, .empty)]),
     ("pepper".toList, [(⟨[], .range⟩, .range 4 7)])] := by decide +kernel
example : numbersOf exIngs "salt".toList "g".toList = [5, 1/2] := by decide +kernel
example : combineIngredientsSelected exIngs [2, 0, 2] = combineIngredients [exIngs[2], exIngs[0], exIngs[2]] := by
  decide +kernel
example : combineIngredientsSelected exIngs [7] = .error (.unwrapNone "expand_with_ingredients") := by decide +kernel
/-- two combined lists merged: salt 5 g + ½ g, pepper 1–2 kept -/
example : (mergeIngredientLists
      [("salt".toList, [(⟨"g".toList, .number⟩, FValue.number (5 : Rat))])]
      [("pepper".toList, [(⟨[], .range⟩, .range 1 2)]), ("salt".toList, [(⟨"g".toList, .number⟩, .number (1/2))])]) = .ok
    [("salt".toList, [(⟨"g".toList, .number⟩, .number (11/2))]), ("pepper".toList, [(⟨[], .range⟩, .range 1 2)])] := by
  decide +kernel
/-- a selection given in two orders: the numeric entries agree -/
example : (combineIngredientsSelected exIngs [0, 2, 4, 1]).map (fun m => (IngredientList.value m "salt".toList ⟨"g".toList, .number⟩,
      IngredientList.value m "pepper".toList ⟨[], .range⟩)) =
    (combineIngredientsSelected exIngs [1, 4, 2, 0]).map (fun m => (IngredientList.value m "salt".toList ⟨"g".toList, .number⟩,
      IngredientList.value m "pepper".toList ⟨[], .range⟩)) := by decide +kernel
end Ffi

end Cook
