import CookModel.Side.BindingsSpec
import CookModel.Lemmas.BindingsCombine
import CookModel.Lemmas.BindingsMerge
import CookModel.Lemmas.ParsedScaled
import CookModel.Lemmas.BindingsParsed
import CookModel.Props.C07
import CookModel.Props.C11
import CookModel.Lemmas.PackParsed
/-
  C19  The FFI view mirrors the core recipe and combines amounts faithfully.

  Model: Side/Bindings.lean (bindings/src/model.rs, bindings/src/lib.rs); vocabulary of the
  statements: Side/BindingsSpec.lean.

  * Mirror clauses: for EVERY scaled core recipe whose item indices are in range (C06's
    invariant, which the canonical parser establishes) and that has at most 2^32 components of
    each kind (a `u32` index cannot address more; `into_item` casts `usize as u32`).
  * Combination clauses: proved over exact rationals (`α := Rat`); the f64 instance of the same
    definitions is what the driver runs against the Rust code.  `combine_ingredients` numbers the
    inputs with `i as u32`, so the list has at most 2^32 entries.
  * Text amounts are concatenated in input order; the property does not speak about them and the
    permutation theorem excludes their value (their presence is still order independent).
  * An out-of-range index given to `combine_ingredients_selected` makes it panic (`unwrap`);
    "combining a selection" is stated for in-range selections (`C19_selected_out_of_range`
    records the other case).
-/
namespace Cook
open Ffi

/-! ## The view mirrors the core recipe -/

/-- Same sections in order: same title, one block per content element, same step items (inline
    quantities as empty text); the step's reference lists are the indices of its items and each
    section's three reference lists are the concatenation of its steps' lists. -/
theorem C19_mirror_sections {α} [Arith α] (r : ScaledRecipe α) (hfit : FitsU32 r) (hin : IndicesInRange r) :
    Forall₂ SectionMirrors r.sections (intoSimpleRecipe r).sections := by
  rw [intoSimpleRecipe_sections]
  exact forall₂_map_of_forall (fun sec hsec => sectionMirrors_intoSection r hfit sec (hin sec hsec))

/-- Same components in order: names, amounts (numbers by `Number::value`), units, notes;
    cookware amounts carry no unit; a nameless timer has the empty name. -/
theorem C19_mirror_components {α} [Arith α] (r : ScaledRecipe α) :
    Forall₂ IngredientMirrors r.ingredients (intoSimpleRecipe r).ingredients ∧
    Forall₂ CookwareMirrors r.cookware (intoSimpleRecipe r).cookware ∧
    Forall₂ TimerMirrors r.timers (intoSimpleRecipe r).timers :=
  ⟨forall₂_map_of_forall (fun c _ => ingredientMirrors_from c),
   forall₂_map_of_forall (fun c _ => cookwareMirrors_from c),
   forall₂_map_of_forall (fun c _ => timerMirrors_from c)⟩

/-- Every item of every step of the view resolves (`deref_component`, `deref_ingredient`,
    `deref_cookware`, `deref_timer` do not panic) to the image of the core component with the same
    index, i.e. of the component the mirrored core item denotes. -/
theorem C19_mirror_resolves {α} [Arith α] (r : ScaledRecipe α) (hfit : FitsU32 r) (hin : IndicesInRange r) :
    ∀ fsec ∈ (intoSimpleRecipe r).sections, ∀ fs, Block.stepBlock fs ∈ fsec.blocks →
      ∀ fit ∈ fs.items, ItemResolves r (intoSimpleRecipe r) fit :=
  items_resolve r hfit hin

/-- Each section's three reference lists equal the concatenation of its steps' lists
    (no hypothesis on the recipe). -/
theorem C19_mirror_section_refs {α} [Arith α] (r : ScaledRecipe α) :
    ∀ fsec ∈ (intoSimpleRecipe r).sections,
      fsec.ingredientRefs = fsec.blocks.flatMap Block.ingredientRefs ∧
      fsec.cookwareRefs = fsec.blocks.flatMap Block.cookwareRefs ∧
      fsec.timerRefs = fsec.blocks.flatMap Block.timerRefs := by
  intro fsec h
  rw [intoSimpleRecipe_sections] at h
  obtain ⟨sec, _, rfl⟩ := List.mem_map.mp h
  rw [intoSection_eq]
  exact ⟨rfl, rfl, rfl⟩

/-- The index-wise reading of `Forall₂` used above: same length and related element by element. -/
theorem C19_mirror_pointwise {β γ : Type} {R : β → γ → Prop} {l₁ : List β} {l₂ : List γ}
    (h : Forall₂ R l₁ l₂) :
    l₁.length = l₂.length ∧ ∀ (i : Nat) (h1 : i < l₁.length) (h2 : i < l₂.length), R l₁[i] l₂[i] :=
  ⟨h.length_eq, h.get⟩

/-! ## Combining ingredients -/

/-- `combine_ingredients` does not panic, the result is a map (every name once, every
    (unit, kind) key once per name), and under (name, unit, Number) it holds exactly the sum of the
    numeric inputs with that name and unit — each input once —, under (name, unit, Range) the
    end-wise sums of the ranges, and the key is absent iff there is no such input. -/
theorem C19_combine_sums (ings : List (FIngredient Rat)) (hlen : ings.length ≤ 4294967296) :
    ∃ m, combineIngredients ings = .ok m ∧ IngredientList.IsMap m ∧
      ∀ name unit,
        IngredientList.value m name ⟨unit, .number⟩ =
          (if numbersOf ings name unit = [] then none
           else some (.number (numbersOf ings name unit).sum)) ∧
        IngredientList.value m name ⟨unit, .range⟩ =
          (if rangesOf ings name unit = [] then none
           else some (.range ((rangesOf ings name unit).map Prod.fst).sum
                             ((rangesOf ings name unit).map Prod.snd).sum)) := by
  obtain ⟨m, h1, h2, h3⟩ := addAll_nil_spec ings
  refine ⟨m, by rw [combineIngredients_eq_addAll ings hlen]; exact h1, h2, fun name unit => ⟨?_, ?_⟩⟩
  · rw [h3, matching_number, foldl_accum_number_none]
  · rw [h3, matching_range, foldl_accum_range_none]

/-- The remaining kinds, for completeness: ingredients without amount leave one `Empty` entry,
    text amounts are concatenated in input order (over any arithmetic). -/
theorem C19_combine_other_kinds {α} [Arith α] (ings : List (FIngredient α)) (hlen : ings.length ≤ 4294967296) :
    ∃ m, combineIngredients ings = .ok m ∧
      ∀ name unit,
        IngredientList.value m name ⟨unit, .empty⟩ =
          (if emptiesOf ings name unit = [] then none else some .empty) ∧
        IngredientList.value m name ⟨unit, .text⟩ =
          (if textsOf ings name unit = [] then none else some (.text (textsOf ings name unit).flatten)) := by
  obtain ⟨m, h1, _, h3⟩ := addAll_nil_spec ings
  refine ⟨m, by rw [combineIngredients_eq_addAll ings hlen]; exact h1, fun name unit => ⟨?_, ?_⟩⟩
  · rw [h3, matching_empty, foldl_accum_empty_none]
  · rw [h3, matching_text, foldl_accum_text_none]

/-- Order of the inputs: for a permutation of the input the combined map holds the same value
    under every key of a numeric kind (Number, Range) and of kind Empty, and a Text key is
    present in one iff it is present in the other. -/
theorem C19_combine_perm (ings ings' : List (FIngredient Rat)) (hp : ings.Perm ings')
    (hlen : ings.length ≤ 4294967296) :
    ∃ m m', combineIngredients ings = .ok m ∧ combineIngredients ings' = .ok m' ∧
      ∀ name key, (key.unitType ≠ .text → IngredientList.value m' name key = IngredientList.value m name key) ∧
        ((IngredientList.value m' name key).isSome = (IngredientList.value m name key).isSome) := by
  have hlen' : ings'.length ≤ 4294967296 := hp.length_eq ▸ hlen
  obtain ⟨m, h1, _, h3⟩ := C19_combine_sums ings hlen
  obtain ⟨m', h1', _, h3'⟩ := C19_combine_sums ings' hlen'
  obtain ⟨m2, g1, g3⟩ := C19_combine_other_kinds ings hlen
  obtain ⟨m2', g1', g3'⟩ := C19_combine_other_kinds ings' hlen'
  have e : m2 = m := by rw [h1] at g1; exact (Except.ok.inj g1).symm
  have e' : m2' = m' := by rw [h1'] at g1'; exact (Except.ok.inj g1').symm
  subst e e'
  refine ⟨m2, m2', h1, h1', ?_⟩
  intro name key
  obtain ⟨unit, ty⟩ := key
  have pn : (numbersOf ings name unit).Perm (numbersOf ings' name unit) := hp.filterMap _
  have pr : (rangesOf ings name unit).Perm (rangesOf ings' name unit) := hp.filterMap _
  have pe : (emptiesOf ings name unit).Perm (emptiesOf ings' name unit) := hp.filterMap _
  have pt : (textsOf ings name unit).Perm (textsOf ings' name unit) := hp.filterMap _
  cases ty with
  | number =>
    have : IngredientList.value m2' name ⟨unit, .number⟩ = IngredientList.value m2 name ⟨unit, .number⟩ := by
      rw [(h3 name unit).1, (h3' name unit).1, perm_sum pn]
      simp only [perm_nil_iff pn]
    exact ⟨fun _ => this, by rw [this]⟩
  | range =>
    have : IngredientList.value m2' name ⟨unit, .range⟩ = IngredientList.value m2 name ⟨unit, .range⟩ := by
      rw [(h3 name unit).2, (h3' name unit).2, perm_sum (pr.map Prod.fst), perm_sum (pr.map Prod.snd)]
      simp only [perm_nil_iff pr]
    exact ⟨fun _ => this, by rw [this]⟩
  | empty =>
    have : IngredientList.value m2' name ⟨unit, .empty⟩ = IngredientList.value m2 name ⟨unit, .empty⟩ := by
      rw [(g3 name unit).1, (g3' name unit).1]
      simp only [perm_nil_iff pe]
    exact ⟨fun _ => this, by rw [this]⟩
  | text =>
    refine ⟨fun h => absurd rfl h, ?_⟩
    rw [(g3 name unit).2, (g3' name unit).2]
    by_cases hn : textsOf ings name unit = []
    · have := (perm_nil_iff pt).mp hn; simp [hn, this]
    · have : ¬ textsOf ings' name unit = [] := fun e => hn ((perm_nil_iff pt).mpr e)
      simp [hn, this]

/-- Iteration order of a hash map: `merge_grouped_quantities left right` gives the same map
    (the same value under every key, of every kind), or panics all the same, for every order in
    which `right` — a map, i.e. distinct keys — is iterated.  (In `combine_ingredients` `right`
    has a single entry, so no order is involved there at all.) -/
theorem C19_merge_iteration_order {α} [Arith α] (left right right' : Ffi.GroupedQuantity α)
    (h : right.Perm right') (hnd : (AList.keys right).Nodup) :
    (mergeGroupedQuantities left right).map (fun g => (fun k => AList.get g k)) =
      (mergeGroupedQuantities left right').map (fun g => (fun k => AList.get g k)) :=
  merge_order left right right' h hnd

/-- Combining a selection equals combining the selected sub-list (`sel` is the list of the
    ingredients at the given in-range indices, in the given order, repetitions included). -/
theorem C19_combine_selected_is_subset {α} [Arith α] (ings : List (FIngredient α)) (indices : List Nat)
    (sel : List (FIngredient α)) (hsel : indices.map (fun i => ings[i]?) = sel.map some)
    (hlen : indices.length ≤ 4294967296) :
    combineIngredientsSelected ings indices = combineIngredients sel := by
  have : sel.length = indices.length := by
    have := congrArg List.length hsel; simpa using this.symm
  rw [combineSelected_eq_addAll ings indices sel hsel, combineIngredients_eq_addAll sel (this ▸ hlen)]

/-- and combining everything is combining the selection of all indices -/
theorem C19_combine_is_selected_all {α} [Arith α] (ings : List (FIngredient α)) (hlen : ings.length ≤ 4294967296) :
    combineIngredients ings = combineIngredientsSelected ings (List.range ings.length) := by
  unfold combineIngredients; rw [map_toU32_range hlen]

/-- an index outside the list makes `combine_ingredients_selected` panic (the `unwrap` in
    `expand_with_ingredients`); the property is silent about it, C03 is not -/
theorem C19_selected_out_of_range {α} [Arith α] (ings : List (FIngredient α)) (i : Nat) (rest : List Nat)
    (h : ings.length ≤ i) :
    combineIngredientsSelected ings (i :: rest) = .error (.unwrapNone "expand_with_ingredients") :=
  expand_oob ings [] i rest h

/-! ## audit additions (notes/audit-C19.md) -/

/-- the selected sub-list exists as soon as the indices are in range -/
theorem C19_selection_exists {α} (ings : List (FIngredient α)) (indices : List Nat)
    (hin : ∀ i ∈ indices, i < ings.length) :
    indices.map (fun i => ings[i]?) = (indices.filterMap (fun i => ings[i]?)).map some := by
  induction indices with
  | nil => rfl
  | cons i rest ih =>
    have hi : i < ings.length := hin i List.mem_cons_self
    simp only [List.map_cons, List.filterMap_cons, List.getElem?_eq_getElem hi]
    rw [ih (fun j hj => hin j (List.mem_cons_of_mem _ hj))]

/-- "for all selections and orders": the order in which the indices of a selection are given does not
    matter — for a permutation of the (in-range) indices the combined map holds the same value under
    every key of a numeric kind and of kind Empty, and a Text key is present in one iff in the other. -/
theorem C19_combine_selected_perm (ings : List (FIngredient Rat)) (indices indices' : List Nat)
    (hp : indices.Perm indices') (hin : ∀ i ∈ indices, i < ings.length)
    (hlen : indices.length ≤ 4294967296) :
    ∃ m m', combineIngredientsSelected ings indices = .ok m ∧
      combineIngredientsSelected ings indices' = .ok m' ∧
      ∀ name key, (key.unitType ≠ .text → IngredientList.value m' name key = IngredientList.value m name key) ∧
        ((IngredientList.value m' name key).isSome = (IngredientList.value m name key).isSome) := by
  have hin' : ∀ i ∈ indices', i < ings.length := fun i hi => hin i (hp.mem_iff.mpr hi)
  have hlen' : indices'.length ≤ 4294967296 := hp.length_eq ▸ hlen
  rw [C19_combine_selected_is_subset ings indices _ (C19_selection_exists ings indices hin) hlen,
    C19_combine_selected_is_subset ings indices' _ (C19_selection_exists ings indices' hin') hlen']
  apply C19_combine_perm _ _ (hp.filterMap _)
  have : (indices.filterMap (fun i => ings[i]?)).length ≤ indices.length := List.length_filterMap_le _ _
  omega

/-- `merge_ingredient_lists` (bindings/src/model.rs; public, not exported over the FFI), over any
    arithmetic: for kind-consistent lists (`AllKindOK`: every stored value has the kind its key says —
    true of everything `combine_ingredients` returns, `C19_combined_is_mergeable`) and `right` a map, it
    does not panic, the result is kind-consistent again, and under every (name, key) it holds the value of
    `left` alone, the value of `right` alone, or — when both have one — the stored value with the added
    one (`plus`: numbers added, ranges end-wise, texts concatenated, Empty kept).  Nothing is lost, nothing
    invented, whatever the iteration order of `right`'s outer map (the statement is per key). -/
theorem C19_merge_lists_values {α} [Arith α] (left right : Ffi.IngredientList α)
    (hl : AllKindOK left) (hr : AllKindOK right) (hmap : IngredientList.IsMap right) :
    ∃ m, mergeIngredientLists left right = .ok m ∧ AllKindOK m ∧
      ∀ name key, IngredientList.value m name key =
        mergedValue (IngredientList.value left name key) (IngredientList.value right name key) :=
  bmerge_lists_map left right hl hr hmap

/-- … in particular numeric amounts under the same name and unit are summed, ranges end-wise -/
theorem C19_merge_lists_sums (left right : Ffi.IngredientList Rat)
    (hl : AllKindOK left) (hr : AllKindOK right) (hmap : IngredientList.IsMap right) :
    ∃ m, mergeIngredientLists left right = .ok m ∧
      ∀ name key,
        (∀ a b, IngredientList.value left name key = some (.number a) →
          IngredientList.value right name key = some (.number b) →
          IngredientList.value m name key = some (.number (a + b))) ∧
        (∀ a a' b b', IngredientList.value left name key = some (.range a a') →
          IngredientList.value right name key = some (.range b b') →
          IngredientList.value m name key = some (.range (a + b) (a' + b'))) ∧
        (IngredientList.value right name key = none →
          IngredientList.value m name key = IngredientList.value left name key) ∧
        (IngredientList.value left name key = none →
          IngredientList.value m name key = IngredientList.value right name key) := by
  obtain ⟨m, h1, _, h3⟩ := bmerge_lists_map left right hl hr hmap
  refine ⟨m, h1, fun name key => ⟨?_, ?_, ?_, ?_⟩⟩
  · intro a b ha hb; rw [h3, ha, hb]; rfl
  · intro a a' b b' ha hb; rw [h3, ha, hb]; rfl
  · intro hb; rw [h3, hb]; cases IngredientList.value left name key <;> rfl
  · intro ha; rw [h3, ha]; cases IngredientList.value right name key <;> rfl

/-- what `combine_ingredients` returns can be merged: it is a map and kind-consistent -/
theorem C19_combined_is_mergeable {α} [Arith α] (ings : List (FIngredient α)) (hlen : ings.length ≤ 4294967296)
    (m : Ffi.IngredientList α) (h : combineIngredients ings = .ok m) :
    AllKindOK m ∧ IngredientList.IsMap m := by
  rw [combineIngredients_eq_addAll ings hlen] at h
  obtain ⟨m', h1, h2, h3, h4, _⟩ := addAll_spec ings ([] : Ffi.IngredientList α) (fun p hp => by simp at hp)
  rw [h1] at h
  cases h
  exact ⟨h2, h3 (by simp [AList.keys]), h4 (fun p hp => by simp at hp)⟩

/-! ### every recipe the parser returns (link to C06, Lemmas/ParsedScaled.lean)

  `ParsedScaled r`: `r` is what `parse` returns for some environment and input (valid or alongside
  diagnostics), scaled by any factor with any converter or by `default_scale`.  For these the hypothesis
  `IndicesInRange` of the mirror theorems is a theorem (C06, carried through scaling); what remains is
  `FitsU32` (at most 2^32 components of a kind — a `u32` index cannot say more). -/

/-- the item indices of every parsed and scaled recipe are in range -/
theorem C19_parsed_indices_in_range {r : ScaledRecipe Rat} (h : ParsedScaled r) : IndicesInRange r :=
  h.indicesInRange

/-- The mirror clauses for every input and every scaling: same sections, blocks and step items, same
    components, every item reference resolves to the image of the component it denotes. -/
theorem C19_mirror_parsed {r : ScaledRecipe Rat} (h : ParsedScaled r) (hfit : FitsU32 r) :
    Forall₂ SectionMirrors r.sections (intoSimpleRecipe r).sections ∧
    (Forall₂ IngredientMirrors r.ingredients (intoSimpleRecipe r).ingredients ∧
      Forall₂ CookwareMirrors r.cookware (intoSimpleRecipe r).cookware ∧
      Forall₂ TimerMirrors r.timers (intoSimpleRecipe r).timers) ∧
    (∀ fsec ∈ (intoSimpleRecipe r).sections, ∀ fs, Block.stepBlock fs ∈ fsec.blocks →
      ∀ fit ∈ fs.items, ItemResolves r (intoSimpleRecipe r) fit) :=
  ⟨C19_mirror_sections r hfit h.indicesInRange, C19_mirror_components r,
   C19_mirror_resolves r hfit h.indicesInRange⟩

/-! ## Non-vacuity -/

namespace Ffi
def exRecipe : ScaledRecipe Rat :=
  { sections := [⟨some "Dough".toList, [.step ⟨[.text "Mix ".toList, .ingredient 0, .cookware 0, .timer 0, .inlineQuantity 0], 1⟩,
                                       .text "rest".toList]⟩,
                 ⟨none, [.step ⟨[.ingredient 1], 1⟩]⟩],
    ingredients := [⟨"flour".toList, none, some ⟨.number (.fraction 1 1 2 0), some "cup".toList⟩, some "sifted".toList, none,
                      ⟨.definition [] true, none⟩, ⟨0⟩⟩,
                    ⟨"salt".toList, none, some ⟨.range (.regular 1) (.regular 2), none⟩, none, none, ⟨.definition [] true, none⟩, ⟨0⟩⟩],
    cookware := [⟨"bowl".toList, none, some (.text "big".toList), some "x".toList, .definition [] true, ⟨0⟩⟩],
    timers := [⟨none, some ⟨.number (.regular 5), some "min".toList⟩⟩],
    inlineQuantities := [⟨.number (.regular 3), some "g".toList⟩] }

example : FitsU32 exRecipe := by simp [FitsU32, exRecipe]
example : IndicesInRange exRecipe := by
  intro sec hsec s hs it hit
  simp [exRecipe] at hsec
  rcases hsec with rfl | rfl <;> simp at hs <;> subst hs <;> simp at hit <;>
    rcases hit with h | h | h | h | h <;> simp_all [ItemInRange, exRecipe]
example : (intoSimpleRecipe exRecipe).ingredients =
    [⟨"flour".toList, some ⟨.number (3/2), some "cup".toList⟩, some "sifted".toList⟩,
     ⟨"salt".toList, some ⟨.range 1 2, none⟩, none⟩] := by decide +kernel
example : ((intoSimpleRecipe exRecipe).sections.map (·.ingredientRefs)) = [[0], [1]] := by decide +kernel
example : (intoSimpleRecipe exRecipe).timers = [⟨some [], some ⟨.number 5, some "min".toList⟩⟩] := by decide +kernel

def exIngs : List (FIngredient Rat) :=
  [⟨"salt".toList, some ⟨.number 5, some "g".toList⟩, none⟩,
   ⟨"pepper".toList, some ⟨.range 1 2, none⟩, none⟩,
   ⟨"salt".toList, some ⟨.number (1/2), some "g".toList⟩, none⟩,
   ⟨"salt".toList, some ⟨.text "a pinch".toList, none⟩, none⟩,
   ⟨"pepper".toList, some ⟨.range 3 5, some [], ⟩, none⟩,
   ⟨"salt".toList, none, none⟩]

example : combineIngredients exIngs = .ok
    [("salt".toList, [(⟨"g".toList, .number⟩, .number (11/2)), (⟨[], .text⟩, .text "a pinch".toList), (⟨[], .empty⟩, .empty)]),
     ("pepper".toList, [(⟨[], .range⟩, .range 4 7)])] := by decide +kernel
example : numbersOf exIngs "salt".toList "g".toList = [5, 1/2] := by decide +kernel
example : combineIngredientsSelected exIngs [2, 0, 2] = combineIngredients [exIngs[2], exIngs[0], exIngs[2]] := by
  decide +kernel
example : combineIngredientsSelected exIngs [7] = .error (.unwrapNone "expand_with_ingredients") := by decide +kernel
/-- two combined lists merged: salt 5 g + ½ g, pepper 1–2 kept -/
example : (mergeIngredientLists
      [("salt".toList, [(⟨"g".toList, .number⟩, FValue.number (5 : Rat))])]
      [("pepper".toList, [(⟨[], .range⟩, .range 1 2)]), ("salt".toList, [(⟨"g".toList, .number⟩, .number (1/2))])]) = .ok
    [("salt".toList, [(⟨"g".toList, .number⟩, .number (11/2))]), ("pepper".toList, [(⟨[], .range⟩, .range 1 2)])] := by
  decide +kernel
/-- a selection given in two orders: the numeric entries agree -/
example : (combineIngredientsSelected exIngs [0, 2, 4, 1]).map (fun m => (IngredientList.value m "salt".toList ⟨"g".toList, .number⟩,
      IngredientList.value m "pepper".toList ⟨[], .range⟩)) =
    (combineIngredientsSelected exIngs [1, 4, 2, 0]).map (fun m => (IngredientList.value m "salt".toList ⟨"g".toList, .number⟩,
      IngredientList.value m "pepper".toList ⟨[], .range⟩)) := by decide +kernel
end Ffi

/-! ## bindings coverage (wave 5, notes/audit-C19.md): the rest of the exported surface

  Model: Side/BindingsAisle.lean (`parse_aisle_config`, `AisleConf::category_for`, `into_category`),
  Side/BindingsEntry.lean (`parse_recipe` as a whole, the `metadata` field / `parse_metadata`);
  vocabulary: Side/BindingsSurfaceSpec.lean; tied to the code by the driver ops `ffi_aisle`, `ffi_meta`,
  `ffi_parse` (Driver/FfiEntry.lean, harness/src/props/c19.rs). -/

/-! ### `deref_*` are index lookups; every reference list of a view resolves -/

/-- `deref_ingredient`, `deref_cookware`, `deref_timer` are the index lookup in the view's own table:
    they return the element at the index, and panic (`unwrap` of `None`) exactly for an index outside it. -/
theorem C19_deref_is_lookup {α} (v : CooklangRecipe α) (i : Nat) :
    (∀ x, derefIngredient v i = .ok x ↔ v.ingredients[i]? = some x) ∧
    (∀ x, derefCookware v i = .ok x ↔ v.cookware[i]? = some x) ∧
    (∀ x, derefTimer v i = .ok x ↔ v.timers[i]? = some x) ∧
    (derefIngredient v i = .error (.unwrapNone "deref_ingredient") ↔ v.ingredients.length ≤ i) ∧
    (derefCookware v i = .error (.unwrapNone "deref_cookware") ↔ v.cookware.length ≤ i) ∧
    (derefTimer v i = .error (.unwrapNone "deref_timer") ↔ v.timers.length ≤ i) :=
  ⟨fun x => bsf_getOrPanic_ok_iff _ i _ x, fun x => bsf_getOrPanic_ok_iff _ i _ x,
   fun x => bsf_getOrPanic_ok_iff _ i _ x, bsf_getOrPanic_error_iff _ i _, bsf_getOrPanic_error_iff _ i _,
   bsf_getOrPanic_error_iff _ i _⟩

/-- `deref_component` is the same lookup, wrapped in the component kind of the item; a text item is
    returned as it is. -/
theorem C19_deref_component_is_lookup {α} (v : CooklangRecipe α) :
    (∀ i, derefComponent v (.ingredientRef i) = (derefIngredient v i |>.mapError fun _ => Panic.unwrapNone "deref_component").map .ingredient) ∧
    (∀ i, derefComponent v (.cookwareRef i) = (derefCookware v i |>.mapError fun _ => Panic.unwrapNone "deref_component").map .cookware) ∧
    (∀ i, derefComponent v (.timerRef i) = (derefTimer v i |>.mapError fun _ => Panic.unwrapNone "deref_component").map .timer) ∧
    (∀ t, derefComponent v (.text t) = .ok (.text t)) := by
  refine ⟨fun i => ?_, fun i => ?_, fun i => ?_, fun t => rfl⟩
  · simp only [derefComponent, derefIngredient, getOrPanic]
    cases v.ingredients[i]? <;> rfl
  · simp only [derefComponent, derefCookware, getOrPanic]
    cases v.cookware[i]? <;> rfl
  · simp only [derefComponent, derefTimer, getOrPanic]
    cases v.timers[i]? <;> rfl

/-- Every index in every reference list of the view — the three lists of every section and of every step
    block — resolves: `deref_ingredient` / `deref_cookware` / `deref_timer` (and `deref_component` of the
    corresponding item) do not panic and return the image of the core component with that index.
    (`C19_mirror_resolves` says this of the step ITEMS; a caller that walks `ingredient_refs` instead is
    covered here.) -/
theorem C19_refs_resolve {α} [Arith α] (r : ScaledRecipe α) (hfit : FitsU32 r) (hin : IndicesInRange r) :
    ∀ fsec ∈ (intoSimpleRecipe r).sections,
      RefsResolve r (intoSimpleRecipe r) fsec.ingredientRefs fsec.cookwareRefs fsec.timerRefs ∧
      ∀ fs, Block.stepBlock fs ∈ fsec.blocks →
        RefsResolve r (intoSimpleRecipe r) fs.ingredientRefs fs.cookwareRefs fs.timerRefs := by
  intro fsec hsec
  have hstep : ∀ fs, Block.stepBlock fs ∈ fsec.blocks →
      RefsResolve r (intoSimpleRecipe r) fs.ingredientRefs fs.cookwareRefs fs.timerRefs := by
    intro fs hfs
    obtain ⟨h1, h2, h3⟩ := bsf_step_refs r hfit hin fsec hsec fs hfs
    have hres := items_resolve r hfit hin fsec hsec fs hfs
    refine ⟨fun i hi => ?_, fun i hi => ?_, fun i hi => ?_⟩
    · exact hres _ (bsf_mem_ingIndex _ i (h1 ▸ hi))
    · exact hres _ (bsf_mem_cwIndex _ i (h2 ▸ hi))
    · exact hres _ (bsf_mem_tmIndex _ i (h3 ▸ hi))
  refine ⟨?_, hstep⟩
  obtain ⟨e1, e2, e3⟩ := C19_mirror_section_refs r fsec hsec
  refine ⟨fun i hi => ?_, fun i hi => ?_, fun i hi => ?_⟩
  · rw [e1] at hi
    obtain ⟨b, hb, hib⟩ := List.mem_flatMap.mp hi
    cases b with
    | stepBlock fs => exact (hstep fs hb).1 i hib
    | noteBlock t => simp [Block.ingredientRefs] at hib
  · rw [e2] at hi
    obtain ⟨b, hb, hib⟩ := List.mem_flatMap.mp hi
    cases b with
    | stepBlock fs => exact (hstep fs hb).2.1 i hib
    | noteBlock t => simp [Block.cookwareRefs] at hib
  · rw [e3] at hi
    obtain ⟨b, hb, hib⟩ := List.mem_flatMap.mp hi
    cases b with
    | stepBlock fs => exact (hstep fs hb).2.2 i hib
    | noteBlock t => simp [Block.timerRefs] at hib

/-- … in particular for every view produced from a parsed recipe (indices in range by
    `C19_parsed_indices_in_range`): dereferencing is total on everything the view itself hands out. -/
theorem C19_refs_resolve_parsed {r : ScaledRecipe Rat} (h : ParsedScaled r) (hfit : FitsU32 r) :
    ∀ fsec ∈ (intoSimpleRecipe r).sections,
      RefsResolve r (intoSimpleRecipe r) fsec.ingredientRefs fsec.cookwareRefs fsec.timerRefs ∧
      ∀ fs, Block.stepBlock fs ∈ fsec.blocks →
        RefsResolve r (intoSimpleRecipe r) fs.ingredientRefs fs.cookwareRefs fs.timerRefs :=
  C19_refs_resolve r hfit h.indicesInRange

/-! ### `parse_recipe` as a whole: parse, `into_result().unwrap()`, scale, view -/

/-- the validity test of `into_result` is the `PassResult::is_valid` of C07 -/
theorem C19_pass_valid_is_valid {α} [Arith α] (r : AnalysisResult α) : passValid r = r.isValid := rfl

/-- `parse_recipe` returns a view exactly for the inputs whose pass result is valid (an output and no
    error diagnostic); for every other input it panics in `into_result().unwrap()` — never anywhere else
    (no parser panic: C03).  Any parser environment, any converter, any factor. -/
theorem C19_parse_recipe_ok_iff (env : Env) (cv : Converter Rat) (input : Str) (f : Rat) :
    ((∃ v, parseRecipeView env cv input f = .ok v) ↔ passValid (parseRecipe (α := Rat) env input) = true) ∧
    (passValid (parseRecipe (α := Rat) env input) = false →
      parseRecipeView env cv input f = .error (.unwrapNone "parse_recipe: into_result")) := by
  refine ⟨⟨fun ⟨v, h⟩ => ?_, fun hv => ?_⟩, fun hv => ?_⟩
  · obtain ⟨r, hr, _⟩ := bsf_parseRecipeView_ok env cv input f v h
    exact (bsf_parseScaled_iff env cv input f).mp ⟨r, hr⟩
  · obtain ⟨r, hr⟩ := (bsf_parseScaled_iff env cv input f).mpr hv
    exact ⟨intoSimpleRecipe r, by unfold parseRecipeView; rw [hr]; rfl⟩
  · unfold parseRecipeView
    rw [bsf_parseScaled_error env cv input f hv]; rfl

/-- The view `parse_recipe` returns IS `into_simple_recipe` of the parsed recipe scaled by the given
    factor — a `ParsedScaled` recipe —, so all the mirror clauses hold of it: same sections, blocks and
    step items, same components, every item and every index of every reference list resolves.
    The scaling-factor argument only enters through `scale`. -/
theorem C19_parse_recipe_mirrors (env : Env) (cv : Converter Rat) (input : Str) (f : Rat)
    (v : CooklangRecipe Rat) (h : parseRecipeView env cv input f = .ok v) :
    ∃ c r, (parseRecipe (α := Rat) env input).output = some c ∧ r = (recipeScale cv c.toRecipe f).1 ∧
      ParsedScaled r ∧ v = intoSimpleRecipe r ∧
      (FitsU32 r →
        Forall₂ SectionMirrors r.sections v.sections ∧
        (Forall₂ IngredientMirrors r.ingredients v.ingredients ∧
          Forall₂ CookwareMirrors r.cookware v.cookware ∧ Forall₂ TimerMirrors r.timers v.timers) ∧
        (∀ fsec ∈ v.sections, ∀ fs, Block.stepBlock fs ∈ fsec.blocks → ∀ fit ∈ fs.items, ItemResolves r v fit) ∧
        (∀ fsec ∈ v.sections, RefsResolve r v fsec.ingredientRefs fsec.cookwareRefs fsec.timerRefs ∧
          ∀ fs, Block.stepBlock fs ∈ fsec.blocks → RefsResolve r v fs.ingredientRefs fs.cookwareRefs fs.timerRefs)) := by
  obtain ⟨r, hr, rfl⟩ := bsf_parseRecipeView_ok env cv input f v h
  obtain ⟨c, hc, _, hrc⟩ := bsf_parseScaled_ok env cv input f r hr
  have hp := bsf_parseScaled_parsed env cv input f r hr
  refine ⟨c, r, hc, hrc, hp, rfl, fun hfit => ?_⟩
  obtain ⟨m1, m2, m3⟩ := C19_mirror_parsed hp hfit
  exact ⟨m1, m2, m3, C19_refs_resolve_parsed hp hfit⟩

/-! ### the `metadata` field of the view and `parse_metadata` -/

/-- The view's metadata map (and the result of `parse_metadata`: the same loop over the same map) holds,
    under a key `k`, the value of the LAST entry of the core map whose key reads as the string `k` and
    whose value reads as a string (`stringEntries`); entries with a non-string key or value — numbers,
    booleans, null, sequences, nested maps — are not shown.  The result is a map (every key once). -/
theorem C19_metadata_lookup (es : List MetaEntry) :
    (AList.keys (intoMetadata es)).Nodup ∧
    ∀ k, AList.get (intoMetadata es) k =
      ((stringEntries es).reverse.find? (fun e => decide (e.1 = k))).map (·.2) := by
  unfold intoMetadata
  rw [bsf_intoMetadata_eq]
  refine ⟨bsf_keys_insertAll_nodup _ [] (by simp [AList.keys]), fun k => ?_⟩
  rw [bsf_get_insertAll]
  simp [AList.get]

/-- Mirror law for the metadata: when no two of the shown entries read as the same key (true of every
    YAML mapping whose string keys are plain scalars: a mapping has no duplicate keys), the view has under
    `k` the value `v` exactly when the core map has the string entry `k: v`; its keys are exactly the
    string keys with a string value. -/
theorem C19_metadata_mirror (es : List MetaEntry) (hnd : ((stringEntries es).map Prod.fst).Nodup) (k v : Str) :
    (AList.get (intoMetadata es) k = some v ↔ (⟨some k, some v⟩ : MetaEntry) ∈ es) ∧
    (k ∈ AList.keys (intoMetadata es) ↔ ∃ v', (⟨some k, some v'⟩ : MetaEntry) ∈ es) := by
  have hmem : ∀ k v, (k, v) ∈ stringEntries es ↔ (⟨some k, some v⟩ : MetaEntry) ∈ es := by
    intro k v
    simp only [stringEntries, List.mem_filterMap]
    constructor
    · rintro ⟨⟨ek, ev⟩, he, hm⟩
      cases ek <;> cases ev <;> simp at hm
      obtain ⟨rfl, rfl⟩ := hm; exact he
    · intro he; exact ⟨_, he, rfl⟩
  constructor
  · rw [(C19_metadata_lookup es).2, ← hmem]
    constructor
    · intro h
      obtain ⟨e, he, hv⟩ := Option.map_eq_some_iff.mp h
      have h1 := List.mem_of_find?_eq_some he
      have h2 := List.find?_some he
      simp only [decide_eq_true_eq] at h2
      rw [List.mem_reverse] at h1
      obtain ⟨a, b⟩ := e
      simp only at h2 hv
      subst h2 hv; exact h1
    · intro h
      have hnd' : ((stringEntries es).reverse.map Prod.fst).Nodup := by
        rw [List.map_reverse]
        show List.Pairwise (· ≠ ·) _
        rw [List.pairwise_reverse]
        exact List.Pairwise.imp (fun h => Ne.symm h) hnd
      have := Aisle.find_of_nodup_keys (stringEntries es).reverse k v hnd' (List.mem_reverse.mpr h)
      have hfun : (fun e : List Char × Str => decide (e.1 = k)) = (fun e => e.1 == k) := by
        funext e; by_cases hh : e.1 = k <;> simp [hh]
      rw [hfun, this]; rfl
  · unfold intoMetadata
    rw [bsf_intoMetadata_eq, bsf_mem_keys_insertAll]
    simp only [AList.keys, List.map_nil, List.not_mem_nil, false_or, List.mem_map]
    constructor
    · rintro ⟨⟨a, b⟩, he, rfl⟩; exact ⟨b, (hmem _ _).mp he⟩
    · rintro ⟨v', he⟩; exact ⟨(k, v'), (hmem _ _).mpr he, rfl⟩

/-! ### the aisle wrapper: `parse_aisle_config`, `AisleConf::category_for` -/

/-- `parse_aisle_config` returns a configuration exactly for the files the core parser accepts
    (`C11_ok_iff` says which these are) and panics (`unwrap`) for every file the core parser rejects; the
    `it.next().unwrap()` of `into_category` never fires (a parsed ingredient line has a name,
    `C11_names_trimmed`). -/
theorem C19_aisle_total (s : Str) :
    ((∃ v, parseAisleConfig s = .ok v) ↔ ∃ c, Aisle.parse s = .ok c) ∧
    ((∃ e, Aisle.parse s = .error e) → parseAisleConfig s = .error (.unwrapNone "parse_aisle_config")) := by
  cases h : Aisle.parse s with
  | error e =>
    have he : parseAisleConfig s = .error (.unwrapNone "parse_aisle_config") := by
      unfold parseAisleConfig; rw [h]
    refine ⟨⟨?_, ?_⟩, fun _ => he⟩
    · rintro ⟨v, hv⟩; rw [he] at hv; cases hv
    · rintro ⟨c, hc⟩; cases hc
  | ok c =>
    have hne : ∀ cat ∈ c.categories, ∀ i ∈ cat.ingredients, i.names ≠ [] :=
      fun cat hc i hi => (C11_names_trimmed s c h cat hc i hi).1
    have hok : parseAisleConfig s = parseAisleLoop c.categories ⟨[], []⟩ := by
      unfold parseAisleConfig; rw [h]
    refine ⟨⟨fun _ => ⟨c, rfl⟩, fun _ => ⟨_, hok.trans (bsf_parseAisleLoop _ _ hne)⟩⟩, ?_⟩
    rintro ⟨e, he⟩; cases he

/-- The wrapper's categories mirror the core configuration: same category names in order, one
    ingredient per ingredient line, its first name as `name` and the further names as `aliases`. -/
theorem C19_aisle_mirror (s : Str) (c : Aisle.Conf) (v : FAisleConf) (h : Aisle.parse s = .ok c)
    (hv : parseAisleConfig s = .ok v) : Forall₂ AisleCategoryMirrors c.categories v.categories := by
  have hne : ∀ cat ∈ c.categories, ∀ i ∈ cat.ingredients, i.names ≠ [] :=
    fun cat hc i hi => (C11_names_trimmed s c h cat hc i hi).1
  unfold parseAisleConfig at hv
  rw [h] at hv
  simp only at hv
  rw [bsf_parseAisleLoop _ _ hne] at hv
  cases hv
  simp only [List.nil_append]
  refine bsf_forall₂_of_map _ (fun cat hc => ⟨rfl, bsf_forall₂_of_map _ (fun i hi => ⟨?_⟩)⟩)
  have := hne cat hc i hi
  obtain ⟨names⟩ := i
  cases names with
  | nil => exact absurd rfl this
  | cons n ns => rfl

/-- `category_for` of the wrapper agrees with the lookup of the core configuration
    (`ingredients_info().get(name)`, C11) for every parsed file and every name: it answers the category
    of that lookup, and nothing when that lookup finds nothing. -/
theorem C19_aisle_category_for (s : Str) (c : Aisle.Conf) (v : FAisleConf) (h : Aisle.parse s = .ok c)
    (hv : parseAisleConfig s = .ok v) (n : Str) :
    v.categoryFor n = (Aisle.lookup c n).map (·.category) := by
  have hne : ∀ cat ∈ c.categories, ∀ i ∈ cat.ingredients, i.names ≠ [] :=
    fun cat hc i hi => (C11_names_trimmed s c h cat hc i hi).1
  unfold parseAisleConfig at hv
  rw [h] at hv
  exact bsf_categoryFor c hne v hv n

/-- … hence (with `C11_lookup`, `C11_lookup_absent`): every name or alias of the file is answered with
    the category of its line, every other text with `None`. -/
theorem C19_aisle_category_for_found (s : Str) (c : Aisle.Conf) (v : FAisleConf) (h : Aisle.parse s = .ok c)
    (hv : parseAisleConfig s = .ok v) :
    (∀ cat ∈ c.categories, ∀ i ∈ cat.ingredients, ∀ n ∈ i.names, v.categoryFor n = some cat.name) ∧
    (∀ n, n ∉ Aisle.allNames c.categories → v.categoryFor n = none) := by
  constructor
  · intro cat hc i hi n hn
    obtain ⟨common, _, hl⟩ := C11_lookup s c h cat i n hc hi hn
    rw [C19_aisle_category_for s c v h hv, hl]; rfl
  · intro n hn
    rw [C19_aisle_category_for s c v h hv, C11_lookup_absent c n hn]; rfl

/-- the same read on the wrapper's own categories: the name and every alias of every ingredient of
    every category the object shows is answered with that category's name -/
theorem C19_aisle_category_for_view (s : Str) (c : Aisle.Conf) (v : FAisleConf) (h : Aisle.parse s = .ok c)
    (hv : parseAisleConfig s = .ok v) :
    ∀ f ∈ v.categories, ∀ fi ∈ f.ingredients, ∀ n, (n = fi.name ∨ n ∈ fi.aliases) →
      v.categoryFor n = some f.name := by
  intro f hf fi hfi n hn
  obtain ⟨cat, hc, hm⟩ := bsf_forall₂_mem_right (C19_aisle_mirror s c v h hv) f hf
  obtain ⟨i, hi, hmi⟩ := bsf_forall₂_mem_right hm.ingredients fi hfi
  rw [hm.name]
  apply (C19_aisle_category_for_found s c v h hv).1 cat hc i hi n
  rw [hmi.names]
  exact List.mem_cons.mpr hn

/-- The reverse cache is a map whose keys are exactly the names and aliases of the file (each once). -/
theorem C19_aisle_cache_is_map (s : Str) (c : Aisle.Conf) (v : FAisleConf) (h : Aisle.parse s = .ok c)
    (hv : parseAisleConfig s = .ok v) :
    (AList.keys v.cache).Nodup ∧ ∀ n, n ∈ AList.keys v.cache ↔ n ∈ Aisle.allNames c.categories := by
  have hne : ∀ cat ∈ c.categories, ∀ i ∈ cat.ingredients, i.names ≠ [] :=
    fun cat hc i hi => (C11_names_trimmed s c h cat hc i hi).1
  unfold parseAisleConfig at hv
  rw [h] at hv
  simp only at hv
  rw [bsf_parseAisleLoop _ _ hne] at hv
  cases hv
  refine ⟨bsf_keys_insertAll_nodup _ [] (by simp [AList.keys]), fun n => ?_⟩
  obtain ⟨cats⟩ := c
  rw [bsf_mem_keys_insertAll, bsf_cacheEntries_eq _ hne, List.map_map, ← Aisle.infoEntries_keys]
  simp [AList.keys, Function.comp_def]

/-- History independence: a sequence of `category_for` calls on one object leaves the object as it was
    and answers every query as a fresh object would — so the answer to a query does not depend on which
    queries were made before it, how often, or in which order (the cache is filled at construction and
    never written afterwards). -/
theorem C19_aisle_history_independent (v : FAisleConf) (qs : List Str) :
    (v.run qs).1 = v ∧ (v.run qs).2 = qs.map v.categoryFor := by
  induction qs with
  | nil => exact ⟨rfl, rfl⟩
  | cons q rest ih =>
    simp only [FAisleConf.run, FAisleConf.call, List.map_cons]
    exact ⟨ih.1, by rw [ih.2]⟩

/-- … stated for two histories: whatever was asked before, the next answer is the same -/
theorem C19_aisle_answer_after_any_history (v : FAisleConf) (h₁ h₂ : List Str) (q : Str) :
    ((v.run h₁).1.call q).2 = ((v.run h₂).1.call q).2 := by
  rw [(C19_aisle_history_independent v h₁).1, (C19_aisle_history_independent v h₂).1]

/-! ### amounts: numbers, fractions, ranges -/

/-- What the view shows for an amount, over exact rationals: a regular number as it is, a fraction
    `whole num/den` (with the rounding error `err` the core keeps) as `whole + err + num/den` — the
    value of `Number::value`, recomputed from the parts in this order —, a range end by end, a text as
    it is; an ingredient's or timer's unit is copied, a cookware amount has no unit.  (The f64 instance
    of the same definition is what the driver runs against the code, bit for bit.) -/
theorem C19_value_conversion (w n d : Nat) (err x : Rat) (t u : Str) :
    extractValue (α := Rat) (.number (.regular x)) = .number x ∧
    extractValue (α := Rat) (.number (.fraction w n d err)) = .number ((w : Rat) + err + (n : Rat) / (d : Rat)) ∧
    extractValue (α := Rat) (.range (.regular x) (.fraction w n d err)) =
      .range x ((w : Rat) + err + (n : Rat) / (d : Rat)) ∧
    extractValue (α := Rat) (.text t) = .text t ∧
    extractAmountQ (α := Rat) ⟨.number (.fraction w n d err), some u⟩ =
      ⟨.number ((w : Rat) + err + (n : Rat) / (d : Rat)), some u⟩ ∧
    extractAmountV (α := Rat) (.number (.regular x)) = ⟨.number x, none⟩ := by
  simp [extractValue, extractAmountQ, extractAmountV, Number.value]

/-! ### non-vacuity of the coverage theorems -/

namespace Ffi
/-- "[dairy]\nmilk|whole milk\nbutter\n[b]\negg" -/
def exAisleText : Str := "[dairy]\nmilk|whole milk\nbutter\n[b]\negg".toList

example : parseAisleConfig exAisleText = .ok
    ⟨[⟨"dairy".toList, [⟨"milk".toList, ["whole milk".toList]⟩, ⟨"butter".toList, []⟩]⟩, ⟨"b".toList, [⟨"egg".toList, []⟩]⟩],
     [("milk".toList, "dairy".toList), ("whole milk".toList, "dairy".toList), ("butter".toList, "dairy".toList),
      ("egg".toList, "b".toList)]⟩ := by decide +kernel
example : ((parseAisleConfig exAisleText).map fun v => (v.run ["egg".toList, "zz".toList, "whole milk".toList, "egg".toList]).2) =
    .ok [some "b".toList, none, some "dairy".toList, some "b".toList] := by decide +kernel
/-- a rejected file ("x": an ingredient before any category) is a panic of the wrapper -/
example : parseAisleConfig ['x'] = .error (.unwrapNone "parse_aisle_config") := by decide +kernel

/-- a core map `title: Soup`, `servings: 2` (number), `tags: [a]` (sequence), `1: one` (number key),
    `!t title: Stew` (tagged key reading as `title`): the view shows the last `title` only -/
def exMeta : List MetaEntry :=
  [⟨some "title".toList, some "Soup".toList⟩, ⟨some "servings".toList, none⟩, ⟨some "tags".toList, none⟩,
   ⟨none, some "one".toList⟩, ⟨some "title".toList, some "Stew".toList⟩, ⟨some "x".toList, some "y".toList⟩]
example : intoMetadata exMeta = [("title".toList, "Stew".toList), ("x".toList, "y".toList)] := by decide +kernel
example : ((stringEntries (exMeta.take 4 ++ exMeta.drop 5)).map Prod.fst).Nodup := by decide +kernel

/-- the view of `exRecipe`: its section and step reference lists -/
example : ((intoSimpleRecipe exRecipe).sections.map fun s => (s.ingredientRefs, s.cookwareRefs, s.timerRefs)) =
    [([0], [0], [0]), ([1], [], [])] := by decide +kernel
example : derefIngredient (intoSimpleRecipe exRecipe) 1 = .ok ⟨"salt".toList, some ⟨.range 1 2, none⟩, none⟩ := by
  decide +kernel
example : derefTimer (intoSimpleRecipe exRecipe) 1 = .error (.unwrapNone "deref_timer") := by decide +kernel
/-- `1 1/2 cup` is shown as 3/2 -/
example : extractAmountQ (α := Rat) ⟨.number (.fraction 1 1 2 0), some "cup".toList⟩ = ⟨.number (3/2), some "cup".toList⟩ := by
  decide +kernel
end Ffi

-- ===== w7c15nan =====
/-- the entries of the core metadata map of a parsed recipe WITHOUT front matter, as the bindings see them: every
    `>>` entry is a pair of YAML strings -/
def C19_parsedEntries {α} (c : Col α) : List MetaEntry := c.metaMap.map (fun p => ⟨some p.1, some p.2⟩)

/-- **The metadata mirror law holds for every parsed recipe** (document without front matter): the keys of the
    collector's map are pairwise distinct (`metaInsert` replaces in place), so the hypothesis of
    `C19_metadata_mirror` is a theorem — the view has under `k` the value `v` exactly when the recipe's map has the
    entry `k: v`, and its keys are exactly the keys of the map. -/
theorem C19_metadata_mirror_parsed {α} [Arith α] (env : Env) (input : Str) (c : Col α)
    (h : (parseRecipe (α := α) env input).output = some c) (k v : Str) :
    ((stringEntries (C19_parsedEntries c)).map Prod.fst).Nodup ∧
    (AList.get (intoMetadata (C19_parsedEntries c)) k = some v ↔ (k, v) ∈ c.metaMap) ∧
    (k ∈ AList.keys (intoMetadata (C19_parsedEntries c)) ↔ ∃ v', (k, v') ∈ c.metaMap) := by
  have hse : stringEntries (C19_parsedEntries c) = c.metaMap := by
    unfold stringEntries C19_parsedEntries
    induction c.metaMap with
    | nil => rfl
    | cons p t ih => rw [List.map_cons, List.filterMap_cons, ih]
  have hnd : ((stringEntries (C19_parsedEntries c)).map Prod.fst).Nodup := by
    rw [hse]; exact pk_parseRecipe_nodup env input c h
  have hmem : ∀ k v, (⟨some k, some v⟩ : MetaEntry) ∈ C19_parsedEntries c ↔ (k, v) ∈ c.metaMap := by
    intro k v
    simp only [C19_parsedEntries, List.mem_map, MetaEntry.mk.injEq, Option.some.injEq]
    constructor
    · rintro ⟨p, hp, rfl, rfl⟩; exact hp
    · intro hp; exact ⟨(k, v), hp, rfl, rfl⟩
  have hm := C19_metadata_mirror (C19_parsedEntries c) hnd k v
  refine ⟨hnd, by rw [hm.1, hmem], ?_⟩
  rw [hm.2]
  constructor
  · rintro ⟨v', hv'⟩; exact ⟨v', (hmem k v').mp hv'⟩
  · rintro ⟨v', hv'⟩; exact ⟨v', (hmem k v').mpr hv'⟩
-- ===== end w7c15nan =====

end Cook
